#!/bin/bash
# setup_cmd: build everything from files on disk, offline.
set -e
cd "$(dirname "$0")"
export GOFLAGS=-mod=mod GOPROXY=off GOSUMDB=off GOTOOLCHAIN=local
mkdir -p build evidence replay
bash harness/build.sh || echo 'WARNING: some harness binaries failed to build'
mkdir -p coq/Generated
./build/genconsts > build/Consts.v.new
cmp -s build/Consts.v.new coq/Generated/Consts.v || cp build/Consts.v.new coq/Generated/Consts.v
bash coq/gen.sh
(cd coq && timeout 3000 make -j$(bash ./jobs.sh) COQC='timeout 1500 coqc' > ../build/coq-build.log 2>&1) || { tail -40 build/coq-build.log; exit 1; }
bash ocaml/build.sh || echo 'WARNING: some model drivers failed to build'
echo setup done
