#!/bin/bash
# setup_cmd: build everything from files on disk, offline.
set -e
cd "$(dirname "$0")"
export GOFLAGS=-mod=mod GOPROXY=off GOSUMDB=off GOTOOLCHAIN=local
mkdir -p build evidence replay
bash harness/build.sh || echo 'WARNING: some harness binaries failed to build'
mkdir -p coq/Generated
./build/genconsts > build/Consts.v.new
cmp -s build/Consts.v.new coq/Generated/Consts.v || cp build/Consts.v.new coq/Generated/Consts.v
bash coq/gen.sh
# -k: a file that fails to compile only affects the checks whose theorems depend on it (each check rebuilds what it needs)
(cd coq && timeout 3000 make -k -j$(bash ./jobs.sh) COQC='timeout 1500 coqc' > ../build/coq-build.log 2>&1) || { echo 'WARNING: some Coq files failed to build:'; grep -E 'Error|\*\*\*' build/coq-build.log | head -20; }
bash ocaml/build.sh || echo 'WARNING: some model drivers failed to build'
echo setup done
