(* Shared by all model drivers: conversion between text and Coq's N/Z/nat as extracted
   (kept as Coq inductives), the position wire format of harness/cmd/runimpl/common.go. *)
module L = Stdlib.List
module S = Stdlib.String
open BinNums
open Datatypes

let n_of_i64 (v : int64) : coq_N =
  if v = 0L then N0 else begin
    let rec top k = if k < 0 then -1 else if Int64.logand (Int64.shift_right_logical v k) 1L = 1L then k else top (k-1) in
    let t = top 63 in
    let p = ref Coq_xH in
    for k = t-1 downto 0 do
      if Int64.logand (Int64.shift_right_logical v k) 1L = 1L then p := Coq_xI !p else p := Coq_xO !p
    done; Npos !p end
let rec i64_of_pos = function
  | Coq_xH -> 1L
  | Coq_xO p -> Int64.shift_left (i64_of_pos p) 1
  | Coq_xI p -> Int64.logor (Int64.shift_left (i64_of_pos p) 1) 1L
let i64_of_n = function N0 -> 0L | Npos p -> i64_of_pos p
let n_of_string s = n_of_i64 (Int64.of_string ("0u" ^ s))
let string_of_n x = Printf.sprintf "%Lu" (i64_of_n x)
let n_of_int i = n_of_i64 (Int64.of_int i)
let int_of_n x = Int64.to_int (i64_of_n x)
let z_of_int i =
  if i = 0 then Z0
  else if i > 0 then (match n_of_i64 (Int64.of_int i) with Npos p -> Zpos p | N0 -> Z0)
  else (match n_of_i64 (Int64.of_int (-i)) with Npos p -> Zneg p | N0 -> Z0)
let int_of_z = function Z0 -> 0 | Zpos p -> Int64.to_int (i64_of_pos p) | Zneg p -> - (Int64.to_int (i64_of_pos p))
let z_of_string s =
  if s = "" then Z0
  else if S.get s 0 = '-' then (match n_of_string (S.sub s 1 (S.length s - 1)) with Npos p -> Zneg p | N0 -> Z0)
  else (match n_of_string s with Npos p -> Zpos p | N0 -> Z0)
let string_of_z = function Z0 -> "0" | Zpos p -> Printf.sprintf "%Lu" (i64_of_pos p) | Zneg p -> Printf.sprintf "-%Lu" (i64_of_pos p)
let rec int_of_nat = function O -> 0 | S n -> 1 + int_of_nat n
let rec nat_of_int i = if i <= 0 then O else S (nat_of_int (i-1))
let nlist s = if s = "" then [] else L.map n_of_string (S.split_on_char ',' s)
let words s = L.filter (fun w -> w <> "") (S.split_on_char ' ' (S.trim s))
let fields s = L.map S.trim (S.split_on_char '|' s)

(* size bwt ws wc bs bc move W B S C heights stacks rawhash *)
let parse_pos (s : string) : Move.position =
  match words s with
  | [sz; bwt; a; b; c; d; mv; w; bl; st; cp; hs; ss; h] ->
    { Move.size = n_of_string sz; black_wins_ties = (bwt = "1");
      whiteStones = n_of_string a; whiteCaps = n_of_string b; blackStones = n_of_string c; blackCaps = n_of_string d;
      move = z_of_string mv; coq_White = n_of_string w; coq_Black = n_of_string bl; coq_Standing = n_of_string st;
      coq_Caps = n_of_string cp; coq_Height = nlist hs; coq_Stacks = nlist ss; hash = n_of_string h }
  | _ -> failwith ("bad position: " ^ s)

let enc (p : Move.position) : string =
  S.concat " " [string_of_n p.Move.size; (if p.Move.black_wins_ties then "1" else "0");
    string_of_n p.Move.whiteStones; string_of_n p.Move.whiteCaps; string_of_n p.Move.blackStones; string_of_n p.Move.blackCaps;
    string_of_z p.Move.move; string_of_n p.Move.coq_White; string_of_n p.Move.coq_Black; string_of_n p.Move.coq_Standing;
    string_of_n p.Move.coq_Caps; S.concat "," (L.map string_of_n p.Move.coq_Height);
    S.concat "," (L.map string_of_n p.Move.coq_Stacks); string_of_n p.Move.hash]

let parse_move (w : string) : Move.rmove =
  match S.split_on_char ':' (S.trim w) with
  | [x; y; t; sl] -> { Move.mX = z_of_string x; mY = z_of_string y; mT = n_of_string t; mS = n_of_string sl }
  | _ -> failwith ("bad move " ^ w)
let enc_move (m : Move.rmove) : string =
  Printf.sprintf "%s:%s:%s:%s" (string_of_z m.Move.mX) (string_of_z m.Move.mY) (string_of_n m.Move.mT) (string_of_n m.Move.mS)
let enc_moves ms = if ms = [] then "-" else S.concat "," (L.map enc_move ms)
let parse_moves s = if s = "-" || s = "" then [] else L.map parse_move (S.split_on_char ',' s)

(* the L1 view: abstract position through Refine.abs (the model of Position.At) *)
let enc_piece ((c, k) : Rules.piece) : string =
  let w = (c = Rules.White) in
  match k with
  | Rules.Flat -> if w then "w" else "b"
  | Rules.Standing -> if w then "Ws" else "Bs"
  | Rules.Cap -> if w then "Wc" else "Bc"
let enc_square (s : Rules.piece list) : string =
  if s = [] then "-" else S.concat "" (L.map enc_piece s)
let enc_apos (a : Rules.apos) : string =
  Printf.sprintf "%d %s %s %s %s %s %s" (int_of_nat a.Rules.n) (string_of_n a.Rules.wstones) (string_of_n a.Rules.wcaps)
    (string_of_n a.Rules.bstones) (string_of_n a.Rules.bcaps) (string_of_z a.Rules.ply)
    (S.concat "," (L.map enc_square a.Rules.sq))
let enc_abs (p : Move.position) : string = enc_apos (Refine.abs p)

(* ---- the comparison loop ---- *)
type counters = { mutable cases : int; mutable l1 : int; mutable l2 : int; mutable spec : int }
let cnt = { cases = 0; l1 = 0; l2 = 0; spec = 0 }
let report kind lineno input impl model =
  Printf.printf "MISMATCH %s line %d | %s | impl: %s | model: %s\n" kind lineno input impl model

(* run f on every CASE line; f receives the '|' separated fields after "CASE " and returns
   (model L1, model L2 option, extra model-vs-spec disagreement option) *)
let run_cases (f : string list -> string * string option * string option) =
  let lineno = ref 0 in
  (try while true do
    let line = input_line stdin in
    incr lineno;
    if S.length line > 5 && S.sub line 0 5 = "CASE " then begin
      cnt.cases <- cnt.cases + 1;
      let fs = fields (S.sub line 5 (S.length line - 5)) in
      match fs with
      | input :: impl1 :: rest ->
        let (m1, m2, sp) = (try f fs with Stack_overflow -> ("MODEL-STACK-OVERFLOW", None, None)) in
        if m1 <> impl1 then begin cnt.l1 <- cnt.l1 + 1; if cnt.l1 <= 20 then report "L1" !lineno input impl1 m1 end
        else begin match m2, rest with
          | Some m2, impl2 :: _ when m2 <> impl2 ->
            cnt.l2 <- cnt.l2 + 1; if cnt.l2 <= 5 then report "L2" !lineno input impl2 m2
          | _ -> () end;
        (match sp with Some d -> cnt.spec <- cnt.spec + 1; if cnt.spec <= 5 then report "SPEC" !lineno input impl1 d | None -> ())
      | _ -> failwith ("bad CASE line " ^ string_of_int !lineno)
    end
  done with End_of_file -> ());
  Printf.printf "SUMMARY cases=%d l1_mismatch=%d l2_mismatch=%d spec_mismatch=%d\n" cnt.cases cnt.l1 cnt.l2 cnt.spec
