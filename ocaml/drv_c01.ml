(* C01: model of MovePreallocated vs the implementation, and vs the rules specification. *)
open Common
let split_input s = match S.split_on_char ';' s with [p; m] -> (parse_pos p, parse_move m) | _ -> failwith "c01 input"
let run args =
  let variant = (match args with v :: _ -> v | [] -> "fixed") in
  let mv = if variant = "pinned" then Inst.mv_pinned else Inst.mv_fixed in
  run_cases (fun fs ->
    let (p, m) = split_input (L.hd fs) in
    let r = mv p m in
    let spec = Rules.rules_move (Refine.abs p) (Refine.raw m) in
    match r with
    | Move.Ok q ->
      let a = enc_abs q in
      let sp = (match spec with Some s when enc_apos s = a -> None
                | Some s -> Some ("spec successor differs: " ^ enc_apos s) | None -> Some "spec rejects") in
      ("OK " ^ a, Some (enc q), sp)
    | Move.Err -> ("ERR", Some "-", (match spec with None -> None | Some s -> Some ("spec accepts: " ^ enc_apos s)))
    | Move.Panic -> ("PANIC", Some "-", Some "model panics"))
