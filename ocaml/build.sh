#!/bin/bash
# Extract the models (coqc Extract.v) and build build/modelrun.  Requires the model .vo files.
set -e
cd "$(dirname "$0")"
B=../build/ocaml
mkdir -p $B
rm -f $B/*.ml $B/*.mli
(cd $B && coqc -R /verif/coq TV /verif/coq/Extract.v > extract.log 2>&1) || { cat $B/extract.log; exit 1; }
cp *.ml dune dune-project $B/
(cd $B && dune build ./main.exe 2>&1 | tail -30)
cp -f $B/_build/default/main.exe ../build/modelrun
