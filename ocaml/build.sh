#!/bin/bash
# Extract the models (coqc Extract.v) and build build/modelrun.  Requires the model .vo files.
# main.ml is generated: every ocaml/drv_cNN.ml must define  run : string list -> unit.
set -e
cd "$(dirname "$0")"
B=../build/ocaml
V=$(cd .. && pwd)
mkdir -p $B
rm -f $B/*.ml $B/*.mli
(cd $B && coqc -R $V/coq TV $V/coq/Extract.v > extract.log 2>&1) || { cat $B/extract.log; exit 1; }
cp *.ml dune dune-project $B/
{
 echo 'let () ='
 echo '  let prop = if Array.length Sys.argv > 1 then Stdlib.String.uppercase_ascii Sys.argv.(1) else "" in'
 echo '  let args = if Array.length Sys.argv > 2 then Stdlib.List.tl (Stdlib.List.tl (Array.to_list Sys.argv)) else [] in'
 echo '  match prop with'
 for f in drv_c*.ml; do n=$(basename $f .ml); P=$(echo ${n#drv_} | tr a-z A-Z); M=$(echo ${n:0:1} | tr a-z A-Z)${n:1}; echo "  | \"$P\" -> $M.run args"; done
 echo '  | _ -> prerr_endline ("modelrun: unknown property " ^ prop); exit 2'
} > $B/main.ml
(cd $B && dune build ./main.exe 2>&1 | tail -40)
[ -f $B/_build/default/main.exe ] || exit 1
cp -f $B/_build/default/main.exe ../build/modelrun
