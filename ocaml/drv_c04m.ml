(* MCTS iteration-level cases of property C04: CASE lines whose input starts with "MCTS ;".
   handle receives the remaining ';'-separated input fields and returns (L1, L2 option, spec disagreement option). *)
let handle (_fields : string list) : string * string option * string option = failwith "no MCTS cases yet"
