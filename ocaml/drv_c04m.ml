(* MCTS iteration-level cases of property C04: CASE lines whose input starts with "MCTS ;" (harness/cmd/runimpl/mcts_steps.go).
   handle receives the ';'-separated input fields after "MCTS" and returns (L1, L2 option, spec disagreement option).

   input : MCTS ; <position> ; <place_win> ; <corners> ; <C> ; <MaxRollout> ; <EvalThreshold> ; <fuel> ; <Int31 stream> ; <sort oracle>
   L1    : move=<move|PANIC> verdict=<OK|ERR|PANIC|-> children=<root's children>        (Mcts.get_move, Refine.mv)
   L2    : <path>/<val|break>/<fnv64 of the dump> per pass ... final=<dump>              (Mcts.iter_step pass by pass)

   The float scores of tree.ucb are a parameter of the model (coq/Mcts.v, Section Scores); here they are IEEE doubles:
   OCaml's float is Go's float64, `sqrt` is the correctly rounded SQRTSD in both, and math.Log is ported below operation by
   operation from $GOROOT/src/math/log.go (= log_amd64.s: same operations in the same order, no fused multiply-add). *)
open Common

let go_log (x : float) : float =
  if Float.is_nan x || x = Float.infinity then x
  else if x < 0.0 then Float.nan
  else if x = 0.0 then Float.neg_infinity
  else begin
    let ln2hi = 6.93147180369123816490e-01 and ln2lo = 1.90821492927058770002e-10
    and l1 = 6.666666666666735130e-01 and l2 = 3.999999999940941908e-01 and l3 = 2.857142874366239149e-01
    and l4 = 2.222219843214978396e-01 and l5 = 1.818357216161805012e-01 and l6 = 1.531383769920937332e-01
    and l7 = 1.479819860511658591e-01 in
    let (f1, ki) = Float.frexp x in
    let (f1, ki) = if f1 < 7.07106781186547524401e-01 then (f1 *. 2.0, ki - 1) else (f1, ki) in
    let f = f1 -. 1.0 in
    let k = float_of_int ki in
    let s = f /. (2.0 +. f) in
    let s2 = s *. s in
    let s4 = s2 *. s2 in
    let t1 = s2 *. (l1 +. s4 *. (l3 +. s4 *. (l5 +. s4 *. l7))) in
    let t2 = s4 *. (l2 +. s4 *. (l4 +. s4 *. l6)) in
    let r = t1 +. t2 in
    let hfsq = 0.5 *. f *. f in
    k *. ln2hi -. ((hfsq -. (s *. (hfsq +. r) +. k *. ln2lo)) -. f)
  end

(* -float64(t.value)/float64(t.simulations) + C*math.Sqrt(math.Log(float64(N))/float64(t.simulations)) *)
let score (c : float) (value : BinNums.coq_Z) (sims : BinNums.coq_Z) (n : BinNums.coq_Z) : float =
  let v = float_of_int (int_of_z value) and s = float_of_int (int_of_z sims) and nn = float_of_int (int_of_z n) in
  (-. v) /. s +. c *. sqrt (go_log nn /. s)
let f_gt (a : float) (b : float) : bool = a > b
let f_eq (a : float) (b : float) : bool = a = b

let rec dump_node (b : Buffer.t) (t : Mcts.tree) : unit =
  let Mcts.T (_, m, sims, value, proven, chs) = t in
  if Buffer.length b > 0 then Buffer.add_char b ',';
  Buffer.add_string b (Printf.sprintf "%s/%s/%s/%s/%d" (enc_move m) (string_of_z sims) (string_of_z value) (string_of_z proven) (L.length chs));
  L.iter (dump_node b) chs
let dump (t : Mcts.tree) : string = let b = Buffer.create 4096 in dump_node b t; Buffer.contents b

let fnv64 (s : string) : string =
  let h = ref 0xcbf29ce484222325L in
  S.iter (fun ch -> h := Int64.mul (Int64.logxor !h (Int64.of_int (Char.code ch))) 0x100000001b3L) s;
  Printf.sprintf "%016Lx" !h

let ints sep s = if s = "-" || s = "" then [] else L.map int_of_string (S.split_on_char sep s)
let show_path p = if p = [] then "-" else S.concat "." (L.map string_of_int p)

let rec node_at (path : int list) (t : Mcts.tree) : Mcts.tree option =
  match path with
  | [] -> Some t
  | k :: rest -> (match L.nth_opt (Mcts.t_children t) k with Some c -> node_at rest c | None -> None)
(* the rollout value of a pass: what was added to the value of the node the pass stopped at (0 for a decided node) *)
let val_of (path : int list) (a : Mcts.tree) (b : Mcts.tree) : string =
  match node_at path a, node_at path b with
  | Some (Mcts.T (_, _, _, va, _, _)), Some (Mcts.T (_, _, _, vb, pr, _)) ->
    if int_of_z pr <> 0 then "0" else string_of_int (int_of_z vb - int_of_z va)
  | _, _ -> "?"

let handle (fs : string list) : string * string option * string option =
  match fs with
  | [pos; pw; corners; c; maxroll; thr; fuel; stream; perm] ->
    let p = parse_pos pos in
    let cfg = { Mcts.place_win = (pw = "1"); max_rollout = z_of_string maxroll; eval_threshold = z_of_string thr;
                force_corners = (corners = "1") } in
    let cf = float_of_string c in
    let rs = if stream = "-" then [] else L.map n_of_string (S.split_on_char ',' stream) in
    let perm = L.map nat_of_int (ints '.' perm) in
    let fuel = int_of_string fuel in
    let sc = score cf in
    let get_move = Mcts.get_move Float.neg_infinity (-100.0) 100.0 10.0 sc f_gt f_eq in
    let iter_step = Mcts.iter_step Float.neg_infinity (-100.0) 100.0 10.0 sc f_gt f_eq in
    let descend = Mcts.descend Float.neg_infinity (-100.0) 100.0 10.0 sc f_gt f_eq in   (* only to print the path of a pass *)
    (* L1: the whole GetMove *)
    let res = get_move cfg (nat_of_int fuel) perm p rs in
    let move_s, verdict = match res with
      | Move.Ok (m, _) ->
        (enc_move m, (match Refine.mv p m with Move.Ok _ -> "OK" | Move.Err -> "ERR" | Move.Panic -> "PANIC"))
      | Move.Panic -> ("PANIC", "-")
      | Move.Err -> ("MODEL-ERR", "-") in
    let corner = cfg.Mcts.force_corners && int_of_z p.Move.move < 2 in
    if corner then (Printf.sprintf "move=%s verdict=%s children=-" move_s verdict, Some "- final=-", None)
    else begin
      (* L2: pass by pass *)
      let items = ref [] in
      let rec go k t rs =
        if k = 0 then (Move.Ok (t, rs))
        else match iter_step cfg t rs with
          | Move.Ok ((t', brk), rs') ->
            let path = (match descend t rs with Move.Ok (pa, _) -> L.map int_of_nat pa | _ -> []) in
            items := (show_path path, (if brk then "break" else val_of path t t'), fnv64 (dump t')) :: !items;
            if brk then Move.Ok (t', rs') else go (k - 1) t' rs'
          | Move.Panic -> Move.Panic
          | Move.Err -> Move.Err in
      let stepped = go fuel (Mcts.root_of p) rs in
      let its = L.rev !items in
      (match stepped with
       | Move.Ok (t, rs1) ->
         let children = enc_moves (L.map Mcts.t_move (Mcts.t_children t)) in
         let fin = Mcts.final_choice t perm rs1 in
         let agree = (match fin, res with
           | Move.Ok (m1, r1), Move.Ok (m2, r2) -> m1 = m2 && r1 = r2
           | Move.Panic, Move.Panic -> true
           | Move.Err, Move.Err -> true
           | _, _ -> false) in
         let l2 = S.concat " " (L.map (fun (pa, v, h) -> Printf.sprintf "%s/%s/%s" pa v h) its) in
         let l2 = (if l2 = "" then "-" else l2) ^ " final=" ^ dump t in
         (Printf.sprintf "move=%s verdict=%s children=%s" move_s verdict children, Some l2,
          if agree then None else Some "model: get_move differs from iter_step pass by pass + final_choice")
       | Move.Panic -> (Printf.sprintf "move=%s verdict=%s children=?" move_s verdict, Some "PANIC final=?", None)
       | Move.Err -> (Printf.sprintf "move=%s verdict=%s children=?" move_s verdict, Some "MODEL-ERR", None))
    end
  | _ -> failwith "c04m input"
