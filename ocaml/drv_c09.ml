(* C09: positions are values.  One CASE = one operation sequence; after every operation every live handle is observed
   (a) in the pure value model (the position value computed for the handle by the pure functions) -> L1,
   (b) in the ownership store model of Alloc.v (objects, the two group slice headers, array heap), and
   (c) in the refined store model of Alloc2.v, where Height and Stacks are slice headers into heap arrays as well
       -> L2: for every held object the four headers Height/Stacks/WhiteGroups/BlackGroups, each named by the object
       whose embedded array it points into (H<k>, S<k>, o<k>; f<i> = an array made by append; n = nil) with offset and
       length -- i.e. the alias structure -- and the raw value of every live handle read THROUGH its headers;
   (a) = (b) = (c) is checked inside the model (reported as SPEC disagreement), as is the admissibility (op_ok2) of every
   step and that both store models return the same result. *)
open Common

let parse_op (t : string) : Alloc.opr =
  match words t with
  | "I" :: rest -> Alloc.OInit (parse_pos (S.concat " " rest))
  | ["N"; sz; bwt; st; cp] -> Alloc.ONew (n_of_string sz, (bwt = "1"), n_of_string st, n_of_string cp)
  | ["A"; sz] -> Alloc.OAlloc (n_of_string sz)
  | ["M"; h; m] -> Alloc.OMove (nat_of_int (int_of_string h), parse_move m)
  | ["P"; h; m; b] -> Alloc.OMovePre (nat_of_int (int_of_string h), parse_move m, nat_of_int (int_of_string b))
  | ["C"; h] -> Alloc.OClone (nat_of_int (int_of_string h))
  | _ -> failwith ("c09: bad op " ^ t)

let groups_str gs = if gs = [] then "-" else S.concat "," (L.map string_of_n gs)
let color_str = function GameOver.GWhite -> "W" | GameOver.GBlack -> "B" | GameOver.GNone -> "N"
let md5_16 t = "#" ^ S.sub (Digest.to_hex (Digest.string t)) 0 16

let legal_cache : (string, string) Hashtbl.t = Hashtbl.create 1024
let legal_digest (v : Move.position) : string =
  let key = enc v in
  match Hashtbl.find_opt legal_cache key with
  | Some d -> d
  | None ->
    let ms = L.sort_uniq compare (L.map enc_move (AllocInst.a_legal v)) in
    let d = Printf.sprintf "%d.%s" (L.length ms) (S.sub (Digest.to_hex (Digest.string (S.concat "," ms))) 0 16) in
    if Hashtbl.length legal_cache > 200000 then Hashtbl.reset legal_cache;
    Hashtbl.add legal_cache key d; d

(* the pure observation of a value and its L1 text; values are immutable, so both are cached by the value's encoding
   (a cache of pure functions: it cannot change any result) *)
let pure_cache : (string, (Alloc.observation * string)) Hashtbl.t = Hashtbl.create 1024
let pure_obs (v : Move.position) : Alloc.observation * string =
  let key = enc v in
  match Hashtbl.find_opt pure_cache key with
  | Some r -> r
  | None ->
    let pure = Alloc.observe_pure v in
    let (((_, wg), bg), (over, win)) = pure in
    let t1 = Printf.sprintf "%s/%d%s/%s/%s/%s" (enc_abs v) (if over then 1 else 0) (color_str win) (groups_str wg) (groups_str bg)
               (string_of_n (AllocInst.a_hash v)) in
    if Hashtbl.length pure_cache > 200000 then Hashtbl.reset pure_cache;
    Hashtbl.add pure_cache key (pure, t1); (pure, t1)

let run args =
  let stepf = (match args with "pinned" :: _ -> AllocInst.a_step_pinned | _ -> AllocInst.a_step) in
  (* Alloc2.v models the repaired Clone only: in `pinned` mode its disagreements are not reported (its L2 text still is) *)
  let refined = (match args with "pinned" :: _ -> false | _ -> true) in
  run_cases (fun fs ->
    let parts = L.map S.trim (S.split_on_char ';' (L.hd fs)) in
    let flags = words (L.hd parts) in
    let with_legal = L.mem "legal=1" flags and full = L.mem "fmt=full" flags in
    let ops = L.map parse_op (L.filter (fun t -> t <> "") (L.tl parts)) in
    let st = ref Alloc.empty_store and ps = ref [] in
    let st2 = ref Alloc2.empty_store2 and zs = ref [] in
    let unheld : (int, unit) Hashtbl.t = Hashtbl.create 8 in
    let last1 : (int, string) Hashtbl.t = Hashtbl.create 16 and last2 : (int, string) Hashtbl.t = Hashtbl.create 16 in
    let fresh : (int, int) Hashtbl.t = Hashtbl.create 8 in
    let lastv : (int, (Move.position * (Alloc.observation * string * string))) Hashtbl.t = Hashtbl.create 16 in
    let spec = ref None in
    let note s = if !spec = None then spec := Some s in
    let note2 s = if refined then note s in
    let l1 = ref [] and l2 = ref [] in
    L.iteri (fun stepno op ->
      if not (Alloc.op_ok !ps op) then note (Printf.sprintf "step %d is not admissible in the model (dead source, or buffer = source)" stepno)
      else if not (Alloc2.op_ok2 !ps !zs op) then note2 (Printf.sprintf "step %d is not admissible in the refined model (size outside 3..8, or a buffer of another size)" stepno);
      let nbefore = L.length (!st).Alloc.s_objs in
      let (st', res) = stepf !st op in
      let (st2', res2) = Alloc2Inst.a2_step !st2 op in
      zs := Alloc2.zstep !ps !zs op;
      ps := AllocInst.a_pure_step !ps op;
      st := st'; st2 := st2';
      (match res, res2 with
       | Some a, Move.Ok b when a = b -> ()
       | None, (Move.Err | Move.Panic) -> ()
       | _ -> note2 (Printf.sprintf "step %d: the two store models return different results" stepno));
      let objs = Array.of_list (!st).Alloc.s_objs in
      let arrs = (!st).Alloc.s_arrs in
      let objs2 = Array.of_list (!st2).Alloc2.s2_objs in
      let arrs2 = (!st2).Alloc2.s2_arrs in
      if Array.length objs2 <> Array.length objs then note2 (Printf.sprintf "step %d: the two store models hold different numbers of objects" stepno);
      (match op, res with
       | Alloc.OMove _, None -> if Array.length objs > nbefore then Hashtbl.replace unheld nbefore ()
       | _ -> ());
      let created = (match op, res with
        | Alloc.OAlloc _, _ -> -1
        | _, Some id -> int_of_nat id
        | _, None -> -1) in
      if created >= 0 then begin Hashtbl.remove last1 created; Hashtbl.remove last2 created end;
      let own_of : (int, string) Hashtbl.t = Hashtbl.create 16 in
      Array.iteri (fun k o -> if not (Hashtbl.mem unheld k) then begin
        Hashtbl.replace own_of (int_of_nat o.Alloc2.o2_H) ("H" ^ string_of_int k);
        Hashtbl.replace own_of (int_of_nat o.Alloc2.o2_S) ("S" ^ string_of_int k);
        Hashtbl.replace own_of (int_of_nat o.Alloc2.o2_G) ("o" ^ string_of_int k) end) objs2;
      let hdr (r : Alloc.sref) =
        let a = int_of_nat r.Alloc.r_arr and off = int_of_nat r.Alloc.r_off and len = int_of_nat r.Alloc.r_len in
        if a = 0 then "n" else begin
          let name = (match Hashtbl.find_opt own_of a with
            | Some nm -> nm
            | None ->
              (match Hashtbl.find_opt fresh a with
               | Some i -> "f" ^ string_of_int i
               | None -> let i = Hashtbl.length fresh in Hashtbl.add fresh a i; "f" ^ string_of_int i)) in
          if len = 0 then name ^ ".e" else Printf.sprintf "%s.%d.%d" name off len end in
      let s1 = ref [ (match res with Some id -> "r=+" ^ string_of_int (int_of_nat id) | None -> "r=-") ] and s2 = ref [] in
      Array.iteri (fun k o ->
        if not (Hashtbl.mem unheld k) && k < Array.length objs2 then begin
          let o2 = objs2.(k) in
          s2 := Printf.sprintf "%d:h=%s,s=%s,w=%s,b=%s" k (hdr o2.Alloc2.o2_hh) (hdr o2.Alloc2.o2_sh) (hdr o2.Alloc2.o2_wg) (hdr o2.Alloc2.o2_bg) :: !s2;
          match Alloc.pval !ps (nat_of_int k) with
          | None -> ()
          | Some v ->
            (* same OCaml value as at the previous step (values are shared, never copied): reuse its texts *)
            let (pure, t1, t2raw) = (match Hashtbl.find_opt lastv k with
              | Some (v', r) when v' == v -> r
              | _ -> let (pure, t1) = pure_obs v in let r = (pure, t1, enc v) in Hashtbl.replace lastv k (v, r); r) in
            (* the store model's view: Alloc.observe st k = Some (o_pos, read wg, read bg, game_over_groups o_pos wg bg); its
               last component is a function of the first three, so comparing those with the pure ones decides equality *)
            let (((_, wg), bg), _) = pure in
            if not (o.Alloc.o_pos == v || o.Alloc.o_pos = v) || Alloc.read_ref arrs o.Alloc.o_wg <> wg || Alloc.read_ref arrs o.Alloc.o_bg <> bg
            then note (Printf.sprintf "after step %d the store model's view of handle %d differs from the pure value" stepno k);
            (* the refined store model: the value read through the Height/Stacks headers, the groups through theirs *)
            let v2 = Alloc2.view arrs2 o2 in
            if not (v2 = v) || Alloc.read_ref arrs2 o2.Alloc2.o2_wg <> wg || Alloc.read_ref arrs2 o2.Alloc2.o2_bg <> bg
            then note2 (Printf.sprintf "after step %d the refined store model's view of handle %d (through its headers) differs from the pure value" stepno k);
            let t1 = if with_legal then t1 ^ "/" ^ legal_digest v else t1 in
            let t2 = if v2 = v then t2raw else enc v2 in
            let (t1, t2) = if full then (t1, t2) else (md5_16 t1, md5_16 t2) in
            (if Hashtbl.find_opt last1 k = Some t1 then s1 := Printf.sprintf "%d==" k :: !s1
             else begin s1 := Printf.sprintf "%d=%s" k t1 :: !s1; Hashtbl.replace last1 k t1 end);
            (if Hashtbl.find_opt last2 k = Some t2 then s2 := Printf.sprintf "%d#=" k :: !s2
             else begin s2 := Printf.sprintf "%d#%s" k t2 :: !s2; Hashtbl.replace last2 k t2 end)
        end) objs;
      l1 := S.concat " " (L.rev !s1) :: !l1;
      l2 := S.concat " " (L.rev !s2) :: !l2) ops;
    (S.concat " ; " (L.rev !l1), Some (S.concat " ; " (L.rev !l2)), !spec))
