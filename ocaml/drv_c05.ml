(* C05: the engine model (Search.v, fixed variant by default) replays every history of Analyze calls made on one engine.
   input:  <id> ; <cfg> ; A|ALL ; <enc p>@<k> ; ...   (ALL: one AnalyzeAll call on a fresh engine, cancelled inside the k-th leaf evaluation of the whole call, 0 = never)      cfg = size depth evk nosort nonull noreduce multicut tablelen [dedup] *)
open Common
let b s = (s = "1")
let parse_cfg s =
  match words s with
  | _size :: depth :: evk :: nosort :: nonull :: noreduce :: multicut :: tlen :: _ ->
    (SearchInst.mk_cfg (z_of_string depth) (b nosort) (b nonull) (b noreduce) (b multicut) (n_of_string evk), int_of_string tlen)
  | _ -> failwith ("c05 cfg: " ^ s)
(* the ninth field: Cfg.DedupSymmetry (absent = off); such configurations run on the model of SearchDedup.v *)
let parse_dedup s = (match words s with [_; _; _; _; _; _; _; _; d] -> b d | _ -> false)
let parse_call s =
  match S.split_on_char '@' s with
  | [p; k] -> (parse_pos p, z_of_string (S.trim k))
  | _ -> failwith "c05 call"
let l1_of ((((pv, v), d), _), c) = Printf.sprintf "%s %s %s %d" (enc_moves pv) (string_of_z v) (string_of_z d) (if c then 1 else 0)
let l2_of ((((_, _), _), (st : Search.stats)), _) =
  S.concat " " (L.map string_of_z Search.[st.s_evaluated; st.s_visited; st.s_scout; st.s_terminal; st.s_tthits; st.s_ttshortcut;
    st.s_research; st.s_cutnodes; st.s_cut0; st.s_cut1; st.s_cutsearch; st.s_allnodes; st.s_nullsearch; st.s_nullcut; st.s_reduced;
    st.s_mcsearch; st.s_mccut])
(* shared with C16: run a history, return the per-call L1 and L2 strings *)
let run_history ?(dedup=false) pinned cfg tlen calls =
  let analyze = if pinned then SearchInst.run_analyze_pinned else if dedup then SearchDedupInst.run_analyze_d true else SearchInst.run_analyze in
  let st = ref (Search.new_state (nat_of_int tlen)) in
  let rs = L.map (fun (p, k) -> let (s', r) = analyze cfg k !st p in st := s'; r) calls in
  (S.concat " ; " (L.map l1_of rs), S.concat " ; " (L.map l2_of rs))
let run args =
  let pinned = (match args with "pinned" :: _ -> true | _ -> false) in
  run_cases (fun fs ->
    match L.map S.trim (S.split_on_char ';' (L.hd fs)) with
    | _id :: cfg :: "A" :: calls ->
      let dedup = parse_dedup cfg in
      let (cfg, tlen) = parse_cfg cfg in
      let (l1, l2) = run_history ~dedup pinned cfg tlen (L.map parse_call calls) in
      (l1, Some l2, None)
    | [_id; cfg; "ALL"; call] ->
      let dedup = parse_dedup cfg in
      let (cfg, tlen) = parse_cfg cfg in
      let (p, k) = parse_call call in
      let all = if pinned then SearchAllInst.run_analyze_all_pinned else if dedup then SearchDedupInst.run_analyze_all_d true
                else SearchAllInst.run_analyze_all_cancel in
      let (_, (((lines, v), d), c)) = all cfg k (Search.new_state (nat_of_int tlen)) p in
      let firsts = L.sort compare (L.filter_map (function m :: _ -> Some (enc_move m) | [] -> None) lines) in
      let firsts = if firsts = [] then "-" else S.concat "," firsts in
      let l2 = if lines = [] then "-" else S.concat " ; " (L.map enc_moves lines) in
      (Printf.sprintf "%s %s %s %d" firsts (string_of_z v) (string_of_z d) (if c then 1 else 0), Some l2, None)
    | _ -> failwith "c05 input")
