(* C19: model of ai.CountThreats vs the implementation.  input = <enc position>   L1 = <wp wt bp bt> *)
open Common
let run _args =
  run_cases (fun fs ->
    let p = parse_pos (L.hd fs) in
    match EvalSpec.threats p with
    | Some (((a, b), c), d) ->
      (Printf.sprintf "%s %s %s %s" (string_of_z a) (string_of_z b) (string_of_z c) (string_of_z d), None, None)
    | None -> ("MODEL-OUT-OF-FUEL", None, None))
