(* C06: extracted models of prove/pn.go (Pn.v without PN^2, Pn2.v with it) and prove/dfpn.go (Dfpn.v) vs the solvers.
   L1 = verdict + returned move; L2 = proof/disproof numbers, depth, counters. *)
open Common
let iters = lazy (nat_of_int 200000)
let dfuel = lazy (nat_of_int 3000)
let lfuel = lazy (nat_of_int 200000)
let verdict = function 1 -> "proven" | 2 -> "disproven" | _ -> "unknown"
let run _args =
  run_cases (fun fs ->
    match S.split_on_char ';' (L.hd fs) with
    | [kind; pos; cfg] ->
      let p = parse_pos (L.hd (S.split_on_char '@' pos)) in
      (match S.trim kind, words cfg with
       | "pn", [mn; pre; md] ->
         let ((((root, st), res), mv), why) =
           PnRun.pn_run (Lazy.force iters) (Lazy.force dfuel) (n_of_string mn) (pre = "1") (z_of_string md) p in
         (* the PN-squared model with its switch off computes the same (tree, counters, verdict, move, stop reason) as Pn.v
            and no second-level trace: theorem C06_pn2_off_is_pn; the extracted functions are compared all the same on the
            cheap runs (up to 200 expansions) *)
         let same_as_pn =
           int_of_n st.Pn.p_expanded > 200 ||
           (let ((((root2, s2), res2), mv2), why2) =
              Pn2Run.pn2_run (Lazy.force iters) (Lazy.force dfuel) (Lazy.force iters) (Lazy.force dfuel)
                (n_of_string mn) (pre = "1") (z_of_string md) false p in
            root2 = root && s2.Pn2.s_st = st && res2 = res && mv2 = mv && why2 = why
            && int_of_n s2.Pn2.s_calls = 0 && int_of_n s2.Pn2.s_searched = 0 && int_of_n s2.Pn2.s_limits = 0) in
         if not same_as_pn then ("MODEL-PN2-SWITCHED-OFF-DIFFERS-FROM-PN", None, None) else
         (match int_of_n why with
          | 1 -> ("PANIC", None, None)
          | 2 -> ("MODEL-OUT-OF-FUEL", None, None)
          | 3 -> ("MODEL-SATURATED", None, None)
          | _ ->
            let l1 = verdict (int_of_n res) ^ " " ^ enc_move mv in
            let l2 = S.concat " " (L.map string_of_n
              [Pn.n_phi root; Pn.n_delta root; Pn.n_pdepth root; st.Pn.p_nodes; st.Pn.p_proved; st.Pn.p_disproved;
               st.Pn.p_dropped; st.Pn.p_expanded; st.Pn.p_maxdepth]) in
            (l1, Some l2, None))
       | "pn", [mn; pre; md; "pn2"] ->
         (* PN-squared: Pn2.v with the constant pn2Threshold of pn.go; the trace of the second level is part of L2 *)
         let ((((root, s), res), mv), why) =
           Pn2Run.pn2_run (Lazy.force iters) (Lazy.force dfuel) (Lazy.force iters) (Lazy.force dfuel)
             (n_of_string mn) (pre = "1") (z_of_string md) true p in
         (match int_of_n why with
          | 1 -> ("PANIC", None, None)
          | 2 -> ("MODEL-OUT-OF-FUEL", None, None)
          | 3 -> ("MODEL-SATURATED", None, None)
          | 4 -> ("MODEL-PN2-WITHOUT-EXPANSION", None, None)
          | 5 -> ("MODEL-PN2-BAD-CURRENT", None, None)
          | _ ->
            let st = s.Pn2.s_st in
            let l1 = verdict (int_of_n res) ^ " " ^ enc_move mv in
            let l2 = S.concat " " (L.map string_of_n
              [Pn.n_phi root; Pn.n_delta root; Pn.n_pdepth root; st.Pn.p_nodes; st.Pn.p_proved; st.Pn.p_disproved;
               st.Pn.p_dropped; st.Pn.p_expanded; st.Pn.p_maxdepth; s.Pn2.s_calls; s.Pn2.s_searched; s.Pn2.s_limits]) in
            (l1, Some l2, None))
       | "dfpn", [entries; att] ->
         let a = (match att with "W" -> 1 | "B" -> 2 | _ -> 0) in
         let (((s, e), work), res) = PnInst.dfpn_run (Lazy.force lfuel) (Lazy.force dfuel) (n_of_int a) (nat_of_int (int_of_string entries)) p in
         if s.Dfpn.dfuel_out then ("MODEL-OUT-OF-FUEL", None, None) else
         let l1 = verdict (int_of_n res) ^ " " ^ enc_move e.Dfpn.d_pv in
         let t = s.Dfpn.dst in
         let l2 = S.concat " " (L.map string_of_n
           [e.Dfpn.d_phi; e.Dfpn.d_delta; work; t.Dfpn.ds_rep; t.Dfpn.ds_term; t.Dfpn.ds_solved; t.Dfpn.ds_hits; t.Dfpn.ds_miss]) in
         (l1, Some l2, None)
       | "dfpnseq", [entries; att] ->
         (* one solver, the positions (separated by @) in a row: L1/L2 are the per-call results joined by " , " *)
         let ps = L.map parse_pos (S.split_on_char '@' pos) in
         let a = (match att with "W" -> 1 | "B" -> 2 | _ -> 0) in
         let outs = PnInst.dfpn_run_seq (Lazy.force lfuel) (Lazy.force dfuel) (n_of_int a) (nat_of_int (int_of_string entries)) ps in
         if L.exists (fun (((s, _), _), _) -> s.Dfpn.dfuel_out) outs then ("MODEL-OUT-OF-FUEL", None, None) else
         let l1 = S.concat " , " (L.map (fun (((_, e), _), res) -> verdict (int_of_n res) ^ " " ^ enc_move e.Dfpn.d_pv) outs) in
         let l2 = S.concat " , " (L.map (fun (((s, e), work), _) ->
           let t = s.Dfpn.dst in
           S.concat " " (L.map string_of_n
             [e.Dfpn.d_phi; e.Dfpn.d_delta; work; t.Dfpn.ds_rep; t.Dfpn.ds_term; t.Dfpn.ds_solved; t.Dfpn.ds_hits; t.Dfpn.ds_miss])) outs) in
         (l1, Some l2, None)
       | _ -> failwith "c06: bad configuration")
    | _ -> failwith "c06: bad input")
