let () =
  let prop = if Array.length Sys.argv > 1 then Stdlib.String.uppercase_ascii Sys.argv.(1) else "" in
  let arg k = if Array.length Sys.argv > k then Sys.argv.(k) else "" in
  match prop with
  | "C01" -> Drv_c01.run (arg 2)
  | _ -> prerr_endline ("modelrun: unknown property " ^ prop); exit 2
