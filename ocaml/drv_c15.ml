(* C15: model of symmetry.Canonical vs the implementation. *)
open Common
let run (_args : string list) =
  run_cases (fun fs ->
    match words (L.hd fs) with
    | [sz; ms] ->
      (match Inst.sym_canonical (n_of_string sz) (parse_moves ms) with
       | Move.Ok cs -> (enc_moves cs, None, None)
       | Move.Err -> ("ERR", None, None)
       | Move.Panic -> ("PANIC", None, None))
    | _ -> failwith "c15 input")
