(* C12: the PTN file model (parse_ptn, render, initial_position, Iterator, position_at_move) vs the implementation,
   and position_at_move vs the specification walk.  Also ptn_outcome for the C13 driver. *)
open Common
open BinNums
open Datatypes

let bytes_of_hex (h : string) : coq_N list =
  let n = S.length h / 2 in
  L.init n (fun i -> n_of_int (int_of_string ("0x" ^ S.sub h (2 * i) 2)))
let bytes_of_string (s : string) : coq_N list = L.init (S.length s) (fun i -> n_of_int (Char.code (S.get s i)))
let string_of_bytes (l : coq_N list) : string =
  let b = Buffer.create 64 in L.iter (fun c -> Buffer.add_char b (Char.chr ((int_of_n c) land 255))) l; Buffer.contents b
let hex_of_bytes (l : coq_N list) : string = S.concat "" (L.map (fun c -> Printf.sprintf "%02x" (int_of_n c)) l)

let enc_pmove (m : PtnMove.move) : string =
  Printf.sprintf "%s:%s:%s:%s" (string_of_z m.PtnMove.mX) (string_of_z m.PtnMove.mY) (string_of_n m.PtnMove.mT) (string_of_n m.PtnMove.mS)
let enc_op = function
  | PtnFile.OMoveNumber n -> "N" ^ string_of_z n
  | PtnFile.OMove (m, md) -> "M" ^ enc_pmove m ^ "/" ^ hex_of_bytes md
  | PtnFile.OComment c -> "C" ^ hex_of_bytes c
  | PtnFile.OResult r -> "R" ^ hex_of_bytes r
let enc_struct (g : PtnFile.ptn) : string =
  "tags=" ^ S.concat "," (L.map (fun (n, v) -> hex_of_bytes n ^ ":" ^ hex_of_bytes v) g.PtnFile.tags) ^
  " ops=" ^ S.concat "," (L.map enc_op g.PtnFile.ops)

let dec_struct (s : string) : PtnFile.ptn =
  match words s with
  | [t; o] ->
    let t = S.sub t 5 (S.length t - 5) and o = S.sub o 4 (S.length o - 4) in
    let tags = if t = "" then [] else L.map (fun kv -> match S.split_on_char ':' kv with
      | [n; v] -> (bytes_of_hex n, bytes_of_hex v) | _ -> failwith "tag") (S.split_on_char ',' t) in
    let op w =
      let rest = S.sub w 1 (S.length w - 1) in
      match S.get w 0 with
      | 'N' -> PtnFile.OMoveNumber (z_of_string rest)
      | 'M' -> (match S.split_on_char '/' rest with
                | [m; md] -> (match S.split_on_char ':' m with
                              | [x; y; t; sl] -> PtnFile.OMove ({ PtnMove.mX = z_of_string x; mY = z_of_string y; mT = n_of_string t; mS = n_of_string sl }, bytes_of_hex md)
                              | _ -> failwith "move")
                | _ -> failwith "move")
      | 'C' -> PtnFile.OComment (bytes_of_hex rest)
      | 'R' -> PtnFile.OResult (bytes_of_hex rest)
      | _ -> failwith "op" in
    { PtnFile.tags = tags; ops = (if o = "" then [] else L.map op (S.split_on_char ',' o)) }
  | _ -> failwith "struct"

let pos_res = function
  | Move.Ok p -> "OK " ^ enc_abs p
  | Move.Err -> "ERR"
  | Move.Panic -> "PANIC"

let replay_outcome (g : PtnFile.ptn) : string =
  match PtnFileInst.ptn_initial g with
  | Move.Err -> "ERR init"
  | Move.Panic -> "PANIC"
  | Move.Ok p0 ->
    (match PtnFileInst.ptn_replay g p0 with
     | Move.Panic -> "PANIC"
     | Move.Err -> "PANIC"                       (* next never returns Err itself *)
     | Move.Ok (n, it) ->
       if it.PtnFile.it_err then Printf.sprintf "ERR replay %d" (int_of_nat n)
       else Printf.sprintf "OK %d %s" (int_of_nat n) (enc_abs it.PtnFile.it_pos))

(* the model's class for a raw byte string: same strings as ptnFileOutcome in harness/cmd/runimpl/c12.go
   ("OK <n> <abs>" / "ERR parse" / "ERR init" / "ERR replay <n>" / "PANIC") *)
let ptn_outcome (data : string) : string =
  match PtnFile.parse_ptn (bytes_of_string data) with
  | Move.Err -> "ERR parse"
  | Move.Panic -> "PANIC"
  | Move.Ok g -> replay_outcome g

let colour = function "W" -> Some true | "B" -> Some false | _ -> None

let parse_queries qs =
  L.map (fun w -> match S.split_on_char ':' w with [n; c] -> (z_of_string n, colour c) | _ -> failwith "query") (words qs)

let render_md5 g = Digest.to_hex (Digest.string (string_of_bytes (PtnFile.render g)))

(* the observables of one parsed record under a list of queries (PositionAtMove is a function of the record) *)
let ask spec g queries =
  (* position_at_move = spec_position_at is a theorem (C12_position_at_move_spec); the extracted pair is compared on the
     first queries of every case only, as a check of the extraction *)
  L.mapi (fun i (n, c) ->
    let r = PtnFileInst.ptn_position_at g n c in
    if i < 3 then begin
      let sp = PtnFileInst.ptn_spec_at g n c in
      if pos_res r <> pos_res sp && !spec = None then
        spec := Some (Printf.sprintf "position_at_move %s = %s but spec walk = %s" (string_of_z n) (pos_res r) (pos_res sp))
    end;
    "Q " ^ pos_res r) queries

let run _args =
  run_cases (fun fs ->
    match L.map S.trim (S.split_on_char ';' (L.hd fs)) with
    | kind :: gs :: hex :: qs :: more ->
      let text = bytes_of_hex hex in
      let queries = parse_queries qs in
      let rok =
        if kind = "G" || kind = "H" then begin
          let g0 = dec_struct gs in
          let r = PtnFile.render g0 in
          let body = (match text with a :: b :: c :: rest when int_of_n a = 239 && int_of_n b = 187 && int_of_n c = 191 -> rest | _ -> text) in
          if r = body then "1" else "0:" ^ hex_of_bytes r
        end else "-" in
      let spec = ref None in
      let l1 =
        (match PtnFile.parse_ptn text with
         | Move.Ok g ->
           let first = ["rok=" ^ rok; "P " ^ enc_struct g; "R " ^ render_md5 g;
                        "I " ^ pos_res (PtnFileInst.ptn_initial g); "Y " ^ replay_outcome g] @ ask spec g queries in
           let second = (match more with
             | [ext; qs2] ->
               (* history case: the same record extended by AddMoves / appended ops; the answers are those of the extended record *)
               let (mode, ops) = (match words ext with [m; o] -> (m, (dec_struct ("tags= " ^ o)).PtnFile.ops) | _ -> failwith "ext") in
               let g2 = if mode = "A"
                 then PtnFile.add_moves g (L.filter_map (function PtnFile.OMove (m, _) -> Some m | _ -> None) ops)
                 else PtnFile.append_ops g ops in
               ["X " ^ enc_struct g2; "R2 " ^ render_md5 g2; "Y2 " ^ replay_outcome g2] @ ask spec g2 (parse_queries qs2)
             | _ -> []) in
           S.concat " ; " (first @ second)
         | r ->
           let cls = (match r with Move.Err -> "ERR" | _ -> "PANIC") in
           S.concat " ; " (["rok=" ^ rok; "P " ^ cls; "R -"; "I -"; "Y -"] @ L.map (fun _ -> "Q -") queries)) in
      (l1, None, !spec)
    | _ -> failwith "c12 input")
