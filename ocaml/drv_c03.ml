(* C03: model of AllMoves vs the implementation: the set of generated moves (L1) and the order (L2);
   plus model-internal: filtering the model's list by the model's move function. *)
open Common
let key (m : Move.rmove) =
  let t = int_of_n m.Move.mT in
  if t >= 5 then enc_move m else Printf.sprintf "%s:%s:%d:0" (string_of_z m.Move.mX) (string_of_z m.Move.mY) t
let run (_args : string list) =
  run_cases (fun fs ->
    let p = parse_pos (L.hd fs) in
    let all = GameOver.all_moves p in
    let keys = L.map key all in
    let sorted = L.sort compare keys in
    let rec dups = function a :: (b :: _ as t) -> (if a = b then 1 else 0) + dups t | _ -> 0 in
    (* count keys that occur at least twice (each once) *)
    let rec uniqdups l prev acc = match l with
      | [] -> acc
      | a :: t -> (match t with b :: _ when a = b && Some a <> prev -> uniqdups t (Some a) (acc + 1) | _ -> uniqdups t prev acc) in
    ignore dups;
    let l1 = (if sorted = [] then "-" else S.concat "," sorted) ^ " " ^ string_of_int (uniqdups sorted None 0) in
    (l1, Some (enc_moves all), None))
