(* C04: the notion of legality the direct oracle uses, tied to the proved bit-level model.
   CASE P ; <position> | <live> <sorted legal move set>   model: GameOver.game_over, GameOver.all_moves filtered by Inst.mv_fixed
   CASE M ; <position> ; <move> | OK|ERR|PANIC            every move a player returned, judged by Inst.mv_fixed
   SPEC column: a live position whose model move set is empty would contradict theorem C04_live_has_legal_move. *)
(* verif:needs c04m *)
open Common
let is_ok p m = match Inst.mv_fixed p m with Move.Ok _ -> true | _ -> false
let run (_args : string list) =
  run_cases (fun fs ->
    match L.map S.trim (S.split_on_char ';' (L.hd fs)) with
    | ["P"; pos] ->
      let p = parse_pos pos in
      let live = (match GameOver.game_over p with Some (false, _) -> "1" | Some (true, _) -> "0" | None -> "OUT-OF-FUEL") in
      let ms = L.filter (is_ok p) (GameOver.all_moves p) in
      let enc_set = L.sort compare (L.map enc_move ms) in
      let set = if enc_set = [] then "-" else S.concat "," enc_set in
      let sp = if live = "1" && ms = [] then Some "model: live position without a legal move" else None in
      (live ^ " " ^ set, None, sp)
    | ["M"; pos; mv] ->
      let p = parse_pos pos in
      let m = parse_move mv in
      ((match Inst.mv_fixed p m with Move.Ok _ -> "OK" | Move.Err -> "ERR" | Move.Panic -> "PANIC"), None, None)
    | "MCTS" :: rest -> Drv_c04m.handle rest
    | _ -> failwith "c04 input")
