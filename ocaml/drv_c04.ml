(* C04: the notion of legality the direct oracle uses, tied to the proved bit-level model.
   CASE P ; <position> | <live> <sorted legal move set>   model: GameOver.game_over, GameOver.all_moves filtered by Inst.mv_fixed
   CASE M ; <position> ; <move> | OK|ERR|PANIC            every move a player returned, judged by Inst.mv_fixed
   SPEC column: a live position whose model move set is empty would contradict theorem C04_live_has_legal_move.
   CASE BOOK ; <size> ; <lines: x<hex>,... or -> ; <dump 0|1> ; <Int31 script v0,v1,... or -> ; <G|P position> ; ...
        | <OK | ERR kind lno x<hex word> | PANIC> <move>/<ok>/<next draw> ...      | n=<entries> <hash>@<position>@<move>*<weight>+.../...
   CASE RAND ; <cfg: size depth evk nosort nonull noreduce multicut tablelen> ; <RandomizeWindow> ; <RandomizeScale> ; <Int63 stream v0,v1,...> ; <position>
        | <move> | PANIC | ERR
     model: SearchRand.get_move (coq/SearchRand.v: Analyze, then the randomised choice among the root moves; the stream holds the
     successive values of ai.rand.Int63() for the configured seed) on a fresh engine.
     model: Opening.build_book (coq/Opening.v) on the raw line bytes, then OpeningBook.GetMove (G) / OpeningPlayer.GetMove with the
     harness's stub inner player (P) on every query in order, the draws chained through one scripted source; L2 = the whole book,
     entries sorted by hash, children in append order. *)
(* verif:needs c04m *)
open Common
open BinNums
open Datatypes
let is_ok p m = match Inst.mv_fixed p m with Move.Ok _ -> true | _ -> false

let unhex (s : string) : coq_N list =
  (* "x" followed by two hex digits per byte *)
  let n = (S.length s - 1) / 2 in
  L.init n (fun i -> n_of_int (int_of_string ("0x" ^ S.sub s (1 + 2 * i) 2)))
let hex (bs : coq_N list) : string = "x" ^ S.concat "" (L.map (fun b -> Printf.sprintf "%02x" (int_of_n b)) bs)

let book_case size lines flag vals qs =
  let sz = z_of_string size in
  let lines = if lines = "-" then [] else L.map unhex (S.split_on_char ',' lines) in
  let vs = if vals = "-" then [] else L.map z_of_string (S.split_on_char ',' vals) in
  match OpeningInst.build sz lines with
  | Opening.BPanic -> ("PANIC", None, None)
  | Opening.BErr (k, lno, w) -> (Printf.sprintf "ERR %s %d %s" (string_of_n k) (int_of_nat lno) (hex w), None, None)
  | Opening.BOk b ->
    let rnd = OpeningInst.script_rnd vs in
    let idx = ref O in
    let broken = ref false in
    let answer q =
      if !broken then "-" else
      let kind = S.sub q 0 1 in
      let p = parse_pos (S.sub q 2 (S.length q - 2)) in
      if kind = "G" then
        (match Opening.book_get_move b p rnd !idx with
         | Move.Ok ((m, ok), j) -> idx := j; Printf.sprintf "%s/%d/%d" (enc_move m) (if ok then 1 else 0) (int_of_nat j)
         | Move.Err -> broken := true; "ERR"
         | Move.Panic -> broken := true; "PANIC")
      else
        (match Opening.opening_player_get_move b OpeningInst.stub_inner p rnd !idx with
         | Move.Ok (m, j) -> idx := j; Printf.sprintf "%s/%d" (enc_move m) (int_of_nat j)
         | Move.Err -> broken := true; "ERR"
         | Move.Panic -> broken := true; "PANIC") in
    let ans = L.map answer qs in
    let l1 = S.concat " " ("OK" :: ans) in
    let l2 =
      if flag <> "1" then None else begin
        let es = L.sort (fun a c -> Int64.unsigned_compare (i64_of_n a.Opening.be_hash) (i64_of_n c.Opening.be_hash)) b in
        let ent e =
          Printf.sprintf "%s@%s@%s" (string_of_n e.Opening.be_hash) (enc e.Opening.be_pos)
            (S.concat "+" (L.map (fun c -> enc_move c.Opening.ch_move ^ "*" ^ string_of_z c.Opening.ch_weight) e.Opening.be_moves)) in
        Some (S.trim (Printf.sprintf "n=%d %s" (L.length es) (S.concat "/" (L.map ent es))))
      end in
    (l1, l2, None)

let rand_case cfg rw rsc stream pos =
  let b s = (s = "1") in
  let dedup = (match words cfg with [_; _; _; _; _; _; _; _; d] -> b d | _ -> false) in
  let (cfg, tlen) =
    match words cfg with
    | _size :: depth :: evk :: nosort :: nonull :: noreduce :: multicut :: tlen :: _ ->
      (SearchInst.mk_cfg (z_of_string depth) (b nosort) (b nonull) (b noreduce) (b multicut) (n_of_string evk), int_of_string tlen)
    | _ -> failwith ("c04 rand cfg: " ^ cfg) in
  let vs = if stream = "-" then [] else L.map n_of_string (S.split_on_char ',' stream) in
  let p = parse_pos pos in
  if dedup then begin
    (* Cfg.DedupSymmetry: the plain GetMove (RandomizeWindow = 0) = the first move of Analyze on the model of SearchDedup.v *)
    if z_of_string rw <> z_of_string "0" then failwith "c04 rand: dedup needs window 0";
    let (_, ((((pv, _), _), _), _)) = SearchDedupInst.run_analyze_d true cfg (z_of_string "0") (Search.new_state (nat_of_int tlen)) p in
    ((match pv with m :: _ -> enc_move m | [] -> enc_move Search.move0), None, None)
  end else
  match SearchRandInst.run_get_move cfg (z_of_string rw) (z_of_string rsc) vs (Search.new_state (nat_of_int tlen)) p with
  | Move.Ok ((_, m), _rest) -> (enc_move m, None, None)
  | Move.Err -> ("ERR", None, None)
  | Move.Panic -> ("PANIC", None, None)

let run (_args : string list) =
  run_cases (fun fs ->
    match L.map S.trim (S.split_on_char ';' (L.hd fs)) with
    | ["P"; pos] ->
      let p = parse_pos pos in
      let live = (match GameOver.game_over p with Some (false, _) -> "1" | Some (true, _) -> "0" | None -> "OUT-OF-FUEL") in
      let ms = L.filter (is_ok p) (GameOver.all_moves p) in
      let enc_set = L.sort compare (L.map enc_move ms) in
      let set = if enc_set = [] then "-" else S.concat "," enc_set in
      let sp = if live = "1" && ms = [] then Some "model: live position without a legal move" else None in
      (live ^ " " ^ set, None, sp)
    | ["M"; pos; mv] ->
      let p = parse_pos pos in
      let m = parse_move mv in
      ((match Inst.mv_fixed p m with Move.Ok _ -> "OK" | Move.Err -> "ERR" | Move.Panic -> "PANIC"), None, None)
    | "MCTS" :: rest -> Drv_c04m.handle rest
    | "BOOK" :: size :: lines :: flag :: vals :: qs -> book_case size lines flag vals qs
    | ["RAND"; cfg; rw; rsc; stream; pos] -> rand_case cfg rw rsc stream pos
    | _ -> failwith "c04 input")
