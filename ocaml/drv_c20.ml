(* C20: the model of the FPA opening scripts (Fpa.v) on the sub-trees / whole trees the Go driver enumerated.
   CASE <variant> <size> <W|B> reuse <s1> <ms1> <m0> <m1>: the same sub-tree on a rule object left dirty by an earlier game.
   args: the repair switches that are ON in the code under test ("pinned" = none, "repaired" = all, or any of
   ds cb cw), and optionally "totals=<n>": evaluate the whole-tree cases (Fpa.run) only for sizes <= n. *)
open Common
let variant = function
  | "Center" -> Fpa.Center | "DoubleStack" -> Fpa.DoubleStack | "Cairn" -> Fpa.Cairn
  | s -> failwith ("variant " ^ s)
let tally (t : Fpa.tally) =
  Printf.sprintf "%s %s %s %s %s" (string_of_n t.Fpa.nodes) (string_of_n t.Fpa.scripted) (string_of_n t.Fpa.illegal)
    (string_of_n t.Fpa.selfrej) (string_of_n t.Fpa.crash)
let outcome = function Fpa.Fine -> "F" | Fpa.Illegal -> "I" | Fpa.SelfReject -> "R" | Fpa.Crash -> "C"
let ev b = function
  | Fpa.ELeaf -> Buffer.add_char b '.'
  | Fpa.EOpp k -> Buffer.add_char b 'o'; Buffer.add_string b (string_of_int (int_of_nat k))
  | Fpa.EChild m -> Buffer.add_char b 'm'; Buffer.add_string b (enc_move m)
  | Fpa.EScript (m, o) -> Buffer.add_char b 's'; Buffer.add_string b (enc_move m); Buffer.add_string b (outcome o)
  | Fpa.EGetCrash -> Buffer.add_char b 'X'
let run args =
  let has s = L.mem s args || L.mem "repaired" args in
  let fx = { Fpa.fx_ds = has "ds"; fx_cb = has "cb"; fx_cw = has "cw" } in
  let totals = L.fold_left (fun acc a ->
      if S.length a > 7 && S.sub a 0 7 = "totals=" then int_of_string (S.sub a 7 (S.length a - 7)) else acc) 8 args in
  let skipped = ref 0 in
  run_cases (fun fs ->
    let impl = L.nth fs 1 in
    match words (L.hd fs) with
    | [v; sz; c; "root"] ->
      (string_of_int (int_of_nat (Fpa.prefix_count [] fx (variant v) (n_of_string sz))), None, None)
    | [v; sz; c; "total"] ->
      if int_of_string sz > totals then (incr skipped; (impl, None, None))
      else (tally (Fpa.run [] fx (variant v) (n_of_string sz) (c = "W")), None, None)
    | [v; sz; c; "reuse"; s1; ms1; m0; m1] ->
      (* the rule object first served the moves ms1 of a game of size s1 (FpaState.dirty), then this sub-tree *)
      let ms1 = if ms1 = "-" then [] else L.map parse_move (S.split_on_char ',' ms1) in
      (match FpaState.run_from_dirty fx (variant v) (n_of_string s1) ms1 (n_of_string sz) (c = "W") [parse_move m0; parse_move m1] with
       | Some (t, tr) ->
         let b = Buffer.create 256 in
         L.iter (ev b) tr;
         (tally t ^ " ; " ^ Buffer.contents b, None, None)
       | None -> ("MODEL-REJECTS-PREFIX", None, None))
    | [v; sz; c; m0; m1] ->
      let ms = if m0 = "-" then [] else [parse_move m0; parse_move m1] in
      (match Fpa.run_from [] fx (variant v) (n_of_string sz) (c = "W") ms with
       | Some (t, tr) ->
         let b = Buffer.create 256 in
         L.iter (ev b) tr;
         (tally t ^ " ; " ^ Buffer.contents b, None, None)
       | None -> ("MODEL-REJECTS-PREFIX", None, None))
    | _ -> failwith "bad C20 case");
  if !skipped > 0 then Printf.printf "NOTE whole-tree cases not evaluated by the model in this tier: %d\n" !skipped
