(* C10: models of FormatTPS / ParseTPS (+ FromSquares, Equal, Hash) vs the implementation. *)
open Common
let hex_of_bytes (l : BinNums.coq_N list) = S.concat "" (L.map (fun b -> Printf.sprintf "%02x" (int_of_n b)) l)
let bytes_of_hex (h : string) : BinNums.coq_N list =
  L.init (S.length h / 2) (fun i -> n_of_int (int_of_string ("0x" ^ S.sub h (2*i) 2)))
let b2s b = if b then "1" else "0"
let run (_args : string list) =
  run_cases (fun fs ->
    let inp = L.hd fs in
    let kind = S.sub inp 0 1 and rest = (if S.length inp > 2 then S.trim (S.sub inp 2 (S.length inp - 2)) else "") in
    if kind = "F" then begin
      let p = parse_pos rest in
      let s = Inst.tps_format p in
      match Inst.tps_parse s with
      | Move.Ok q ->
        let eq = GameOver.equal p q && GameOver.equal q p in
        let heq = (Inst.hash_full p = Inst.hash_full q) in
        let req = p.Move.whiteStones = q.Move.whiteStones && p.Move.whiteCaps = q.Move.whiteCaps
                  && p.Move.blackStones = q.Move.blackStones && p.Move.blackCaps = q.Move.blackCaps in
        let peq = (p.Move.move = q.Move.move) in
        (S.concat " " [hex_of_bytes s; "OK"; b2s eq; b2s heq; b2s req; b2s peq], Some (enc {q with Move.black_wins_ties = false}), None)
      | Move.Err -> (hex_of_bytes s ^ " ERR 0 0 0 0", Some "-", None)
      | Move.Panic -> (hex_of_bytes s ^ " PANIC 0 0 0 0", Some "-", None)
    end else begin
      let s = bytes_of_hex rest in
      match Inst.tps_parse s with
      | Move.Ok q -> ("OK " ^ hex_of_bytes (Inst.tps_format q), Some (enc q), None)
      | Move.Err -> ("ERR -", Some "-", None)
      | Move.Panic -> ("PANIC -", Some "-", None)
    end)
