(* C02: model of GameOver / WinDetails / ResultFromGame vs the implementation. *)
open Common
let col = function GameOver.GWhite -> "W" | GameOver.GBlack -> "B" | GameOver.GNone -> "N"
let run (_args : string list) =
  run_cases (fun fs ->
    let p = parse_pos (L.hd fs) in
    match GameOver.win_details p, GameOver.analyze p with
    | Some d, Some (wg, bg) ->
      let reason = if d.GameOver.wd_road then "R" else "F" in
      let res = if not d.GameOver.wd_over then "-" else
        (match GameOver.result_from_game d with
         | Move.Ok GameOver.RDraw -> "1/2-1/2"
         | Move.Ok (GameOver.RWhite r) -> (if r then "R" else "F") ^ "-0"
         | Move.Ok (GameOver.RBlack r) -> "0-" ^ (if r then "R" else "F")
         | _ -> "PANIC") in
      let l1 = Printf.sprintf "%d %s %s %s %s %s" (if d.GameOver.wd_over then 1 else 0) (col d.GameOver.wd_winner) reason
                 (string_of_n d.GameOver.wd_wflats) (string_of_n d.GameOver.wd_bflats) res in
      let g l = if l = [] then "-" else S.concat "," (L.map string_of_n l) in
      (l1, Some (g wg ^ " ; " ^ g bg), None)
    | _ -> ("MODEL-OUT-OF-FUEL", None, None))
