(* C11: models of ParseMove / FormatMove / FormatMoveLong / ParseServer / FormatServer vs the implementation. *)
open Common
let hex_of_bytes (l : BinNums.coq_N list) = S.concat "" (L.map (fun b -> Printf.sprintf "%02x" (int_of_n b)) l)
let bytes_of_hex (h : string) : BinNums.coq_N list =
  L.init (S.length h / 2) (fun i -> n_of_int (int_of_string ("0x" ^ S.sub h (2*i) 2)))
let pm_of (m : Move.rmove) : PtnMove.move = { PtnMove.mX = m.Move.mX; mY = m.Move.mY; mT = m.Move.mT; mS = m.Move.mS }
let enc_pm (m : PtnMove.move) = Printf.sprintf "%s:%s:%s:%s" (string_of_z m.PtnMove.mX) (string_of_z m.PtnMove.mY) (string_of_n m.PtnMove.mT) (string_of_n m.PtnMove.mS)
let pres = function PtnMove.Ok m -> enc_pm m | PtnMove.Err -> "ERR" | PtnMove.Panic -> "PANIC"
let run (_args : string list) =
  run_cases (fun fs ->
    match words (L.hd fs) with
    | [mv; sfxh] ->
      let m = pm_of (parse_move mv) in
      let sfx = bytes_of_hex sfxh in
      let short = PtnMove.format_move false m and long = PtnMove.format_move true m and srv = Playtak.format_server m in
      let l1 = S.concat " " [hex_of_bytes short; hex_of_bytes long; hex_of_bytes srv;
                 pres (PtnMove.parse_move short); pres (PtnMove.parse_move long); pres (Playtak.parse_server srv);
                 pres (PtnMove.parse_move (short @ sfx)); pres (PtnMove.parse_move (long @ sfx))] in
      (l1, None, None)
    | _ -> failwith "c11 input")
