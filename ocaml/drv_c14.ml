(* C14: model of Symmetries (under the position's OWN configuration, SymmetryCfg.v) / TransformMove + Move and GameOver on the
   images vs the implementation.
   input: <enc p> ; <move> ; <Config().Pieces> <Config().Capstones>
   per image: <sym index>:<abs image>:<tie-break flag of the image>:<WinDetails of the image>:<transformed move>:<result>,
   result = OK <abs> <WinDetails of the successor> | ERR | PANIC *)
open Common
let col = function GameOver.GWhite -> "W" | GameOver.GBlack -> "B" | GameOver.GNone -> "N"
let over_str (q : Move.position) : string =
  match GameOver.win_details q with
  | Some d -> Printf.sprintf "%d%s%s/%s" (if d.GameOver.wd_over then 1 else 0) (col d.GameOver.wd_winner)
                (string_of_n d.GameOver.wd_wflats) (string_of_n d.GameOver.wd_bflats)
  | None -> "MODEL-OUT-OF-FUEL"
let res_str = function Move.Ok q -> "OK " ^ enc_abs q ^ " " ^ over_str q | Move.Err -> "ERR" | Move.Panic -> "PANIC"
let run (_args : string list) =
  run_cases (fun fs ->
    match S.split_on_char ';' (L.hd fs) with
    | [ps; ms; cs] ->
      let p = parse_pos ps and m = parse_move ms in
      let (stones, caps) = (match words cs with [a; b] -> (n_of_string a, n_of_string b) | _ -> failwith "c14 config") in
      let imgs = SymmetryCfgInst.symc_symmetries stones caps p in
      let parts = L.map (fun (q, idx) ->
        let i = int_of_nat idx in
        let (tm, res) = (match Inst.sym_transform p.Move.size idx m with
          | Move.Ok rm -> (enc_move rm, res_str (Inst.mv_fixed q rm))
          | _ -> ("PANIC", "-")) in
        Printf.sprintf "%d:%s:%d:%s:%s:%s" i (enc_abs q) (if q.Move.black_wins_ties then 1 else 0) (over_str q) tm res) imgs in
      (S.concat " # " parts ^ " @ " ^ res_str (Inst.mv_fixed p m), None, None)
    | _ -> failwith "c14 input")
