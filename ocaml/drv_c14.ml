(* C14: model of Symmetries / TransformMove + Move on the images vs the implementation. *)
open Common
let res_str = function Move.Ok q -> "OK " ^ enc_abs q | Move.Err -> "ERR" | Move.Panic -> "PANIC"
let run (_args : string list) =
  run_cases (fun fs ->
    match S.split_on_char ';' (L.hd fs) with
    | [ps; ms] ->
      let p = parse_pos ps and m = parse_move ms in
      let imgs = Inst.sym_symmetries p in
      let parts = L.map (fun (q, idx) ->
        let i = int_of_nat idx in
        let (tm, res) = (match Inst.sym_transform p.Move.size idx m with
          | Move.Ok rm -> (enc_move rm, res_str (Inst.mv_fixed q rm))
          | _ -> ("PANIC", "-")) in
        Printf.sprintf "%d:%s:%s:%s" i (enc_abs q) tm res) imgs in
      (S.concat " # " parts ^ " @ " ^ res_str (Inst.mv_fixed p m), None, None)
    | _ -> failwith "c14 input")
