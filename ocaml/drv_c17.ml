(* C17: the TEI engine model (coq/Tei.v run with the search model, coq/TeiInst.v) and calc_budget_fixed (coq/TeiBudget.v)
   against the observations printed by harness/cmd/runimpl/c17.go.
     CASE S <mode L|R> <depth> <evk> <tbl> <hex script> | L1 | L2
       L1 = per Run call (mode L: one per complete line, mode R: one for the stream)  st~out~pos~searcher sizes   joined by ";"
       L2 = size~searcher kept
     CASE B <movetime> <gametime> <inc> | budget
     CASE F <ns> | formatTime                         (coq/TeiClient.v format_time)
     CASE K <items> <transcript> | results and lines  (the client model, see client_session below)
   Also exports [tei_outcome] for the C13 driver: how the model's Run ends on an arbitrary byte string. *)
open Common
open BinNums

let bytes_of_string (s : string) : coq_N list = L.init (S.length s) (fun i -> n_of_int (Char.code (Stdlib.String.get s i)))
let string_of_bytes (l : coq_N list) : string = S.concat "" (L.map (fun b -> S.make 1 (Char.chr (int_of_n b land 255))) l)
let unhex (h : string) : string = S.init (S.length h / 2) (fun i -> Char.chr (int_of_string ("0x" ^ S.sub h (2 * i) 2)))

(* Z of a decimal int64 *)
let z_of_i64 (v : int64) : coq_Z =
  if v = 0L then Z0
  else if v > 0L then (match n_of_i64 v with Npos p -> Zpos p | N0 -> Z0)
  else if v = Int64.min_int then (match n_of_i64 v (* bit pattern 2^63 *) with Npos p -> Zneg p | N0 -> Z0)
  else (match n_of_i64 (Int64.neg v) with Npos p -> Zneg p | N0 -> Z0)
let i64_of_z = function Z0 -> 0L | Zpos p -> i64_of_pos p | Zneg p -> Int64.neg (i64_of_pos p)

let string_of_z z = Int64.to_string (i64_of_z z)   (* e_size can be any int64: OCaml's int has 63 bits *)
let st_char = function Tei.Running -> "N" | Tei.Quit -> "N" | Tei.Failed -> "E" | Tei.Crashed -> "P"
let enc_pos = function None -> "-" | Some p -> enc_abs p

let tei_outcome (script : string) : string =
  let (((_, _), st), _) = TeiInst.inst_run_bytes (z_of_int 1) (n_of_int 1) (nat_of_int 0) (bytes_of_string script) TeiInst.inst_engine0 in
  match st with Tei.Running | Tei.Quit -> "OK" | Tei.Failed -> "ERR" | Tei.Crashed -> "PANIC"

(* ---- the client side: coq/TeiClient.v against the engine answers of the session ----
     CASE K <hex of the items> <transcript> | <results> <hex lines the engine received, joined by ",">
   items (one per line): "E ..." engine rules (only "E real <depth>" matters here), "G <size>", "P <tps>",
   "Q <player> <dl> <tc> <tps>", "M <player> <dl> <tps>"; dl = "-" or "=<ns left>" (as measured / set by the harness); tc = "-" or "w,b,wi,bi" (ns).
   transcript = what the scripted engine process answered to the k-th line it received: "<hex or ->:<flags or ->" joined by ","
   (flags: c = stdout closed after the answer, x = stdin closed before it and exit after it).  The oracle [eng] of the model
   is: the k-th successful write gets the k-th answer; after an x every write fails.  For "E real <depth>" the oracle is the
   engine model itself (TeiClient.tei_proc over TeiInst, evaluator 1, no table). *)
let hex_of_string (s : string) = S.concat "" (L.init (S.length s) (fun i -> Printf.sprintf "%02x" (Char.code (Stdlib.String.get s i))))
let err_class = function
  | TeiClient.EWrite -> "write" | TeiClient.ERead -> "read" | TeiClient.ESendPosition -> "sendpos" | TeiClient.ETimeoutShort -> "short"
  | TeiClient.EServer -> "server" | TeiClient.EBadBestmove -> "badbest" | TeiClient.EUnparseable -> "unparse"
let panic_class = function
  | TeiClient.PDeadPlayer -> "dead" | TeiClient.PBlankLine -> "blank" | TeiClient.PGetMove e -> "getmove-" ^ err_class e

(* the session, generic in the engine oracle; [sent] extracts the lines written so far from the oracle's state *)
let session_with (type es) (eng : es -> coq_N list -> es TeiClient.eresp option) (es0 : es) (sent : es -> coq_N list list)
    (items : string list) : string =
  let results = ref [] in
  let add r = results := r :: !results in
  let finish (c : es TeiClient.client) = (S.concat ";" (L.rev !results)) ^ " " ^ S.concat "," (L.rev_map (fun l -> hex_of_string (string_of_bytes l)) (sent c.TeiClient.c_es)) in
  let (c0, o) = TeiClient.new_client eng es0 in
  match o with
  | TeiClient.RErr _ -> add "N:err"; finish c0
  | TeiClient.RPanic w -> add ("N:panic:" ^ panic_class w); finish c0
  | TeiClient.RHang -> add "N:hang"; finish c0
  | TeiClient.ROk () ->
    add "N:ok";
    let c = ref c0 and players = ref [||] and stop = ref false and hung = ref false in
    L.iter (fun it ->
      if not !stop then
      match S.split_on_char ' ' it with
      | "G" :: sz :: _ ->
        let (c1, o) = TeiClient.new_game eng !c (z_of_i64 (Int64.of_string sz)) in
        c := c1;
        (match o with
         | TeiClient.ROk g -> players := Array.append !players [|g|]; add "G:ok"
         | _ -> add "G:err")
      | (("P" | "Q" | "M") as k) :: rest when Array.length !players > 0 ->
        let latest = !players.(Array.length !players - 1) in
        let pick s = let i = int_of_string s in if i >= 0 && i < Array.length !players then !players.(i) else latest in
        let (pl, dl, tc, tps) = (match k, rest with
          | "P", _ -> (latest, "-", "-", S.concat " " rest)
          | "Q", pl :: dl :: tc :: t -> (pick pl, dl, tc, S.concat " " t)
          | "M", pl :: dl :: t -> (pick pl, dl, "-", S.concat " " t)
          | _ -> failwith "C17: bad client item") in
        let pos = (match Inst.tps_parse (bytes_of_string tps) with Move.Ok p -> p | _ -> failwith "C17: bad tps in client item") in
        let dl = if dl = "-" then None
          else if S.length dl > 1 && S.sub dl 0 1 = "=" then Some (z_of_i64 (Int64.of_string (S.sub dl 1 (S.length dl - 1))))
          else if S.length dl > 2 && S.sub dl 0 2 = "us" then Some (z_of_i64 (Int64.mul 1000L (Int64.of_string (S.sub dl 2 (S.length dl - 2)))))
          else Some (z_of_i64 (Int64.mul 1000000L (Int64.of_string dl))) (* an item the harness did not reach *) in
        let tc = if tc = "-" then None else
          (match L.map (fun v -> z_of_i64 (Int64.of_string v)) (S.split_on_char ',' tc) with
           | [w; b; wi; bi] -> Some { TeiClient.tc_white = w; tc_black = b; tc_winc = wi; tc_binc = bi }
           | _ -> failwith "C17: bad tc") in
        let (c1, o) = if k = "M" then TeiClient.get_move eng !c pl pos dl else TeiClient.tei_get_move eng !c pl pos dl tc in
        c := c1;
        (match o with
         | TeiClient.ROk m -> add (Printf.sprintf "P:ok:%s,%s,%d,%d" (string_of_z m.PtnMove.mX) (string_of_z m.PtnMove.mY) (int_of_n m.PtnMove.mT) (int_of_n m.PtnMove.mS))
         | TeiClient.RErr e -> add ("P:err:" ^ err_class e)
         | TeiClient.RPanic w -> add ("P:panic:" ^ panic_class w); stop := true
         | TeiClient.RHang -> add "P:hang"; stop := true; hung := true)
      | _ -> ()) items;
    (* the deferred cl.Close(); after a hang the engine process is killed instead *)
    let c = if !hung then !c else TeiClient.close eng !c in
    finish c

let client_session (items : string) (transcript : string) : string =
  let items = S.split_on_char '\n' items in
  let real = L.find_opt (fun it -> S.length it > 7 && S.sub it 0 7 = "E real ") items in
  match real with
  | Some it ->
    let depth = z_of_int (int_of_string (S.sub it 7 (S.length it - 7))) in
    let mk = TeiInst.inst_mk depth (n_of_int 1) (nat_of_int 0) in
    let eng (st, sent) line =
      (match TeiClient.tei_proc Consts.gen_basis mk TeiInst.inst_search st line with
       | None -> None
       | Some r -> Some { TeiClient.er_state = (r.TeiClient.er_state, line :: sent); er_out = r.TeiClient.er_out; er_closed = r.TeiClient.er_closed }) in
    session_with eng (TeiClient.proc0, []) snd items
  | None ->
    let tr = if transcript = "-" then [||] else
      Array.of_list (L.map (fun e -> match S.split_on_char ':' e with
                                     | [o; f] -> ((if o = "-" then "" else unhex o), f)
                                     | _ -> failwith "C17: bad transcript") (S.split_on_char ',' transcript)) in
    (* state: number of lines received, stdin closed, lines received (most recent first) *)
    let eng (k, dead, sent) line =
      if dead then None else
      let (out, flags) = if k < Array.length tr then tr.(k) else ("", "-") in
      let x = S.contains flags 'x' and cl = S.contains flags 'c' in
      Some { TeiClient.er_state = (k + 1, x, line :: sent); er_out = Tei.lines_of (bytes_of_string out); er_closed = x || cl } in
    session_with eng (0, false, []) (fun (_, _, s) -> s) items

(* ---- the selfplay worker: coq/Selfplay.v with both clients' engine processes = the engine model (or a scripted process) ----
     CASE W <cutoff> <limit> <gametime> <inc> <p1> <p2> <games> <slow> <transcript2> | <status> <results> <lines of engine 1> <lines of engine 2>
   p1 / p2 = "real:<depth>" (Tei.v + TeiInst, evaluator 1, no table) or "rules:..." (scripted: the transcript of its answers, as in K
   cases); games = "<w|b>:<hex TPS>" joined by ","; slow = "-" or "<game>.<call>": that call took 1.5 s, every other call 0 ns;
   the time left at every call = Limit.  The numbers after movetime / wtime / btime are masked on both sides (wall-clock readings). *)
type west = Real of TeiInst.coq_SS TeiClient.proc | Script of int * bool

let mask_line (l : string) : string =
  let ws = S.split_on_char ' ' l in
  let rec go prev = function
    | [] -> []
    | w :: r -> (if prev = "movetime" || prev = "wtime" || prev = "btime" then "#" else w) :: go w r in
  if ws <> [] && L.hd ws = "go" then S.concat " " (go "" ws) else l

let worker_case (cutoff : string) (limit : string) (gametime : string) (inc : string) (p1 : string) (p2 : string) (games : string)
    (slow : string) (transcript2 : string) : string =
  let z s = z_of_i64 (Int64.of_string s) in
  let mk_eng (spec : string) (transcript : string) =
    if S.length spec > 5 && S.sub spec 0 5 = "real:" then begin
      let depth = z_of_int (int_of_string (S.sub spec 5 (S.length spec - 5))) in
      let mk = TeiInst.inst_mk depth (n_of_int 1) (nat_of_int 0) in
      ((fun (st, sent) line ->
         match st with
         | Real pr ->
           (match TeiClient.tei_proc Consts.gen_basis mk TeiInst.inst_search pr line with
            | None -> None
            | Some r -> Some { TeiClient.er_state = (Real r.TeiClient.er_state, line :: sent); er_out = r.TeiClient.er_out; er_closed = r.TeiClient.er_closed })
         | Script _ -> None), (Real TeiClient.proc0, []))
    end else begin
      let tr = if transcript = "-" then [||] else
        Array.of_list (L.map (fun e -> match S.split_on_char ':' e with
                                       | [o; f] -> ((if o = "-" then "" else unhex o), f)
                                       | _ -> failwith "C17: bad transcript") (S.split_on_char ',' transcript)) in
      ((fun (st, sent) line ->
         match st with
         | Script (k, dead) ->
           if dead then None else
           let (out, flags) = if k < Array.length tr then tr.(k) else ("", "-") in
           let x = S.contains flags 'x' and cl = S.contains flags 'c' in
           Some { TeiClient.er_state = (Script (k + 1, x), line :: sent); er_out = Tei.lines_of (bytes_of_string out); er_closed = x || cl }
         | Real _ -> None), (Script (0, false), []))
    end in
  let (eng1, s1) = mk_eng p1 "-" and (eng2, s2) = mk_eng p2 transcript2 in
  let cf = { Selfplay.cf_cutoff = nat_of_int (int_of_string cutoff); cf_limit = z limit; cf_gametime = z gametime; cf_increment = z inc } in
  let specs = L.map (fun g ->
      let tps = unhex (S.sub g 2 (S.length g - 2)) in
      let pos = (match Inst.tps_parse (bytes_of_string tps) with Move.Ok p -> p | _ -> failwith "C17: bad opening") in
      { Selfplay.sp_opening = pos; sp_p1white = (Stdlib.String.get g 0 = 'w') }) (S.split_on_char ',' games) in
  let slow_jk = if slow = "-" then (-1, -1) else (match S.split_on_char '.' slow with [a; b] -> (int_of_string a, int_of_string b) | _ -> (-1, -1)) in
  let dur j k = if (int_of_nat j, int_of_nat k) = slow_jk then z "1500000000" else z "0" in
  let left _ _ = z limit in
  let (c1, _) = TeiClient.new_client eng1 s1 in
  let (c2, _) = TeiClient.new_client eng2 s2 in
  let ((w, rs), e) = Selfplay.play_games eng1 eng2 Consts.gen_basis cf dur left (nat_of_int 0) { Selfplay.w_c1 = c1; w_c2 = c2 } specs in
  let c1 = TeiClient.close eng1 w.Selfplay.w_c1 and c2 = TeiClient.close eng2 w.Selfplay.w_c2 in
  let status = (match e with
    | None -> "ok"
    | Some (Selfplay.GPanic (Selfplay.SPIllegal _)) -> "panic:illegal"
    | Some (Selfplay.GPanic (Selfplay.SPClient pw)) -> "panic:" ^ panic_class pw
    | Some (Selfplay.GPanic Selfplay.SPRules) -> "panic:rules"
    | Some (Selfplay.GFatal er) -> "fatal:" ^ err_class er
    | Some Selfplay.GHang -> "hang"
    | Some (Selfplay.GDone _) -> "model-bug") in
  let show (r : Selfplay.result) =
    let ms = L.map (fun m -> Printf.sprintf "%s.%s.%d.%d" (string_of_z m.PtnMove.mX) (string_of_z m.PtnMove.mY) (int_of_n m.PtnMove.mT) (int_of_n m.PtnMove.mS)) r.Selfplay.r_moves in
    (if ms = [] then "-" else S.concat "+" ms) ^ ":" ^ hex_of_string (string_of_bytes (Inst.tps_format r.Selfplay.r_position)) ^ ":" ^
    (match r.Selfplay.r_winner with GameOver.GWhite -> "white" | GameOver.GBlack -> "black" | GameOver.GNone -> "none") in
  let lines (c : (west * coq_N list list) TeiClient.client) =
    S.concat "," (L.rev_map (fun l -> hex_of_string (mask_line (string_of_bytes l))) (snd c.TeiClient.c_es)) in
  status ^ " " ^ (if rs = [] then "-" else S.concat "/" (L.map show rs)) ^ " " ^ lines c1 ^ " " ^ lines c2

let run (_args : string list) =
  run_cases (fun fs ->
    match words (L.hd fs) with
    | ["B"; a; b; c] ->
      let z s = z_of_i64 (Int64.of_string s) in
      (Int64.to_string (i64_of_z (TeiBudget.calc_budget_fixed (z a) (z b) (z c))), None, None)
    | ("S" :: mode :: depth :: evk :: tbl :: rest) when L.length rest <= 1 ->
      let hex = (match rest with [h] -> h | _ -> "") in   (* an empty script has no hex word *)
      let depth = z_of_int (int_of_string depth) and evk = n_of_int (int_of_string evk) and tbl = nat_of_int (int_of_string tbl) in
      let script = bytes_of_string (unhex hex) in
      let l1 = ref [] and l2 = ref [] and prev = ref "-" in
      let record st out (e : TeiInst.coq_SS Tei.engine) facs =
        let pos = enc_pos e.Tei.e_pos in
        let shown = if pos = !prev && pos <> "-" then "=" else pos in
        prev := pos;
        l1 := (st ^ "~" ^ S.concat "/" (L.map string_of_bytes out) ^ "~" ^ shown ^ "~" ^ S.concat "," facs) :: !l1;
        l2 := (string_of_z e.Tei.e_size ^ "~" ^ (match e.Tei.e_mm with Some _ -> "1" | None -> "0")) :: !l2 in
      let fac_of (e : TeiInst.coq_SS Tei.engine) (g : Tei.goinfo option) =
        match g with Some gi when gi.Tei.g_fresh -> [string_of_z e.Tei.e_size] | _ -> [] in
      if mode = "L" then begin
        let e = ref TeiInst.inst_engine0 in
        (try
          L.iter (fun line ->
            let r = TeiInst.inst_step depth evk tbl !e line in
            (* a searcher is also built by a go whose arguments are refused: visible as e_mm turning Some *)
            let built = (match !e.Tei.e_mm, r.Tei.sr_eng.Tei.e_mm with None, Some _ -> [string_of_z r.Tei.sr_eng.Tei.e_size] | _ -> []) in
            ignore (fac_of r.Tei.sr_eng r.Tei.sr_go);
            record (st_char r.Tei.sr_status) r.Tei.sr_out r.Tei.sr_eng built;
            e := r.Tei.sr_eng;
            if r.Tei.sr_status = Tei.Crashed then raise Exit) (Tei.lines_of script)
        with Exit -> ())
      end else begin
        (* the searchers built during one Run: replay step by step to list them in order *)
        let e = ref TeiInst.inst_engine0 and outs = ref [] and facs = ref [] and st = ref Tei.Running in
        (try
          L.iter (fun line ->
            let r = TeiInst.inst_step depth evk tbl !e line in
            (match !e.Tei.e_mm, r.Tei.sr_eng.Tei.e_mm with None, Some _ -> facs := string_of_z r.Tei.sr_eng.Tei.e_size :: !facs | _ -> ());
            outs := L.rev_append r.Tei.sr_out !outs;
            e := r.Tei.sr_eng;
            st := r.Tei.sr_status;
            if r.Tei.sr_status <> Tei.Running then raise Exit) (Tei.lines_of script)
        with Exit -> ());
        (* cross-check with the model's own [run] on the byte stream *)
        let (((e2, out2), st2), _) = TeiInst.inst_run_bytes depth evk tbl script TeiInst.inst_engine0 in
        let same = (L.rev !outs = out2) && st_char !st = st_char st2 && enc_pos e2.Tei.e_pos = enc_pos !e.Tei.e_pos in
        record (if same then st_char st2 else "MODEL-RUN-DIFFERS-FROM-STEPS") out2 e2 (L.rev !facs)
      end;
      (S.concat ";" (L.rev !l1), Some (S.concat ";" (L.rev !l2)), None)
    | ["F"; d] ->
      (string_of_bytes (TeiClient.format_time (z_of_i64 (Int64.of_string d))), None, None)
    | ["K"; items; transcript] -> (client_session (unhex items) transcript, None, None)
    | ["W"; cutoff; limit; gametime; inc; p1; p2; games; slow; tr2] ->
      (worker_case cutoff limit gametime inc p1 p2 games slow tr2, None, None)
    | _ -> failwith "C17: bad case")
