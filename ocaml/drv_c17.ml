(* C17: the TEI engine model (coq/Tei.v run with the search model, coq/TeiInst.v) and calc_budget_fixed (coq/TeiBudget.v)
   against the observations printed by harness/cmd/runimpl/c17.go.
     CASE S <mode L|R> <depth> <evk> <tbl> <hex script> | L1 | L2
       L1 = per Run call (mode L: one per complete line, mode R: one for the stream)  st~out~pos~searcher sizes   joined by ";"
       L2 = size~searcher kept
     CASE B <movetime> <gametime> <inc> | budget
   Also exports [tei_outcome] for the C13 driver: how the model's Run ends on an arbitrary byte string. *)
open Common
open BinNums

let bytes_of_string (s : string) : coq_N list = L.init (S.length s) (fun i -> n_of_int (Char.code (Stdlib.String.get s i)))
let string_of_bytes (l : coq_N list) : string = S.concat "" (L.map (fun b -> S.make 1 (Char.chr (int_of_n b land 255))) l)
let unhex (h : string) : string = S.init (S.length h / 2) (fun i -> Char.chr (int_of_string ("0x" ^ S.sub h (2 * i) 2)))

(* Z of a decimal int64 *)
let z_of_i64 (v : int64) : coq_Z =
  if v = 0L then Z0
  else if v > 0L then (match n_of_i64 v with Npos p -> Zpos p | N0 -> Z0)
  else if v = Int64.min_int then (match n_of_i64 v (* bit pattern 2^63 *) with Npos p -> Zneg p | N0 -> Z0)
  else (match n_of_i64 (Int64.neg v) with Npos p -> Zneg p | N0 -> Z0)
let i64_of_z = function Z0 -> 0L | Zpos p -> i64_of_pos p | Zneg p -> Int64.neg (i64_of_pos p)

let string_of_z z = Int64.to_string (i64_of_z z)   (* e_size can be any int64: OCaml's int has 63 bits *)
let st_char = function Tei.Running -> "N" | Tei.Quit -> "N" | Tei.Failed -> "E" | Tei.Crashed -> "P"
let enc_pos = function None -> "-" | Some p -> enc_abs p

let tei_outcome (script : string) : string =
  let (((_, _), st), _) = TeiInst.inst_run_bytes (z_of_int 1) (n_of_int 1) (nat_of_int 0) (bytes_of_string script) TeiInst.inst_engine0 in
  match st with Tei.Running | Tei.Quit -> "OK" | Tei.Failed -> "ERR" | Tei.Crashed -> "PANIC"

let run (_args : string list) =
  run_cases (fun fs ->
    match words (L.hd fs) with
    | ["B"; a; b; c] ->
      let z s = z_of_i64 (Int64.of_string s) in
      (Int64.to_string (i64_of_z (TeiBudget.calc_budget_fixed (z a) (z b) (z c))), None, None)
    | ("S" :: mode :: depth :: evk :: tbl :: rest) when L.length rest <= 1 ->
      let hex = (match rest with [h] -> h | _ -> "") in   (* an empty script has no hex word *)
      let depth = z_of_int (int_of_string depth) and evk = n_of_int (int_of_string evk) and tbl = nat_of_int (int_of_string tbl) in
      let script = bytes_of_string (unhex hex) in
      let l1 = ref [] and l2 = ref [] and prev = ref "-" in
      let record st out (e : TeiInst.coq_SS Tei.engine) facs =
        let pos = enc_pos e.Tei.e_pos in
        let shown = if pos = !prev && pos <> "-" then "=" else pos in
        prev := pos;
        l1 := (st ^ "~" ^ S.concat "/" (L.map string_of_bytes out) ^ "~" ^ shown ^ "~" ^ S.concat "," facs) :: !l1;
        l2 := (string_of_z e.Tei.e_size ^ "~" ^ (match e.Tei.e_mm with Some _ -> "1" | None -> "0")) :: !l2 in
      let fac_of (e : TeiInst.coq_SS Tei.engine) (g : Tei.goinfo option) =
        match g with Some gi when gi.Tei.g_fresh -> [string_of_z e.Tei.e_size] | _ -> [] in
      if mode = "L" then begin
        let e = ref TeiInst.inst_engine0 in
        (try
          L.iter (fun line ->
            let r = TeiInst.inst_step depth evk tbl !e line in
            (* a searcher is also built by a go whose arguments are refused: visible as e_mm turning Some *)
            let built = (match !e.Tei.e_mm, r.Tei.sr_eng.Tei.e_mm with None, Some _ -> [string_of_z r.Tei.sr_eng.Tei.e_size] | _ -> []) in
            ignore (fac_of r.Tei.sr_eng r.Tei.sr_go);
            record (st_char r.Tei.sr_status) r.Tei.sr_out r.Tei.sr_eng built;
            e := r.Tei.sr_eng;
            if r.Tei.sr_status = Tei.Crashed then raise Exit) (Tei.lines_of script)
        with Exit -> ())
      end else begin
        (* the searchers built during one Run: replay step by step to list them in order *)
        let e = ref TeiInst.inst_engine0 and outs = ref [] and facs = ref [] and st = ref Tei.Running in
        (try
          L.iter (fun line ->
            let r = TeiInst.inst_step depth evk tbl !e line in
            (match !e.Tei.e_mm, r.Tei.sr_eng.Tei.e_mm with None, Some _ -> facs := string_of_z r.Tei.sr_eng.Tei.e_size :: !facs | _ -> ());
            outs := L.rev_append r.Tei.sr_out !outs;
            e := r.Tei.sr_eng;
            st := r.Tei.sr_status;
            if r.Tei.sr_status <> Tei.Running then raise Exit) (Tei.lines_of script)
        with Exit -> ());
        (* cross-check with the model's own [run] on the byte stream *)
        let (((e2, out2), st2), _) = TeiInst.inst_run_bytes depth evk tbl script TeiInst.inst_engine0 in
        let same = (L.rev !outs = out2) && st_char !st = st_char st2 && enc_pos e2.Tei.e_pos = enc_pos !e.Tei.e_pos in
        record (if same then st_char st2 else "MODEL-RUN-DIFFERS-FROM-STEPS") out2 e2 (L.rev !facs)
      end;
      (S.concat ";" (L.rev !l1), Some (S.concat ";" (L.rev !l2)), None)
    | _ -> failwith "C17: bad case")
