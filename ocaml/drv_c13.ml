(* verif:needs c10 c11 c12 c17 *)
(* C13: the models' outcome class for arbitrary byte strings at every modelled text entry point. *)
open Common
let bytes_of_hex = Drv_c11.bytes_of_hex
let string_of_hex h = S.init (S.length h / 2) (fun i -> Char.chr (int_of_string ("0x" ^ S.sub h (2*i) 2)))
let collapse s = if S.length s >= 3 && S.sub s 0 3 = "ERR" then "ERR" else if S.length s >= 5 && S.sub s 0 5 = "PANIC" then "PANIC" else s
let run (_args : string list) =
  run_cases (fun fs ->
    let inp = L.hd fs in
    let entry = S.get inp 0 in
    let hex = if S.length inp > 2 then S.trim (S.sub inp 2 (S.length inp - 2)) else "" in
    let hex = (match S.index_opt hex ' ' with Some i -> S.sub hex 0 i | None -> hex) in
    let cls =
      match entry with
      | 'M' -> Drv_c11.pres (PtnMove.parse_move (bytes_of_hex hex))
      | 'S' -> Drv_c11.pres (Playtak.parse_server (bytes_of_hex hex))
      | 'T' -> (match Inst.tps_parse (bytes_of_hex hex) with Move.Ok q -> "OK " ^ enc_abs q | Move.Err -> "ERR" | Move.Panic -> "PANIC")
      | 'F' -> collapse (Drv_c12.ptn_outcome (string_of_hex hex))
      | 'E' -> collapse (Drv_c17.tei_outcome (string_of_hex hex))
      | 'C' ->
        (* the strings returned by ParseTell / ParseShout / ParseShoutRoom: the direct functions of BotLine.v; the reference
           semantics (ordered backtracking search over the same three patterns) must give the same strings *)
        let l = bytes_of_hex hex in
        let h = Drv_c11.hex_of_bytes in
        let ((a, b), (c, d), ((e, f), g)) = (BotLine.parse_tell l, BotLine.parse_shout l, BotLine.parse_shout_room l) in
        let re_same = (BotLine.re_tell l = (a, b)) && (BotLine.re_shout l = (c, d)) && (BotLine.re_shout_room l = ((e, f), g)) in
        Printf.sprintf "OK %s,%s;%s,%s;%s,%s,%s%s" (h a) (h b) (h c) (h d) (h e) (h f) (h g) (if re_same then "" else " !re_match-differs")
      | 'J' ->
        (* encoding/json is trusted; the Go-specific part (the loop over the decoded map: name lookup in the regenerated
           table, ws[f] = v) is WeightsJson.unmarshal_post: whenever the text decoded into map[string]int64 the model's
           class must be what Weights.UnmarshalJSON did *)
        (match words inp with
         | [_; _; pairs] when S.length pairs > 0 && S.get pairs 0 = '=' ->
           let body = S.sub pairs 1 (S.length pairs - 1) in
           let ps = if body = "" then [] else L.map (fun kv ->
             match S.split_on_char ':' kv with
             | [k; v] -> (bytes_of_hex k, z_of_string v)
             | _ -> failwith "c13 J pair") (S.split_on_char ',' body) in
           (match WeightsJson.unmarshal_post WeightsJson.gen_names WeightsJson.gen_maxf ps (WeightsJson.zeros WeightsJson.gen_maxf) with
            | PtnMove.Ok _ -> "OK" | PtnMove.Err -> "ERR" | PtnMove.Panic -> "PANIC")
         | _ -> L.nth fs 1)
      | _ -> L.nth fs 1
    in
    (cls, None, None))
