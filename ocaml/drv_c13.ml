(* verif:needs c10 c11 c12 c17 *)
(* C13: the models' outcome class for arbitrary byte strings at every modelled text entry point. *)
open Common
let bytes_of_hex = Drv_c11.bytes_of_hex
let string_of_hex h = S.init (S.length h / 2) (fun i -> Char.chr (int_of_string ("0x" ^ S.sub h (2*i) 2)))
let collapse s = if S.length s >= 3 && S.sub s 0 3 = "ERR" then "ERR" else if S.length s >= 5 && S.sub s 0 5 = "PANIC" then "PANIC" else s
let run (_args : string list) =
  run_cases (fun fs ->
    let inp = L.hd fs in
    let entry = S.get inp 0 in
    let hex = if S.length inp > 2 then S.trim (S.sub inp 2 (S.length inp - 2)) else "" in
    let cls =
      match entry with
      | 'M' -> Drv_c11.pres (PtnMove.parse_move (bytes_of_hex hex))
      | 'S' -> Drv_c11.pres (Playtak.parse_server (bytes_of_hex hex))
      | 'T' -> (match Inst.tps_parse (bytes_of_hex hex) with Move.Ok q -> "OK " ^ enc_abs q | Move.Err -> "ERR" | Move.Panic -> "PANIC")
      | 'F' -> collapse (Drv_c12.ptn_outcome (string_of_hex hex))
      | 'E' -> collapse (Drv_c17.tei_outcome (string_of_hex hex))
      | 'C' ->
        (* the strings returned by ParseTell / ParseShout / ParseShoutRoom: the direct functions of BotLine.v; the reference
           semantics (ordered backtracking search over the same three patterns) must give the same strings *)
        let l = bytes_of_hex hex in
        let h = Drv_c11.hex_of_bytes in
        let ((a, b), (c, d), ((e, f), g)) = (BotLine.parse_tell l, BotLine.parse_shout l, BotLine.parse_shout_room l) in
        let re_same = (BotLine.re_tell l = (a, b)) && (BotLine.re_shout l = (c, d)) && (BotLine.re_shout_room l = ((e, f), g)) in
        Printf.sprintf "OK %s,%s;%s,%s;%s,%s,%s%s" (h a) (h b) (h c) (h d) (h e) (h f) (h g) (if re_same then "" else " !re_match-differs")
      | _ -> L.nth fs 1      (* weight JSON is a wrapper around encoding/json: no model, oracle only *)
    in
    (cls, None, None))
