(* verif:needs c05 *)
(* C16: the cancelled call and the later calls on the same engine are one history in the C05 wire format; the model
   (Search.v / SearchC.v: the flag flips inside the k-th leaf evaluation) replays it with the same k. *)
let run args = Drv_c05.run args
