(* C18: model of ai.MakeEvaluator(size, w) / ai.EvaluateWinner (and, as L2, ai.CountThreats) vs the implementation.
   input  = <enc position> ; <D | 36 weights>      L1 = <evaluate> <EvaluateWinner>     L2 = <wp wt bp bt>
   plus the constant cases  "weights <size> ; -"  and  "thresholds ; -"  (regenerated constants vs the live ones). *)
open Common
let zs l = S.concat "," (L.map string_of_z l)
let resz = function Move.Ok v -> string_of_z v | _ -> "PANIC"
let threats_str p =
  match EvalSpec.threats p with
  | Some (((a, b), c), d) -> Printf.sprintf "%s %s %s %s" (string_of_z a) (string_of_z b) (string_of_z c) (string_of_z d)
  | None -> "MODEL-OUT-OF-FUEL"
let run _args =
  run_cases (fun fs ->
    match L.map S.trim (S.split_on_char ';' (L.hd fs)) with
    | [a; b] ->
      (match words a with
       | ["weights"; sz] -> (zs (EvalInst.default_weights (n_of_string sz)), None, None)
       | ["thresholds"] -> (S.concat " " (L.map string_of_z EvalInst.thresholds), None, None)
       | _ ->
         let p = parse_pos a in
         let v = if b = "D" then EvalInst.eval_default p
                 else Eval.evaluate (L.map z_of_string (S.split_on_char ',' b)) p in
         (resz v ^ " " ^ resz (EvalSpec.eval_winner p), Some (threats_str p), None))
    | _ -> failwith "c18 input")
