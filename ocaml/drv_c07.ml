(* C07: the model of the playtak bot loop (Bot.v instantiated in BotInst.v) stepped over the event list of
   a schedule that the real PlayGame / ObserveGame was driven through; L1 = per event: the lines passed to
   SendCommand, loop status, number of recorded positions, recorded moves, current position, the chat callbacks
   made (HandleTell / HandleChat with their arguments) and the clocks g.times; finally every recorded position.
   The model run starts from the RAW text of every line the real loop received: BotLine.classify (the two
   switches of handleMove with the three chat regexps, Atoi and ParseServer) turns it into the event of Bot.v,
   the callback and the clock values; the older dispatch BotInst.classify must agree on the event.
   input:  <size> <W|B|O> <accept> <instant> <gamestr hex> ; <ops (unused here)> ; <event> ; ...
   events: L <hex of the server line>-  |  Z  |  A <move> <start ply> <ctx cancelled 0|1>  |  G
           LA <hex>- <move> <start ply> <cancelled>: the thinker's answer landed in its channel while the loop was
           handling that line = the model steps Line and then Answer / Late; one observation for both      *)
open Common

let bytes_of_hex (h : string) : BinNums.coq_N list =
  let h = if S.length h > 0 && S.get h (S.length h - 1) = '-' then S.sub h 0 (S.length h - 1) else h in
  L.init (S.length h / 2) (fun i -> n_of_int (int_of_string ("0x" ^ S.sub h (2 * i) 2)))
let string_of_bytes (b : BinNums.coq_N list) : string =
  S.concat "" (L.map (fun c -> S.make 1 (Stdlib.Char.chr (int_of_n c))) b)
let under s = S.map (fun c -> if c = ' ' then '_' else c) s
let hex_of_bytes (l : BinNums.coq_N list) = S.concat "" (L.map (fun b -> Printf.sprintf "%02x" (int_of_n b)) l)

let conv_line (l : PtnMove.move Bot.line) : Move.rmove Bot.line =
  match l with
  | Bot.LMove m -> Bot.LMove (BotInst.to_rmove m)
  | Bot.LBad -> Bot.LBad | Bot.LTime -> Bot.LTime | Bot.LReqUndo -> Bot.LReqUndo | Bot.LUndo -> Bot.LUndo
  | Bot.LOver -> Bot.LOver | Bot.LAbandoned -> Bot.LAbandoned | Bot.LOther -> Bot.LOther

let enc_chat = function
  | BotLine.ChatNone -> "-"
  | BotLine.ChatTell (w, m) -> "T:" ^ hex_of_bytes w ^ ":" ^ hex_of_bytes m
  | BotLine.ChatRoom (r, w, m) -> "C:" ^ hex_of_bytes r ^ ":" ^ hex_of_bytes w ^ ":" ^ hex_of_bytes m

let run args =
  let fixed = (match args with "pinned" :: _ -> false | _ -> true) in
  run_cases (fun fs ->
    let parts = L.map S.trim (S.split_on_char ';' (L.hd fs)) in
    match parts with
    | hd :: _ops :: events ->
      let (sz, col, accept, gs) = (match words hd with
        | [sz; c; a; _; g] -> (n_of_string sz, (match c with "W" -> 0 | "B" -> 1 | _ -> 2), a = "1", bytes_of_hex g)
        | _ -> failwith "c07 header") in
      let col = n_of_int col in
      let gstr = string_of_bytes gs in
      let white = (col = n_of_int 0) in
      let st = ref (BotInst.bot_init sz col) in
      let sec600 = BotLine.seconds (z_of_int 600) in
      let times = ref (sec600, sec600) in           (* g.times.mine, g.times.theirs: both start at g.Time = 600 s *)
      let obs = ref [] in
      L.iter (fun e ->
        let before = !st in
        let note = ref "" in
        let chat = ref "-" in
        (* one received line: the raw bytes -> (event of Bot.v, chat callback, clocks) *)
        let line_ev h =
          let raw = bytes_of_hex h in
          let r = BotLine.classify gs raw in
          let ev = conv_line r.BotLine.l_ev in
          if ev <> BotInst.classify gs raw then note := !note ^ "!classify-differs";
          if not (before.Bot.ended || before.Bot.crashed) then begin
            chat := enc_chat r.BotLine.l_chat;
            times := BotLine.set_times white !times r.BotLine.l_times
          end;
          Bot.Line ev in
        let answer_ev st0 m ply cancel =
          if cancel = "1" then Bot.Late (parse_move m)
          else begin
            (* a thinker whose context is live belongs to the current invocation *)
            if st0.Bot.answered || int_of_z st0.Bot.spawned_on.Move.move <> int_of_string ply then note := "!no-such-thinker";
            Bot.Answer (parse_move m)
          end in
        let stepm s ev = BotInst.bot_step sz col fixed accept s ev in
        (match words e with
          | ["L"; h] -> st := stepm before (line_ev h)
          | ["LA"; h; m; ply; cancel] ->
            (* whether the thinker belongs to the current invocation is decided on the state the line was taken in *)
            let a = answer_ev before m ply cancel in
            let s1 = stepm before (line_ev h) in
            st := stepm s1 a
          | ["Z"] -> st := stepm before Bot.Closed
          | ["G"] -> st := stepm before Bot.Grace
          | ["A"; m; ply; cancel] -> st := stepm before (answer_ev before m ply cancel)
          | _ -> failwith ("c07 event " ^ e));
        let s = !st in
        (* new sends of this step, in the order the loop makes them *)
        let nb = L.length before.Bot.out and na = L.length s.Bot.out in
        let sends = ref [] in
        if na > nb then sends := [under (gstr ^ " " ^ string_of_bytes (BotInst.bot_wire (L.hd s.Bot.out).Bot.s_move))];
        if int_of_nat s.Bot.undo_acks > int_of_nat before.Bot.undo_acks then sends := !sends @ [under (gstr ^ " RequestUndo")];
        let ret = if s.Bot.crashed then "P" else if s.Bot.ended then "1" else "0" in
        let ms = L.rev s.Bot.moves in
        let mstr = if ms = [] then "-" else S.concat "," (L.map enc_move ms) in
        let top = (match s.Bot.hist with p :: _ -> enc_abs p | [] -> "-") in
        obs := Printf.sprintf "%s^%s^%d^%s^%s^%s^%s:%s%s" (S.concat "," !sends) ret (L.length s.Bot.hist) mstr top !chat
                 (string_of_z (fst !times)) (string_of_z (snd !times)) !note :: !obs) events;
      let final = "F:" ^ S.concat "~" (L.map enc_abs (L.rev (!st).Bot.hist)) in
      (S.concat " ; " (L.rev (final :: !obs)), None, None)
    | _ -> failwith "c07 input")
