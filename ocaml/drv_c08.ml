(* C08: model of Position.Equal / Hash and the from-scratch hash vs the implementation. *)
open Common
let b2s b = if b then "1" else "0"
let run (_args : string list) =
  run_cases (fun fs ->
    let inp = L.hd fs in
    let kind = S.sub inp 0 1 and rest = S.sub inp 2 (S.length inp - 2) in
    if kind = "S" then begin
      let p = parse_pos rest in
      let consistent = (Inst.scratch p = p.Move.hash) in
      (b2s consistent, Some (string_of_n (Inst.hash_full p)), None)
    end else begin
      match S.split_on_char ';' rest with
      | [a; b] ->
        let p = parse_pos a and q = parse_pos b in
        let hp = Inst.hash_full p and hq = Inst.hash_full q in
        (b2s (GameOver.equal p q) ^ " " ^ b2s (hp = hq), Some (string_of_n hp ^ " " ^ string_of_n hq), None)
      | _ -> failwith "c08 pair"
    end)
