(* C10: non-vacuity.  A concrete 5x5 position (a seven-high stack under a black capstone, a white wall on a black
   flat, a lone white capstone, flats, empty runs of lengths 1..5) satisfies every hypothesis of the round-trip
   theorems; its TPS text is shown, and the theorems' conclusions are instantiated on it. *)
From Coq Require Import NArith ZArith List Bool Lia Ascii String ZifyN ZifyBool ZifyNat.
Require Import Board Move GameOver PtnMove Playtak Tps TpsFacts TpsFacts2 TpsFacts3 TpsFacts4 TpsFacts5 TpsFacts6 TpsFacts8.
Import ListNotations.
Local Open Scope N_scope.

Fixpoint bytes_of (s : string) : list N :=
  match s with EmptyString => [] | String c r => N_of_ascii c :: bytes_of r end.

Section Ex.
Variable basis : list N.

(* squares (index x + 5y):  0: white flat;  3: white capstone;  6: black capstone on 1,2,2,1,1,2 (bottom last: top first
   below the capstone: white, black, black, white, white, black);  12: white wall on a black flat;  24: black flat *)
Definition ex_pre : position :=
  {| size := 5; black_wins_ties := true;
     whiteStones := 16; whiteCaps := 0; blackStones := 16; blackCaps := 0;
     Move.move := 13;
     White := 4105; Black := 16777280; Standing := 4096; Caps := 72;
     Height := [1;0;0;1;0; 0;7;0;0;0; 0;0;2;0;0; 0;0;0;0;0; 0;0;0;0;1];
     Stacks := [0;0;0;0;0; 0;38;0;0;0; 0;0;1;0;0; 0;0;0;0;0; 0;0;0;0;0];
     hash := 0 |}.
Definition ex_p : position :=
  {| size := 5; black_wins_ties := true;
     whiteStones := 16; whiteCaps := 0; blackStones := 16; blackCaps := 0;
     Move.move := 13;
     White := 4105; Black := 16777280; Standing := 4096; Caps := 72;
     Height := Height ex_pre; Stacks := Stacks ex_pre;
     hash := scratch_hash basis ex_pre |}.

Example ex_at_6 : at_sq ex_p 6 = [P true 3; P false 1; P true 1; P true 1; P false 1; P false 1; P true 1].
Proof. reflexivity. Qed.
Example ex_at_12 : at_sq ex_p 12 = [P false 2; P true 1].
Proof. reflexivity. Qed.
Example ex_at_3 : at_sq ex_p 3 = [P false 3].
Proof. reflexivity. Qed.

Example ex_text : format_tps ex_p = bytes_of "x4,2/x5/x2,21S,x2/x,2112212C,x3/1,x2,1C,x 2 7".
Proof. vm_compute. reflexivity. Qed.

Lemma below_25 i : i < 25 -> In i (map N.of_nat (seq 0 25)).
Proof. intros H. apply in_map_iff. exists (N.to_nat i). split; [lia|]. apply in_seq. lia. Qed.

Example ex_rep_ok : rep_ok basis ex_p.
Proof.
  constructor.
  - reflexivity.
  - reflexivity.
  - repeat split; reflexivity.
  - intros i Hi. change (size ex_p * size ex_p) with 25 in Hi.
    assert (A : forallb (sq_repb ex_p) (map N.of_nat (seq 0 25)) = true) by (vm_compute; reflexivity).
    rewrite forallb_forall in A. apply A. now apply below_25.
  - change (hash ex_p) with (scratch_hash basis ex_pre). unfold scratch_hash.
    change (Height ex_p) with (Height ex_pre). change (Stacks ex_p) with (Stacks ex_pre). reflexivity.
Qed.

Example ex_reserves : reserves_match_board ex_p.
Proof. unfold reserves_match_board. vm_compute. repeat split; discriminate. Qed.

Example ex_size : 3 <= size ex_p <= 8. Proof. cbn. lia. Qed.
Example ex_move : (0 <= Move.move ex_p < 2 ^ 63)%Z. Proof. cbn. lia. Qed.
Example ex_bytes : bytes_ok ex_p. Proof. exact (rep_bytes _ _ ex_rep_ok). Qed.

(* the conclusion on the example: the text above parses to ex_p with black_wins_ties cleared *)
Example ex_roundtrip : exists q, parse_tps basis (bytes_of "x4,2/x5/x2,21S,x2/x,2112212C,x3/1,x2,1C,x 2 7") = Ok q
  /\ equal ex_p q = true /\ hash_of q = hash_of ex_p /\ whiteStones q = 16 /\ whiteCaps q = 0 /\ blackStones q = 16 /\ blackCaps q = 0
  /\ Move.move q = 13%Z.
Proof.
  destruct (tps_format_parse_equal basis ex_p ex_size ex_move ex_rep_ok ex_reserves) as (q & H1 & H2 & H3 & H4 & H5 & H6 & H7).
  exists q. rewrite <- ex_text. split; [exact H1|]. split; [exact H3|]. split; [exact H5|]. rewrite H2. cbn. repeat split; reflexivity.
Qed.
End Ex.

(* a position that is NOT canonically represented (both colour bits on one square, a stale stack word on an empty
   square, a list that is too long) still satisfies the hypotheses of tps_format_parse: only the machine types matter *)
Definition ex_odd : position :=
  {| size := 3; black_wins_ties := false; whiteStones := 200; whiteCaps := 7; blackStones := 0; blackCaps := 0;
     Move.move := 0; White := 3; Black := 1; Standing := 1; Caps := 513;
     Height := [2;0;5;0;0;0;0;0;0;9]; Stacks := [3;77;0;0;0;0;0;0;0]; hash := 12345 |}.
Example ex_odd_bytes : bytes_ok ex_odd.
Proof.
  intros i Hi. change (size ex_odd * size ex_odd) with 9 in Hi.
  assert (A : forallb (fun i => (nthN (Height ex_odd) i <? 256) && (nthN (Stacks ex_odd) i <? 2 ^ 64)) (map N.of_nat (seq 0 9)) = true)
    by (vm_compute; reflexivity).
  rewrite forallb_forall in A. assert (In i (map N.of_nat (seq 0 9))).
  { apply in_map_iff. exists (N.to_nat i). split; [lia|]. apply in_seq. lia. }
  specialize (A i H). cbv beta in A. apply andb_true_iff in A. lia.
Qed.

(* ---- a canonical string ---- *)
Definition cell_okb (sq : list pc) : bool :=
  match sq with
  | [] => true
  | P _ k :: below => ((k =? 1) || (k =? 2) || (k =? 3)) && forallb (fun pp => match pp with P _ k' => k' =? 1 end) below
                      && (List.length sq <=? 65)%nat
  end.

Lemma cell_okb_ok sq : cell_okb sq = true -> cell_ok sq.
Proof.
  destruct sq as [|[b k] below]; [now left|]. intros H. right. cbn [cell_okb] in H.
  rewrite !andb_true_iff in H. destruct H as [[Hk Hfl] Hlen]. split; [|split].
  - cbn [wf_square]. split; [lia|]. apply Forall_forall. intros [b' k'] Hin.
    rewrite forallb_forall in Hfl. specialize (Hfl _ Hin). cbn in *. lia.
  - apply Nat.leb_le in Hlen. lia.
  - intros j Hj. apply Nat.leb_le in Hlen. rewrite nth_overflow by lia. reflexivity.
Qed.

Definition valid_boardb (n : nat) (board : list (list (list pc))) : bool :=
  (3 <=? n)%nat && (n <=? 8)%nat && (List.length board =? n)%nat && forallb (fun row => (List.length row =? n)%nat) board
  && forallb (forallb cell_okb) board.

Lemma valid_boardb_ok n board : valid_boardb n board = true -> valid_board n board.
Proof.
  unfold valid_boardb. rewrite !andb_true_iff. intros [[[[H1 H2] H3] H4] H5]. constructor.
  - split; [now apply Nat.leb_le|now apply Nat.leb_le].
  - now apply Nat.eqb_eq.
  - apply Forall_forall. intros row Hr. rewrite forallb_forall in H4. apply Nat.eqb_eq. now apply H4.
  - apply Forall_forall. intros row Hr. apply Forall_forall. intros sq Hs. apply cell_okb_ok.
    rewrite forallb_forall in H5. specialize (H5 _ Hr). rewrite forallb_forall in H5. now apply H5.
Qed.

Definition ex_board : list (list (list pc)) :=
  [ [[P false 1]; []; []; [P false 3]; []];
    [[]; [P true 3; P false 1; P true 1; P true 1; P false 1; P false 1; P true 1]; []; []; []];
    [[]; []; [P false 2; P true 1]; []; []];
    [[]; []; []; []; []];
    [[]; []; []; []; [P true 1]] ].

Example ex_canonical : canonical_tps (bytes_of "x4,2/x5/x2,21S,x2/x,2112212C,x3/1,x2,1C,x 2 7").
Proof.
  exists 5%nat, ex_board, 13%Z. split; [apply valid_boardb_ok; vm_compute; reflexivity|]. split; [lia|].
  vm_compute. reflexivity.
Qed.

(* a second one: 3x3, every run length at a row end and at a row start, move number with several digits *)
Example ex_canonical2 : canonical_tps (bytes_of "x3/2,x2/x2,12S 1 1234567").
Proof.
  exists 3%nat, [[[]; []; [P true 2; P false 1]]; [[P true 1]; []; []]; [[]; []; []]], 2469132%Z.
  split; [apply valid_boardb_ok; vm_compute; reflexivity|]. split; [lia|]. vm_compute. reflexivity.
Qed.

(* everything the round-trip theorems assume, on the example *)
Lemma ex_all basis :
  (3 <= size (ex_p basis) <= 8)%N /\ (0 <= Move.move (ex_p basis) < 2 ^ 63)%Z /\ rep_ok basis (ex_p basis) /\
  reserves_match_board (ex_p basis) /\ bytes_ok (ex_p basis) /\
  at_sq (ex_p basis) 6 = [P true 3; P false 1; P true 1; P true 1; P false 1; P false 1; P true 1] /\
  format_tps (ex_p basis) = bytes_of "x4,2/x5/x2,21S,x2/x,2112212C,x3/1,x2,1C,x 2 7" /\
  canonical_tps (bytes_of "x4,2/x5/x2,21S,x2/x,2112212C,x3/1,x2,1C,x 2 7").
Proof.
  split; [apply ex_size|]. split; [apply ex_move|]. split; [apply ex_rep_ok|]. split; [apply ex_reserves|].
  split; [apply ex_bytes|]. split; [apply ex_at_6|]. split; [apply ex_text|apply ex_canonical].
Qed.
