(* Tak/Alloc.v (draft): tak/alloc.go + analyze() + Clone/Move/MovePreallocated as operations on a store of objects.
   Height and Stacks are always re-pointed at the object's own arrays (alloc, copyPosition), so they are stored by value;
   the two group slices are slice HEADERS: (object whose Groups array they point into, offset, length).
   Assumes no more than 2*size groups in total, i.e. append never reallocates (the generator respects this). *)
From Coq Require Import NArith ZArith List Bool Lia.
Require Import Board Move GameOver Tps.
Import ListNotations.

Record sref := { r_owner : nat; r_off : nat; r_len : nat }.
Record obj := { o_pos : position; o_garr : list N; o_wg : sref; o_bg : sref }.
Definition store := list obj.

Section A.
Variable basis : list N.
Variable fixed_clone : bool.                 (* false = the pinned Clone (alloc only); true = alloc followed by analyze *)

Definition amv := move_prealloc (hash_sq basis) false.
Definition garr_len (p : position) : nat := 2 * N.to_nat (size p).

Definition read_ref (st : store) (r : sref) : list N :=
  match nth_error st (r_owner r) with
  | Some o => firstn (r_len r) (skipn (r_off r) (o_garr o))
  | None => []
  end.

Fixpoint write_at (arr : list N) (off : nat) (vals : list N) : list N :=
  match off, arr with
  | O, _ => vals ++ skipn (length vals) arr
  | S k, a :: r => a :: write_at r k vals
  | S k, [] => []
  end.

Fixpoint set_obj (st : store) (i : nat) (o : obj) : store :=
  match st, i with [], _ => [] | _ :: t, O => o :: t | h :: t, S j => h :: set_obj t j o end.

(* analyze() on object i: white groups are appended to WhiteGroups[:0], black groups right behind them in the same array *)
Definition analyze_obj (st : store) (i : nat) : store :=
  match nth_error st i with
  | None => st
  | Some o =>
    match GameOver.analyze (o_pos o) with
    | None => st
    | Some (wg, bg) =>
      let owner := r_owner (o_wg o) in let off := r_off (o_wg o) in
      (* the array written is the one WhiteGroups points into *)
      let st := match nth_error st owner with
                | Some oo => set_obj st owner {| o_pos := o_pos oo; o_garr := write_at (o_garr oo) off (wg ++ bg); o_wg := o_wg oo; o_bg := o_bg oo |}
                | None => st end in
      match nth_error st i with
      | Some o' => set_obj st i {| o_pos := o_pos o'; o_garr := o_garr o';
                                   o_wg := {| r_owner := owner; r_off := off; r_len := length wg |};
                                   o_bg := {| r_owner := owner; r_off := off + length wg; r_len := length bg |} |}
      | None => st end
    end
  end.

(* alloc(tpl): a new object; BlackGroups keeps pointing wherever the template's did *)
Definition alloc_obj (st : store) (tpl : obj) : store * nat :=
  let id := length st in
  (st ++ [{| o_pos := o_pos tpl; o_garr := repeat 0%N (garr_len (o_pos tpl)); o_wg := {| r_owner := id; r_off := 0; r_len := 0 |}; o_bg := o_bg tpl |}], id).

Inductive opr :=
| ONew (size : N)
| OMove (h : nat) (m : rmove)
| OMovePre (h : nat) (m : rmove) (buf : nat)
| OClone (h : nat).

Definition new_obj (sz : N) : obj :=
  let p := Tps.from_squares basis sz (repeat (repeat [] (N.to_nat sz)) (N.to_nat sz)) 0 in
  {| o_pos := p; o_garr := repeat 0%N (garr_len p); o_wg := {| r_owner := 0; r_off := 0; r_len := 0 |}; o_bg := {| r_owner := 0; r_off := 0; r_len := 0 |} |}.

(* result: the new store and the handle produced (None = the call returned an error) *)
Definition step (st : store) (o : opr) : store * option nat :=
  match o with
  | ONew sz => let '(st, id) := alloc_obj st (new_obj sz) in
               (* New's template has nil slices *)
               (match nth_error st id with
                | Some ob => (set_obj st id {| o_pos := o_pos ob; o_garr := o_garr ob; o_wg := o_wg ob; o_bg := {| r_owner := id; r_off := 0; r_len := 0 |} |}, Some id)
                | None => (st, None) end)
  | OMove h m =>
    match nth_error st h with
    | None => (st, None)
    | Some src =>
      let '(st1, id) := alloc_obj st src in
      match amv (o_pos src) m with
      | Ok q => (match nth_error st1 id with
                 | Some ob => (analyze_obj (set_obj st1 id {| o_pos := q; o_garr := o_garr ob; o_wg := o_wg ob; o_bg := o_bg ob |}) id, Some id)
                 | None => (st1, None) end)
      | _ => (st1, None)                 (* the allocated object is garbage *)
      end
    end
  | OMovePre h m buf =>
    match nth_error st h, nth_error st buf with
    | Some src, Some b =>
      (* copyPosition: everything from src except that WhiteGroups keeps buf's array (len 0) *)
      let b1 := {| o_pos := o_pos src; o_garr := o_garr b; o_wg := {| r_owner := r_owner (o_wg b); r_off := r_off (o_wg b); r_len := 0 |}; o_bg := o_bg src |} in
      let st1 := set_obj st buf b1 in
      match amv (o_pos src) m with
      | Ok q => (analyze_obj (set_obj st1 buf {| o_pos := q; o_garr := o_garr b1; o_wg := o_wg b1; o_bg := o_bg b1 |}) buf, Some buf)
      | _ => (st1, None)
      end
    | _, _ => (st, None)
    end
  | OClone h =>
    match nth_error st h with
    | None => (st, None)
    | Some src => let '(st1, id) := alloc_obj st src in
                  (if fixed_clone then analyze_obj st1 id else st1, Some id)
    end
  end.

(* GameOver() as the code computes it: roads from the group slices it currently sees *)
Definition game_over_groups (p : position) (wg bg : list N) : bool * gcolor :=
  match has_road p wg bg with
  | Some c => (true, c)
  | None =>
    if negb (u8 (whiteStones p + whiteCaps p) =? 0)%N && negb (u8 (blackStones p + blackCaps p) =? 0)%N &&
       negb (N.lor (White p) (Black p) =? cMask (precompute (size p)))%N
    then (false, GNone) else (true, flats_winner p)
  end.

(* what a caller can see of a handle *)
Definition observe (st : store) (h : nat) : position * list N * list N * (bool * gcolor) :=
  match nth_error st h with
  | Some o => let wg := read_ref st (o_wg o) in let bg := read_ref st (o_bg o) in
              (o_pos o, wg, bg, game_over_groups (o_pos o) wg bg)
  | None => (o_pos (new_obj 3), [], [], (false, GNone))
  end.
End A.
