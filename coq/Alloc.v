(* Tak/Alloc.v: ownership model of tak/alloc.go + analyze() + New/Alloc/Clone/Move/MovePreallocated.

   Go objects are explicit.  A store holds
     - objects (the positionN structs): the Position value and the two slice HEADERS of Position.analysis
       (Height and Stacks are re-pointed at the object's own arrays by alloc and kept by copyPosition, and their
        contents are copied, so they are part of the value `o_pos`);
     - a heap of uint64 arrays: array 0 is the empty array that nil slices point at, every object owns one array
       of 2*size words (positionN.alloc.Groups), `append` beyond the capacity allocates a further array.
   A slice header is (array id, offset, length); its capacity is (length of the array - offset), which is what
   Go has for every header this code creates (`Groups[:0]`, `g[:0]`, `alloc[len:len:cap]`, results of append).

   Transcribed: alloc, copyPosition, analyze (FloodGroups appending behind WhiteGroups[:0], the black groups behind
   the white ones through alloc[len:len:cap]), New, Alloc, Clone (repaired: alloc + analyze; `fixed_clone = false`
   is the pinned one), Move = MovePreallocated(m, nil), MovePreallocated into a caller-supplied object, failed moves
   (the object written so far is left as it is).

   No proofs here (AllocFacts*.v). *)
From Coq Require Import NArith ZArith List Bool Lia.
Require Import Board Move GameOver.
Import ListNotations.

Record sref := { r_arr : nat; r_off : nat; r_len : nat }.
Record obj := { o_pos : position; o_own : nat (* id of its Groups array *); o_wg : sref; o_bg : sref }.
Record store := { s_objs : list obj; s_arrs : list (list N) }.

Definition nil_ref : sref := {| r_arr := 0; r_off := 0; r_len := 0 |}.
Definition empty_store : store := {| s_objs := []; s_arrs := [[]] |}.

(* ---- Go runtime: capacity chosen by append for 8-byte elements (runtime.growslice + size classes, go1.23).
        Only the L2 comparison depends on it; no theorem does. ---- *)
Definition size_classes_words : list nat :=
  [1; 2; 3; 4; 6; 8; 10; 12; 14; 16; 18; 20; 22; 24; 26; 28; 30; 32; 36; 40; 44; 48; 52; 56; 60; 64; 72; 80; 88; 96; 112; 128]%nat.
Fixpoint roundup (classes : list nat) (n : nat) : nat :=
  match classes with [] => n | c :: r => if (n <=? c)%nat then c else roundup r n end.
Definition growcap (oldcap newlen : nat) : nat :=
  let dbl := (oldcap + oldcap)%nat in
  roundup size_classes_words (if (dbl <? newlen)%nat then newlen else dbl).

(* ---- slices ---- *)
Definition get_arr (arrs : list (list N)) (a : nat) : list N := nth a arrs [].
Definition read_ref (arrs : list (list N)) (r : sref) : list N :=
  firstn (r_len r) (skipn (r_off r) (get_arr arrs (r_arr r))).

Fixpoint set_nth {A} (l : list A) (i : nat) (v : A) : list A :=
  match l, i with [], _ => [] | _ :: t, O => v :: t | h :: t, S j => h :: set_nth t j v end.

(* append(s, v) *)
Definition append1 (arrs : list (list N)) (r : sref) (v : N) : list (list N) * sref :=
  let a := get_arr arrs (r_arr r) in
  if (r_off r + r_len r <? length a)%nat
  then (set_nth arrs (r_arr r) (set_nth a (r_off r + r_len r) v),
        {| r_arr := r_arr r; r_off := r_off r; r_len := S (r_len r) |})
  else let old := read_ref arrs r in
       let c := growcap (r_len r) (S (r_len r)) in
       (arrs ++ [old ++ v :: repeat 0%N (c - S (r_len r))],
        {| r_arr := length arrs; r_off := 0; r_len := S (r_len r) |}).

Fixpoint append_all (arrs : list (list N)) (r : sref) (vs : list N) : list (list N) * sref :=
  match vs with
  | [] => (arrs, r)
  | v :: t => let '(arrs1, r1) := append1 arrs r v in append_all arrs1 r1 t
  end.

(* FloodGroups on a road bitboard; running out of the fuel of 65 is impossible for boards inside the mask
   (theorem C02_groups_spec) and yields no groups here *)
Definition groups_total (c : consts) (bits : N) : list N :=
  match groups c bits with Some g => g | None => [] end.
Definition analyze_total (p : position) : list N * list N :=
  let c := precompute (size p) in
  (groups_total c (N.ldiff (White p) (Standing p)), groups_total c (N.ldiff (Black p) (Standing p))).

Definition set_obj (objs : list obj) (i : nat) (o : obj) : list obj := set_nth objs i o.

(* p.analyze() on object i *)
Definition analyze_obj (st : store) (i : nat) : store :=
  match nth_error (s_objs st) i with
  | None => st
  | Some o =>
    let '(wgs, bgs) := analyze_total (o_pos o) in
    let w0 := {| r_arr := r_arr (o_wg o); r_off := r_off (o_wg o); r_len := 0 |} in          (* WhiteGroups[:0] *)
    let '(arrs1, w) := append_all (s_arrs st) w0 wgs in
    let b0 := {| r_arr := r_arr w; r_off := (r_off w + r_len w)%nat; r_len := 0 |} in          (* alloc[len:len:cap] *)
    let '(arrs2, b) := append_all arrs1 b0 bgs in
    {| s_objs := set_obj (s_objs st) i {| o_pos := o_pos o; o_own := o_own o; o_wg := w; o_bg := b |};
       s_arrs := arrs2 |}
  end.

Definition garr_len (p : position) : nat := (2 * N.to_nat (size p))%nat.

(* alloc(tpl): a new object with its own arrays; WhiteGroups = Groups[:0]; BlackGroups keeps pointing wherever the
   template's did (the struct copy `Position: *tpl`) *)
Definition alloc_obj (st : store) (p : position) (bg : sref) : store * nat :=
  let id := length (s_objs st) in
  let own := length (s_arrs st) in
  ({| s_objs := s_objs st ++ [{| o_pos := p; o_own := own; o_wg := {| r_arr := own; r_off := 0; r_len := 0 |}; o_bg := bg |}];
      s_arrs := s_arrs st ++ [repeat 0%N (garr_len p)] |}, id).

Definition set_pos (st : store) (i : nat) (q : position) : store :=
  match nth_error (s_objs st) i with
  | Some o => {| s_objs := set_obj (s_objs st) i {| o_pos := q; o_own := o_own o; o_wg := o_wg o; o_bg := o_bg o |}; s_arrs := s_arrs st |}
  | None => st
  end.

(* tak.New(cfg) after the defaults are filled in; tak.Alloc(size) *)
Definition new_pos (sz : N) (bwt : bool) (stones caps : N) : position :=
  {| size := sz; black_wins_ties := bwt; whiteStones := stones; whiteCaps := caps; blackStones := stones; blackCaps := caps;
     move := 0; White := 0; Black := 0; Standing := 0; Caps := 0;
     Height := repeat 0%N (N.to_nat (sz * sz)); Stacks := repeat 0%N (N.to_nat (sz * sz)); hash := fnvBasis |}.
Definition zero_pos (sz : N) : position :=
  {| size := sz; black_wins_ties := false; whiteStones := 0; whiteCaps := 0; blackStones := 0; blackCaps := 0;
     move := 0; White := 0; Black := 0; Standing := 0; Caps := 0;
     Height := repeat 0%N (N.to_nat (sz * sz)); Stacks := repeat 0%N (N.to_nat (sz * sz)); hash := 0 |}.

Inductive opr :=
| OInit (p : position)                          (* a position built elsewhere (FromSquares, a playout): alloc + fill + analyze *)
| ONew (sz : N) (bwt : bool) (stones caps : N)  (* tak.New: alloc of a template with nil slices; never analysed *)
| OAlloc (sz : N)                               (* tak.Alloc: an object that is only ever a buffer *)
| OMove (h : nat) (m : rmove)                   (* h.Move(m) *)
| OMovePre (h : nat) (m : rmove) (buf : nat)    (* h.MovePreallocated(m, buf) *)
| OClone (h : nat).

Section A.
Variable hsq : N -> N -> N -> N.             (* hash64(hash8(basis[i], height), stack) *)
Variable fixed_clone : bool.                 (* false = the pinned Clone (alloc only); true = alloc followed by analyze *)

(* the value part of MovePreallocated: the repaired function (origin bounds check); Pass succeeds and only bumps the ply *)
Definition amv (p : position) (m : rmove) : res position :=
  if (mT m =? 1)%N
  then Ok {| size := size p; black_wins_ties := black_wins_ties p; whiteStones := whiteStones p; whiteCaps := whiteCaps p;
             blackStones := blackStones p; blackCaps := blackCaps p; move := (move p + 1)%Z;
             White := White p; Black := Black p; Standing := Standing p; Caps := Caps p;
             Height := Height p; Stacks := Stacks p; hash := hash p |}
  else move_prealloc hsq true p m.

(* result: the new store and the handle produced (None = the call returned an error, or the operands do not exist) *)
Definition step (st : store) (o : opr) : store * option nat :=
  match o with
  | OInit p => let '(st1, id) := alloc_obj st p nil_ref in (analyze_obj st1 id, Some id)
  | ONew sz bwt stones caps => let '(st1, id) := alloc_obj st (new_pos sz bwt stones caps) nil_ref in (st1, Some id)
  | OAlloc sz => let '(st1, id) := alloc_obj st (zero_pos sz) nil_ref in (st1, Some id)
  | OMove h m =>
    match nth_error (s_objs st) h with
    | None => (st, None)
    | Some src =>
      let '(st1, id) := alloc_obj st (o_pos src) (o_bg src) in
      match amv (o_pos src) m with
      | Ok q => (analyze_obj (set_pos st1 id q) id, Some id)
      | _ => (st1, None)                 (* the allocated object is garbage, nobody holds it *)
      end
    end
  | OMovePre h m buf =>
    match nth_error (s_objs st) h, nth_error (s_objs st) buf with
    | Some src, Some b =>
      (* copyPosition: everything from src, except that Height/Stacks/WhiteGroups keep buf's storage; WhiteGroups = g[:0] *)
      let b1 := {| o_pos := o_pos src; o_own := o_own b;
                   o_wg := {| r_arr := r_arr (o_wg b); r_off := r_off (o_wg b); r_len := 0 |}; o_bg := o_bg src |} in
      let st1 := {| s_objs := set_obj (s_objs st) buf b1; s_arrs := s_arrs st |} in
      match amv (o_pos src) m with
      | Ok q => (analyze_obj (set_pos st1 buf q) buf, Some buf)
      | _ => (st1, None)
      end
    | _, _ => (st, None)
    end
  | OClone h =>
    match nth_error (s_objs st) h with
    | None => (st, None)
    | Some src => let '(st1, id) := alloc_obj st (o_pos src) (o_bg src) in
                  (if fixed_clone then analyze_obj st1 id else st1, Some id)
    end
  end.

Fixpoint run_from (st : store) (ops : list opr) : store :=
  match ops with [] => st | o :: t => run_from (fst (step st o)) t end.
Definition run (ops : list opr) : store := run_from empty_store ops.

(* GameOver() as the code computes it: roads from the group slices the object currently sees *)
Definition game_over_groups (p : position) (wg bg : list N) : bool * gcolor :=
  match has_road p wg bg with
  | Some c => (true, c)
  | None =>
    if negb (u8 (whiteStones p + whiteCaps p) =? 0)%N && negb (u8 (blackStones p + blackCaps p) =? 0)%N &&
       negb (N.lor (White p) (Black p) =? cMask (precompute (size p)))%N
    then (false, GNone) else (true, flats_winner p)
  end.

(* what a caller can see of a handle: the value (At, reserves, ply, Hash and the legal moves are functions of it),
   the two group slices through Analysis(), and GameOver() *)
Definition observation := (position * list N * list N * (bool * gcolor))%type.
Definition observe (st : store) (h : nat) : option observation :=
  match nth_error (s_objs st) h with
  | Some o => let wg := read_ref (s_arrs st) (o_wg o) in let bg := read_ref (s_arrs st) (o_bg o) in
              Some (o_pos o, wg, bg, game_over_groups (o_pos o) wg bg)
  | None => None
  end.

(* ---- the pure value model: positions are values ---- *)
Definition observe_pure (v : position) : observation :=
  let '(wg, bg) := analyze_total v in (v, wg, bg, game_over_groups v wg bg).

(* per object id: Some v = a live handle whose value is v; None = dead (a buffer, garbage of a failed move) *)
Definition pstate := list (option position).
Definition pval (ps : pstate) (h : nat) : option position := match nth_error ps h with Some (Some v) => Some v | _ => None end.

Definition pure_step (ps : pstate) (o : opr) : pstate :=
  match o with
  | OInit p => ps ++ [Some p]
  | ONew sz bwt stones caps => ps ++ [Some (new_pos sz bwt stones caps)]
  | OAlloc _ => ps ++ [None]
  | OMove h m =>
    match pval ps h with
    | Some v => ps ++ [match amv v m with Ok q => Some q | _ => None end]
    | None => ps
    end
  | OMovePre h m buf =>
    match pval ps h with
    | Some v => set_nth ps buf (match amv v m with Ok q => Some q | _ => None end)
    | None => ps
    end
  | OClone h =>
    match pval ps h with
    | Some v => ps ++ [Some v]
    | None => ps
    end
  end.
Fixpoint pure_run_from (ps : pstate) (ops : list opr) : pstate :=
  match ops with [] => ps | o :: t => pure_run_from (pure_step ps o) t end.
Definition pure_run (ops : list opr) : pstate := pure_run_from [] ops.

(* an operation is admissible when its source is a live handle and its buffer is an existing object other than
   the source (a buffer may be live, dead, or the source's own parent) *)
Definition op_ok (ps : pstate) (o : opr) : bool :=
  match o with
  | OInit _ | ONew _ _ _ _ | OAlloc _ => true
  | OMove h _ | OClone h => match pval ps h with Some _ => true | None => false end
  | OMovePre h _ buf => match pval ps h with Some _ => negb (Nat.eqb h buf) && (buf <? length ps)%nat | None => false end
  end.
Fixpoint ops_ok_from (ps : pstate) (ops : list opr) : bool :=
  match ops with [] => true | o :: t => op_ok ps o && ops_ok_from (pure_step ps o) t end.
Definition ops_ok (ops : list opr) : bool := ops_ok_from [] ops.
End A.
