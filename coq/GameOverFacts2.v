(* C02, part 2: what the bitboards say about the top of each abstract stack (from board_ok / sq_ok), and the
   consequences for whole-board quantities: flat counts = popcounts, board full = White|Black = Mask, reserves. *)
From Coq Require Import NArith ZArith Arith List Bool Lia ZifyN ZifyBool ZifyNat.
Require Import Board Masks Stack Rules Move GameOver Refine RefinePlace RefinePlace2 RefinePlace3
               Slide1 Slide2 Slide3 Slide4 Slide5 Slide6 GameOverFacts1.
Import ListNotations.

(* the invariant of C02: representation invariant of C01 (board_ok), no stray bits outside the board
   (PtnFileSafe.safe's sf_w / sf_b, preserved by the model of MovePreallocated), and reserves whose byte sum does not wrap *)
Record inv (p : position) : Prop := {
  inv_size : (3 <= size p <= 8)%N;
  inv_board : board_ok (size p) (bview p);
  inv_w : below (size p * size p) (White p);
  inv_b : below (size p * size p) (Move.Black p);
  inv_wres : (whiteStones p + whiteCaps p < 256)%N;
  inv_bres : (blackStones p + blackCaps p < 256)%N }.

Definition cword (p : position) (c : colour) : N := match c with Rules.White => White p | Rules.Black => Move.Black p end.
Definition road_bits (p : position) (c : colour) : N := N.ldiff (cword p c) (Standing p).
Definition flat_bits (p : position) (c : colour) : N := N.ldiff (cword p c) (N.lor (Standing p) (Caps p)).

(* ---- one square ---- *)
Lemma abs_stack_top p i : (i < 64)%N -> sq_ok (bview p) i ->
  match abs_stack p i with
  | [] => N.testbit (White p) i = false /\ N.testbit (Move.Black p) i = false
  | (c, k) :: _ =>
    N.testbit (White p) i = colour_eqb c Rules.White /\ N.testbit (Move.Black p) i = colour_eqb c Rules.Black /\
    N.testbit (Standing p) i = kind_eqb k Rules.Standing /\ N.testbit (Caps p) i = kind_eqb k Rules.Cap
  end.
Proof.
  intros Hi [_ Hocc Hex _ Hsc]. cbn [bview bhs bw bb bs bc] in *.
  rewrite !has_spec in * by exact Hi. unfold abs_stack. rewrite !has_spec by exact Hi.
  destruct (N.eqb_spec (nthN (Height p) i) 0) as [E|E].
  - apply Hocc. exact E.
  - assert (Hn : ~ (N.testbit (White p) i = false /\ N.testbit (Move.Black p) i = false)) by (intros H; apply E, Hocc, H).
    destruct (N.testbit (White p) i), (N.testbit (Move.Black p) i); cbn in Hex; try discriminate; try (exfalso; apply Hn; split; reflexivity);
    destruct (N.testbit (Standing p) i), (N.testbit (Caps p) i); cbn in Hsc; try discriminate; cbn; auto.
Qed.

Lemma road_top_bit p c i : (i < 64)%N -> sq_ok (bview p) i ->
  is_road_top c (abs_stack p i) <-> N.testbit (road_bits p c) i = true.
Proof.
  intros Hi Hok. assert (H := abs_stack_top p i Hi Hok). unfold road_bits. rewrite N.ldiff_spec.
  destruct (abs_stack p i) as [|[c' k] t]; cbn [is_road_top].
  - destruct H as [Hw Hb]. destruct c; cbn [cword]; rewrite ?Hw, ?Hb; cbn; (split; [tauto|discriminate]).
  - destruct H as (Hw & Hb & Hs & _). destruct c; cbn [cword]; rewrite ?Hw, ?Hb, Hs;
      destruct c', k; cbn; split; try tauto; try discriminate; try congruence.
Qed.

Lemma flat_top_bit p c i : (i < 64)%N -> sq_ok (bview p) i ->
  match abs_stack p i with (c', Flat) :: _ => colour_eqb c c' | _ => false end = N.testbit (flat_bits p c) i.
Proof.
  intros Hi Hok. assert (H := abs_stack_top p i Hi Hok). unfold flat_bits. rewrite N.ldiff_spec, N.lor_spec.
  destruct (abs_stack p i) as [|[c' k] t].
  - destruct H as [Hw Hb]. destruct c; cbn [cword]; rewrite ?Hw, ?Hb; reflexivity.
  - destruct H as (Hw & Hb & Hs & Hc). destruct c; cbn [cword]; rewrite ?Hw, ?Hb, Hs, Hc; destruct c', k; reflexivity.
Qed.

Lemma occupied_bit p i : (i < 64)%N -> sq_ok (bview p) i ->
  match abs_stack p i with [] => false | _ => true end = N.testbit (N.lor (White p) (Move.Black p)) i.
Proof.
  intros Hi Hok. assert (H := abs_stack_top p i Hi Hok). rewrite N.lor_spec.
  destruct (abs_stack p i) as [|[c' k] t].
  - destruct H as [-> ->]. reflexivity.
  - destruct H as (-> & -> & _). destruct c'; reflexivity.
Qed.

(* ---- the board ---- *)
Section Whole.
Variable p : position.
Hypothesis I : inv p.
Let s := size p.
Let nn := (N.to_nat s * N.to_nat s)%nat.

Lemma nn_eq : N.of_nat nn = (s * s)%N.
Proof. subst nn. lia. Qed.

Lemma sq_in i : (i < nn)%nat -> (N.of_nat i < 64)%N /\ sq_ok (bview p) (N.of_nat i).
Proof.
  intros Hi. destruct I as [Hs [_ _ Hsq] _ _ _ _]. fold s in Hs, Hsq.
  assert (N.of_nat i < s * s)%N by (subst nn; lia). split; [nia|auto].
Qed.

Lemma cword_below c : below (s * s) (cword p c).
Proof. destruct I as [_ _ Hw Hb _ _]. destruct c; assumption. Qed.

Lemma sq_abs : sq (abs p) = map (fun i => abs_stack p (N.of_nat i)) (seq 0 nn).
Proof. reflexivity. Qed.

(* (b) flat counts *)
Lemma flat_count_popcount c : popcount (flat_bits p c) = N.of_nat (flat_count (abs p) c).
Proof.
  assert (Hb : below (N.of_nat nn) (flat_bits p c)) by (rewrite nn_eq; apply below_ldiff, cword_below).
  rewrite (popcount_below nn _ Hb). f_equal. unfold flat_count, cntk. rewrite sq_abs, filter_map_length.
  apply filter_ext_in_length. intros i Hi. apply in_seq in Hi. destruct (sq_in i) as [L Hok]; [lia|].
  symmetry. now apply flat_top_bit.
Qed.

Lemma count_flats_correct :
  count_flats p = (N.of_nat (flat_count (abs p) Rules.White), N.of_nat (flat_count (abs p) Rules.Black)).
Proof. unfold count_flats. now rewrite <- !flat_count_popcount. Qed.

(* (c) full board *)
Lemma board_full_mask : (N.lor (White p) (Move.Black p) =? cMask (precompute s))%N = board_full (abs p).
Proof.
  destruct I as [Hs _ Hw Hb _ _]. fold s in Hs, Hw, Hb.
  assert (HM : forall i, N.testbit (cMask (precompute s)) i = (i <? s * s)%N).
  { intros i. destruct (N.ltb_spec i 64) as [L|L].
    - now destruct (precompute_masks s i Hs L) as (_ & _ & _ & _ & E).
    - destruct (masks_high s (in_sizes s Hs)) as [Hlt _].
      destruct (N.testbit (cMask (precompute s)) i) eqn:E; [apply (lt_below 64 _ Hlt) in E; lia|]. symmetry. apply N.ltb_ge. nia. }
  assert (Hlor : below (s * s) (N.lor (White p) (Move.Black p))) by now apply below_lor.
  unfold board_full. rewrite sq_abs.
  destruct (forallb _ _) eqn:F.
  - apply N.eqb_eq. rewrite forallb_forall in F.
    apply (below_eq (s * s)); [exact Hlor|intros i; rewrite HM; apply N.ltb_lt|].
    intros i Hi. rewrite HM. replace (i <? s * s)%N with true by lia.
    specialize (F (abs_stack p i)). destruct (sq_in (N.to_nat i)) as [L Hok]; [subst nn; lia|]. rewrite N2Nat.id in L, Hok.
    rewrite <- occupied_bit by assumption. apply F. apply in_map_iff. exists (N.to_nat i). rewrite N2Nat.id. split; [reflexivity|].
    apply in_seq. subst nn. lia.
  - apply N.eqb_neq. intros E.
    assert (F' : forallb (fun s0 : list piece => match s0 with [] => false | _ :: _ => true end)
                   (map (fun i : nat => abs_stack p (N.of_nat i)) (seq 0 nn)) = true); [|congruence].
    apply forallb_forall. intros st Hst. apply in_map_iff in Hst. destruct Hst as (i & <- & Hi). apply in_seq in Hi.
    destruct (sq_in i) as [L Hok]; [lia|]. rewrite occupied_bit by assumption. rewrite E, HM. apply N.ltb_lt. subst nn. lia.
Qed.

(* (d) reserves *)
Lemma reserves_out :
  ((u8 (whiteStones p + whiteCaps p) =? 0) || (u8 (blackStones p + blackCaps p) =? 0))%N = out_of_pieces (abs p).
Proof.
  destruct I as [_ _ _ _ Hw Hb]. unfold out_of_pieces, abs; cbn [wstones wcaps bstones bcaps].
  now rewrite !u8_sum_zero by assumption.
Qed.

(* the `not over` test of GameOver, in terms of the rules *)
Lemma continue_test :
  (negb (u8 (whiteStones p + whiteCaps p) =? 0) && negb (u8 (blackStones p + blackCaps p) =? 0) &&
   negb (N.lor (White p) (Move.Black p) =? cMask (precompute s)))%N = negb (board_full (abs p) || out_of_pieces (abs p)).
Proof.
  rewrite board_full_mask, <- reserves_out.
  destruct (u8 _ =? 0)%N, (u8 _ =? 0)%N, (board_full (abs p)); reflexivity.
Qed.
End Whole.
Print Assumptions count_flats_correct.
Print Assumptions continue_test.
