(* In-Coq differential of the bit-level model against the rules specification (a test, not a proof).
   Uses a toy per-square hash so that the 7e5 evaluations stay cheap; abs ignores the hash. *)
From Coq Require Import NArith ZArith List Bool Lia.
Require Import Board Rules Move Refine.
Import ListNotations.
Definition hsq (i h s : N) : N := (i * 1000003 + h * 10007 + s) mod 2^64.
Definition mv := move_prealloc hsq true.
Definition agree (p : position) (m : rmove) : bool :=
  match mv p m, rules_move (abs p) (raw m) with
  | Ok p', Some a => apos_eqb (abs p') a
  | Err, None => true
  | _, _ => false
  end.

(* a dense grid of raw moves *)
Definition coordsZ : list Z := [-128; -2; -1; 0; 1; 2; 3; 4; 5; 6; 8; 51; 127]%Z.
Definition types : list N := [0; 2; 3; 4; 5; 6; 7; 8; 9; 255]%N.
Definition slidesL : list N := [0; 1; 2; 3; 5; 17; 18; 33; 273; 257; 16; 4369; 34; 19; 49; 4096+1]%N.
Definition grid : list rmove :=
  flat_map (fun x => flat_map (fun y => flat_map (fun t => map (fun s => {| mX := x; mY := y; mT := t; mS := s |}) slidesL) types) coordsZ) coordsZ.

(* play a scripted line, checking agreement of every grid move at every position on the way *)
Fixpoint walk (p : position) (line : list rmove) : bool :=
  forallb (agree p) grid &&
  match line with
  | [] => true
  | m :: rest => match mv p m with Ok p' => agree p m && walk p' rest | _ => false end
  end.

Definition M t x y s := {| mX := x; mY := y; mT := t; mS := s |}.
Definition line5 : list rmove :=
  [M 2 0 0 0; M 2 4 4 0; M 2 1 0 0; M 6 0 0 1; M 4 2 2 0; M 3 1 1 0; M 8 2 2 1; M 2 0 0 0; M 5 2 1 1; M 5 1 0 2;
   M 2 3 3 0; M 4 2 0 0; M 2 1 0 0; M 7 0 0 273; M 2 0 0 0; M 8 0 3 1]%Z%N.

Time Eval vm_compute in length grid.
Time Eval vm_compute in walk (new 5 21 1) line5.
Time Eval vm_compute in walk (new 3 10 0) [M 2 0 0 0; M 2 2 2 0; M 2 1 0 0; M 6 0 0 1; M 5 2 2 1; M 7 1 0 2; M 3 0 0 0; M 8 1 1 1]%Z%N.

Fixpoint diag (k : nat) (p : position) (line : list rmove) : list (nat * rmove * bool) :=
  let bad := filter (fun m => negb (agree p m)) grid in
  match bad with
  | m :: _ => [(k, m, true)]
  | [] =>
    match line with
    | [] => []
    | m :: rest => match mv p m with Ok p' => diag (S k) p' rest | _ => [(k, m, false)] end
    end
  end.
Eval vm_compute in diag 0 (new 5 21 1) line5.

(* the pinned code (no bounds check) is refuted by the model: *)
Definition agree_pinned (p : position) (m : rmove) : bool :=
  match move_prealloc hsq false p m, rules_move (abs p) (raw m) with
  | Ok p', Some a => apos_eqb (abs p') a | Err, None => true | _, _ => false end.
Definition p2 := match mv (new 5 21 1) (M 2 0 0 0) with Ok q => match mv q (M 2 4 4 0) with Ok r => r | _ => new 5 21 1 end | _ => new 5 21 1 end.
Eval vm_compute in (agree_pinned p2 (M 2 (-1) 1 0)%Z, move_prealloc hsq false p2 (M 2 5 5 0)%Z).
