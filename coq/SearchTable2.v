(* SearchTable2.v: the TABLE CLAUSE of C05, part 2 - the two searches.  MakePrecise options (no null move, no slide reduction, no
   multi-cut), a table of ANY size and content satisfying tt_valid (SearchTable1.v), sorting on or off, the call cancelled inside
   ANY leaf evaluation or never.  For every node: the state afterwards satisfies TJ (= SJ and tt_valid) again - also when the
   search was cut short - and, when the flag was not yet set at return, the returned value r for the window (a, b) is right about
   forced results (vals_ok): above a it is a lower bound, below b an upper bound, so
      a < r, r >  WinThreshold  ->  a forced win exists            r < b, r <= WinThreshold  ->  no forced win within the depth
      r < b, r < -WinThreshold  ->  a forced loss exists           a < r, r >= -WinThreshold ->  no forced loss within the depth.
   Hypotheses: the position sets Pos d (searchable to depth d) are closed under accepted moves; hint moves lead where generated
   moves lead; live positions have a successor; the evaluation is beyond the threshold exactly on decided games, with the sign of
   the winner; NoCollision on Pos 0.  They are discharged for the instantiated model in SearchTable4.v. *)
From Coq Require Import NArith ZArith List Bool Lia Permutation.
Require Import Board Move GameOver Eval EvalSpec Search NegamaxSpec SearchGen SearchExact CancelFacts SearchLegal1 SearchLegal2 SearchTable1.
Import ListNotations.
Open Scope Z_scope.

Lemma canc_evals k s s' : evals s' = evals s -> cancelled k s' = cancelled k s.
Proof. intros E. unfold cancelled. rewrite E. reflexivity. Qed.

Section Tab.
Variable basis : list N.
Variable cfg : config.
Variable k : Z.
Let eval := c_eval cfg.

(* MakePrecise *)
Hypothesis Hnonull : c_nonull cfg = true.
Hypothesis Hnoreduce : c_noreduce cfg = true.
Hypothesis Hnomc : c_multicut cfg = false.

Variable Pos : nat -> position -> Prop.
Hypothesis Hanti : forall d p, Pos (S d) p -> Pos d p.
Hypothesis Hstep : forall d p m q, Pos (S d) p -> is_over p = false -> okm m -> try_move basis p m = Some q -> Pos d q.
Hypothesis Hhint : forall d p m q, Pos (S d) p -> is_over p = false -> okm m -> try_move basis p m = Some q -> In q (children basis p).
Hypothesis Hlive : forall d p, Pos (S d) p -> is_over p = false -> children basis p <> [].
Hypothesis Hbound : forall d p, Pos d p -> okv (eval p).
Hypothesis Hev_over : forall d p, Pos d p -> is_over p = true ->
  (WinThreshold < eval p <-> won p) /\ (eval p < - WinThreshold <-> lost p).
Hypothesis Hev_live : forall d p, Pos d p -> is_over p = false -> - WinThreshold <= eval p <= WinThreshold.
Hypothesis NoColl : forall p q, Pos 0%nat p -> Pos 0%nat q -> phash p = phash q -> cls_eq basis p q.

Notation TJ := (SearchTable1.TJ basis (Pos 0%nat)).
Notation Wany := (SearchTable1.Wany basis).
Notation Lany := (SearchTable1.Lany basis).
Notation W := (SearchTable1.W basis).
Notation L := (SearchTable1.L basis).
Notation vals_ok := (SearchTable1.vals_ok basis).

Lemma Pos_le d p : Pos d p -> forall d', (d' <= d)%nat -> Pos d' p.
Proof. intros H d' LE. induction LE; [exact H|]. apply IHLE. apply Hanti. exact H. Qed.
Lemma Pos_0 d p : Pos d p -> Pos 0%nat p.
Proof. intros H. apply (Pos_le d p H). lia. Qed.

Definition tv_ok (d : nat) (rec : rec_t) : Prop :=
  forall zw s p ply depth pv a b cut, (Z.to_nat depth <= d)%nat -> TJ s -> Pos (Z.to_nat depth) p -> okl pv -> win_ok zw a b ->
    let r := rec zw s p ply depth pv a b cut in
    TJ (fst r) /\ okl (fst (snd r)) /\ okv (snd (snd r)) /\
    (cancelled k (fst r) = false -> vals_ok p depth a (if zw then a + 1 else b) (snd (snd r))).

Lemma tv_ok_le d d' rec : tv_ok d rec -> (d' <= d)%nat -> tv_ok d' rec.
Proof. intros H LE zw s p ply depth pv a b cut Hd. apply H. lia. Qed.

(* a leaf: the evaluation itself *)
Lemma leaf_vals d p depth a b : Pos d p -> depth <= 0 \/ is_over p = true -> vals_ok p depth a b (eval p).
Proof.
  intros Hp HC. destruct (is_over p) eqn:EO.
  - destruct (Hev_over d p Hp EO) as (E1 & E2). unfold SearchTable1.vals_ok.
    split; [intros _ A; exists 0%nat; apply (proj2 (W_over basis 0 p EO)); apply E1; exact A|].
    split; [intros _ A; exists 0%nat; apply (proj2 (L_over basis 0 p EO)); apply E2; exact A|].
    split; [intros _ A HW; apply (proj1 (W_over basis _ p EO)) in HW; apply E1 in HW; lia|].
    intros _ A HL. apply (proj1 (L_over basis _ p EO)) in HL. apply E2 in HL. lia.
  - destruct HC as [HC|HC]; [|discriminate HC]. pose proof (Hev_live d p Hp EO) as B.
    unfold SearchTable1.vals_ok. replace (Z.to_nat depth) with 0%nat by lia.
    split; [intros _ A; lia|]. split; [intros _ A; lia|].
    split; [intros _ _; apply W_live0; exact EO|intros _ _; apply L_live0; exact EO].
Qed.

Section Node.
Variable rec : rec_t.
Variable d0 : nat.
Hypothesis Hrec : tv_ok d0 rec.
Variable p : position.
Hypothesis Hp : Pos (S d0) p.
Hypothesis Hover : is_over p = false.

Let len := Z.of_nat (length (all_moves p)).

Lemma kid m q dd : okm m -> try_move basis p m = Some q -> (Z.to_nat dd <= d0)%nat -> Pos (Z.to_nat dd) q.
Proof. intros Hm T LE. apply (Pos_le d0); [apply (Hstep d0 p m q); assumption|exact LE]. Qed.
Lemma kid_child m q : okm m -> try_move basis p m = Some q -> In q (children basis p).
Proof. intros Hm T. apply (Hhint d0 p m q); assumption. Qed.

Lemma gen_stepj f g seen s : GJ basis p seen g -> SJ s -> len + 6 - g_i g < Z.of_nat f ->
  stepj basis p seen g (mg_next false basis cfg f s g).
Proof. intros G (_ & R & _) F. exact (mg_next_stepj basis cfg p f g seen s G R F). Qed.
Lemma f700 g seen : GJ basis p seen g -> len + 6 - g_i g < Z.of_nat (gfuel g).
Proof. intros G. exact (gfuel_okj basis p seen g G). Qed.

(* the generator is exhausted: every legal successor has been searched *)
Lemma all_seen seen : (forall m q, In m (all_moves p) -> try_move basis p m = Some q -> In q seen) ->
  forall q, In q (children basis p) -> In q seen.
Proof.
  intros H q Hq. apply in_children in Hq. destruct Hq as (m & Hm & E). apply (H m q Hm).
  rewrite (try_ok basis p m (all_moves_okm p m Hm)), E. reflexivity.
Qed.
Lemma seen_nonempty seen : (forall m q, In m (all_moves p) -> try_move basis p m = Some q -> In q seen) -> seen <> [].
Proof.
  intros H E. pose proof (Hlive d0 p Hp Hover) as NE. destruct (children basis p) as [|q r] eqn:EC; [congruence|].
  assert (Hq : In q (children basis p)) by (rewrite EC; left; reflexivity).
  pose proof (all_seen seen H q Hq) as F. rewrite E in F. destruct F.
Qed.
Lemma gj_new s te pv ply depth : SJ s -> okl pv -> GJ basis p [] (new_gen s te pv ply depth p).
Proof. intros HS Hpv. apply GJ_new; [|exact Hpv]. intros i _. apply (SJ_te s i HS). Qed.

(* the verdict of a node none of whose successors beat alpha *)
Lemma exhausted_vals seen depth a :
  (forall m q, In m (all_moves p) -> try_move basis p m = Some q -> In q seen) ->
  (a < - WinThreshold -> forall q, In q seen -> Wany q) ->
  (a <= WinThreshold -> forall q, In q seen -> ~ L (Z.to_nat (depth - 1)) q) ->
  (a < - WinThreshold -> Lany p) /\ (a <= WinThreshold -> ~ W (Z.to_nat depth) p).
Proof.
  intros HA H1 H2. split.
  - intros A. apply Lany_live; [exact Hover|apply (Hlive d0 p Hp Hover)|]. intros q Hq. apply (H1 A). apply (all_seen seen HA q Hq).
  - intros A. apply notW_live; [exact Hover|]. intros q Hq. apply (H2 A). apply (all_seen seen HA q Hq).
Qed.

(* ---- the child loop of zwSearch ---- *)
Lemma zw_loop_tv ply depth a cut : MinEval - 1 <= a <= MaxEval -> 0 < depth -> (Z.to_nat (depth - 1) <= d0)%nat ->
  forall n s g i best seen,
  TJ s -> GJ basis p seen g -> okl best -> len + 6 - g_i g < Z.of_nat n -> (seen <> [] -> MinEval <= a) ->
  (a < - WinThreshold -> forall q, In q seen -> Wany q) ->
  (a <= WinThreshold -> forall q, In q seen -> ~ L (Z.to_nat (depth - 1)) q) ->
  let '(s', best', didcut, aborted) := zw_loop false basis cfg k rec n ply depth a cut s g i best in
  TJ s' /\ okl best' /\ (didcut = true -> a + 1 <= MaxEval) /\ (aborted = false -> didcut = false -> MinEval <= a) /\
  (aborted = true -> cancelled k s' = true) /\
  (cancelled k s' = false -> vals_ok p depth a (a + 1) (if didcut then a + 1 else a)).
Proof.
  intros Ha Hdp Hd. induction n; intros s g i best seen HS G HB HF HSEEN HW HL.
  { cbn [zw_loop]. pose proof (gen_stepj 0 g seen s G (proj1 HS) HF) as ST. cbn [mg_next stepj] in ST. destruct ST as (_ & ST).
    destruct (exhausted_vals seen depth a ST HW HL) as (X1 & X2).
    refine (conj HS (conj HB (conj _ (conj _ (conj _ _))))); [discriminate| |discriminate|].
    - intros _ _. apply HSEEN. apply seen_nonempty. exact ST.
    - intros _. unfold SearchTable1.vals_ok. split; [intros F; lia|]. split; [intros _; exact X1|]. split; [intros _; exact X2|intros F; lia]. }
  cbn [zw_loop].
  pose proof (gen_stepj (gfuel g) g seen s G (proj1 HS) (f700 g seen G)) as ST.
  destruct (mg_next false basis cfg (gfuel g) s g) as [g' [[m q]|]]; cbn [stepj] in ST.
  2:{ destruct ST as (_ & ST). destruct (exhausted_vals seen depth a ST HW HL) as (X1 & X2).
      refine (conj HS (conj HB (conj _ (conj _ (conj _ _))))); [discriminate| |discriminate|].
      - intros _ _. apply HSEEN. apply seen_nonempty. exact ST.
      - intros _. unfold SearchTable1.vals_ok. split; [intros F; lia|]. split; [intros _; exact X1|]. split; [intros _; exact X2|intros F; lia]. }
  destruct ST as (Hm & HT & G' & HLT & _).
  pose proof (kid_child m q Hm HT) as Hq.
  pose proof (Hrec true (set_fm s ply m) q (ply + 1) (depth - 1) (tl best) (- a - 1) 0 (negb cut) Hd (TJ_set_fm _ _ _ _ _ HS)
                (kid m q (depth - 1) Hm HT Hd) (okl_tl _ HB) ltac:(unfold win_ok; destruct minmax; lia)) as R.
  destruct (rec true (set_fm s ply m) q (ply + 1) (depth - 1) (tl best) (- a - 1) 0 (negb cut)) as [s1 [ms v]].
  cbn [fst snd] in R. destruct R as (HS1 & Hms & Hv & HV). unfold okv in Hv. destruct minmax as (MM & _).
  destruct (a <? - v) eqn:EC.
  - apply Z.ltb_lt in EC. split; [|split; [|split; [|split; [|split]]]].
    + apply TJ_set_fpv; [apply TJ_record_cut; assumption|].
      apply okl_set_prefix; [apply okl_frameJ; apply SJ_record_cut; [apply HS1|assumption]|constructor; assumption].
    + constructor; assumption.
    + intros _. lia.
    + intros _ F. discriminate F.
    + intros F. discriminate F.
    + intros NC. change (cancelled k s1 = false) in NC. destruct (HV NC) as (_ & V2 & V3 & _).
      unfold SearchTable1.vals_ok. split; [|split; [intros F; lia|split; [intros F; lia|]]].
      * intros _ A. apply (Wany_live basis p q Hover Hq). apply V2; lia.
      * intros _ A. apply (notL_live basis depth p q Hover Hq). apply V3; lia.
  - apply Z.ltb_ge in EC. destruct (cancelled k s1) eqn:EK.
    + refine (conj HS1 (conj HB (conj _ (conj _ (conj _ _))))); [discriminate|intros F; discriminate F|intros _; exact EK|].
      intros F. rewrite EK in F. discriminate F.
    + destruct (HV eq_refl) as (V1 & _ & _ & V4).
      apply (IHn s1 g' (i + 1) best (q :: seen)); auto; [lia|intros _; lia| |].
      * intros A q0 [<-|H0]; [apply V1; lia|apply HW; assumption].
      * intros A q0 [<-|H0]; [apply V4; lia|apply HL; assumption].
Qed.

(* ---- zwSearch from the child loop on ---- *)
Lemma zw_tail_tv s g seen ply depth a cut : TJ s -> GJ basis p seen g -> MinEval - 1 <= a <= MaxEval -> 0 < depth -> (Z.to_nat (depth - 1) <= d0)%nat ->
  let r := zw_tail false basis cfg k rec s g p ply depth a cut in
  TJ (fst r) /\ okl (fst (snd r)) /\ okv (snd (snd r)) /\ (cancelled k (fst r) = false -> vals_ok p depth a (a + 1) (snd (snd r))).
Proof.
  intros HS G Ha Hdp Hd. unfold zw_tail.
  pose proof (GJ_reset basis p seen g G) as G0.
  pose proof (zw_loop_tv ply depth a cut Ha Hdp Hd (gfuel (set_i g 0)) s (set_i g 0) 0 (firstn 1 (znth (fpv s) ply [])) [] HS G0
                (Forall_firstn _ _ _ (okl_frameJ s ply (proj1 HS))) (f700 _ _ G0) ltac:(intros F; contradiction)
                ltac:(intros _ q F; destruct F) ltac:(intros _ q F; destruct F)) as LP.
  destruct (zw_loop false basis cfg k rec (gfuel (set_i g 0)) ply depth a cut s (set_i g 0) 0 (firstn 1 (znth (fpv s) ply []))) as [[[s2 best] didcut] ab].
  destruct LP as (HS2 & HB2 & L1 & L2 & L3 & L4). destruct ab; cbn [fst snd].
  - split; [exact HS2|]. split; [constructor|]. split; [apply okv0|]. intros NC. rewrite (L3 eq_refl) in NC. discriminate NC.
  - split; [|split; [exact HB2|split]].
    + apply TJ_zw_store; [exact NoColl|exact HS2|apply (Pos_0 _ _ Hp)|exact HB2|exact Ha|apply L2; reflexivity|lia|exact L4].
    + unfold okv. destruct minmax. destruct didcut; [specialize (L1 eq_refl); lia|specialize (L2 eq_refl eq_refl); lia].
    + intros NC. rewrite (canc_evals k _ _ (zw_store_evals k s2 p depth best a didcut)) in NC. apply L4. exact NC.
Qed.

(* MakePrecise: zwSearch after the probe is the child loop *)
Lemma zw_node_precise s te ply depth pv a cut :
  zw_node false basis cfg k rec s te p ply depth pv a cut = zw_tail false basis cfg k rec s (new_gen s te pv ply depth p) p ply depth a cut.
Proof.
  unfold zw_node, null_move_ok. rewrite Hnonull. unfold zw_reduce, reduce_slide. rewrite Hnoreduce. cbn [negb andb].
  unfold zw_mc. rewrite Hnomc. cbn [andb]. reflexivity.
Qed.

(* ---- one child of pvSearch: what its value says, seen from the parent ---- *)
Definition child_claims (q : position) (depth a b v : Z) : Prop :=
  (a < - v -> (WinThreshold < - v -> Lany q) /\ (- WinThreshold <= - v -> ~ W (Z.to_nat (depth - 1)) q)) /\
  (- v < b -> (- v < - WinThreshold -> Wany q) /\ (- v <= WinThreshold -> ~ L (Z.to_nat (depth - 1)) q)).

Lemma pv_child_tv s m q ply depth best a b i : TJ s -> okm m -> try_move basis p m = Some q -> okl best ->
  MinEval - 1 <= a < b -> b <= MaxEval + 1 -> (Z.to_nat (depth - 1) <= d0)%nat ->
  let r := pv_child rec s q ply depth best a b i in
  TJ (fst r) /\ okl (fst (snd r)) /\ okv (snd (snd r)) /\ (cancelled k (fst r) = false -> child_claims q depth a b (snd (snd r))).
Proof.
  intros HS Hm HT HB Hab Hb Hd. pose proof (kid m q (depth - 1) Hm HT Hd) as Hq. destruct minmax as (MM & _).
  unfold pv_child.
  assert (RPV : forall s, TJ s -> let r := rec false s q (ply + 1) (depth - 1) (tl best) (- b) (- a) true in
            TJ (fst r) /\ okl (fst (snd r)) /\ okv (snd (snd r)) /\ (cancelled k (fst r) = false -> child_claims q depth a b (snd (snd r)))).
  { intros s' HS'. pose proof (Hrec false s' q (ply + 1) (depth - 1) (tl best) (- b) (- a) true Hd HS' Hq (okl_tl _ HB) ltac:(unfold win_ok; lia)) as R.
    cbv zeta in *. destruct R as (A & B & C & D). split; [exact A|]. split; [exact B|]. split; [exact C|].
    intros NC. destruct (D NC) as (V1 & V2 & V3 & V4). unfold child_claims.
    split; [intros X; split; intros Y; [apply V2; lia|apply V3; lia]|intros X; split; intros Y; [apply V1; lia|apply V4; lia]]. }
  destruct (1 <? i); [|apply RPV; exact HS].
  pose proof (Hrec true s q (ply + 1) (depth - 1) (tl best) (- a - 1) 0 true Hd HS Hq (okl_tl _ HB) ltac:(unfold win_ok; lia)) as R.
  destruct (rec true s q (ply + 1) (depth - 1) (tl best) (- a - 1) 0 true) as [s1 [ms v]].
  cbn [fst snd] in R. destruct R as (HS1 & Hms & Hv & HV).
  destruct ((a <? - v) && (- v <? b)) eqn:EW; [apply RPV; apply TJ_bump; exact HS1|].
  cbn [fst snd]. split; [exact HS1|]. split; [exact Hms|]. split; [exact Hv|].
  intros NC. destruct (HV NC) as (V1 & V2 & V3 & V4). apply andb_false_iff in EW. unfold child_claims.
  split; [intros X; split; intros Y; [apply V2; lia|apply V3; lia]|].
  intros X. assert (X' : - v <= a) by (destruct EW as [E|E]; [apply Z.ltb_ge in E; exact E|apply Z.ltb_ge in E; lia]).
  split; intros Y; [apply V1; lia|apply V4; lia].
Qed.

(* ---- the child loop of pvSearch ---- *)
Lemma pv_loop_tv ply depth a0 b : b <= MaxEval + 1 -> 0 < depth -> (Z.to_nat (depth - 1) <= d0)%nat ->
  forall n s g i best a improved seen,
  TJ s -> GJ basis p seen g -> okl best -> len + 6 - g_i g < Z.of_nat n ->
  MinEval - 1 <= a < b -> (seen <> [] -> MinEval <= a) ->
  (improved = true -> head_ok basis p best) -> (improved = false -> a = a0) ->
  (improved = true -> a0 < a /\ (WinThreshold < a -> Wany p) /\ (- WinThreshold <= a -> ~ L (Z.to_nat depth) p)) ->
  (a < - WinThreshold -> forall q, In q seen -> Wany q) ->
  (a <= WinThreshold -> forall q, In q seen -> ~ L (Z.to_nat (depth - 1)) q) ->
  let '(s', best', a', improved', aborted) := pv_loop false basis cfg k rec n ply depth b s g i best a improved in
  TJ s' /\ okl best' /\ (aborted = true -> cancelled k s' = true) /\
  (aborted = false -> okv a' /\ (improved' = true -> head_ok basis p best') /\ (improved' = false -> a' = a0)) /\
  (cancelled k s' = false -> (improved' = true -> a0 < a') /\ vals_ok p depth a0 b a').
Proof.
  intros Hb Hdp Hd. induction n; intros s g i best a improved seen HS G HB HF Hab HSEEN HIMP HNI HIV HW HL.
  assert (DONE : (forall m q, In m (all_moves p) -> try_move basis p m = Some q -> In q seen) ->
          okv a /\ ((improved = true -> a0 < a) /\ vals_ok p depth a0 b a)).
  { intros ST. assert (MinEval <= a) by (apply HSEEN; apply seen_nonempty; exact ST).
    destruct (exhausted_vals seen depth a ST HW HL) as (X1 & X2).
    split; [unfold okv; lia|]. split; [intros E; apply (HIV E)|].
    unfold SearchTable1.vals_ok. split; [|split; [intros _; exact X1|split; [intros _; exact X2|]]].
    - intros A. destruct improved; [apply (HIV eq_refl)|specialize (HNI eq_refl); lia].
    - intros A. destruct improved; [apply (HIV eq_refl)|specialize (HNI eq_refl); lia]. }
  { cbn [pv_loop]. pose proof (gen_stepj 0 g seen s G (proj1 HS) HF) as ST. cbn [mg_next stepj] in ST. destruct ST as (_ & ST).
    destruct (DONE ST) as (D1 & D2).
    refine (conj HS (conj HB (conj _ (conj _ _)))); [discriminate|intros _; auto|intros _; exact D2]. }
  assert (DONE : (forall m q, In m (all_moves p) -> try_move basis p m = Some q -> In q seen) ->
          okv a /\ ((improved = true -> a0 < a) /\ vals_ok p depth a0 b a)).
  { intros ST. assert (MinEval <= a) by (apply HSEEN; apply seen_nonempty; exact ST).
    destruct (exhausted_vals seen depth a ST HW HL) as (X1 & X2).
    split; [unfold okv; lia|]. split; [intros E; apply (HIV E)|].
    unfold SearchTable1.vals_ok. split; [|split; [intros _; exact X1|split; [intros _; exact X2|]]].
    - intros A. destruct improved; [apply (HIV eq_refl)|specialize (HNI eq_refl); lia].
    - intros A. destruct improved; [apply (HIV eq_refl)|specialize (HNI eq_refl); lia]. }
  cbn [pv_loop].
  pose proof (gen_stepj (gfuel g) g seen s G (proj1 HS) (f700 g seen G)) as ST.
  destruct (mg_next false basis cfg (gfuel g) s g) as [g' [[m q]|]]; cbn [stepj] in ST.
  2:{ destruct ST as (_ & ST). destruct (DONE ST) as (D1 & D2).
      refine (conj HS (conj HB (conj _ (conj _ _)))); [discriminate|intros _; auto|intros _; exact D2]. }
  clear DONE. destruct ST as (Hm & HT & G' & HLT & _).
  pose proof (kid_child m q Hm HT) as Hq.
  pose proof (pv_child_tv (set_fm s ply m) m q ply depth best a b (i + 1) (TJ_set_fm _ _ _ _ _ HS) Hm HT HB Hab Hb Hd) as R.
  destruct (pv_child rec (set_fm s ply m) q ply depth best a b (i + 1)) as [s1 [ms v]].
  cbn [fst snd] in R. destruct R as (HS1 & Hms & Hv & HV). unfold okv in Hv. destruct minmax as (MM & _).
  assert (A0 : a0 <= a) by (destruct improved; [destruct (HIV eq_refl); lia|specialize (HNI eq_refl); lia]).
  destruct (a <? - v) eqn:EA.
  - apply Z.ltb_lt in EA.
    assert (HB' : okl (m :: ms)) by (constructor; assumption).
    assert (HH : head_ok basis p (m :: ms)) by (exists m, ms, q; auto).
    assert (HS2 : TJ (set_fpv s1 ply (set_prefix (znth (fpv s1) ply []) (m :: ms)))).
    { apply TJ_set_fpv; [assumption|]. apply okl_set_prefix; [apply okl_frameJ; apply HS1|assumption]. }
    assert (NEW : cancelled k s1 = false -> a0 < - v /\ (WinThreshold < - v -> Wany p) /\ (- WinThreshold <= - v -> ~ L (Z.to_nat depth) p)).
    { intros NC. destruct (HV NC) as ((C1 & C2) & _); [exact EA|]. split; [lia|]. split.
      - intros A. apply (Wany_live basis p q Hover Hq). apply C1. exact A.
      - intros A. apply (notL_live basis depth p q Hover Hq). apply C2. exact A. }
    destruct (b <=? - v) eqn:EB.
    + apply Z.leb_le in EB.
      refine (conj (TJ_record_cut _ _ _ m _ _ _ HS2 Hm) (conj HB' (conj _ (conj _ _)))); [discriminate| |].
      * intros _. unfold okv. split; [lia|]. split; [intros _; exact HH|discriminate].
      * intros NC. change (cancelled k s1 = false) in NC. destruct (NEW NC) as (N1 & N2 & N3).
        split; [intros _; exact N1|]. unfold SearchTable1.vals_ok.
        split; [intros _; exact N2|]. split; [intros F; lia|]. split; [intros F; lia|intros _; exact N3].
    + apply Z.leb_gt in EB.
      destruct (cancelled k (set_fpv s1 ply (set_prefix (znth (fpv s1) ply []) (m :: ms)))) eqn:EK.
      * refine (conj HS2 (conj HB' (conj _ (conj _ _)))); [intros _; exact EK|discriminate|]. intros F. rewrite EK in F. discriminate F.
      * change (cancelled k s1 = false) in EK. destruct (HV EK) as (_ & C2). specialize (C2 EB). destruct C2 as (C3 & C4).
        apply (IHn _ g' (i + 1) (m :: ms) (- v) true (q :: seen)); auto; [lia|lia|intros _; lia|discriminate| |].
        -- intros A q0 [<-|H0]; [apply C3; exact A|apply HW; [lia|assumption]].
        -- intros A q0 [<-|H0]; [apply C4; exact A|apply HL; [lia|assumption]].
  - apply Z.ltb_ge in EA. destruct (cancelled k s1) eqn:EK.
    + refine (conj HS1 (conj HB (conj _ (conj _ _)))); [intros _; exact EK|discriminate|]. intros F. rewrite EK in F. discriminate F.
    + destruct (HV eq_refl) as (_ & C2). specialize (C2 ltac:(lia)). destruct C2 as (C3 & C4).
      apply (IHn s1 g' (i + 1) best a improved (q :: seen)); auto; [lia|intros _; lia| |].
      * intros A q0 [<-|H0]; [apply C3; lia|apply HW; assumption].
      * intros A q0 [<-|H0]; [apply C4; lia|apply HL; assumption].
Qed.

(* ---- pvSearch after the table probe ---- *)
Lemma pv_node_tv s te ply depth pv a b : TJ s -> okl pv -> MinEval - 1 <= a < b -> b <= MaxEval + 1 -> 0 < depth -> (Z.to_nat (depth - 1) <= d0)%nat ->
  let r := pv_node false basis cfg k rec s te p ply depth pv a b in
  TJ (fst r) /\ okl (fst (snd r)) /\ okv (snd (snd r)) /\ (cancelled k (fst r) = false -> vals_ok p depth a b (snd (snd r))).
Proof.
  intros HS Hpv Hab Hb Hdp Hd. unfold pv_node.
  set (best0 := match pv with [] => firstn 1 (znth (fpv s) ply []) | _ :: _ => pv end).
  assert (HB0 : okl best0) by (subst best0; destruct pv; [apply Forall_firstn; apply okl_frameJ; apply HS|assumption]).
  set (s2 := set_fpv s ply (set_prefix (znth (fpv s) ply []) best0)).
  assert (HS2 : TJ s2) by (apply TJ_set_fpv; [assumption|apply okl_set_prefix; [apply okl_frameJ; apply HS|assumption]]).
  pose proof (gj_new s te pv ply depth (proj1 HS) Hpv) as G0.
  pose proof (pv_loop_tv ply depth a b Hb Hdp Hd (gfuel (new_gen s te pv ply depth p)) s2 (new_gen s te pv ply depth p) 0 best0 a false [] HS2 G0 HB0 (f700 _ _ G0) Hab
                ltac:(intros F; contradiction) ltac:(discriminate) ltac:(reflexivity) ltac:(discriminate)
                ltac:(intros _ q F; destruct F) ltac:(intros _ q F; destruct F)) as LP.
  destruct (pv_loop false basis cfg k rec (gfuel (new_gen s te pv ply depth p)) ply depth b s2 (new_gen s te pv ply depth p) 0 best0 a false) as [[[[s3 best] a'] improved] ab].
  destruct LP as (HS3 & HB3 & L1 & L2 & L3). destruct ab; cbn [fst snd].
  - split; [exact HS3|]. split; [constructor|]. split; [apply okv0|]. intros NC. rewrite (L1 eq_refl) in NC. discriminate NC.
  - destruct (L2 eq_refl) as (V & H1 & H2).
    split; [|split; [exact HB3|split; [exact V|]]].
    + apply (TJ_pv_store basis (Pos 0%nat) NoColl k s3 p depth best a a' b improved); [exact HS3|apply (Pos_0 _ _ Hp)|exact HB3|exact V|lia|lia|].
      intros NC. destruct (L3 NC) as (X1 & X2). split; [exact H2|]. split; assumption.
    + intros NC. rewrite (canc_evals k _ _ (pv_store_evals k s3 p depth best a' b improved)) in NC. apply (L3 NC).
Qed.
End Node.

(* ---- one node ---- *)
Lemma srch_step_tv_0 rec : tv_ok 0 (srch_step false basis cfg k rec).
Proof.
  intros zw s p ply depth pv a b cut Hd HS Hp Hpv _. cbv zeta. unfold srch_step.
  replace (depth <=? 0) with true by (symmetry; apply Z.leb_le; lia). cbn [orb fst snd].
  split; [apply TJ_count_eval; apply TJ_bump; exact HS|]. split; [constructor|]. split; [apply (Hbound _ p Hp)|].
  intros _. apply (leaf_vals _ p depth _ _ Hp). left. lia.
Qed.

Lemma srch_step_tv d rec : tv_ok d rec -> tv_ok (S d) (srch_step false basis cfg k rec).
Proof.
  intros Hrec zw s p ply depth pv a b cut Hd HS Hp Hpv (Ha & Hw). cbv zeta. unfold srch_step.
  destruct ((depth <=? 0) || is_over p) eqn:EL.
  { cbn [fst snd]. split; [apply TJ_count_eval; apply TJ_bump; exact HS|]. split; [constructor|]. split; [apply (Hbound _ p Hp)|].
    intros _. apply (leaf_vals _ p depth _ _ Hp). apply orb_true_iff in EL. destruct EL as [E|E]; [left; apply Z.leb_le; exact E|right; exact E]. }
  apply orb_false_iff in EL. destruct EL as (ED & EO). apply Z.leb_gt in ED.
  assert (Hp' : Pos (S (Z.to_nat (depth - 1))) p) by (replace (S (Z.to_nat (depth - 1))) with (Z.to_nat depth) by lia; exact Hp).
  assert (Hrec' : tv_ok (Z.to_nat (depth - 1)) rec) by (apply (tv_ok_le d); [exact Hrec|lia]).
  match goal with |- context [tt_probe basis ?s1 p ply depth a ?bb] =>
    assert (HS1 : TJ s1) by (apply TJ_bump; exact HS);
    pose proof (tt_probe_vals basis (Pos 0%nat) NoColl s1 p ply depth a bb HS1 (Pos_0 _ _ Hp) EO ltac:(destruct zw; lia)) as TP;
    destruct (tt_probe basis s1 p ply depth a bb) as [[s2 te] ret] end.
  destruct TP as (HS2 & EV & TR). destruct ret as [[pv' v]|].
  { cbn [fst snd]. destruct TR as (A & B & _ & D). split; [exact HS2|]. split; [exact A|]. split; [exact B|]. intros _. exact D. }
  destruct zw.
  - rewrite (zw_node_precise rec p).
    apply (zw_tail_tv rec (Z.to_nat (depth - 1)) Hrec' p Hp' EO s2 _ []); [exact HS2|apply gj_new; [apply HS2|exact Hpv]|lia|lia|lia].
  - destruct Hw as (Hab & Hb).
    apply (pv_node_tv rec (Z.to_nat (depth - 1)) Hrec' p Hp' EO); [exact HS2|exact Hpv|lia|exact Hb|lia|lia].
Qed.

Lemma srch_tv : forall f d, (d < f)%nat -> tv_ok d (srch false basis cfg k f).
Proof.
  induction f; intros d Hd; [lia|]. cbn [srch]. destruct d as [|d'].
  - apply srch_step_tv_0.
  - apply srch_step_tv. apply IHf. lia.
Qed.
End Tab.
