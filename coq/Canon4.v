(* C15, layer 4: canonical_legal_images for the code, by instantiating the generic theorem of Canon3.v with C01's invariant pos_ok
   and its preservation theorems (Preserve*.v, Reach1.v):
   - canonical_legal_images   : sizes 3..6 (at most 64 pieces in the game: no stack can outgrow the 64-bit stack word) - no hypothesis
                                about the boards at all, only NoCollision;
   - canonical_legal_images64 : sizes 3..8, with the exact representation limit (no stack above 64) on the boards the loop produces. *)
From Coq Require Import NArith ZArith Arith List Bool Lia ZifyN ZifyBool ZifyNat.
Require Import Rules Sym SymRules1 SymRules2 SymRules3 SymRules4.
Require Import Board Stack Move GameOver Tps Symmetry CanonFacts Refine Slide2 Slide6 Slide8 MoveRefines SymCode1 Canon1 Canon2 Canon3.
Require Import Alloc Preserve1 Preserve5 Preserve6 Reach1.
Require Import Generated.Consts.
Import ListNotations.
Close Scope Z_scope. Close Scope N_scope.

Lemma cmv_pass_err p m : mT m = 1%N -> cmv p m = Err.
Proof. intros E. unfold mvp, move_prealloc. rewrite E. rewrite andb_false_r. reflexivity. Qed.

Lemma cmv_not_pass p m q : cmv p m = Ok q -> mT m <> 1%N.
Proof. intros H E. rewrite (cmv_pass_err p m E) in H. discriminate. Qed.

(* the start position of Canonical satisfies C01's invariant; its piece count *)
Definition start_total (sz : N) : N := (2 * (nth (N.to_nat sz) gen_defaultPieces 0 + nth (N.to_nat sz) gen_defaultCaps 0))%N.

Lemma start_pos_ok sz : (3 <= sz <= 8)%N ->
  pos_ok (Symmetry.new_pos gen_basis sz) /\ total (Symmetry.new_pos gen_basis sz) = start_total sz.
Proof.
  intros H. assert (Hin : In sz [3; 4; 5; 6; 7; 8]%N) by (cbn; lia).
  unfold Symmetry.new_pos. rewrite (from_squares_empty_is_new sz Hin).
  assert (Hb : (nth (N.to_nat sz) gen_defaultPieces 0 < 256 /\ nth (N.to_nat sz) gen_defaultCaps 0 < 256)%N).
  { cbn [In] in Hin. repeat (destruct Hin as [<-|Hin]; [vm_compute; split; reflexivity|]). destruct Hin. }
  destruct (new_ok sz false _ _ H (proj1 Hb) (proj2 Hb)) as (A & _ & C). split; [exact A|exact C].
Qed.

Lemma start_total_small sz : (3 <= sz <= 6)%N -> (start_total sz <= 64)%N.
Proof.
  intros H. assert (Hc : (sz = 3 \/ sz = 4 \/ sz = 5 \/ sz = 6)%N) by lia.
  destruct Hc as [->|[->|[->| ->]]]; vm_compute; discriminate.
Qed.

(* ---------- at most 64 pieces ---------- *)
Definition bi_small (p : position) : Prop := pos_ok p /\ (total p <= 64)%N.

Lemma bi_small_move p m q : bi_small p -> cmv p m = Ok q -> True -> rules_move (abs p) (raw m) = Some (abs q) /\ bi_small q.
Proof.
  intros [Hp Ht] H _. destruct (move_preserves_small p m q Hp Ht (cmv_not_pass p m q H) H) as (R1 & R2 & R3).
  split; [exact R1|]. split; [exact R2|]. rewrite (st_total _ _ R3). exact Ht.
Qed.

Theorem canonical_legal_images : forall sz, (3 <= sz <= 6)%N -> forall ms cs,
  Forall canon_input ms -> nocoll_trace sz ms -> canonical gen_basis sz ms = Ok cs ->
  length cs = length ms /\ forall k, k <= length ms -> images_at sz ms cs k.
Proof.
  intros sz Hsz ms cs Hin Hnc H. assert (Hsz8 : (3 <= sz <= 8)%N) by lia.
  apply (canonical_legal_images_gen sz Hsz8 bi_small (fun _ => True) bi_small_move); try assumption.
  - destruct (start_pos_ok sz Hsz8) as [A B]. split; [exact A|]. rewrite B. now apply start_total_small.
  - intros k st _ _ b _. exact I.
Qed.
Print Assumptions canonical_legal_images.

(* ---------- any size, exact limit ---------- *)
Lemma pos_ok_move p m q : pos_ok p -> cmv p m = Ok q -> heights64 q -> rules_move (abs p) (raw m) = Some (abs q) /\ pos_ok q.
Proof.
  intros Hp H Hh. assert (R := move_exact p m Hp (cmv_not_pass p m q H)). change (mv p m) with (cmv p m) in R. rewrite H in R.
  destruct R as (s & R1 & _ & _ & R4). destruct (R4 Hh) as [-> R5]. split; assumption.
Qed.

Theorem canonical_legal_images64 : forall sz, (3 <= sz <= 8)%N -> forall ms cs,
  Forall canon_input ms -> nocoll_trace sz ms -> sc_trace sz heights64 ms -> canonical gen_basis sz ms = Ok cs ->
  length cs = length ms /\ forall k, k <= length ms -> images_at sz ms cs k.
Proof.
  intros sz Hsz ms cs Hin Hnc Hsc H.
  apply (canonical_legal_images_gen sz Hsz pos_ok heights64 pos_ok_move); try assumption.
  apply (start_pos_ok sz Hsz).
Qed.
Print Assumptions canonical_legal_images64.
