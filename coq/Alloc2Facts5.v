(* C09, refined model, part 5: every admissible operation preserves the invariant; the two theorems. *)
From Coq Require Import NArith ZArith List Bool Lia Arith.
Require Import Board Move GameOver Alloc AllocFacts AllocFacts2 Alloc2 Alloc2Facts Alloc2Facts2 Alloc2Ext Alloc2Facts3 Alloc2Facts4.
Import ListNotations.

Definition inv2z (st : store2) (ps : pstate) (zs : list N) : Prop :=
  inv2 st ps zs /\ Forall (fun z => size_ok z = true) zs.

(* an object whose Height/Stacks arrays were written by a move that failed: nothing else changed *)
Lemma garbage_facts st zs k ok arrs2 : wf2 st zs -> nth_error (s2_objs st) k = Some ok ->
  keeps (s2_arrs st) arrs2 (fun a => a = o2_H ok \/ a = o2_S ok) ->
  wf2 {| s2_objs := s2_objs st; s2_arrs := arrs2 |} zs /\
  (forall h v, h <> k -> shows2 st zs h v -> shows2 {| s2_objs := s2_objs st; s2_arrs := arrs2 |} zs h v).
Proof.
  intros W Hk K. pose proof W as (_ & _ & AW & _).
  pose proof (AW k ok Hk) as (_ & _ & _ & _ & _ & _ & _ & _ & P9 & _).
  destruct (update_facts st zs k ok ok arrs2 W Hk eq_refl eq_refl eq_refl eq_refl eq_refl (or_introl eq_refl)) as (W1 & _ & S1).
  { eapply keeps_valid; [exact K|exact P9]. }
  { eapply keeps_weaken; [exact K|]. intros x _ [E|E]; unfold owned_by; auto. }
  unfold set_obj2 in W1, S1. rewrite (set_nth_same _ _ _ Hk) in W1, S1. split; assumption.
Qed.

Lemma valid_nil arrs : (0 < length arrs)%nat -> valid arrs nil_ref.
Proof. intro H. split; cbn; lia. Qed.

Lemma nth_snoc_old {A} (l : list A) x d i : (i < length l)%nat -> nth i (l ++ [x]) d = nth i l d.
Proof. intro H. apply app_nth1. exact H. Qed.
Lemma nth_snoc_new {A} (l : list A) x d : nth (length l) (l ++ [x]) d = x.
Proof. rewrite app_nth2, Nat.sub_diag by lia. reflexivity. Qed.
Lemma nth_error_snoc_new {A} (l : list A) x : nth_error (l ++ [x]) (length l) = Some x.
Proof. rewrite nth_error_app2, Nat.sub_diag by lia. reflexivity. Qed.

Lemma Forall_nth_ok zs i : Forall (fun z => size_ok z = true) zs -> (i < length zs)%nat -> size_ok (nth i zs 0%N) = true.
Proof. intros F Hi. rewrite Forall_forall in F. apply F. apply nth_In. exact Hi. Qed.

Section S.
Variable hsq : N -> N -> N -> N.

(* what a live source provides to alloc / copyPosition / the move *)
Lemma live_src st zs h v : wf2 st zs -> shows2 st zs h v ->
  exists src, nth_error (s2_objs st) h = Some src /\
    valid (s2_arrs st) (o2_hh src) /\ valid (s2_arrs st) (o2_sh src) /\
    r_len (o2_hh src) = nsq2 (size v) /\ r_len (o2_sh src) = nsq2 (size v) /\
    read_ref (s2_arrs st) (o2_hh src) = Height v /\ read_ref (s2_arrs st) (o2_sh src) = Stacks v /\
    size (o2_sc src) = size v /\ with_hs (o2_sc src) (Height v) (Stacks v) = v /\ (h < length zs)%nat.
Proof.
  intros (A0 & AL & AW & AJ) (o & Ho & Ev & Ez & _). exists o. split; [exact Ho|].
  destruct (wf_obj_hh_valid _ _ _ (AW h o Ho)) as (Vhh & Vsh & _ & _ & Lh & Ls).
  rewrite <- Ez in Lh, Ls.
  split; [exact Vhh|]. split; [exact Vsh|]. split; [exact Lh|]. split; [exact Ls|].
  rewrite <- Ev. unfold view. cbn [Height Stacks size with_hs].
  repeat split; try reflexivity. rewrite <- AL. eapply nth_error_lt. exact Ho.
Qed.

Theorem step2_inv st ps zs o : inv2z st ps zs -> op_ok2 ps zs o = true ->
  inv2z (fst (step2 hsq st o)) (pure_step hsq ps o) (zstep ps zs o).
Proof.
  intros [(L & W & V) FZ] Hok. pose proof W as (A0 & AL & AW & AJ).
  unfold op_ok2 in Hok. apply andb_true_iff in Hok. destruct Hok as [Hok Hok2].
  destruct o as [p|sz bwt stones caps|sz|h m|h m buf|h]; cbn [Alloc2.step2 Alloc.pure_step op_ok zstep] in *.
  - (* OInit *)
    apply andb_true_iff in Hok2. destruct Hok2 as [Hok2 HlS]. apply andb_true_iff in Hok2. destruct Hok2 as [Hsz HlH].
    apply Nat.eqb_eq in HlH, HlS.
    destruct (alloc2_facts st zs (scal p) nil_ref nil_ref nil_ref W Hsz (valid_nil _ A0) (valid_nil _ A0))
      as (arrs1 & Eal & W1 & K1 & _ & _ & _ & _ & S1).
    cbn zeta in Eal, W1, S1. cbn [scal with_hs size] in Eal, W1, S1. rewrite Eal.
    set (a := length (s2_arrs st)) in *. set (n := nsq2 (size p)) in *.
    set (onew := {| o2_sc := scal p; o2_H := a; o2_S := S a; o2_G := S (S a); o2_hh := hdr_of a n; o2_sh := hdr_of (S a) n;
                    o2_wg := {| r_arr := S (S a); r_off := 0; r_len := 0 |}; o2_bg := nil_ref |}) in *.
    set (st1 := {| s2_objs := s2_objs st ++ [onew]; s2_arrs := arrs1 |}) in *.
    assert (Hk : nth_error (s2_objs st1) (length (s2_objs st)) = Some onew) by apply nth_error_snoc_new.
    rewrite Hk. cbn [fst].
    pose proof W1 as (_ & _ & AW1 & _).
    destruct (wf_obj_hh_valid _ _ _ (AW1 _ _ Hk)) as (Vhh & Vsh & _).
    destruct (fill_hdr_spec (s2_arrs st1) (o2_hh onew) (Height p) Vhh) as (KF1 & LF1 & _).
    set (arrsF1 := fill_hdr (s2_arrs st1) (o2_hh onew) (Height p)) in *.
    assert (Vsh' : valid arrsF1 (o2_sh onew)) by (eapply keeps_valid; eassumption).
    assert (Vhh' : valid arrsF1 (o2_hh onew)) by (eapply keeps_valid; eassumption).
    destruct (fill_hdr_spec arrsF1 (o2_sh onew) (Stacks p) Vsh') as (KF2 & LF2 & _).
    set (arrsF2 := fill_hdr arrsF1 (o2_sh onew) (Stacks p)) in *.
    assert (KF : keeps (s2_arrs st1) arrsF2 (fun x => x = o2_H onew \/ x = o2_S onew)).
    { eapply keeps_trans; eapply keeps_weaken; [exact KF1| |exact KF2|]; intros x _ <-; cbn; auto. }
    assert (Rh : read_ref arrsF2 (o2_hh onew) = Height p).
    { rewrite (keeps_read _ _ _ _ KF2 Vhh') by (cbn; lia). apply fill_hdr_full; [exact Vhh|exact HlH]. }
    assert (Rs : read_ref arrsF2 (o2_sh onew) = Stacks p).
    { apply fill_hdr_full; [exact Vsh'|exact HlS]. }
    rewrite <- (set_sc2_same st1 _ onew arrsF2 Hk).
    destruct (tail_facts st1 (zs ++ [size p]) _ onew (o2_sc onew) arrsF2 p W1 Hk KF) as (W2 & L2 & Sk & So).
    { rewrite Rh, Rs. cbn [o2_sc onew]. rewrite with_hs_scal. apply with_hs_id. }
    { rewrite AL. symmetry. apply nth_snoc_new. }
    split; [|apply Forall_app; split; [exact FZ|constructor; [exact Hsz|constructor]]].
    split; [rewrite L2; cbn; rewrite !app_length; cbn; lia|]. split; [exact W2|].
    intros h v Hp. destruct (pval_app_inv _ _ _ _ Hp) as [[Hlt Hp']|[-> E]].
    + apply So; [lia|]. apply S1. apply V. exact Hp'.
    + injection E as <-. rewrite <- L. exact Sk.
  - (* ONew *)
    destruct (alloc2_facts st zs (scal (new_pos sz bwt stones caps)) nil_ref nil_ref nil_ref W Hok2 (valid_nil _ A0) (valid_nil _ A0))
      as (arrs1 & Eal & W1 & K1 & _ & Rh & _ & Rs & S1).
    cbn zeta in Eal, W1, S1, Rh, Rs. cbn [scal with_hs size new_pos] in Eal, W1, S1, Rh, Rs. rewrite Eal. cbn [fst].
    split; [|apply Forall_app; split; [exact FZ|constructor; [exact Hok2|constructor]]].
    split; [cbn; rewrite !app_length; cbn; lia|]. split; [exact W1|].
    intros h v Hp. destruct (pval_app_inv _ _ _ _ Hp) as [[Hlt Hp']|[-> E]].
    + apply S1. apply V. exact Hp'.
    + injection E as <-. rewrite <- L.
      eexists. split; [cbn [s2_objs]; apply nth_error_snoc_new|]. cbn [s2_arrs o2_wg o2_bg].
      split; [unfold view; cbn [o2_sc o2_hh o2_sh]; rewrite (Rh eq_refl), (Rs eq_refl); reflexivity|].
      split; [cbn [size new_pos]; rewrite AL; symmetry; apply nth_snoc_new|].
      split; [eapply keeps_valid; [exact K1|apply valid_nil; exact A0]|].
      split; [reflexivity|]. split; [reflexivity|]. right.
      intros j oj Hj Oj. pose proof W1 as (_ & _ & AW1 & _).
      pose proof (AW1 j oj Hj) as (Q1 & Q2 & Q3 & _ & _ & _ & _ & _ & _ & Q10 & _).
      cbn [nil_ref r_arr] in Oj. destruct Oj as [E|[E|[E|E]]]; lia.
  - (* OAlloc *)
    destruct (alloc2_facts st zs (scal (zero_pos sz)) nil_ref nil_ref nil_ref W Hok2 (valid_nil _ A0) (valid_nil _ A0))
      as (arrs1 & Eal & W1 & K1 & _ & _ & _ & _ & S1).
    cbn zeta in Eal, W1, S1. cbn [scal with_hs size zero_pos] in Eal, W1, S1. rewrite Eal. cbn [fst].
    split; [|apply Forall_app; split; [exact FZ|constructor; [exact Hok2|constructor]]].
    split; [cbn; rewrite !app_length; cbn; lia|]. split; [exact W1|].
    intros h v Hp. destruct (pval_app_inv _ _ _ _ Hp) as [[Hlt Hp']|[-> E]]; [|discriminate].
    apply S1. apply V. exact Hp'.
  - (* OMove *)
    destruct (pval ps h) as [v|] eqn:Ev; [|discriminate].
    destruct (live_src st zs h v W (V h v Ev)) as (src & Hsrc & Vhs & Vss & Lhs & Lss & Rhs & Rss & Esz & Evv & Hltz).
    rewrite Hsrc.
    assert (Hsz : size_ok (size (o2_sc src)) = true).
    { rewrite Esz. destruct (V h v Ev) as (o & _ & _ & Ez & _). rewrite Ez. apply Forall_nth_ok; assumption. }
    destruct (alloc2_facts st zs (o2_sc src) (o2_hh src) (o2_sh src) (o2_bg src) W Hsz Vhs Vss)
      as (arrs1 & Eal & W1 & K1 & Rh & _ & Rs & _ & S1).
    cbn zeta in Eal, W1, S1, Rh, Rs. rewrite Esz in *. rewrite Eal.
    set (a := length (s2_arrs st)) in *. set (n := nsq2 (size v)) in *.
    set (nx := {| o2_sc := o2_sc src; o2_H := a; o2_S := S a; o2_G := S (S a); o2_hh := hdr_of a n; o2_sh := hdr_of (S a) n;
                  o2_wg := {| r_arr := S (S a); r_off := 0; r_len := 0 |}; o2_bg := o2_bg src |}) in *.
    set (st1 := {| s2_objs := s2_objs st ++ [nx]; s2_arrs := arrs1 |}) in *.
    assert (Hk : nth_error (s2_objs st1) (length (s2_objs st)) = Some nx) by apply nth_error_snoc_new.
    rewrite Hk. cbn [s2_arrs st1 o2_hh o2_sh nx].
    pose proof W1 as (_ & _ & AW1 & _).
    destruct (wf_obj_hh_valid _ _ _ (AW1 _ _ Hk)) as (Vhh & Vsh & _). cbn [s2_arrs st1 o2_hh o2_sh nx] in Vhh, Vsh.
    rewrite <- (mip_ext hsq arrs1 (o2_sc src) (Height v) (Stacks v)), Evv.
    assert (Hne : r_arr (hdr_of a n) <> r_arr (hdr_of (S a) n)) by (cbn; lia).
    assert (RD : reads (hdr_of a n) (hdr_of (S a) n) arrs1 (Height v) (Stacks v)).
    { split; [exact Vhh|]. split; [exact Vsh|]. rewrite (Rh Lhs), (Rs Lss). split; assumption. }
    pose proof (mip_sim hsq _ _ Hne arrs1 v (o2_hh src) (o2_sh src) m) as SIM.
    specialize (SIM (keeps_valid _ _ _ _ K1 Vhs) (keeps_valid _ _ _ _ K1 Vss)).
    rewrite (keeps_read _ _ _ _ K1 Vhs), (keeps_read _ _ _ _ K1 Vss) in SIM by (intros []).
    specialize (SIM Rhs Rss RD).
    destruct (move_in_place hsq arrs1 v (o2_hh src) (o2_sh src) (hdr_of a n) (hdr_of (S a) n) m) as [arrs2 r2].
    cbn [fst snd] in SIM. destruct SIM as (K2 & L2 & SIM).
    assert (K2' : keeps (s2_arrs st1) arrs2 (fun x => x = o2_H nx \/ x = o2_S nx)) by exact K2.
    assert (FZ' : Forall (fun z => size_ok z = true) (zs ++ [size v])).
    { apply Forall_app; split; [exact FZ|constructor; [exact Hsz|constructor]]. }
    destruct (amv hsq v m) as [q| |].
    + destruct SIM as (sc' & -> & (_ & _ & F1 & F2) & Eq & Ezq). cbn [fst].
      destruct (tail_facts st1 (zs ++ [size v]) _ nx sc' arrs2 q W1 Hk K2') as (W2 & L3 & Sk & So).
      { cbn [o2_hh o2_sh nx]. rewrite F1, F2. exact Eq. }
      { rewrite Ezq, AL. symmetry. apply nth_snoc_new. }
      split; [|exact FZ'].
      split; [rewrite L3; cbn; rewrite !app_length; cbn; lia|]. split; [exact W2|].
      intros h' v' Hp. destruct (pval_app_inv _ _ _ _ Hp) as [[Hlt Hp']|[-> E]].
      * apply So; [lia|]. apply S1. apply V. exact Hp'.
      * injection E as <-. rewrite <- L. exact Sk.
    + subst r2. cbn [fst]. destruct (garbage_facts st1 _ _ nx arrs2 W1 Hk K2') as (W2 & So).
      split; [|exact FZ'].
      split; [cbn; rewrite !app_length; cbn; lia|]. split; [exact W2|].
      intros h' v' Hp. destruct (pval_app_inv _ _ _ _ Hp) as [[Hlt Hp']|[-> E]]; [|discriminate].
      apply So; [lia|]. apply S1. apply V. exact Hp'.
    + subst r2. cbn [fst]. destruct (garbage_facts st1 _ _ nx arrs2 W1 Hk K2') as (W2 & So).
      split; [|exact FZ'].
      split; [cbn; rewrite !app_length; cbn; lia|]. split; [exact W2|].
      intros h' v' Hp. destruct (pval_app_inv _ _ _ _ Hp) as [[Hlt Hp']|[-> E]]; [|discriminate].
      apply So; [lia|]. apply S1. apply V. exact Hp'.
  - (* OMovePre *)
    destruct (pval ps h) as [v|] eqn:Ev; [|discriminate].
    apply andb_true_iff in Hok. destruct Hok as [Hneb Hlt].
    apply negb_true_iff, Nat.eqb_neq in Hneb. apply Nat.ltb_lt in Hlt. apply N.eqb_eq in Hok2.
    destruct (live_src st zs h v W (V h v Ev)) as (src & Hsrc & Vhs & Vss & Lhs & Lss & Rhs & Rss & Esz & Evv & Hltz).
    rewrite Hsrc.
    destruct (nth_error (s2_objs st) buf) as [b|] eqn:Hb; [|apply nth_error_None in Hb; lia].
    pose proof (AW buf b Hb) as (B1 & B2 & B3 & B4 & B5 & B6 & B7 & B8 & B9 & B10 & B11 & B12).
    destruct (wf_obj_hh_valid _ _ _ (AW buf b Hb)) as (Vhb & Vsb & Ahb & Asb & Lhb & Lsb).
    rewrite Hok2 in Lhb, Lsb.
    pose proof (AW h src Hsrc) as (C1 & C2 & C3 & C4 & C5 & C6 & _).
    (* the two copies *)
    destruct (copy_hdr_spec (s2_arrs st) (o2_hh b) (o2_hh src) Vhb Vhs) as (KC1 & LC1 & _).
    set (arrsC1 := copy_hdr (s2_arrs st) (o2_hh b) (o2_hh src)) in *.
    assert (Vsb1 : valid arrsC1 (o2_sh b)) by (eapply keeps_valid; eassumption).
    assert (Vss1 : valid arrsC1 (o2_sh src)) by (eapply keeps_valid; eassumption).
    assert (Vhb1 : valid arrsC1 (o2_hh b)) by (eapply keeps_valid; eassumption).
    destruct (copy_hdr_spec arrsC1 (o2_sh b) (o2_sh src) Vsb1 Vss1) as (KC2 & LC2 & _).
    set (arrsC2 := copy_hdr arrsC1 (o2_sh b) (o2_sh src)) in *.
    assert (KC : keeps (s2_arrs st) arrsC2 (fun x => x = o2_H b \/ x = o2_S b)).
    { eapply keeps_trans; eapply keeps_weaken; [exact KC1| |exact KC2|]; intros x _ <-; auto. }
    assert (NS : r_arr (o2_sh src) <> o2_H b).
    { intro E. apply Hneb. apply (AJ h buf src b (o2_H b) Hsrc Hb); unfold owned_by; [|auto].
      right. left. rewrite <- E, C6. reflexivity. }
    assert (RCh : read_ref arrsC2 (o2_hh b) = Height v).
    { rewrite (keeps_read _ _ _ _ KC2 Vhb1) by (rewrite Ahb, Asb; lia).
      unfold arrsC1. rewrite (copy_hdr_full _ _ _ Vhb Vhs) by congruence. exact Rhs. }
    assert (RCs : read_ref arrsC2 (o2_sh b) = Stacks v).
    { unfold arrsC2. rewrite (copy_hdr_full _ _ _ Vsb1 Vss1) by congruence.
      rewrite (keeps_read _ _ _ _ KC1 Vss) by (rewrite Ahb; intro E; apply NS; symmetry; exact E). exact Rss. }
    set (b1 := {| o2_sc := o2_sc src; o2_H := o2_H b; o2_S := o2_S b; o2_G := o2_G b; o2_hh := o2_hh b; o2_sh := o2_sh b;
                  o2_wg := {| r_arr := r_arr (o2_wg b); r_off := r_off (o2_wg b); r_len := 0 |}; o2_bg := o2_bg src |}).
    destruct (update_facts st zs buf b b1 arrsC2 W Hb eq_refl eq_refl eq_refl eq_refl eq_refl (or_introl eq_refl)) as (W1 & Hk & S1).
    { eapply keeps_valid; [exact KC|]. destruct B9 as [X Y]. split; cbn [b1 o2_wg r_arr r_off r_len]; [exact X|lia]. }
    { eapply keeps_weaken; [exact KC|]. intros x _ [E|E]; unfold owned_by; auto. }
    unfold copy_position2. fold arrsC1. fold arrsC2. fold b1.
    set (st1 := {| s2_objs := set_obj2 (s2_objs st) buf b1; s2_arrs := arrsC2 |}) in *.
    cbn [s2_arrs st1].
    (* the source is untouched *)
    assert (NH : forall x, owned_by src x -> ~ (x = o2_H b \/ x = o2_S b)).
    { intros x Ox [E|E]; apply Hneb; apply (AJ h buf src b x Hsrc Hb Ox); unfold owned_by; auto. }
    assert (Vhs2 : valid arrsC2 (o2_hh src)) by (eapply keeps_valid; eassumption).
    assert (Vss2 : valid arrsC2 (o2_sh src)) by (eapply keeps_valid; eassumption).
    assert (Rhs2 : read_ref arrsC2 (o2_hh src) = Height v).
    { rewrite (keeps_read _ _ _ _ KC Vhs); [exact Rhs|]. apply NH. left. rewrite C5. reflexivity. }
    assert (Rss2 : read_ref arrsC2 (o2_sh src) = Stacks v).
    { rewrite (keeps_read _ _ _ _ KC Vss); [exact Rss|]. apply NH. right. left. rewrite C6. reflexivity. }
    rewrite <- (mip_ext hsq arrsC2 (o2_sc src) (Height v) (Stacks v)), Evv.
    assert (Hne : r_arr (o2_hh b) <> r_arr (o2_sh b)) by (rewrite Ahb, Asb; lia).
    assert (RD : reads (o2_hh b) (o2_sh b) arrsC2 (Height v) (Stacks v)).
    { split; [eapply keeps_valid; eassumption|]. split; [eapply keeps_valid; eassumption|]. split; assumption. }
    pose proof (mip_sim hsq _ _ Hne arrsC2 v (o2_hh src) (o2_sh src) m Vhs2 Vss2 Rhs2 Rss2 RD) as SIM.
    destruct (move_in_place hsq arrsC2 v (o2_hh src) (o2_sh src) (o2_hh b) (o2_sh b) m) as [arrs2 r2].
    cbn [fst snd] in SIM. destruct SIM as (K2 & L2 & SIM).
    assert (K2' : keeps (s2_arrs st1) arrs2 (fun x => x = o2_H b1 \/ x = o2_S b1)).
    { cbn [s2_arrs st1 b1 o2_H o2_S]. eapply keeps_weaken; [exact K2|]. intros x _ [E|E]; [left; congruence|right; congruence]. }
    assert (L1 : length (s2_objs st1) = length ps) by (cbn; unfold set_obj2; rewrite set_nth_length; exact L).
    destruct (amv hsq v m) as [q| |].
    + destruct SIM as (sc' & -> & (_ & _ & F1 & F2) & Eq & Ezq). cbn [fst].
      destruct (tail_facts st1 zs buf b1 sc' arrs2 q W1 Hk K2') as (W2 & L3 & Sk & So).
      { cbn [o2_hh o2_sh b1]. rewrite F1, F2. exact Eq. }
      { rewrite Ezq. symmetry. exact Hok2. }
      split; [|exact FZ].
      split; [rewrite L3, set_nth_length; exact L1|]. split; [exact W2|].
      intros h' v' Hp. rewrite pval_set_nth in Hp by assumption.
      destruct (Nat.eqb_spec h' buf) as [->|Hn'].
      * injection Hp as <-. exact Sk.
      * apply So; [exact Hn'|]. apply S1; [exact Hn'|]. apply V. exact Hp.
    + subst r2. cbn [fst]. destruct (garbage_facts st1 zs buf b1 arrs2 W1 Hk K2') as (W2 & So).
      split; [|exact FZ].
      split; [rewrite set_nth_length; exact L1|]. split; [exact W2|].
      intros h' v' Hp. rewrite pval_set_nth in Hp by assumption.
      destruct (Nat.eqb_spec h' buf) as [->|Hn']; [discriminate|].
      apply So; [exact Hn'|]. apply S1; [exact Hn'|]. apply V. exact Hp.
    + subst r2. cbn [fst]. destruct (garbage_facts st1 zs buf b1 arrs2 W1 Hk K2') as (W2 & So).
      split; [|exact FZ].
      split; [rewrite set_nth_length; exact L1|]. split; [exact W2|].
      intros h' v' Hp. rewrite pval_set_nth in Hp by assumption.
      destruct (Nat.eqb_spec h' buf) as [->|Hn']; [discriminate|].
      apply So; [exact Hn'|]. apply S1; [exact Hn'|]. apply V. exact Hp.
  - (* OClone *)
    destruct (pval ps h) as [v|] eqn:Ev; [|discriminate].
    destruct (live_src st zs h v W (V h v Ev)) as (src & Hsrc & Vhs & Vss & Lhs & Lss & Rhs & Rss & Esz & Evv & Hltz).
    rewrite Hsrc.
    assert (Hsz : size_ok (size (o2_sc src)) = true).
    { rewrite Esz. destruct (V h v Ev) as (o & _ & _ & Ez & _). rewrite Ez. apply Forall_nth_ok; assumption. }
    destruct (alloc2_facts st zs (o2_sc src) (o2_hh src) (o2_sh src) (o2_bg src) W Hsz Vhs Vss)
      as (arrs1 & Eal & W1 & K1 & Rh & _ & Rs & _ & S1).
    cbn zeta in Eal, W1, S1, Rh, Rs. rewrite Esz in *. rewrite Eal.
    set (a := length (s2_arrs st)) in *. set (n := nsq2 (size v)) in *.
    set (nx := {| o2_sc := o2_sc src; o2_H := a; o2_S := S a; o2_G := S (S a); o2_hh := hdr_of a n; o2_sh := hdr_of (S a) n;
                  o2_wg := {| r_arr := S (S a); r_off := 0; r_len := 0 |}; o2_bg := o2_bg src |}) in *.
    set (st1 := {| s2_objs := s2_objs st ++ [nx]; s2_arrs := arrs1 |}) in *.
    assert (Hk : nth_error (s2_objs st1) (length (s2_objs st)) = Some nx) by apply nth_error_snoc_new.
    cbn [fst].
    assert (Est1 : st1 = set_sc2 st1 (length (s2_objs st)) (o2_sc nx) (s2_arrs st1)) by (rewrite (set_sc2_same st1 _ nx _ Hk); reflexivity).
    rewrite Est1.
    destruct (tail_facts st1 (zs ++ [size v]) _ nx (o2_sc nx) (s2_arrs st1) v W1 Hk (keeps_refl _ _)) as (W2 & L3 & Sk & So).
    { cbn [o2_hh o2_sh o2_sc nx s2_arrs st1]. rewrite (Rh Lhs), (Rs Lss), Rhs, Rss. exact Evv. }
    { rewrite AL. symmetry. apply nth_snoc_new. }
    split; [|apply Forall_app; split; [exact FZ|constructor; [exact Hsz|constructor]]].
    split; [rewrite L3; cbn; rewrite !app_length; cbn; lia|]. split; [exact W2|].
    intros h' v' Hp. destruct (pval_app_inv _ _ _ _ Hp) as [[Hlt Hp']|[-> E]].
    + apply So; [lia|]. apply S1. apply V. exact Hp'.
    + injection E as <-. rewrite <- L. exact Sk.
Qed.

Lemma inv2z_empty : inv2z empty_store2 [] [].
Proof.
  split; [|constructor]. split; [reflexivity|]. split.
  - split; [cbn; lia|]. split; [reflexivity|]. split.
    + intros i o H. destruct i; discriminate.
    + intros i j oi oj a H. destruct i; discriminate.
  - intros h v H. unfold pval in H. destruct h; discriminate.
Qed.

Fixpoint zrun_from (ps : pstate) (zs : list N) (ops : list opr) : list N :=
  match ops with [] => zs | o :: t => zrun_from (pure_step hsq ps o) (zstep ps zs o) t end.
Definition zrun (ops : list opr) : list N := zrun_from [] [] ops.

Lemma run2_from_inv ops : forall st ps zs, inv2z st ps zs -> ops_ok2_from hsq ps zs ops = true ->
  inv2z (run2_from hsq st ops) (pure_run_from hsq ps ops) (zrun_from ps zs ops).
Proof.
  induction ops as [|o ops IH]; intros st ps zs Hinv Hok; cbn in *; [exact Hinv|].
  apply andb_true_iff in Hok. destruct Hok as [H1 H2].
  apply IH; [apply step2_inv; assumption|exact H2].
Qed.

Theorem run2_inv ops : ops_ok2 hsq ops = true -> inv2z (run2 hsq ops) (pure_run hsq ops) (zrun ops).
Proof. intro H. apply run2_from_inv; [apply inv2z_empty|exact H]. Qed.
End S.
