(* C07 — the playtak bot's game record tracks the server under every interleaving.
   Only statements, `exact`, and Print Assumptions live here.  Model: Bot.v (handleMove of
   playtak/bot/bot.go as a transition system over an abstract game: any position type, any move
   function, any turn predicate — the instance run against the code is BotInst.v), the server is the
   environment of Bot.v (srv_emit / srv_hears / env_allows).  Proofs: BotFacts.v. *)
From Coq Require Import List Bool Arith.
Require Import Bot BotFacts.
Import ListNotations.

(* The full statement of DESIGN 5.7, for the repaired loop (fixed = true), any game, any colour
   (an observer is bots_turn = fun _ => false), AcceptUndo either way:
   for EVERY event list — every interleaving of server lines (moves of either colour, Time, RequestUndo,
   Undo, Over, Abandoned., chat / unknown lines), closing of the connection, returns of the current
   invocation's thinker with ANY move (Answer: instantly, late, legal or not), returns of thinkers of
   earlier invocations (Late: their context is cancelled, their channel dead) and expiries of the 500 ms
   grace timer — during which the server keeps its contract (env_ok: it sends only moves legal in its own
   history; it performs an accepted undo at once, a move transmitted while the Undo line is outstanding is
   refused; the Undo line comes only after an acceptance with a move to take back, and then before any other
   move / undo-request line and before the grace timer of an earlier move line acts; no malformed line),
   the joint run of loop and server exists and afterwards
     - the bot's Positions and Moves equal the server's authoritative history (as communicated),
     - every move the bot transmitted was computed for exactly the position current when it was sent,
       was sent on the bot's own turn and is legal there (sent_ok), and the server refused none (noks = 0),
     - the loop has ended iff the server ended the game (Over / Abandoned. delivered or connection closed),
     - and the loop did not panic. *)
Theorem C07_bot_tracks_server :
  forall (pos move : Type) (apply : pos -> move -> option pos) (bots_turn over : pos -> bool) (start : pos)
         (accept_undo : bool) (evs : list (event move)),
  env_ok pos move apply bots_turn over start true accept_undo evs ->
  let s := run pos move apply bots_turn over start true accept_undo evs in
  exists v, run2 pos move apply bots_turn over start true accept_undo evs = Some (s, v) /\
    hist _ _ s = shist _ _ v /\ moves _ _ s = smoves _ _ v /\
    Forall (sent_ok pos move apply bots_turn) (out _ _ s) /\ noks _ _ v = 0 /\
    (ended _ _ s = true <-> existsb (is_end move) evs = true) /\
    crashed _ _ s = false.
Proof. exact bot_tracks_server. Qed.
Print Assumptions C07_bot_tracks_server.

(* The send clause needs no assumption on the environment at all: whatever the server does, an answer is
   only ever transmitted for the position it was computed for, on the bot's turn, and legal there. *)
Theorem C07_bot_sends_only_current :
  forall (pos move : Type) (apply : pos -> move -> option pos) (bots_turn over : pos -> bool) (start : pos)
         (accept_undo : bool) (evs : list (event move)),
  Forall (sent_ok pos move apply bots_turn) (out _ _ (run pos move apply bots_turn over start true accept_undo evs)).
Proof. exact bot_sends_only_current. Qed.
Print Assumptions C07_bot_sends_only_current.

(* "The AI's answer lands while the loop is handling a line": an answer already queued in the buffered channel
   when the loop handles a P/M line, or accepts an undo request (i.e. it arrived after the line was taken and
   before that branch's moveCancel()), is never read: whatever move it is, nothing is transmitted and the record
   does not change.  (In event-list terms this interleaving is `Line l; Answer a`, so both theorems above cover
   it; this states the local fact.) *)
Theorem C07_queued_answer_ignored :
  forall (pos move : Type) (apply : pos -> move -> option pos) (bots_turn over : pos -> bool) (start : pos)
         (accept_undo : bool) (s : state pos move) (m a : move),
  (let s1 := step pos move apply bots_turn over start true accept_undo s (Line _ (LMove _ m)) in
   let s2 := step pos move apply bots_turn over start true accept_undo s1 (Answer _ a) in
   out _ _ s2 = out _ _ s1 /\ moves _ _ s2 = moves _ _ s1 /\ hist _ _ s2 = hist _ _ s1) /\
  (accept_undo = true ->
   let s1 := step pos move apply bots_turn over start true accept_undo s (Line _ (LReqUndo _)) in
   let s2 := step pos move apply bots_turn over start true accept_undo s1 (Answer _ a) in
   out _ _ s2 = out _ _ s1 /\ moves _ _ s2 = moves _ _ s1 /\ hist _ _ s2 = hist _ _ s1).
Proof. exact queued_answer_ignored. Qed.
Print Assumptions C07_queued_answer_ignored.

(* The pinned loop (fixed = false: `moves` stays non-nil when a P/M line changes the position) violates the
   send clause: on resume, two replayed moves arrive, then the thinker started on ply 0 answers, and its
   answer is transmitted at ply 2 (toy game: position = ply counter, every move legal, bot on even plies). *)
Theorem C07_pinned_refuted :
  ~ Forall (sent_ok nat nat toy_apply Nat.even) (out _ _ (toy_run false resume_witness)).
Proof. exact pinned_refuted_prop. Qed.
Print Assumptions C07_pinned_refuted.

(* env_ok is satisfiable by a run that sends three moves, accepts an undo and ends (non-vacuity),
   and it excludes an Undo the bot never accepted. *)
Theorem C07_env_ok_nonvacuous :
  env_ok nat nat toy_apply Nat.even (fun _ => false) 0 true true toy_script /\
  (let s := toy_run true toy_script in
   (rev (moves _ _ s), length (out _ _ s), undo_acks _ _ s, ended _ _ s) = ([1; 2; 4], 3, 1, true)) /\
  ~ env_ok nat nat toy_apply Nat.even (fun _ => false) 0 true true [Answer nat 1; Line nat (LUndo nat)].
Proof. exact (conj toy_script_ok (conj toy_script_result toy_undo_unacked)). Qed.
Print Assumptions C07_env_ok_nonvacuous.
