(* C07 — the playtak bot's game record tracks the server under every interleaving.
   Only statements, `exact`, and Print Assumptions live here.  Model: Bot.v (handleMove of
   playtak/bot/bot.go as a transition system over an abstract game: any position type, any move
   function, any turn predicate — the instance run against the code is BotInst.v), the server is the
   environment of Bot.v (srv_emit / srv_hears / env_allows).  Proofs: BotFacts.v. *)
From Coq Require Import List Bool Arith NArith ZArith.
Require Import Bot BotFacts.
Require PtnMove Playtak PtnMoveFacts BotLine BotLineFacts BotLineFacts2 Move BotInst BotLineInst.
Import ListNotations.

(* The full statement of DESIGN 5.7, for the repaired loop (fixed = true), any game, any colour
   (an observer is bots_turn = fun _ => false), AcceptUndo either way:
   for EVERY event list — every interleaving of server lines (moves of either colour, Time, RequestUndo,
   Undo, Over, Abandoned., chat / unknown lines), closing of the connection, returns of the current
   invocation's thinker with ANY move (Answer: instantly, late, legal or not), returns of thinkers of
   earlier invocations (Late: their context is cancelled, their channel dead) and expiries of the 500 ms
   grace timer — during which the server keeps its contract (env_ok: it sends only moves legal in its own
   history; it performs an accepted undo at once, a move transmitted while the Undo line is outstanding is
   refused; the Undo line comes only after an acceptance with a move to take back, and then before any other
   move / undo-request line and before the grace timer of an earlier move line acts; no malformed line),
   the joint run of loop and server exists and afterwards
     - the bot's Positions and Moves equal the server's authoritative history (as communicated),
     - every move the bot transmitted was computed for exactly the position current when it was sent,
       was sent on the bot's own turn and is legal there (sent_ok), and the server refused none (noks = 0),
     - the loop has ended iff the server ended the game (Over / Abandoned. delivered or connection closed),
     - and the loop did not panic. *)
Theorem C07_bot_tracks_server :
  forall (pos move : Type) (apply : pos -> move -> option pos) (bots_turn over : pos -> bool) (start : pos)
         (accept_undo : bool) (evs : list (event move)),
  env_ok pos move apply bots_turn over start true accept_undo evs ->
  let s := run pos move apply bots_turn over start true accept_undo evs in
  exists v, run2 pos move apply bots_turn over start true accept_undo evs = Some (s, v) /\
    hist _ _ s = shist _ _ v /\ moves _ _ s = smoves _ _ v /\
    Forall (sent_ok pos move apply bots_turn) (out _ _ s) /\ noks _ _ v = 0 /\
    (ended _ _ s = true <-> existsb (is_end move) evs = true) /\
    crashed _ _ s = false.
Proof. exact bot_tracks_server. Qed.
Print Assumptions C07_bot_tracks_server.

(* The send clause needs no assumption on the environment at all: whatever the server does, an answer is
   only ever transmitted for the position it was computed for, on the bot's turn, and legal there. *)
Theorem C07_bot_sends_only_current :
  forall (pos move : Type) (apply : pos -> move -> option pos) (bots_turn over : pos -> bool) (start : pos)
         (accept_undo : bool) (evs : list (event move)),
  Forall (sent_ok pos move apply bots_turn) (out _ _ (run pos move apply bots_turn over start true accept_undo evs)).
Proof. exact bot_sends_only_current. Qed.
Print Assumptions C07_bot_sends_only_current.

(* "The AI's answer lands while the loop is handling a line": an answer already queued in the buffered channel
   when the loop handles a P/M line, or accepts an undo request (i.e. it arrived after the line was taken and
   before that branch's moveCancel()), is never read: whatever move it is, nothing is transmitted and the record
   does not change.  (In event-list terms this interleaving is `Line l; Answer a`, so both theorems above cover
   it; this states the local fact.) *)
Theorem C07_queued_answer_ignored :
  forall (pos move : Type) (apply : pos -> move -> option pos) (bots_turn over : pos -> bool) (start : pos)
         (accept_undo : bool) (s : state pos move) (m a : move),
  (let s1 := step pos move apply bots_turn over start true accept_undo s (Line _ (LMove _ m)) in
   let s2 := step pos move apply bots_turn over start true accept_undo s1 (Answer _ a) in
   out _ _ s2 = out _ _ s1 /\ moves _ _ s2 = moves _ _ s1 /\ hist _ _ s2 = hist _ _ s1) /\
  (accept_undo = true ->
   let s1 := step pos move apply bots_turn over start true accept_undo s (Line _ (LReqUndo _)) in
   let s2 := step pos move apply bots_turn over start true accept_undo s1 (Answer _ a) in
   out _ _ s2 = out _ _ s1 /\ moves _ _ s2 = moves _ _ s1 /\ hist _ _ s2 = hist _ _ s1).
Proof. exact queued_answer_ignored. Qed.
Print Assumptions C07_queued_answer_ignored.

(* The pinned loop (fixed = false: `moves` stays non-nil when a P/M line changes the position) violates the
   send clause: on resume, two replayed moves arrive, then the thinker started on ply 0 answers, and its
   answer is transmitted at ply 2 (toy game: position = ply counter, every move legal, bot on even plies). *)
Theorem C07_pinned_refuted :
  ~ Forall (sent_ok nat nat toy_apply Nat.even) (out _ _ (toy_run false resume_witness)).
Proof. exact pinned_refuted_prop. Qed.
Print Assumptions C07_pinned_refuted.

(* env_ok is satisfiable by a run that sends three moves, accepts an undo and ends (non-vacuity),
   and it excludes an Undo the bot never accepted. *)
Theorem C07_env_ok_nonvacuous :
  env_ok nat nat toy_apply Nat.even (fun _ => false) 0 true true toy_script /\
  (let s := toy_run true toy_script in
   (rev (moves _ _ s), length (out _ _ s), undo_acks _ _ s, ended _ _ s) = ([1; 2; 4], 3, 1, true)) /\
  ~ env_ok nat nat toy_apply Nat.even (fun _ => false) 0 true true [Answer nat 1; Line nat (LUndo nat)].
Proof. exact (conj toy_script_ok (conj toy_script_result toy_undo_unacked)). Qed.
Print Assumptions C07_env_ok_nonvacuous.

(* ------------------------------------------------------------------------------------------------------------------
   The LINE LAYER.  BotLine.classify gs l is what handleMove does with one received raw line l (bytes) when g.GameStr = gs:
   strings.Split(l, " "), the first switch (GameStr / Tell / Shout / ShoutRoom / default), the second switch on bits[1] with
   its index accesses, strconv.Atoi on the clock fields, ParseServer on strings.Join(bits[1:], " "): the event of Bot.v
   (l_ev, moves = raw wire moves), the chat callback (l_chat) and the clocks (l_times).  The check feeds the raw bytes of
   every line of every schedule to the extracted classify.

   BotLineFacts2.server_says gs l e: "a protocol-conforming server, talking about game gs, sends the line l and means e":
     gs ++ " " ++ Playtak.format_server m   (m legal_shape, end_on_grid: every legal move)        means  LMove m
     gs ++ " Time " ++ w ++ " " ++ b ++ t    (w, b without blanks; t empty or starting with a blank)  means  LTime
     gs ++ " Over " ++ r                      (any r)                                                  means  LOver
     gs ++ " Abandoned." ++ t,  gs ++ " RequestUndo" ++ t,  gs ++ " Undo" ++ t                         mean   LAbandoned, LReqUndo, LUndo
     any line whose first word (text before the first blank) is neither gs nor "Tell"                 means  LOther
        - lines of other games, Shout and ShoutRoom lines WHATEVER their text (protocol words and the game string as room,
          name or message included), OK, Online 12, the empty line, ...
     "Tell <" ++ x   (any x)                                                                         means  LOther
   Every such line is classified as the intended event, and none of them makes the loop panic.  (This is the statement
   behind seeded change C07-F, which lets ShoutRoom lines reach the second switch.) *)
Theorem C07_classify_server_lines : forall (gs l : list N) (e : line PtnMove.move),
  ~ In 32%N gs -> BotLineFacts2.server_says gs l e ->
  BotLine.l_ev (BotLine.classify gs l) = e /\ e <> LBad _.
Proof. exact BotLineFacts2.classify_server_lines. Qed.
Print Assumptions C07_classify_server_lines.

(* EXACTLY which raw lines make the real loop panic (C07's environment excludes them: env_allows refuses Line LBad):
   the first word is the game string or "Tell" (the Tell branch of the first switch has no `continue`) and
   there is no second word, or the second word is P / M and ParseServer rejects the text after the first blank,
   or the line is "<first> Over", "<first> Time" or "<first> Time <w>" (bits[2] / bits[3]: index out of range).
   NOTE (robustness, outside the property: no server writes such lines): because of the missing `continue`, a line
   "Tell <second word> ..." whose second word is a protocol word is executed as a line of the bot's own game:
   "Tell Undo" pops the record, "Tell Over x" ends the loop, "Tell P A1" is taken as a move, "Tell" alone panics
   (BotLineFacts2.tell_falls_through, panic_examples; the real loop does the same: hostile schedules of the check). *)
Theorem C07_classify_panics : forall gs l : list N,
  BotLine.l_ev (BotLine.classify gs l) = LBad _ <-> BotLineFacts2.panics gs l.
Proof. exact BotLineFacts2.classify_bad_iff. Qed.
Print Assumptions C07_classify_panics.

(* (BotLineFacts2.w_time is the word "Time".)  The clocks of a Time line are strconv.Atoi of the two fields (error ignored) times time.Second in int64; for the plain
   decimal numbers a server writes (value < 2^63) Atoi's value is the number. *)
Theorem C07_classify_time : forall gs w b t : list N,
  ~ In 32%N gs -> ~ In 32%N w -> ~ In 32%N b -> BotLineFacts2.tail_ok t ->
  BotLine.l_times (BotLine.classify gs (gs ++ 32%N :: BotLineFacts2.w_time ++ 32%N :: w ++ 32%N :: b ++ t)) =
    Some (BotLine.seconds (BotLine.atoi_value w), BotLine.seconds (BotLine.atoi_value b)) /\
  (forall s, s <> [] -> forallb BotLineFacts2.is_digit s = true -> (BotLineFacts2.dec_val s 0 < 2 ^ 63)%Z ->
     BotLine.atoi_value s = BotLineFacts2.dec_val s 0).
Proof. exact (fun gs w b t Hg Hw Hb Ht => conj (BotLineFacts2.classify_time gs w b t Hg Hw Hb Ht) BotLineFacts2.atoi_value_decimal). Qed.
Print Assumptions C07_classify_time.

(* The chat callbacks: HandleTell(who, msg) is made exactly for the members of the Tell language, HandleChat(room, who, msg)
   exactly for the members of the Shout (room = "") and ShoutRoom languages (BotLineFacts.tell_line / shout_line / room_line,
   see Properties/C13.v), with exactly those arguments - for any game string other than the three chat words. *)
Theorem C07_classify_chat : forall gs l : list N,
  gs <> BotLineFacts2.w_tell -> gs <> BotLineFacts2.w_shout -> gs <> BotLineFacts2.w_shoutroom ->   (* the words "Tell", "Shout", "ShoutRoom" *)
  (forall w m, BotLine.l_chat (BotLine.classify gs l) = BotLine.ChatTell w m <-> BotLineFacts.tell_line l w m) /\
  (forall r w m, BotLine.l_chat (BotLine.classify gs l) = BotLine.ChatRoom r w m <->
                 (r = [] /\ BotLineFacts.shout_line l w m) \/ BotLineFacts.room_line l r w m).
Proof. exact BotLineInst.classify_chat. Qed.
Print Assumptions C07_classify_chat.

(* The dispatch BotInst.classify (the hand translation the C07 driver used before the line layer was modelled; the driver
   still compares the two on every line) is the event component of BotLine.classify, for every byte list. *)
Theorem C07_inst_classify_eq : forall gs l : list N,
  BotInst.classify gs l = BotLineInst.conv_line (BotLine.l_ev (BotLine.classify gs l)).
Proof. exact BotLineInst.inst_classify_eq. Qed.
Print Assumptions C07_inst_classify_eq.

(* C07_bot_tracks_server over RAW lines: revs is what the loop really receives (raw byte lines, closing, thinker returns,
   timer expiries); evs the abstract events a conforming server means by them (conforms = server_says on the lines).
   Then the raw lines are classified as exactly evs, and if the server keeps its contract on evs the loop, run on the raw
   events through handleMove's own switches, tracks the server (same conclusion as C07_bot_tracks_server). *)
Theorem C07_bot_tracks_server_raw :
  forall (pos : Type) (apply : pos -> PtnMove.move -> option pos) (bots_turn over : pos -> bool) (start : pos)
         (accept_undo : bool) (gs : list N), ~ In 32%N gs ->
  forall (revs : list BotLine.raw_event) (evs : list (event PtnMove.move)),
  Forall2 (BotLineFacts2.conforms gs) revs evs ->
  env_ok pos PtnMove.move apply bots_turn over start true accept_undo evs ->
  let s := run pos PtnMove.move apply bots_turn over start true accept_undo (map (BotLine.ev_of gs) revs) in
  map (BotLine.ev_of gs) revs = evs /\
  exists v, run2 pos PtnMove.move apply bots_turn over start true accept_undo (map (BotLine.ev_of gs) revs) = Some (s, v) /\
    hist _ _ s = shist _ _ v /\ moves _ _ s = smoves _ _ v /\
    Forall (sent_ok pos PtnMove.move apply bots_turn) (out _ _ s) /\ noks _ _ v = 0 /\
    (ended _ _ s = true <-> existsb (is_end PtnMove.move) evs = true) /\
    crashed _ _ s = false.
Proof. exact BotLineFacts2.bot_tracks_server_raw. Qed.
Print Assumptions C07_bot_tracks_server_raw.

(* non-vacuity: a script of 13 raw events (moves of both kinds, a Time line, an accepted undo, Abandoned., chat lines that
   carry protocol words and the game string, a line of game Game#71) conforms, its meaning satisfies env_ok, and the run
   ends with three recorded moves, two transmitted, one undo accepted, no crash. *)
Theorem C07_raw_nonvacuous :
  Forall2 (BotLineFacts2.conforms BotLineFacts2.g7) BotLineFacts2.raw_script BotLineFacts2.raw_meaning /\
  env_ok nat PtnMove.move BotLineFacts2.raw_apply Nat.even (fun _ => false) 0 true true BotLineFacts2.raw_meaning /\
  (let s := run nat PtnMove.move BotLineFacts2.raw_apply Nat.even (fun _ => false) 0 true true
              (map (BotLine.ev_of BotLineFacts2.g7) BotLineFacts2.raw_script) in
   (rev (moves _ _ s), length (out _ _ s), undo_acks _ _ s, ended _ _ s, crashed _ _ s) =
   ([BotLineFacts2.mA1; BotLineFacts2.mB2c; BotLineFacts2.mSl], 2, 1, true, false)).
Proof. exact (conj BotLineFacts2.raw_script_conforms (conj BotLineFacts2.raw_script_env_ok BotLineFacts2.raw_script_result)). Qed.
Print Assumptions C07_raw_nonvacuous.
