(* C09 — positions are values: moves and clones never alias or alter their source.
   Only statements, `exact`, and Print Assumptions live here.

   The model (Alloc.v): a store of Go objects (the Position value; the two slice headers of Position.analysis as
   (array, offset, length)) and a heap of uint64 arrays with Go's append (in place while there is capacity, else a new
   array).  alloc, copyPosition, analyze, New, Alloc, Clone, Move and MovePreallocated (fresh storage, caller-supplied
   storage, failed moves that leave the buffer half written) are transcribed as operations on it.  `run hsq true ops` is
   the store after the operations `ops` with the repaired Clone (`false`: the pinned one); `pure_run hsq ops` gives, for
   every object id, the position VALUE that a pure reading of the same operations computes for it (None = not a live
   handle: an Alloc buffer, the garbage of a failed move, an object handed over as a buffer by a failed move).
   `ops_ok` = every source is a live handle, a buffer is an existing object other than the source (live, dead, the
   source's parent, the object another live handle was derived from: anything).  `observe st h` = what a caller sees of
   handle h: the value (squares, reserves, ply, Hash and the legal move set are functions of it), both group slices read
   through their headers, and GameOver computed from those slices as hasRoad does.  All statements hold for every
   per-square hash function `hsq` (the one of the implementation is Refine.hsq).

   Height and Stacks are part of the value in the model: alloc and copyPosition always point them at the object's own
   arrays and copy the contents; that this is what the code does is covered by the correspondence run and by the
   address-level oracle of the check, not by these theorems. *)
From Coq Require Import NArith ZArith List Bool.
Require Import Board Move GameOver Alloc AllocFacts AllocFacts2 AllocFacts3.
Import ListNotations.

(* Storage invariant, in every store reachable by admissible operations: every object's WhiteGroups header is a valid
   slice of an array other than the nil array; no two objects' WhiteGroups headers point into the same array (analyze
   writes only behind WhiteGroups[:0], so each object writes only storage that is its own: its Groups array, or an
   array append allocated for it); and the BlackGroups slice of every live handle is a valid slice of that same array
   or of an array that no WhiteGroups header points into (so nothing is ever written into it again). *)
Theorem C09_owns_invariant : forall hsq ops, ops_ok hsq ops = true ->
  let st := run hsq true ops in
  (forall i o, nth_error (s_objs st) i = Some o -> valid (s_arrs st) (o_wg o) /\ (0 < r_arr (o_wg o))%nat) /\
  (forall i j oi oj, nth_error (s_objs st) i = Some oi -> nth_error (s_objs st) j = Some oj -> i <> j ->
     r_arr (o_wg oi) <> r_arr (o_wg oj)) /\
  (forall h v, pval (pure_run hsq ops) h = Some v ->
     exists o, nth_error (s_objs st) h = Some o /\ valid (s_arrs st) (o_bg o) /\
       (r_arr (o_bg o) = r_arr (o_wg o) \/
        forall j oj, nth_error (s_objs st) j = Some oj -> r_arr (o_wg oj) <> r_arr (o_bg o))).
Proof. exact owns_invariant. Qed.
Print Assumptions C09_owns_invariant.

(* Value semantics: after ANY admissible operation sequence, EVERY live handle shows exactly the observables of the
   pure value computed for it — whatever was done with other handles, with buffers it was derived from, or with its
   own parent's storage since it was created. *)
Theorem C09_value_semantics : forall hsq ops, ops_ok hsq ops = true ->
  forall h v, pval (pure_run hsq ops) h = Some v -> observe (run hsq true ops) h = Some (observe_pure v).
Proof. exact value_semantics. Qed.
Print Assumptions C09_value_semantics.

(* A clone c of a live handle h, followed by any admissible operations ops': c keeps showing the observables of the
   value h had when cloned as long as c is not itself handed over as a buffer (h may be moved from, cloned again, even
   handed over as a buffer and overwritten), and so does h as long as h is not handed over. *)
Theorem C09_clone_identical : forall hsq ops h ops', ops_ok hsq (ops ++ OClone h :: ops') = true ->
  exists v, pval (pure_run hsq ops) h = Some v /\
    let c := length (pure_run hsq ops) in
    let st := run hsq true (ops ++ OClone h :: ops') in
    (Forall (never_buf c) ops' -> observe st c = Some (observe_pure v)) /\
    (Forall (never_buf h) ops' -> observe st h = Some (observe_pure v)).
Proof. exact clone_identical. Qed.
Print Assumptions C09_clone_identical.

(* hence clone and source are observationally identical, immediately (ops' = []) and after any further use of either *)
Corollary C09_clone_same : forall hsq ops h ops', ops_ok hsq (ops ++ OClone h :: ops') = true ->
  let c := length (pure_run hsq ops) in
  Forall (never_buf c) ops' -> Forall (never_buf h) ops' ->
  observe (run hsq true (ops ++ OClone h :: ops')) c = observe (run hsq true (ops ++ OClone h :: ops')) h /\
  observe (run hsq true (ops ++ OClone h :: ops')) c <> None.
Proof. exact clone_same. Qed.
Print Assumptions C09_clone_same.

(* The defect of the pinned tree, in the model (fixed_clone = false): the clone of a position with a white road
   (3x3, a1-b1-c1) reports the game as not over while its source reports White's road win; with the repaired Clone
   it reports the win.  Shows that the theorems above are about the repaired code and would fail for the pinned one. *)
Theorem C09_clone_refuted_pinned : forall hsq,
  ops_ok hsq (road_game ++ [OClone 5]) = true /\
  verdict (observe (run hsq false (road_game ++ [OClone 5])) 5) = Some (true, GWhite) /\
  verdict (observe (run hsq false (road_game ++ [OClone 5])) 6) = Some (false, GNone) /\
  verdict (observe (run hsq true (road_game ++ [OClone 5])) 6) = Some (true, GWhite).
Proof. exact clone_refuted_pinned. Qed.
Print Assumptions C09_clone_refuted_pinned.

(* and the pinned clone's BlackGroups header points into its source's array: after the source object is handed over
   as a buffer the clone shows other black groups than before; not so with the repaired Clone *)
Theorem C09_clone_aliases_pinned : forall hsq,
  let ops := black_game ++ [OClone 4; OMovePre 2 (mvp 1 2) 4] in
  ops_ok hsq ops = true /\
  option_map (fun o : observation => snd (fst o)) (observe (run hsq false (black_game ++ [OClone 4])) 6) = Some [3%N] /\
  option_map (fun o : observation => snd (fst o)) (observe (run hsq false ops) 6) <> Some [3%N] /\
  option_map (fun o : observation => snd (fst o)) (observe (run hsq true ops) 6) = Some [3%N].
Proof. exact clone_aliases_pinned. Qed.
Print Assumptions C09_clone_aliases_pinned.
