(* C09 — positions are values: moves and clones never alias or alter their source.
   Only statements, `exact`, and Print Assumptions live here. *)
From Coq Require Import NArith ZArith List Bool.
Require Import Board Move GameOver Alloc AllocFacts.
Import ListNotations.
