(* C09 — positions are values: moves and clones never alias or alter their source.
   Only statements, `exact`, and Print Assumptions live here.

   The model (Alloc.v): a store of Go objects (the Position value; the two slice headers of Position.analysis as
   (array, offset, length)) and a heap of uint64 arrays with Go's append (in place while there is capacity, else a new
   array).  alloc, copyPosition, analyze, New, Alloc, Clone, Move and MovePreallocated (fresh storage, caller-supplied
   storage, failed moves that leave the buffer half written) are transcribed as operations on it.  `run hsq true ops` is
   the store after the operations `ops` with the repaired Clone (`false`: the pinned one); `pure_run hsq ops` gives, for
   every object id, the position VALUE that a pure reading of the same operations computes for it (None = not a live
   handle: an Alloc buffer, the garbage of a failed move, an object handed over as a buffer by a failed move).
   `ops_ok` = every source is a live handle, a buffer is an existing object other than the source (live, dead, the
   source's parent, the object another live handle was derived from: anything).  `observe st h` = what a caller sees of
   handle h: the value (squares, reserves, ply, Hash and the legal move set are functions of it), both group slices read
   through their headers, and GameOver computed from those slices as hasRoad does.  All statements hold for every
   per-square hash function `hsq` (the one of the implementation is Refine.hsq).

   Height and Stacks are part of the value in Alloc.v.  The refined model Alloc2.v (second half of this file) removes that
   exemption: there Height and Stacks are slice headers into heap arrays like the groups, alloc/copyPosition/copy act on
   headers and array cells, and MovePreallocated reads the source through the source's headers and writes the
   destination's cells in place through the destination's headers.  C09_owns2_invariant and C09_value_semantics2 are the
   two main statements again, now with no part of the position exempt. *)
From Coq Require Import NArith ZArith List Bool.
Require Import Board Move GameOver Alloc AllocFacts AllocFacts2 AllocFacts3.
Require Import Alloc2 Alloc2Facts3 Alloc2Facts5 Alloc2Facts6 Alloc2Facts7.
Import ListNotations.

(* Storage invariant, in every store reachable by admissible operations: every object's WhiteGroups header is a valid
   slice of an array other than the nil array; no two objects' WhiteGroups headers point into the same array (analyze
   writes only behind WhiteGroups[:0], so each object writes only storage that is its own: its Groups array, or an
   array append allocated for it); and the BlackGroups slice of every live handle is a valid slice of that same array
   or of an array that no WhiteGroups header points into (so nothing is ever written into it again). *)
Theorem C09_owns_invariant : forall hsq ops, ops_ok hsq ops = true ->
  let st := run hsq true ops in
  (forall i o, nth_error (s_objs st) i = Some o -> valid (s_arrs st) (o_wg o) /\ (0 < r_arr (o_wg o))%nat) /\
  (forall i j oi oj, nth_error (s_objs st) i = Some oi -> nth_error (s_objs st) j = Some oj -> i <> j ->
     r_arr (o_wg oi) <> r_arr (o_wg oj)) /\
  (forall h v, pval (pure_run hsq ops) h = Some v ->
     exists o, nth_error (s_objs st) h = Some o /\ valid (s_arrs st) (o_bg o) /\
       (r_arr (o_bg o) = r_arr (o_wg o) \/
        forall j oj, nth_error (s_objs st) j = Some oj -> r_arr (o_wg oj) <> r_arr (o_bg o))).
Proof. exact owns_invariant. Qed.
Print Assumptions C09_owns_invariant.

(* Value semantics: after ANY admissible operation sequence, EVERY live handle shows exactly the observables of the
   pure value computed for it — whatever was done with other handles, with buffers it was derived from, or with its
   own parent's storage since it was created. *)
Theorem C09_value_semantics : forall hsq ops, ops_ok hsq ops = true ->
  forall h v, pval (pure_run hsq ops) h = Some v -> observe (run hsq true ops) h = Some (observe_pure v).
Proof. exact value_semantics. Qed.
Print Assumptions C09_value_semantics.

(* A clone c of a live handle h, followed by any admissible operations ops': c keeps showing the observables of the
   value h had when cloned as long as c is not itself handed over as a buffer (h may be moved from, cloned again, even
   handed over as a buffer and overwritten), and so does h as long as h is not handed over. *)
Theorem C09_clone_identical : forall hsq ops h ops', ops_ok hsq (ops ++ OClone h :: ops') = true ->
  exists v, pval (pure_run hsq ops) h = Some v /\
    let c := length (pure_run hsq ops) in
    let st := run hsq true (ops ++ OClone h :: ops') in
    (Forall (never_buf c) ops' -> observe st c = Some (observe_pure v)) /\
    (Forall (never_buf h) ops' -> observe st h = Some (observe_pure v)).
Proof. exact clone_identical. Qed.
Print Assumptions C09_clone_identical.

(* hence clone and source are observationally identical, immediately (ops' = []) and after any further use of either *)
Corollary C09_clone_same : forall hsq ops h ops', ops_ok hsq (ops ++ OClone h :: ops') = true ->
  let c := length (pure_run hsq ops) in
  Forall (never_buf c) ops' -> Forall (never_buf h) ops' ->
  observe (run hsq true (ops ++ OClone h :: ops')) c = observe (run hsq true (ops ++ OClone h :: ops')) h /\
  observe (run hsq true (ops ++ OClone h :: ops')) c <> None.
Proof. exact clone_same. Qed.
Print Assumptions C09_clone_same.

(* The defect of the pinned tree, in the model (fixed_clone = false): the clone of a position with a white road
   (3x3, a1-b1-c1) reports the game as not over while its source reports White's road win; with the repaired Clone
   it reports the win.  Shows that the theorems above are about the repaired code and would fail for the pinned one. *)
Theorem C09_clone_refuted_pinned : forall hsq,
  ops_ok hsq (road_game ++ [OClone 5]) = true /\
  verdict (observe (run hsq false (road_game ++ [OClone 5])) 5) = Some (true, GWhite) /\
  verdict (observe (run hsq false (road_game ++ [OClone 5])) 6) = Some (false, GNone) /\
  verdict (observe (run hsq true (road_game ++ [OClone 5])) 6) = Some (true, GWhite).
Proof. exact clone_refuted_pinned. Qed.
Print Assumptions C09_clone_refuted_pinned.

(* and the pinned clone's BlackGroups header points into its source's array: after the source object is handed over
   as a buffer the clone shows other black groups than before; not so with the repaired Clone *)
Theorem C09_clone_aliases_pinned : forall hsq,
  let ops := black_game ++ [OClone 4; OMovePre 2 (mvp 1 2) 4] in
  ops_ok hsq ops = true /\
  option_map (fun o : observation => snd (fst o)) (observe (run hsq false (black_game ++ [OClone 4])) 6) = Some [3%N] /\
  option_map (fun o : observation => snd (fst o)) (observe (run hsq false ops) 6) <> Some [3%N] /\
  option_map (fun o : observation => snd (fst o)) (observe (run hsq true ops) 6) = Some [3%N].
Proof. exact clone_aliases_pinned. Qed.
Print Assumptions C09_clone_aliases_pinned.

(* ================= the refined model: Height and Stacks are heap references too (Alloc2.v) =================

   An object of `run2 hsq ops` carries the scalar fields of the Position, the ids of the three arrays its positionN struct
   embeds (o2_H: alloc.Height, o2_S: alloc.Stacks, o2_G: alloc.Groups) and FOUR slice headers (array id, offset, length):
   o2_hh = Position.Height, o2_sh = Position.Stacks, o2_wg / o2_bg = analysis.WhiteGroups / BlackGroups.  `observe2 st h`
   is what a caller sees of handle h with Height and Stacks READ THROUGH THEIR HEADERS out of the heap.
   `ops_ok2` = `ops_ok` + board sizes 3..8 (alloc panics otherwise) + a position given to FromSquares has size*size
   squares + a buffer handed to MovePreallocated was allocated for the board size of the source (copy() stops at the
   shorter slice; C09_value_semantics2_needs_size is the witness that the statement fails without it; the check's
   generator and the documented use of MovePreallocated respect it).  `zrun hsq ops` = the board size every object
   was allocated for.  `owned_by o a` = array a is one of o's three embedded arrays or the array of o's WhiteGroups
   header. *)

(* Ownership invariant, in every store reachable by admissible operations, for EVERY object (live handle, dead buffer,
   garbage of a failed move): its Height and Stacks headers are exactly its own embedded arrays in full length; its
   WhiteGroups header is a valid slice of an array that is neither of those nor the nil array; no array is owned by two
   objects; and the BlackGroups slice of every live handle lies in the array of its own WhiteGroups header or in an
   array no object owns (the nil array or one allocated by append: never written again). *)
Theorem C09_owns2_invariant : forall hsq ops, ops_ok2 hsq ops = true ->
  let st := run2 hsq ops in let zs := zrun hsq ops in
  (forall i o, nth_error (s2_objs st) i = Some o ->
     let n := nsq2 (nth i zs 0%N) in
     o2_hh o = {| r_arr := o2_H o; r_off := 0; r_len := n |} /\ o2_sh o = {| r_arr := o2_S o; r_off := 0; r_len := n |} /\
     length (get_arr (s2_arrs st) (o2_H o)) = n /\ length (get_arr (s2_arrs st) (o2_S o)) = n /\
     (0 < o2_H o)%nat /\ o2_S o = S (o2_H o) /\ o2_G o = S (S (o2_H o)) /\
     valid (s2_arrs st) (o2_wg o) /\ (0 < r_arr (o2_wg o))%nat /\ r_arr (o2_wg o) <> o2_H o /\ r_arr (o2_wg o) <> o2_S o) /\
  (forall i j oi oj a, nth_error (s2_objs st) i = Some oi -> nth_error (s2_objs st) j = Some oj ->
     owned_by oi a -> owned_by oj a -> i = j) /\
  (forall h v, pval (pure_run hsq ops) h = Some v -> exists o, nth_error (s2_objs st) h = Some o /\ valid (s2_arrs st) (o2_bg o) /\
     (r_arr (o2_bg o) = r_arr (o2_wg o) \/
      forall j oj, nth_error (s2_objs st) j = Some oj -> ~ owned_by oj (r_arr (o2_bg o)))).
Proof. exact owns2_invariant. Qed.
Print Assumptions C09_owns2_invariant.

(* In the words of the property: two different objects never share an array between any of their Height, Stacks and
   WhiteGroups headers (the slices an object is written through), and the BlackGroups slice of a live handle never lies
   in an array another object can be written through. *)
Corollary C09_no_sharing : forall hsq ops, ops_ok2 hsq ops = true ->
  let st := run2 hsq ops in
  (forall i j oi oj a, nth_error (s2_objs st) i = Some oi -> nth_error (s2_objs st) j = Some oj -> i <> j ->
     In a [r_arr (o2_hh oi); r_arr (o2_sh oi); r_arr (o2_wg oi)] ->
     In a [r_arr (o2_hh oj); r_arr (o2_sh oj); r_arr (o2_wg oj)] -> False) /\
  (forall h v j oh oj, pval (pure_run hsq ops) h = Some v -> nth_error (s2_objs st) h = Some oh ->
     nth_error (s2_objs st) j = Some oj -> h <> j ->
     In (r_arr (o2_bg oh)) [r_arr (o2_hh oj); r_arr (o2_sh oj); r_arr (o2_wg oj)] -> False).
Proof. exact no_sharing. Qed.
Print Assumptions C09_no_sharing.

(* Value semantics with no part of the position exempt: after ANY admissible operation sequence EVERY live handle shows,
   through its four headers, exactly the observables of the pure value computed for it. *)
Theorem C09_value_semantics2 : forall hsq ops, ops_ok2 hsq ops = true ->
  forall h v, pval (pure_run hsq ops) h = Some v -> observe2 (run2 hsq ops) h = Some (observe_pure v).
Proof. exact value_semantics2. Qed.
Print Assumptions C09_value_semantics2.

(* A clone c of a live handle h, followed by any admissible operations: c keeps showing -- through its own headers -- the
   observables of the value h had when cloned as long as c is not itself handed over as a buffer, and so does h. *)
Theorem C09_clone_identical2 : forall hsq ops h ops', ops_ok2 hsq (ops ++ OClone h :: ops') = true ->
  exists v, pval (pure_run hsq ops) h = Some v /\
    let c := length (pure_run hsq ops) in
    let st := run2 hsq (ops ++ OClone h :: ops') in
    (Forall (never_buf c) ops' -> observe2 st c = Some (observe_pure v)) /\
    (Forall (never_buf h) ops' -> observe2 st h = Some (observe_pure v)).
Proof. exact clone_identical2. Qed.
Print Assumptions C09_clone_identical2.

(* The in-place transcription of MovePreallocated against the value-level move (Alloc.amv = Move.move_prealloc, or Pass),
   for ANY heap: if the destination's Height/Stacks headers nhh/nsh are valid slices of two different arrays that hold a
   copy of the source's Height/Stacks, the in-place move fails exactly when the value-level move fails, otherwise leaves
   exactly the successor's Height/Stacks in the destination's arrays and returns its scalars, and changes no array other
   than those two. *)
Theorem C09_move_in_place_simulates : forall hsq nhh nsh, r_arr nhh <> r_arr nsh ->
  forall arrs v phh psh m,
  AllocFacts.valid arrs phh -> AllocFacts.valid arrs psh -> read_ref arrs phh = Height v -> read_ref arrs psh = Stacks v ->
  AllocFacts.valid arrs nhh /\ AllocFacts.valid arrs nsh /\ read_ref arrs nhh = Height v /\ read_ref arrs nsh = Stacks v ->
  let arrs' := fst (move_in_place hsq arrs v phh psh nhh nsh m) in
  let r := snd (move_in_place hsq arrs v phh psh nhh nsh m) in
  Alloc2Facts.keeps arrs arrs' (fun a => a = r_arr nhh \/ a = r_arr nsh) /\ length arrs' = length arrs /\
  match amv hsq v m with
  | Ok q => exists sc', r = Ok sc' /\
              (AllocFacts.valid arrs' nhh /\ AllocFacts.valid arrs' nsh /\ read_ref arrs' nhh = Height q /\ read_ref arrs' nsh = Stacks q) /\
              with_hs sc' (Height q) (Stacks q) = q /\ size q = size v
  | Err => r = Err
  | Panic => r = Panic
  end.
Proof. exact Alloc2Facts2.mip_sim. Qed.
Print Assumptions C09_move_in_place_simulates.

(* The size hypothesis is needed: a buffer allocated for another board size (admissible for ops_ok) makes the handle show
   something else than the pure value through its headers. *)
Theorem C09_value_semantics2_needs_size : forall hsq,
  ops_ok hsq wrong_size_ops = true /\ ops_ok2 hsq wrong_size_ops = false /\
  exists v, pval (pure_run hsq wrong_size_ops) 1 = Some v /\ observe2 (run2 hsq wrong_size_ops) 1 <> Some (observe_pure v).
Proof. exact value_semantics2_needs_size. Qed.
Print Assumptions C09_value_semantics2_needs_size.
