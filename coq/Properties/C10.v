(* C10 — TPS text and positions round-trip without loss.
   Only statements, `exact`, and Print Assumptions live here. *)
From Coq Require Import NArith ZArith List Bool.
Require Import Board Move GameOver PtnMove Playtak Tps TpsFacts.
Import ListNotations.

(* First layer of the round trip: the text tpsSquare writes for one square parses back, through the stack
   branch of parseRow, to exactly that square - for every well-formed square (non-empty, a top of any kind,
   only flats below; any height).
   C10_partial: the row layer (maximal runs x / x2..x8), the board layer (FromSquares o At = identity on
   well-formed positions, with equal hash and reserves) and tps_parse_format for canonical strings are decided
   by the correspondence + oracle for now (DESIGN 5.10). *)
Theorem C10_cell_roundtrip_partial : forall sq, wf_square sq -> parse_cell (tps_square sq) = Move.Ok [sq].
Proof. exact cell_roundtrip. Qed.
Print Assumptions C10_cell_roundtrip_partial.
