(* C10 — TPS text and positions round-trip without loss.
   Only statements, `exact`, and Print Assumptions live here.  Proofs: TpsFacts.v, TpsFacts2.v .. TpsFacts9.v.

   Vocabulary (all defined in those files, none of them in the model files):
     at_sq p i            Position.At: the stack on square i, top piece first (model, Tps.v)
     same_squares p q     At agrees on every square i < size*size
     bytes_ok p           the machine types: every Height entry < 256 (uint8), every Stacks entry < 2^64 (uint64)
     rep_ok basis p       the canonical representation (DESIGN 3.2 `wf` without reserves/groups; decidable):
                          list lengths, bitboards inside the board mask, Height = 0 iff no colour bit, colours
                          exclusive, Standing/Caps exclusive and only on occupied squares, stack word < 2^(Height-1),
                          hash = the from-scratch hash
     on_board f p         number of pieces of class f (white/black stone/capstone) on p's board, read through At
     reserves_match_board p   the four reserve counters = default counts of the size - on_board, without underflow
     dec8 a k             a uint8 decremented k times (wraps)
     render_tps board mv  the TPS grammar as a function of a board (rows of squares) and a ply: maximal runs of
                          empties as x / x<k>, stacks bottom-up as 1/2 with S/C for the top, rows top first
     canonical_tps s      s = render_tps board mv for a 3..8 board of At-shaped squares (heights < 256, no black
                          piece deeper than the 64-bit stack word) and 0 <= mv < 2^63 *)
From Coq Require Import NArith ZArith List Bool Ascii String.
Require Import Board Move GameOver PtnMove Playtak Tps TpsFacts TpsFacts2 TpsFacts3 TpsFacts4 TpsFacts5 TpsFacts6 TpsFacts7 TpsFacts8.
Require Import Alloc Preserve1 Preserve5 Reach1 Generated.Consts TpsFacts9 Import1 Import3 Import7.
Require Tei TeiClient TeiClientFacts.
Import ListNotations.

(* Square layer: the text tpsSquare writes for one square parses back, through the stack branch of parseRow, to
   exactly that square - for every well-formed square (non-empty, a top of any kind, only flats below; any height).
   (Kept under its first name; it is a lemma of the full theorems below, no longer the whole result.) *)
Theorem C10_cell_roundtrip_partial : forall sq, wf_square sq -> parse_cell (tps_square sq) = Move.Ok [sq].
Proof. exact cell_roundtrip. Qed.
Print Assumptions C10_cell_roundtrip_partial.

(* Row layer: parseRow of the comma-joined tpsRow gives back exactly what At reads along row y - maximal empty
   runs written x, x2 .. x9 are read back as that many empties.  Holds for sizes 1..9: the reader takes ONE count byte. *)
Theorem C10_row_roundtrip : forall p y, (1 <= N.to_nat (size p) <= 9)%nat ->
  parse_row (join (B ","%char) (tps_row (S (N.to_nat (size p))) p y 0)) = Move.Ok (row_of p y).
Proof. exact row_roundtrip. Qed.
Print Assumptions C10_row_roundtrip.

(* Board layer: splitting the board text at "/" and parsing the rows (written top row first, accumulated in reverse)
   gives the rows bottom-up, i.e. squares in index order x + y*size. *)
Theorem C10_board_roundtrip : forall p, (1 <= N.to_nat (size p) <= 9)%nat ->
  parse_rows (split_on (B "/"%char) (board_text p) []) [] = Move.Ok (board_of p).
Proof. exact board_roundtrip. Qed.
Print Assumptions C10_board_roundtrip.

(* Numbers: strconv.Atoi inverts %d on the whole non-negative int64 range, and ParseTPS's
   2*(number-1)+(turn-1) (computed in int64) inverts FormatTPS's (move/2+1, parity). *)
Theorem C10_atoi_fmt_int : forall z, (0 <= z < 2 ^ 63)%Z -> atoi (fmt_int z) = Some z.
Proof. exact atoi_fmt_int. Qed.
Print Assumptions C10_atoi_fmt_int.

Theorem C10_move_number_inverts : forall mv, (0 <= mv < 2 ^ 63)%Z ->
  wrap64 (2 * ((Z.quot mv 2 + 1) - 1) + ((if Z.even mv then 1 else 2) - 1))%Z = mv.
Proof. exact move_number_inverts. Qed.
Print Assumptions C10_move_number_inverts.

(* tps_format_parse, general form.  For EVERY position value of size 3..8 with 0 <= move (no well-formedness
   of the bitboards needed, only the machine types of Height/Stacks): ParseTPS accepts FormatTPS's text and the
   result shows the same squares through At, the same ply and side to move, carries the from-scratch hash, and its
   reserves are the default counts less the pieces on the board (uint8 arithmetic); if p's reserves match its board
   the four reserves agree. *)
Theorem C10_tps_format_parse : forall basis p, (3 <= size p <= 8)%N -> (0 <= Move.move p < 2 ^ 63)%Z -> bytes_ok p ->
  exists q, parse_tps basis (format_tps p) = Move.Ok q
    /\ size q = size p /\ Move.move q = Move.move p /\ to_move_white q = to_move_white p /\ black_wins_ties q = false
    /\ same_squares p q
    /\ hash q = scratch_hash basis q
    /\ whiteStones q = dec8 (dflt_pieces p) (on_board is_ws p) /\ whiteCaps q = dec8 (dflt_caps p) (on_board is_wc p)
    /\ blackStones q = dec8 (dflt_pieces p) (on_board is_bs p) /\ blackCaps q = dec8 (dflt_caps p) (on_board is_bc p)
    /\ (reserves_match_board p ->
        whiteStones q = whiteStones p /\ whiteCaps q = whiteCaps p /\ blackStones q = blackStones p /\ blackCaps q = blackCaps p).
Proof. exact tps_format_parse. Qed.
Print Assumptions C10_tps_format_parse.

(* tps_format_parse, the statement of DESIGN 5.10 (first sentence of the property).  On a canonically represented
   position whose reserves match its board, the parsed position IS p with black_wins_ties cleared: Equal both ways,
   the same Hash, reserves, side to move and ply. *)
Theorem C10_tps_format_parse_equal : forall basis p,
  (3 <= size p <= 8)%N -> (0 <= Move.move p < 2 ^ 63)%Z -> rep_ok basis p -> reserves_match_board p ->
  exists q, parse_tps basis (format_tps p) = Move.Ok q
    /\ q = {| size := size p; black_wins_ties := false;
              whiteStones := whiteStones p; whiteCaps := whiteCaps p; blackStones := blackStones p; blackCaps := blackCaps p;
              Move.move := Move.move p; White := White p; Black := Black p; Standing := Standing p; Caps := Caps p;
              Height := Height p; Stacks := Stacks p; hash := hash p |}
    /\ equal p q = true /\ equal q p = true /\ hash_of q = hash_of p
    /\ to_move_white q = to_move_white p /\ Move.move q = Move.move p.
Proof. exact tps_format_parse_equal. Qed.
Print Assumptions C10_tps_format_parse_equal.

(* FormatTPS reads a position only through Size, At and the ply: it is the grammar rendering of the squares. *)
Theorem C10_format_render : forall p, format_tps p = render_tps (board_of p) (Move.move p).
Proof. exact format_render. Qed.
Print Assumptions C10_format_render.

(* tps_parse_format (second sentence of the property): every canonical string parses, and formatting the result
   reproduces the string.  No hypothesis on piece counts: the reserve counters may wrap, the text does not care. *)
Theorem C10_tps_parse_format : forall basis s, canonical_tps s ->
  exists q, parse_tps basis s = Move.Ok q /\ format_tps q = s.
Proof. exact tps_parse_format. Qed.
Print Assumptions C10_tps_parse_format.

(* Format o Parse o Format = Format, for every position value of size 3..8 with 0 <= move. *)
Theorem C10_format_parse_format : forall basis p, (3 <= size p <= 8)%N -> (0 <= Move.move p < 2 ^ 63)%Z -> bytes_ok p ->
  exists q, parse_tps basis (format_tps p) = Move.Ok q /\ format_tps q = format_tps p.
Proof. exact format_parse_format. Qed.
Print Assumptions C10_format_parse_format.

(* Reachable positions satisfy the hypotheses.  (1) The invariant of Move (C01, pos_ok) implies the canonical
   representation; (2) `reserves_match_reachable` of DESIGN 5.10: the rules conserve reserve + pieces on the board per
   colour and stones/capstones, so every position replayed from tak.New with the default counts - by ANY raw move
   values but Pass, as long as no position on the way has a stack above 64 pieces (the limit of the uint64 stack word,
   see C01) - is canonically represented, has reserves matching its board, and its ply is the number of moves. *)
Theorem C10_pos_ok_rep_ok : forall p, pos_ok p -> rep_ok gen_basis p.
Proof. exact pos_ok_rep_ok. Qed.
Print Assumptions C10_pos_ok_rep_ok.

Theorem C10_reserves_match_reachable : forall sz bwt ms p, (3 <= sz <= 8)%N -> no_pass ms ->
  let stones := nth (N.to_nat sz) default_pieces 0%N in let caps := nth (N.to_nat sz) default_caps 0%N in
  (forall ms1 ms2 q, ms = ms1 ++ ms2 -> replay (new_pos sz bwt stones caps) ms1 = Move.Ok q -> heights64 q) ->
  replay (new_pos sz bwt stones caps) ms = Move.Ok p ->
  (3 <= size p <= 8)%N /\ rep_ok gen_basis p /\ reserves_match_board p /\ Move.move p = Z.of_nat (List.length ms).
Proof. exact reachable_round_trip_hyps. Qed.
Print Assumptions C10_reserves_match_reachable.

(* on boards 3x3 .. 6x6 a game has at most 62 pieces and the height side condition disappears *)
Theorem C10_reserves_match_reachable_small : forall sz bwt ms p, (3 <= sz <= 6)%N -> no_pass ms ->
  let stones := nth (N.to_nat sz) default_pieces 0%N in let caps := nth (N.to_nat sz) default_caps 0%N in
  replay (new_pos sz bwt stones caps) ms = Move.Ok p ->
  (3 <= size p <= 8)%N /\ rep_ok gen_basis p /\ reserves_match_board p /\ Move.move p = Z.of_nat (List.length ms).
Proof. exact reachable_round_trip_hyps_small. Qed.
Print Assumptions C10_reserves_match_reachable_small.

(* The first sentence of the property on its own quantifier: every reachable position round-trips. *)
Theorem C10_tps_round_trip_reachable : forall sz bwt ms p, (3 <= sz <= 8)%N -> no_pass ms -> (Z.of_nat (List.length ms) < 2 ^ 63)%Z ->
  let stones := nth (N.to_nat sz) default_pieces 0%N in let caps := nth (N.to_nat sz) default_caps 0%N in
  (forall ms1 ms2 q, ms = ms1 ++ ms2 -> replay (new_pos sz bwt stones caps) ms1 = Move.Ok q -> heights64 q) ->
  replay (new_pos sz bwt stones caps) ms = Move.Ok p ->
  exists q, parse_tps gen_basis (format_tps p) = Move.Ok q
    /\ equal p q = true /\ equal q p = true /\ hash_of q = hash_of p
    /\ whiteStones q = whiteStones p /\ whiteCaps q = whiteCaps p /\ blackStones q = blackStones p /\ blackCaps q = blackCaps p
    /\ to_move_white q = to_move_white p /\ Move.move q = Move.move p.
Proof. exact tps_round_trip_reachable. Qed.
Print Assumptions C10_tps_round_trip_reachable.

(* Exact form (proofs in Import7.v over Import1.v/Import3.v, built on the theorems above): on a position satisfying the
   Move invariant, with reserves matching the board and the default tie-break flag, ParseTPS (FormatTPS p) is p ITSELF. *)
Theorem C10_tps_round_trip_exact : forall p, pos_ok p -> reserves_match_board p -> Move.black_wins_ties p = false ->
  (0 <= Move.move p < 2 ^ 63)%Z -> parse_tps gen_basis (format_tps p) = Move.Ok p.
Proof. exact tps_round_trip_exact. Qed.
Print Assumptions C10_tps_round_trip_exact.

(* "all well-formed boards with default piece counts": tak.FromSquares of every 3..8 board of At-shaped squares (stacks
   up to 64 high) whose piece counts fit the default reserves round-trips to itself. *)
Theorem C10_tps_round_trip_squares : forall n board mv, fit_board n board -> counts_fit n board -> (0 <= mv < 2 ^ 63)%Z ->
  let p := from_squares gen_basis (N.of_nat n) board mv in parse_tps gen_basis (format_tps p) = Move.Ok p.
Proof. exact tps_round_trip_squares. Qed.
Print Assumptions C10_tps_round_trip_squares.

(* Non-vacuity: a 5x5 position with a seven-high stack under a black capstone, a white wall on a black flat, a lone
   white capstone and empty runs of every length 1..5 satisfies all hypotheses above; its text is canonical. *)
Theorem C10_nonvacuous : forall basis,
  (3 <= size (ex_p basis) <= 8)%N /\ (0 <= Move.move (ex_p basis) < 2 ^ 63)%Z /\ rep_ok basis (ex_p basis) /\
  reserves_match_board (ex_p basis) /\ bytes_ok (ex_p basis) /\
  at_sq (ex_p basis) 6 = [P true 3; P false 1; P true 1; P true 1; P false 1; P false 1; P true 1] /\
  format_tps (ex_p basis) = bytes_of "x4,2/x5/x2,21S,x2/x,2112212C,x3/1,x2,1C,x 2 7" /\
  canonical_tps (bytes_of "x4,2/x5/x2,21S,x2/x,2112212C,x3/1,x2,1C,x 2 7").
Proof. exact ex_all. Qed.
Print Assumptions C10_nonvacuous.

(* The property's third observation point, the TEI client's `position tps` line (third wave; model coq/TeiClient.v, proof
   coq/TeiClientFacts.v): the line tei.Player.TEIGetMove writes is "position tps " followed by FormatTPS's text, and the engine
   (model coq/Tei.v: strings.Fields, parsePosition, ParseTPS) that reads it after `teinewgame <size p>` - from whatever state, with
   whatever searcher - keeps running and holds a position q that is Equal to p both ways, with the same hash, reserves, side to
   move and move number.  Hypotheses: those of C10_tps_format_parse_equal. *)
Theorem C10_client_line_roundtrip :
  forall (basis : list N) (SS : Type) (mk_searcher : Z -> SS)
         (search : SS -> option Z -> position -> SS * (list rmove * Z * Z * Z)) (e : Tei.engine SS) (p : position),
  (3 <= size p <= 8)%N -> (0 <= Move.move p < 2 ^ 63)%Z -> rep_ok basis p -> reserves_match_board p ->
  let r1 := Tei.step basis SS mk_searcher search e (TeiClient.newgame_line (Z.of_N (size p))) in
  let r2 := Tei.step basis SS mk_searcher search (Tei.sr_eng r1) (TeiClient.position_line p) in
  Tei.sr_status r1 = Tei.Running /\ Tei.sr_status r2 = Tei.Running /\
  exists q, Tei.e_pos (Tei.sr_eng r2) = Some q /\ equal p q = true /\ equal q p = true /\ hash_of q = hash_of p /\
            whiteStones q = whiteStones p /\ whiteCaps q = whiteCaps p /\ blackStones q = blackStones p /\ blackCaps q = blackCaps p /\
            to_move_white q = to_move_white p /\ Move.move q = Move.move p.
Proof. exact TeiClientFacts.client_position_line_equal. Qed.
Print Assumptions C10_client_line_roundtrip.
