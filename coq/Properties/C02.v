(* C02 — game end, winner and win reason follow the rules of Tak.
   Only statements, `exact`, and Print Assumptions live here. *)
From Coq Require Import NArith ZArith List Bool.
Require Import Board Flood Masks LowBit Conn Move GameOver Groups1 Groups2 Groups3 Groups4 Rules RoadFacts RoadFacts2.
Require Import Refine Slide2 Slide6 Slide8 GameOverFacts1 GameOverFacts2 GameOverFacts3 GameOverFacts4 GameOverFacts5 GameOverFacts6 GameOverFacts7.
Require Preserve1 Reach1 Alloc.
Import ListNotations.

(* bitboard.Flood never runs out of its fuel of 65 iterations and returns exactly the set of squares
   reachable from the seed inside `within` by board adjacency (the Grow neighbourhood). *)
Theorem C02_flood_spec : forall c w s, (w < 2^64)%N -> sub s w ->
  exists g, flood 65 c w s = Some g /\ forall i, N.testbit g i = true <-> reach c w s i.
Proof. exact flood_spec. Qed.
Print Assumptions C02_flood_spec.

(* bitboard.FloodGroups, for every size 3..8 and EVERY set B of board squares: never out of fuel, and its
   result lists exactly the connectivity classes of B that have at least two squares. *)
Theorem C02_groups_spec : forall s, (3 <= s <= 8)%N -> forall B, (forall i, N.testbit B i = true -> (i < s * s)%N) ->
  exists gs, groups (precompute s) B = Some gs /\
  (forall g, In g gs -> exists a, N.testbit B a = true /\ (forall i, N.testbit g i = true <-> conn s B a i) /\ exists i, i <> a /\ conn s B a i) /\
  (forall a, N.testbit B a = true -> (exists i, i <> a /\ conn s B a i) -> exists g, In g gs /\ forall i, N.testbit g i = true <-> conn s B a i).
Proof. exact groups_spec. Qed.
Print Assumptions C02_groups_spec.

(* The road clause: hasRoad's test (some group meets two opposite edge masks) succeeds iff there is a
   non-empty list of on-board squares of B, consecutive ones orthogonally adjacent, that starts on one
   edge and ends on the opposite edge (Rules.chain, the path notion of the specification). *)
Theorem C02_road_bits_iff : forall s, (3 <= s <= 8)%N -> forall B, (forall i, N.testbit B i = true -> (i < s * s)%N) ->
  exists gs, groups (precompute s) B = Some gs /\
  (existsb (spans (precompute s)) gs = true <->
   exists path, path <> [] /\ chain path /\ Forall (in_B s B) path /\ ends s path).
Proof. exact road_bits_iff. Qed.
Print Assumptions C02_road_bits_iff.

(* ------------------------------------------------------------------------------------------------------------------
   The end-of-game theorem.  `inv p` (GameOverFacts2) = size 3..8, the representation invariant of C01
   (board_ok (size p) (bview p)), no bit of White/Black outside the size*size board squares, and reserves with
   stones + capstones < 256 per colour (the engine tests the BYTE sum against 0; at 256 it wraps, see
   GameOverFacts5.reserves_wrap).  `abs` is the abstraction function of C01; Rules.Outcome is the specification:
   road owner / on a double road the player who just moved / else, if the board is full or a player is out of
   pieces, the flat count with the tie-break setting / else undecided.

   For every such position the rules assign exactly one outcome o, and GameOver returns (o is decided, winner of o),
   WinDetails returns {over, reason road/flats, winner, the rules' two flat counts}, and ResultFromGame prints the
   corresponding result (and panics exactly when o is Undecided).
   ------------------------------------------------------------------------------------------------------------------ *)
Theorem C02_game_over_correct : forall p, inv p ->
  exists o,
    Outcome (abs p) o /\ (forall o', Outcome (abs p) o' -> o' = o) /\
    game_over p = Some (outcome_over o, outcome_winner o) /\
    win_details p = Some (outcome_details (abs p) o) /\
    result_from_game (outcome_details (abs p) o) = outcome_text o.
Proof. exact game_over_correct. Qed.
Print Assumptions C02_game_over_correct.

(* The same, read from the engine's answer: what WinDetails reports IS the rules' outcome and the rules' flat counts. *)
Theorem C02_win_details_sound : forall p, inv p -> forall d, win_details p = Some d ->
  Outcome (abs p) (details_outcome d) /\
  wd_wflats d = N.of_nat (flat_count (abs p) Rules.White) /\ wd_bflats d = N.of_nat (flat_count (abs p) Rules.Black) /\
  game_over p = Some (wd_over d, wd_winner d) /\
  result_from_game d = outcome_text (details_outcome d).
Proof. exact win_details_sound. Qed.
Print Assumptions C02_win_details_sound.

(* hasRoad: both flood-group computations succeed (no fuel exhaustion) and the edge-mask test on the groups of a
   colour's road bits (tops that are flats or capstones) is exactly Rules.Road for that colour. *)
Theorem C02_road_test : forall p, inv p -> forall c,
  exists gs, groups (precompute (size p)) (road_bits p c) = Some gs /\
  (existsb (spans (precompute (size p))) gs = true <-> Road (abs p) c).
Proof. exact road_test. Qed.
Print Assumptions C02_road_test.

(* The game is over iff a road exists, the board is full, or a player has neither stones nor capstones left. *)
Theorem C02_game_over_iff : forall p, inv p ->
  exists over w, game_over p = Some (over, w) /\
    (over = true <-> Road (abs p) Rules.White \/ Road (abs p) Rules.Black \/ board_full (abs p) = true \/ out_of_pieces (abs p) = true) /\
    (over = false -> w = GNone).
Proof. exact game_over_iff. Qed.
Print Assumptions C02_game_over_iff.

(* A reported road win names a colour that has a road; if the other colour has one too, it is the player who just moved. *)
Theorem C02_road_winner : forall p, inv p -> forall d, win_details p = Some d -> wd_road d = true ->
  exists c, wd_winner d = gcol c /\ wd_over d = true /\ Road (abs p) c /\ (Road (abs p) (flip c) -> c = flip (to_move (abs p))).
Proof. exact road_winner. Qed.
Print Assumptions C02_road_winner.

(* countFlats: the two popcounts are the numbers of squares whose top piece is a flat of that colour. *)
Theorem C02_count_flats : forall p, inv p ->
  count_flats p = (N.of_nat (flat_count (abs p) Rules.White), N.of_nat (flat_count (abs p) Rules.Black)).
Proof. exact count_flats_correct. Qed.
Print Assumptions C02_count_flats.

(* The clauses of `inv` beyond C01's board_ok are inductive along the engine's moves (board_ok of the successor is
   C01's preservation result and appears as a hypothesis). *)
Theorem C02_inv_step : forall p m, inv p -> tall_ok p -> mT m <> 1%N ->
  match mv p m with
  | Ok p' => board_ok (size p') (bview p') -> inv p'
  | _ => True
  end.
Proof. exact inv_step. Qed.
Print Assumptions C02_inv_step.

(* `inv` holds of every position that satisfies the exact C01 invariant (Preserve1.pos_ok) in a game of at most 255 pieces ... *)
Theorem C02_pos_ok_inv : forall p, Preserve1.pos_ok p -> (Preserve1.total p <= 255)%N -> inv p.
Proof. exact pos_ok_inv_total. Qed.
Print Assumptions C02_pos_ok_inv.

(* ... hence for the positions of real games NO hypothesis about the position is left: for every position replayed from tak.New
   (any size 3..8, either tie-break flag, any piece set of at most 64 pieces - the standard sets of 3x3..6x6) through any
   sequence of accepted moves, the position is the one the rules reach and GameOver / WinDetails / ResultFromGame report
   exactly the rules' unique outcome there. *)
Theorem C02_game_over_correct_game : forall sz bwt stones caps ms p,
  (3 <= sz <= 8)%N -> (2 * (stones + caps) <= 64)%N -> Reach1.no_pass ms ->
  Reach1.replay (Alloc.new_pos sz bwt stones caps) ms = Ok p ->
  Rules.play (Reach1.rules_start (N.to_nat sz) stones caps bwt) (map raw ms) = Some (abs p) /\
  exists o,
    Outcome (abs p) o /\ (forall o', Outcome (abs p) o' -> o' = o) /\
    game_over p = Some (outcome_over o, outcome_winner o) /\
    win_details p = Some (outcome_details (abs p) o) /\
    result_from_game (outcome_details (abs p) o) = outcome_text o.
Proof. exact game_over_correct_game. Qed.
Print Assumptions C02_game_over_correct_game.

(* Non-vacuity: a reachable 5x5 position (13 plies from the start) with a bending white road through a capstone
   satisfies `inv`; the rules' road is exhibited directly, and the theorem yields the rules' outcome. *)
Theorem C02_example_inv : inv ex1.
Proof. exact ex1_inv. Qed.
Print Assumptions C02_example_inv.
Theorem C02_example_outcome :
  Outcome (abs ex1) (Win Rules.White true) /\ flat_count (abs ex1) Rules.White = 6%nat /\ flat_count (abs ex1) Rules.Black = 5%nat.
Proof. exact ex1_outcome. Qed.
Print Assumptions C02_example_outcome.
