(* C02 — game end, winner and win reason follow the rules of Tak.
   Only statements, `exact`, and Print Assumptions live here. *)
From Coq Require Import NArith ZArith List Bool.
Require Import Board Flood Masks LowBit Conn Move GameOver Groups1 Groups2 Groups3 Groups4 Rules RoadFacts RoadFacts2.
Import ListNotations.

(* bitboard.Flood never runs out of its fuel of 65 iterations and returns exactly the set of squares
   reachable from the seed inside `within` by board adjacency (the Grow neighbourhood). *)
Theorem C02_flood_spec : forall c w s, (w < 2^64)%N -> sub s w ->
  exists g, flood 65 c w s = Some g /\ forall i, N.testbit g i = true <-> reach c w s i.
Proof. exact flood_spec. Qed.
Print Assumptions C02_flood_spec.

(* bitboard.FloodGroups, for every size 3..8 and EVERY set B of board squares: never out of fuel, and its
   result lists exactly the connectivity classes of B that have at least two squares. *)
Theorem C02_groups_spec : forall s, (3 <= s <= 8)%N -> forall B, (forall i, N.testbit B i = true -> (i < s * s)%N) ->
  exists gs, groups (precompute s) B = Some gs /\
  (forall g, In g gs -> exists a, N.testbit B a = true /\ (forall i, N.testbit g i = true <-> conn s B a i) /\ exists i, i <> a /\ conn s B a i) /\
  (forall a, N.testbit B a = true -> (exists i, i <> a /\ conn s B a i) -> exists g, In g gs /\ forall i, N.testbit g i = true <-> conn s B a i).
Proof. exact groups_spec. Qed.
Print Assumptions C02_groups_spec.

(* The road clause: hasRoad's test (some group meets two opposite edge masks) succeeds iff there is a
   non-empty list of on-board squares of B, consecutive ones orthogonally adjacent, that starts on one
   edge and ends on the opposite edge (Rules.chain, the path notion of the specification). *)
Theorem C02_road_bits_iff : forall s, (3 <= s <= 8)%N -> forall B, (forall i, N.testbit B i = true -> (i < s * s)%N) ->
  exists gs, groups (precompute s) B = Some gs /\
  (existsb (spans (precompute s)) gs = true <->
   exists path, path <> [] /\ chain path /\ Forall (in_B s B) path /\ ends s path).
Proof. exact road_bits_iff. Qed.
Print Assumptions C02_road_bits_iff.
