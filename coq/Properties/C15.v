(* C15 — canonicalisation picks one representative per symmetry class of games.
   Only statements, `exact`, and Print Assumptions live here. *)
From Coq Require Import NArith ZArith List Bool.
Require Import Board Move GameOver Tps Symmetry CanonFacts.

(* preferMove, the comparison Canonical minimises over the stabiliser of the current position, is a strict total
   order on moves that differ in (Y, X, Type): irreflexive, asymmetric, transitive, total - so the minimum over
   an orbit (whose moves share their Slides) is unique.
   C15_partial: canonical_legal_images, canonical_class_invariant and canonical_idempotent (DESIGN 5.15) are
   still to be proved; they are decided by the correspondence + independent oracle (exhaustive on short games) for now. *)
Theorem C15_prefer_move_strict_total_partial :
  (forall m, prefer_move m m = false) /\
  (forall l r, prefer_move l r = true -> prefer_move r l = false) /\
  (forall a b c, prefer_move a b = true -> prefer_move b c = true -> prefer_move a c = true) /\
  (forall l r, key l <> key r -> prefer_move l r = true \/ prefer_move r l = true).
Proof. exact prefer_move_strict_total. Qed.
Print Assumptions C15_prefer_move_strict_total_partial.
