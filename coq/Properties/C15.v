(* C15 — canonicalisation picks one representative per symmetry class of games.
   Only statements, `exact`, and Print Assumptions live here.
   Proof files: CanonFacts.v (preferMove), Canon1-4.v (the loop of Canonical), on top of C14 (SymRules*.v, SymCode*.v) and C01. *)
From Coq Require Import NArith ZArith List Bool.
Require Import Rules SymRules2.
Require Import Board Move GameOver Tps Symmetry CanonFacts Refine Preserve5 Canon1 Canon2 Canon2b Canon3 Canon4 Canon5.
Require Import Generated.Consts.
Close Scope Z_scope. Close Scope N_scope.

(* preferMove, the comparison Canonical minimises over the stabiliser of the current position, is a strict total
   order on moves that differ in (Y, X, Type): irreflexive, asymmetric, transitive, total - so the minimum over
   an orbit (whose moves share their Slides) is unique. *)
Theorem C15_prefer_move_strict_total :
  (forall m, prefer_move m m = false) /\
  (forall l r, prefer_move l r = true -> prefer_move r l = false) /\
  (forall a b c, prefer_move a b = true -> prefer_move b c = true -> prefer_move a c = true) /\
  (forall l r, key l <> key r -> prefer_move l r = true \/ prefer_move r l = true).
Proof. exact prefer_move_strict_total. Qed.
Print Assumptions C15_prefer_move_strict_total.

(* DESIGN 5.15 canonical_legal_images.  If Canonical (model of symmetry.Canonical with the real hash basis) returns cs for the input ms on an
   sz x sz board, then cs has the length of ms and for EVERY k the first k moves of cs and the first k moves of ms are both legal games by
   the rules of Rules.v from the start position P0 sz (= abs of the model's start position), the canonical one ending in the image
   img j of the other for one of the eight symmetries j (images_at).  So the input game is legal too.
   Hypotheses, all visible:
   - canon_input m: ANY int8 coordinates (the Go fields are int8; the code's wrapping flips are covered: an accepted move is shown to have its
     origin on the board, Canon3.cstep_onboard), type code <= 8, a slide has at least one drop (TransformMove panics otherwise: forced by the code);
   - nocoll_trace sz ms (NoCollision): in every state (eight boards) the loop reaches BEFORE a move, a board whose 64-bit hash equals that of
     board 0 - the comparison Canonical makes - shows the same position as board 0.
   Nothing is assumed about the boards: C01's invariant holds of the start position and is preserved by Position.Move (Preserve*.v, Reach1.v);
   for sizes 3..6 the game has at most 64 pieces, so no stack can outgrow the 64-bit stack word (sizes 7, 8: next theorem). *)
Theorem C15_canonical_legal_images : forall sz, (3 <= sz <= 6)%N -> forall ms cs,
  Forall canon_input ms -> nocoll_trace sz ms -> canonical gen_basis sz ms = Ok cs ->
  length cs = length ms /\
  forall k, k <= length ms ->
    exists j A B, j < 8 /\ play (P0 sz) (map raw (firstn k cs)) = Some A /\ play (P0 sz) (map raw (firstn k ms)) = Some B /\ A = img j B.
Proof. exact canonical_legal_images. Qed.
Print Assumptions C15_canonical_legal_images.

(* the same for every size 3..8 (84 and 104 pieces on 7x7 and 8x8), with the exact limit of the bit representation as a further hypothesis:
   sc_trace sz heights64 ms - no board the loop produces has a stack above 64 (C01_over64_refuted shows Position.Move itself is wrong beyond) *)
Theorem C15_canonical_legal_images64 : forall sz, (3 <= sz <= 8)%N -> forall ms cs,
  Forall canon_input ms -> nocoll_trace sz ms -> sc_trace sz heights64 ms -> canonical gen_basis sz ms = Ok cs ->
  length cs = length ms /\
  forall k, k <= length ms ->
    exists j A B, j < 8 /\ play (P0 sz) (map raw (firstn k cs)) = Some A /\ play (P0 sz) (map raw (firstn k ms)) = Some B /\ A = img j B.
Proof. exact canonical_legal_images64. Qed.
Print Assumptions C15_canonical_legal_images64.

(* the hypotheses are satisfiable and the theorems apply: 5x5 (e5, e4, e4 slides up; Canonical rotates by 180 degrees, then flips the
   diagonal: a1, b1, b1 slides left) and the 8x8 analogue *)
Theorem C15_example_hypotheses_hold : Forall canon_input ex_ms /\ nocoll_trace 5 ex_ms /\ canonical gen_basis 5 ex_ms = Ok ex_cs.
Proof. exact ex_hypotheses_hold. Qed.
Print Assumptions C15_example_hypotheses_hold.

Theorem C15_example64_hypotheses_hold :
  Forall canon_input ex8_ms /\ nocoll_trace 8 ex8_ms /\ sc_trace 8 heights64 ex8_ms /\ canonical gen_basis 8 ex8_ms = Ok ex_cs.
Proof. exact ex8_hypotheses_hold. Qed.
Print Assumptions C15_example64_hypotheses_hold.

(* canonical_class_invariant and canonical_idempotent (DESIGN 5.15) are not proved: they are decided by the correspondence and the
   independent oracle (exhaustive on short games). *)
