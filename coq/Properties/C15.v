(* C15 — canonicalisation picks one representative per symmetry class of games.
   Only statements, `exact`, and Print Assumptions live here.
   Proof files: CanonFacts.v (preferMove), Canon1-4.v (the loop of Canonical), on top of C14 (SymRules*.v, SymCode*.v) and C01. *)
From Coq Require Import NArith ZArith List Bool.
Require Import Rules SymRules2.
Require Import Board Move GameOver Tps Symmetry CanonFacts Refine Preserve5 Canon1 Canon2 Canon2b Canon3 Canon4 Canon5 Canon9 Canon10 Canon12.
Require Import SymCode1.
Require Import Generated.Consts.
Require TpsCfg SymmetryCfg.
Close Scope Z_scope. Close Scope N_scope.

(* preferMove, the comparison Canonical minimises over the stabiliser of the current position, is a strict total
   order on moves that differ in (Y, X, Type): irreflexive, asymmetric, transitive, total - so the minimum over
   an orbit (whose moves share their Slides) is unique. *)
Theorem C15_prefer_move_strict_total :
  (forall m, prefer_move m m = false) /\
  (forall l r, prefer_move l r = true -> prefer_move r l = false) /\
  (forall a b c, prefer_move a b = true -> prefer_move b c = true -> prefer_move a c = true) /\
  (forall l r, key l <> key r -> prefer_move l r = true \/ prefer_move r l = true).
Proof. exact prefer_move_strict_total. Qed.
Print Assumptions C15_prefer_move_strict_total.

(* DESIGN 5.15 canonical_legal_images.  If Canonical (model of symmetry.Canonical with the real hash basis) returns cs for the input ms on an
   sz x sz board, then cs has the length of ms and for EVERY k the first k moves of cs and the first k moves of ms are both legal games by
   the rules of Rules.v from the start position P0 sz (= abs of the model's start position), the canonical one ending in the image
   img j of the other for one of the eight symmetries j (images_at).  So the input game is legal too.
   Hypotheses, all visible:
   - canon_input m: ANY int8 coordinates (the Go fields are int8; the code's wrapping flips are covered: an accepted move is shown to have its
     origin on the board, Canon3.cstep_onboard), type code <= 8, a slide has at least one drop (TransformMove panics otherwise: forced by the code);
   - nocoll_trace sz ms (NoCollision): in every state (eight boards) the loop reaches BEFORE a move, a board whose 64-bit hash equals that of
     board 0 - the comparison Canonical makes - shows the same position as board 0.
   Nothing is assumed about the boards: C01's invariant holds of the start position and is preserved by Position.Move (Preserve*.v, Reach1.v);
   for sizes 3..6 the game has at most 64 pieces, so no stack can outgrow the 64-bit stack word (sizes 7, 8: next theorem). *)
Theorem C15_canonical_legal_images : forall sz, (3 <= sz <= 6)%N -> forall ms cs,
  Forall canon_input ms -> nocoll_trace sz ms -> canonical gen_basis sz ms = Ok cs ->
  length cs = length ms /\
  forall k, k <= length ms ->
    exists j A B, j < 8 /\ play (P0 sz) (map raw (firstn k cs)) = Some A /\ play (P0 sz) (map raw (firstn k ms)) = Some B /\ A = img j B.
Proof. exact canonical_legal_images. Qed.
Print Assumptions C15_canonical_legal_images.

(* the same for every size 3..8 (84 and 104 pieces on 7x7 and 8x8), with the exact limit of the bit representation as a further hypothesis:
   sc_trace sz heights64 ms - no board the loop produces has a stack above 64 (C01_over64_refuted shows Position.Move itself is wrong beyond) *)
Theorem C15_canonical_legal_images64 : forall sz, (3 <= sz <= 8)%N -> forall ms cs,
  Forall canon_input ms -> nocoll_trace sz ms -> sc_trace sz heights64 ms -> canonical gen_basis sz ms = Ok cs ->
  length cs = length ms /\
  forall k, k <= length ms ->
    exists j A B, j < 8 /\ play (P0 sz) (map raw (firstn k cs)) = Some A /\ play (P0 sz) (map raw (firstn k ms)) = Some B /\ A = img j B.
Proof. exact canonical_legal_images64. Qed.
Print Assumptions C15_canonical_legal_images64.

(* the hypotheses are satisfiable and the theorems apply: 5x5 (e5, e4, e4 slides up; Canonical rotates by 180 degrees, then flips the
   diagonal: a1, b1, b1 slides left) and the 8x8 analogue *)
Theorem C15_example_hypotheses_hold : Forall canon_input ex_ms /\ nocoll_trace 5 ex_ms /\ canonical gen_basis 5 ex_ms = Ok ex_cs.
Proof. exact ex_hypotheses_hold. Qed.
Print Assumptions C15_example_hypotheses_hold.

Theorem C15_example64_hypotheses_hold :
  Forall canon_input ex8_ms /\ nocoll_trace 8 ex8_ms /\ sc_trace 8 heights64 ex8_ms /\ canonical gen_basis 8 ex8_ms = Ok ex_cs.
Proof. exact ex8_hypotheses_hold. Qed.
Print Assumptions C15_example64_hypotheses_hold.

(* DESIGN 5.15 canonical_class_invariant.  The eight images of a game have the same canonical form: if Canonical returns cs for ms, it returns
   the same cs for the image of ms under each of the eight symmetries g (tmr g n m = the move TransformMove produces, C14_transform_move_tm).
   Same hypotheses as canonical_legal_images (they are about the run on ms only: the run on the image is proved to build the SAME eight boards).
   Proof: both runs keep the same boards; in canonical coordinates the two moves differ by an element of the stabiliser of board 0; the candidate
   loop computes the preferMove-minimum over exactly that stabiliser (NoCollision one way, C08's equal_complete - same squares => same hash -
   the other way), which is a group, and preferMove is a strict total order on an orbit: the same minimum.
   Stated first for accepted games (canonical ms = Ok cs; then ms is legal by canonical_legal_images); the form of DESIGN 5.15 - for every
   LEGAL game, canonical (image) = canonical ms, and it is accepted - follows below (C15_canonical_total, C15_canonical_class_invariant_legal). *)
Theorem C15_canonical_class_invariant : forall sz, (3 <= sz <= 6)%N -> forall g ms cs, g < 8 ->
  Forall canon_input ms -> nocoll_trace sz ms -> canonical gen_basis sz ms = Ok cs ->
  canonical gen_basis sz (map (tmr g (N.to_nat sz)) ms) = Ok cs.
Proof. exact canonical_class_invariant. Qed.
Print Assumptions C15_canonical_class_invariant.

Theorem C15_canonical_class_invariant64 : forall sz, (3 <= sz <= 8)%N -> forall g ms cs, g < 8 ->
  Forall canon_input ms -> nocoll_trace sz ms -> sc_trace sz heights64 ms -> canonical gen_basis sz ms = Ok cs ->
  canonical gen_basis sz (map (tmr g (N.to_nat sz)) ms) = Ok cs.
Proof. exact canonical_class_invariant64. Qed.
Print Assumptions C15_canonical_class_invariant64.

(* Canonical accepts every legal game: if ms is legal by the rules from the start position (play ... = Some B; no other condition on the
   move values: legality already forces type code 2..8, at least one drop in a slide, on-board origins), Canonical returns a canonical form
   - it neither rejects nor panics.  With it, class invariance in the form of DESIGN 5.15. *)
Theorem C15_canonical_total : forall sz, (3 <= sz <= 6)%N -> forall ms B,
  nocoll_trace sz ms -> play (P0 sz) (map raw ms) = Some B -> exists cs, canonical gen_basis sz ms = Ok cs.
Proof. exact canonical_total. Qed.
Print Assumptions C15_canonical_total.

Theorem C15_canonical_class_invariant_legal : forall sz, (3 <= sz <= 6)%N -> forall g ms B, g < 8 ->
  nocoll_trace sz ms -> play (P0 sz) (map raw ms) = Some B ->
  canonical gen_basis sz (map (tmr g (N.to_nat sz)) ms) = canonical gen_basis sz ms /\ exists cs, canonical gen_basis sz ms = Ok cs.
Proof. exact canonical_class_invariant_legal. Qed.
Print Assumptions C15_canonical_class_invariant_legal.

Theorem C15_canonical_total64 : forall sz, (3 <= sz <= 8)%N -> forall ms B,
  nocoll_trace sz ms -> sc_trace sz heights64 ms -> play (P0 sz) (map raw ms) = Some B -> exists cs, canonical gen_basis sz ms = Ok cs.
Proof. exact canonical_total64. Qed.
Print Assumptions C15_canonical_total64.

Theorem C15_canonical_class_invariant_legal64 : forall sz, (3 <= sz <= 8)%N -> forall g ms B, g < 8 ->
  nocoll_trace sz ms -> sc_trace sz heights64 ms -> play (P0 sz) (map raw ms) = Some B ->
  canonical gen_basis sz (map (tmr g (N.to_nat sz)) ms) = canonical gen_basis sz ms /\ exists cs, canonical gen_basis sz ms = Ok cs.
Proof. exact canonical_class_invariant_legal64. Qed.
Print Assumptions C15_canonical_class_invariant_legal64.

(* DESIGN 5.15 canonical_idempotent: the canonical form is a fixed point. *)
Theorem C15_canonical_idempotent : forall sz, (3 <= sz <= 6)%N -> forall ms cs,
  Forall canon_input ms -> nocoll_trace sz ms -> canonical gen_basis sz ms = Ok cs ->
  canonical gen_basis sz cs = Ok cs.
Proof. exact canonical_idempotent. Qed.
Print Assumptions C15_canonical_idempotent.

Theorem C15_canonical_idempotent64 : forall sz, (3 <= sz <= 8)%N -> forall ms cs,
  Forall canon_input ms -> nocoll_trace sz ms -> sc_trace sz heights64 ms -> canonical gen_basis sz ms = Ok cs ->
  canonical gen_basis sz cs = Ok cs.
Proof. exact canonical_idempotent64. Qed.
Print Assumptions C15_canonical_idempotent64.

(* non-vacuity: the image of the 5x5 example under rotCW is a different move list with the same canonical form; the canonical form differs
   from the game and is a fixed point *)
Theorem C15_example_class_invariant :
  map (tmr 6 5) ex_ms <> ex_ms /\ canonical gen_basis 5 (map (tmr 6 5) ex_ms) = Ok ex_cs /\ canonical gen_basis 5 ex_ms = Ok ex_cs.
Proof. exact ex_class_invariant. Qed.
Print Assumptions C15_example_class_invariant.

Theorem C15_example_idempotent : ex_cs <> ex_ms /\ canonical gen_basis 5 ex_cs = Ok ex_cs.
Proof. exact ex_idempotent. Qed.
Print Assumptions C15_example_idempotent.

(* CONFIGURATIONS.  symmetry.Canonical takes a board SIZE, not a position: it replays from tak.New(tak.Config{Size: size}) - default piece
   counts, BlackWinsTies false - whatever configuration the game was played under.  The model's start position is exactly FromSquares / New
   at that zero configuration (TpsCfg.from_squares_cfg: FromSquares under an arbitrary tak.Config), so - unlike symmetry.Symmetries, which
   passes p.Config() (the C14_cfg theorems) - Canonical has no configuration to carry over and the theorems above cover it as it is.  A game played
   under a custom configuration is canonicalised iff it is a legal game under the default one (the custom-reduced, custom-enlarged, custom-capstones families of the check). *)
Theorem C15_start_is_zero_config : forall basis sz,
  Symmetry.new_pos basis sz = TpsCfg.from_squares_cfg basis sz 0%N 0%N false (repeat (repeat nil (N.to_nat sz)) (N.to_nat sz)) 0%Z.
Proof. exact SymmetryCfg.new_pos_zero. Qed.
Print Assumptions C15_start_is_zero_config.

(* NO-COLLISION AS A STATEMENT ABOUT Position.Hash AND Position.Equal ONLY (worker prove3-cong, CanonGame.v).
   nocoll_trace above asks that a board whose hash equals board 0's SHOWS the same position (squares, reserves, ply counter, tie flag).
   The eight boards Canonical keeps are replays from tak.New(Config{Size}) (C15_start_is_zero_config) of the same number of moves - whatever
   the hash comparisons did - hence positions of one game (PnCong3.cinv; sizes 3..6: at most 64 pieces) with the same ply counter, and inside
   one game Position.Equal (bit boards, heights, stacks, size, side to move; neither reserves nor ply) identifies only records that differ in
   the ply counter (C06_equal_congruent's PnCong3.cinv_equal_sim).  So the only hash hypothesis left is
     nocoll_pe_trace sz ms: in every state the loop reaches before a move, a board whose Position.Hash equals board 0's is Position.Equal to it. *)
Require CanonGame.

Theorem C15_nocoll_from_equal : forall sz, (3 <= sz <= 6)%N -> forall ms, CanonGame.nocoll_pe_trace sz ms -> nocoll_trace sz ms.
Proof. exact CanonGame.nocoll_pe_nocoll. Qed.
Print Assumptions C15_nocoll_from_equal.

Theorem C15_canonical_legal_images_game : forall sz, (3 <= sz <= 6)%N -> forall ms cs,
  Forall canon_input ms -> CanonGame.nocoll_pe_trace sz ms -> canonical gen_basis sz ms = Ok cs ->
  length cs = length ms /\
  forall k, k <= length ms ->
    exists j A B, j < 8 /\ play (P0 sz) (map raw (firstn k cs)) = Some A /\ play (P0 sz) (map raw (firstn k ms)) = Some B /\ A = img j B.
Proof. exact CanonGame.canonical_legal_images_game. Qed.
Print Assumptions C15_canonical_legal_images_game.

Theorem C15_canonical_class_invariant_game : forall sz, (3 <= sz <= 6)%N -> forall g ms cs, g < 8 ->
  Forall canon_input ms -> CanonGame.nocoll_pe_trace sz ms -> canonical gen_basis sz ms = Ok cs ->
  canonical gen_basis sz (map (tmr g (N.to_nat sz)) ms) = Ok cs.
Proof. exact CanonGame.canonical_class_invariant_game. Qed.
Print Assumptions C15_canonical_class_invariant_game.

Theorem C15_canonical_idempotent_game : forall sz, (3 <= sz <= 6)%N -> forall ms cs,
  Forall canon_input ms -> CanonGame.nocoll_pe_trace sz ms -> canonical gen_basis sz ms = Ok cs ->
  canonical gen_basis sz cs = Ok cs.
Proof. exact CanonGame.canonical_idempotent_game. Qed.
Print Assumptions C15_canonical_idempotent_game.

Theorem C15_canonical_total_game : forall sz, (3 <= sz <= 6)%N -> forall ms B,
  CanonGame.nocoll_pe_trace sz ms -> play (P0 sz) (map raw ms) = Some B -> exists cs, canonical gen_basis sz ms = Ok cs.
Proof. exact CanonGame.canonical_total_game. Qed.
Print Assumptions C15_canonical_total_game.

(* non-vacuity: the 5x5 example game satisfies the syntactic hypothesis (evaluated inside Coq) *)
Theorem C15_example_nocoll_pe : CanonGame.nocoll_pe_trace 5 ex_ms.
Proof. exact CanonGame.ex_nocoll_pe. Qed.
Print Assumptions C15_example_nocoll_pe.
