(* C19 — a reported immediate road threat for the side to move is a real winning move.
   Only statements, `exact`, and Print Assumptions live here.
   Model: Eval.count_threats (transcription of ai.CountThreats), named piece by piece in Threats.v.
   Proofs: ThreatsFacts1.v (count_one = sum over the groups of popcount(pmap), popcount(tmap)),
           ThreatsFacts2.v (adding a square that joins two edge-touching connected parts creates a spanning group),
           ThreatsFacts3.v (every set bit of a group's placement map pmap is such a square),
           ThreatsFacts4.v (the placement is legal by the placement branch of MovePreallocated; the successor's road bits),
           ThreatsFacts5.v (every set bit of a group's slide map tmap has a neighbouring free flat of the mover whose removal keeps
                            the groups connected: conn_avoid, tmap_sound),
           ThreatsFacts6.v (the slide branch of MovePreallocated for one piece moved one square: mv_slide1; slide_wins; threats_sound).
   `inv p` is C02's invariant (C01's representation invariant, no stray bits, reserves within a byte);
   `mv` is the bit-level model of MovePreallocated (repaired code), `win_details` the model of WinDetails.

   The full statement of DESIGN 5.19 is proved: C19_threats_sound.  The placement half alone is C19_threats_place_sound. *)
From Coq Require Import NArith ZArith List Bool.
Require Import Board Flood Move GameOver Refine GameOverFacts2 GameOverFacts5 Eval EvalSpec Threats ThreatsFacts1 ThreatsFacts3 ThreatsFacts4 ThreatsFacts5 ThreatsFacts6.
Require ThreatsFacts7 Reach1 Alloc.
Import ListNotations.

(* CountThreats' closure is the sum, over the groups in order, of the popcounts of that group's two maps. *)
Theorem C19_count_one_eq : forall c p gs pieces, count_one c p gs pieces = tsum (tcount c p gs pieces) 0 gs (0, 0)%Z.
Proof. exact count_one_eq. Qed.
Print Assumptions C19_count_one_eq.

(* Every set bit of the placement map of the k-th group (B = the mover's road squares, gs = FloodGroups of B, pieces = the
   mover's flats) is an on-board empty square i such that FloodGroups of B + {i} contains a group spanning the board. *)
Theorem C19_pmap_sound : forall s, (3 <= s <= 8)%N -> forall p B, (forall i, N.testbit B i = true -> (i < s * s)%N) ->
  forall gs, groups (precompute s) B = Some gs ->
  forall pieces, (forall i, N.testbit pieces i = true -> N.testbit B i = true) ->
  (forall i, N.testbit (t_empty (precompute s) p) i = true -> N.testbit B i = false /\ (i < s * s)%N) ->
  forall k g, nth_error gs k = Some g ->
  forall i, N.testbit (fst (tmaps (precompute s) p gs pieces k g)) i = true ->
    (i < s * s)%N /\ N.testbit (t_empty (precompute s) p) i = true /\ N.testbit B i = false /\
    exists gs', groups (precompute s) (N.lor B (Conn.bit1 i)) = Some gs' /\ existsb (spans (precompute s)) gs' = true.
Proof. exact pmap_sound. Qed.
Print Assumptions C19_pmap_sound.

(* The placement half of threats_sound. *)
Theorem C19_threats_place_sound : forall p wp wtt bp btt, inv p -> (2 <= move p)%Z -> threats p = Some (wp, wtt, bp, btt) ->
  (to_move_white p = true -> (0 < wp)%Z -> (0 < whiteStones p \/ 0 < whiteCaps p)%N ->
     exists m p', mv p m = Ok p' /\ road_win p' GWhite) /\
  (to_move_white p = false -> (0 < bp)%Z -> (0 < blackStones p \/ 0 < blackCaps p)%N ->
     exists m p', mv p m = Ok p' /\ road_win p' GBlack).
Proof. exact threats_place_sound. Qed.
Print Assumptions C19_threats_place_sound.

(* Non-vacuity: a reachable 3x3 position (4 plies) satisfying the invariant, White to move, wp = 1; the winning placement. *)
Theorem C19_nonvacuous :
  invb ex_threat = true /\ move ex_threat = 4%Z /\ to_move_white ex_threat = true /\
  threats ex_threat = Some (1, 0, 1, 0)%Z /\ whiteStones ex_threat = 8%N /\
  game_over ex_threat = Some (false, GNone) /\
  match mv ex_threat (ThreatsFacts4.M 2 2 0 0)%Z%N with Ok q => win_details q | _ => None end =
    Some {| wd_over := true; wd_road := true; wd_winner := GWhite; wd_wflats := 3; wd_bflats := 2 |}.
Proof. exact threats_place_nonvacuous. Qed.
Print Assumptions C19_nonvacuous.

(* Every set bit of the slide map of the k-th group is a square i that is not a wall or capstone, with a Grow-neighbour j that
   carries a flat of the mover, such that EVERY set of road squares inside the board that keeps the mover's road squares other
   than j and contains i has a spanning group. *)
Theorem C19_tmap_sound : forall s, (3 <= s <= 8)%N -> forall p B, (forall i, N.testbit B i = true -> (i < s * s)%N) ->
  forall gs, groups (precompute s) B = Some gs ->
  forall pieces, (forall i, N.testbit pieces i = true -> N.testbit B i = true) ->
  (forall i, N.testbit (t_nocs (precompute s) p) i = true -> (i < s * s)%N) ->
  forall k g, nth_error gs k = Some g ->
  forall i, N.testbit (snd (tmaps (precompute s) p gs pieces k g)) i = true ->
    (i < s * s)%N /\ N.testbit (t_nocs (precompute s) p) i = true /\
    exists j, N.testbit pieces j = true /\ nb (precompute s) j i /\
      forall B2, (forall x, N.testbit B2 x = true -> (x < s * s)%N) ->
                 (forall x, N.testbit (N.ldiff B (Conn.bit1 j)) x = true -> N.testbit B2 x = true) -> N.testbit B2 i = true ->
                 exists gs2, groups (precompute s) B2 = Some gs2 /\ existsb (spans (precompute s)) gs2 = true.
Proof. exact tmap_sound. Qed.
Print Assumptions C19_tmap_sound.

(* C19, the full statement: a positive placement-or-slide count of the side to move (ply >= 2, the mover has a piece left, which
   holds whenever the game is not over) yields a legal move after which the engine reports: game over, by road, won by the mover. *)
Theorem C19_threats_sound : forall p wp wtt bp btt, inv p -> (2 <= move p)%Z -> threats p = Some (wp, wtt, bp, btt) ->
  (to_move_white p = true -> (0 < wp + wtt)%Z -> (0 < whiteStones p \/ 0 < whiteCaps p)%N ->
     exists m p', mv p m = Ok p' /\ road_win p' GWhite) /\
  (to_move_white p = false -> (0 < bp + btt)%Z -> (0 < blackStones p \/ 0 < blackCaps p)%N ->
     exists m p', mv p m = Ok p' /\ road_win p' GBlack).
Proof. exact threats_sound. Qed.
Print Assumptions C19_threats_sound.

(* The "mover has a piece left" hypothesis is what "the game is not over" gives (GameOver ends the game when a reserve is empty):
   for every position of C02's invariant, from ply 2 on, in which the game is not over, a positive count of the side to move yields
   a legal move after which the engine reports a road win of the mover. *)
Theorem C19_threats_sound_live : forall p c wp wtt bp btt, inv p -> (2 <= move p)%Z -> game_over p = Some (false, c) ->
  threats p = Some (wp, wtt, bp, btt) ->
  (to_move_white p = true -> (0 < wp + wtt)%Z -> exists m p', mv p m = Ok p' /\ road_win p' GWhite) /\
  (to_move_white p = false -> (0 < bp + btt)%Z -> exists m p', mv p m = Ok p' /\ road_win p' GBlack).
Proof. exact ThreatsFacts7.threats_sound_live. Qed.
Print Assumptions C19_threats_sound_live.

(* ... and for the positions of real games no hypothesis about the position is left: any size 3..8, any piece set of at most 64
   pieces, any sequence of at least two accepted moves from tak.New that leaves the game undecided. *)
Theorem C19_threats_sound_game : forall sz bwt stones caps ms p c wp wtt bp btt,
  (3 <= sz <= 8)%N -> (2 * (stones + caps) <= 64)%N -> Reach1.no_pass ms -> (2 <= length ms)%nat ->
  Reach1.replay (Alloc.new_pos sz bwt stones caps) ms = Ok p -> game_over p = Some (false, c) ->
  threats p = Some (wp, wtt, bp, btt) ->
  (to_move_white p = true -> (0 < wp + wtt)%Z -> exists m p', mv p m = Ok p' /\ road_win p' GWhite) /\
  (to_move_white p = false -> (0 < bp + btt)%Z -> exists m p', mv p m = Ok p' /\ road_win p' GBlack).
Proof. exact ThreatsFacts7.threats_sound_game. Qed.
Print Assumptions C19_threats_sound_game.

(* Non-vacuity of the slide half: wp = 0, wt = 1, and the slide (type 8 = down, from c2 to c1) wins. *)
Theorem C19_nonvacuous_slide :
  invb ex_slide = true /\ move ex_slide = 6%Z /\ to_move_white ex_slide = true /\
  threats ex_slide = Some (0, 1, 0, 0)%Z /\ game_over ex_slide = Some (false, GNone) /\
  match mv ex_slide (ThreatsFacts4.M 8 2 1 1)%Z%N with Ok q => win_details q | _ => None end =
    Some {| wd_over := true; wd_road := true; wd_winner := GWhite; wd_wflats := 3; wd_bflats := 2 |}.
Proof. exact threats_slide_nonvacuous. Qed.
Print Assumptions C19_nonvacuous_slide.
