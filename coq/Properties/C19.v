(* C19 — a reported immediate road threat for the side to move is a real winning move.
   Only statements, `exact`, and Print Assumptions live here.
   Model: Eval.count_threats (transcription of ai.CountThreats), named piece by piece in Threats.v.
   Proofs: ThreatsFacts1.v (count_one = sum over the groups of popcount(pmap), popcount(tmap)),
           ThreatsFacts2.v (adding a square that joins two edge-touching connected parts creates a spanning group),
           ThreatsFacts3.v (every set bit of a group's placement map pmap is such a square),
           ThreatsFacts4.v (the placement is legal by the placement branch of MovePreallocated; the successor's road bits).
   `inv p` is C02's invariant (C01's representation invariant, no stray bits, reserves within a byte);
   `mv` is the bit-level model of MovePreallocated (repaired code), `win_details` the model of WinDetails.

   FULL STATEMENT (DESIGN 5.19), not yet proved in full:
     Theorem threats_sound : forall p wp wt bp bt, inv p -> 2 <= move p -> threats p = Some (wp, wt, bp, bt) ->
       (to_move_white p = true  -> 0 < wp + wt -> mover has a stone or capstone -> exists m p', mv p m = Ok p' /\ road_win p' GWhite) /\
       (to_move_white p = false -> 0 < bp + bt -> ...                           -> exists m p', mv p m = Ok p' /\ road_win p' GBlack).
   PROVED: the placement half (counts wp / bp, the `pmap` of countOne) = C19_threats_sound_partial below.
   MISSING: the one-step-slide half (counts wt / bp's companion bt, the `tmap`): a set bit of tmap is a square that is not a
   wall/capstone and is adjacent to a flat of the mover outside the group(s); it needs the slide branch of move_prealloc for a
   one-piece slide (C01's slide_refines gives legality; the successor's road bits lose the origin only if the origin was a
   one-high stack or uncovers an opponent piece).  That half is covered by the check's one-ply search oracle only. *)
From Coq Require Import NArith ZArith List Bool.
Require Import Board Move GameOver Refine GameOverFacts2 GameOverFacts5 Eval EvalSpec Threats ThreatsFacts1 ThreatsFacts3 ThreatsFacts4.
Import ListNotations.

(* CountThreats' closure is the sum, over the groups in order, of the popcounts of that group's two maps. *)
Theorem C19_count_one_eq : forall c p gs pieces, count_one c p gs pieces = tsum (tcount c p gs pieces) 0 gs (0, 0)%Z.
Proof. exact count_one_eq. Qed.
Print Assumptions C19_count_one_eq.

(* Every set bit of the placement map of the k-th group (B = the mover's road squares, gs = FloodGroups of B, pieces = the
   mover's flats) is an on-board empty square i such that FloodGroups of B + {i} contains a group spanning the board. *)
Theorem C19_pmap_sound : forall s, (3 <= s <= 8)%N -> forall p B, (forall i, N.testbit B i = true -> (i < s * s)%N) ->
  forall gs, groups (precompute s) B = Some gs ->
  forall pieces, (forall i, N.testbit pieces i = true -> N.testbit B i = true) ->
  (forall i, N.testbit (t_empty (precompute s) p) i = true -> N.testbit B i = false /\ (i < s * s)%N) ->
  forall k g, nth_error gs k = Some g ->
  forall i, N.testbit (fst (tmaps (precompute s) p gs pieces k g)) i = true ->
    (i < s * s)%N /\ N.testbit (t_empty (precompute s) p) i = true /\ N.testbit B i = false /\
    exists gs', groups (precompute s) (N.lor B (Conn.bit1 i)) = Some gs' /\ existsb (spans (precompute s)) gs' = true.
Proof. exact pmap_sound. Qed.
Print Assumptions C19_pmap_sound.

(* The placement half of threats_sound. *)
Theorem C19_threats_sound_partial : forall p wp wtt bp btt, inv p -> (2 <= move p)%Z -> threats p = Some (wp, wtt, bp, btt) ->
  (to_move_white p = true -> (0 < wp)%Z -> (0 < whiteStones p \/ 0 < whiteCaps p)%N ->
     exists m p', mv p m = Ok p' /\ road_win p' GWhite) /\
  (to_move_white p = false -> (0 < bp)%Z -> (0 < blackStones p \/ 0 < blackCaps p)%N ->
     exists m p', mv p m = Ok p' /\ road_win p' GBlack).
Proof. exact threats_place_sound. Qed.
Print Assumptions C19_threats_sound_partial.

(* Non-vacuity: a reachable 3x3 position (4 plies) satisfying the invariant, White to move, wp = 1; the winning placement. *)
Theorem C19_nonvacuous :
  invb ex_threat = true /\ move ex_threat = 4%Z /\ to_move_white ex_threat = true /\
  threats ex_threat = Some (1, 0, 1, 0)%Z /\ whiteStones ex_threat = 8%N /\
  game_over ex_threat = Some (false, GNone) /\
  match mv ex_threat (ThreatsFacts4.M 2 2 0 0)%Z%N with Ok q => win_details q | _ => None end =
    Some {| wd_over := true; wd_road := true; wd_winner := GWhite; wd_wflats := 3; wd_bflats := 2 |}.
Proof. exact threats_place_nonvacuous. Qed.
Print Assumptions C19_nonvacuous.
