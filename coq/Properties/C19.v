(* C19 — a reported immediate road threat for the side to move is a real winning move.
   Only statements, `exact`, and Print Assumptions live here. *)
From Coq Require Import NArith ZArith List Bool.
Require Import Board Move GameOver Eval EvalSpec.
Import ListNotations.
