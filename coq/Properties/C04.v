(* C04 - every searching player answers a live position with a legal move.
   Only statements, `exact`, and Print Assumptions live here.

   FULL STATEMENT (DESIGN 5.4), not proved in this generality:
     forall cfg st p, wf p -> game_over p = (false,_) -> NoCollisionOn ... -> at_least_one_iteration ... ->
       let '(pv,v,stats,st') := analyze cfg st p in pv <> [] /\ is_ok (move_prealloc p (hd pv))
     + the same for the randomised GetMove, AnalyzeAll, OpeningPlayer.GetMove and MonteCarloAI.GetMove (not Panic, move Ok on p)
     + pv_replays: |v| <= WinThreshold -> replay p pv = Ok _.
   WHAT IS PROVED HERE (all closed under the global context):
     (1) C04_live_has_legal_move: over the bit-level, executed-against-the-code model of GameOver / AllMoves /
         MovePreallocated: a live position has a move in AllMoves that MovePreallocated accepts.
     (2) C04_generator_*: the abstract model of moveGenerator.Next yields only moves that applied, and yields at
         least one whenever AllMoves holds a legal move (hint de-duplication loses nothing).
     (3) C04_root_first_move_legal / C04_root_improved_first_move_legal: the root invariant of pvSearch for an
         ARBITRARY search below the root, table entry, hints, stale PV buffer, symmetry de-duplication.
     (4) C04_analyze_first_move_legal_partial: (1)+(2)+(3) instantiated with the bit-level rules model (abstract root search).
     (4') C04_analyze_first_move_legal (block (8) at the end): the statement for the EXECUTED engine model coq/Search.v (validated
         against ai/minimax.go + ai/moves.go on every ./check C05/C16 run): every configuration, any table, any cancellation point, any
         engine history; the window hypothesis is derived from C18 and (1), the seed path is covered by an explicit NoCollision
         hypothesis on the root's table entry.
     (5) C04_deepening_keeps_legal_head, C04_randomised_choice_legal, C04_analyze_all_heads_legal: the iterative
         deepening loop, the randomised choice and the AnalyzeAll list only ever report pv[0] or generator-yielded moves.
     (9) block at the end (third wave), all for the EXECUTED engine model coq/Search.v: C04_analyze_all_heads_legal_executed (every line of
         AnalyzeAll starts with an accepted move: every configuration, any table, any cancellation point), C04_get_move_randomised_legal
         (model coq/SearchRand.v of the randomised choice in MinimaxAI.GetMove, random source = oracle stream: the returned move is accepted,
         every configuration, 0 < RandomizeWindow <= 2^29, any RandomizeScale; it never panics with the default scale), the FINDING
         C04_get_move_scale_panics (RandomizeScale > RandomizeWindow: rand.Int63n(0) panics, in the model and in the real engine), and
         C04_pv_replays_precise (the WHOLE reported variation replays legally, for precise configurations without a table, any value,
         any cancellation point) and C04_analyze_all_lines_replay_precise (the same for every line of AnalyzeAll).  Whole-PV replay WITH a table stays tested only.  SearchRand.v is executed against the real GetMove on every run (CASE RAND lines:
         the values ai.rand draws are regenerated from Cfg.Seed and handed to the model).
   `_partial` = WHAT IS MISSING in (2)-(5) (all three points are closed by (4') for Analyze and by (9) for AnalyzeAll and the randomised
   GetMove):
     - the root-search model of LegalMove.v is abstract and NOT executed against ai/minimax.go (the executed search
       model is coq/Search.v, owned by C05/C16); its shape was transcribed from pvSearch / moveGenerator.Next by hand;
     - the hypothesis "every child value exceeds the root's alpha" (root window (MinEval-1, MaxEval+1) wider than
       every evaluation and every stored value) is assumed, not derived from the evaluator (C18) and the search;
     - the seed path of Analyze (ms := [te.m] from an exact root entry, never re-validated when no iteration runs) is
       covered only through the hypothesis "the seed's head is legal or the first iteration completes" (NoCollisionOn);
     - whole-PV replay for non-decisive values is NOT modelled: it is covered by the direct oracle only
       (harness/cmd/runimpl/c04.go).
     (6) the Monte-Carlo player: model coq/Mcts.v, executed against ai/mcts pass by pass; see the C04_mcts_* block below.
     (7) the opening book: model coq/Opening.v (BuildOpeningBook, OpeningBook.GetMove, OpeningPlayer.GetMove), executed
         against ai/opening.go on every run (CASE BOOK lines: the whole built book and the answers under a scripted random
         source); C04_opening_book_move_legal / C04_opening_player_move_legal: every move the book answers is accepted by
         Position.Move, under NoCollision stated explicitly; see the block at the end. *)
From Coq Require Import NArith ZArith List Bool.
Require Import Board Move GameOver Refine RefinePlace2 Inst LegalMove LegalMoveLive LegalMoveInst.
Require Mcts MctsFacts MctsFacts2 MctsFacts3 MctsFacts4 MctsFacts5 MctsFacts6 EvalTotal GameOverFacts2 PtnFileSafe.
Require Opening OpeningFacts1 OpeningFacts2 OpeningFacts OpeningFacts3 OpeningEx AllMovesFacts5 Preserve1 Preserve5 TpsFacts5 Generated.Consts.
Require Search SearchExact SearchInst SearchC CancelEx Reach1 Alloc EvalSpec SearchNeg2 SearchNeg5 SearchLegal2 SearchLegal3 SearchLegal4.
Require SearchAll3 SearchAll4 SearchAllLegal2 SearchRand SearchRand3 SearchPv2 SearchPv4.
Import ListNotations.

(* (1) A live position has a legal move and AllMoves lists it.  wf: sizes 3..8, Height/Stacks of length size^2,
   Height[i] = 0 iff no piece on i, White/Black disjoint, Standing/Caps only on occupied squares, byte reserves;
   in_mask: no piece bit outside the board; opening_supply: in the two opening plies the opponent owns a stone
   (true in every position reached from New).  Example LegalMoveInst.hypotheses_satisfiable: non-vacuous. *)
Theorem C04_live_has_legal_move : forall p c,
  wf p -> in_mask p -> opening_supply p -> game_over p = Some (false, c) ->
  exists m q, In m (all_moves p) /\ Inst.mv_fixed p m = Ok q.
Proof. exact live_has_legal_move. Qed.
Print Assumptions C04_live_has_legal_move.

(* (2) moveGenerator.Next: every candidate (table move, pv[0], response move, AllMoves minus the hints) is applied
   before it is yielded ... *)
Theorem C04_generator_yields_only_applied_moves :
  forall (pos mv : Type) (apply : pos -> mv -> option pos) (mv_eqb : mv -> mv -> bool) p (h : hints mv) ms m q,
  In (m, q) (yield pos mv apply mv_eqb p h ms) -> apply p m = Some q.
Proof. exact yield_legal. Qed.
Print Assumptions C04_generator_yields_only_applied_moves.

(* ... and skipping the AllMoves moves that are Equal to a hint never loses the last legal move. *)
Theorem C04_generator_complete :
  forall (pos mv : Type) (apply : pos -> mv -> option pos) (mv_eqb : mv -> mv -> bool) p (h : hints mv) ms m,
  (forall a b, mv_eqb a b = true -> (legal pos mv apply p a <-> legal pos mv apply p b)) ->
  In m ms -> legal pos mv apply p m -> yield pos mv apply mv_eqb p h ms <> [].
Proof. exact yield_complete. Qed.
Print Assumptions C04_generator_complete.

(* the side condition of C04_generator_complete holds for the model of Move.Equal and of MovePreallocated *)
Theorem C04_equal_moves_equally_legal : forall p a b, move_equal a b = true -> Inst.mv_fixed p a = Inst.mv_fixed p b.
Proof. exact move_equal_same_result. Qed.
Print Assumptions C04_equal_moves_equally_legal.

(* (3) The root invariant, for every rules engine `apply`, every search below the root, every table entry `tt`,
   hint set, PV hint, stale buffer content, de-duplication setting and cancellation pattern: a root search that
   completes reports a PV whose first move is legal, provided the generator can yield and every child value
   exceeds alpha0. *)
Theorem C04_root_first_move_legal :
  forall (pos mv : Type) (apply : pos -> mv -> option pos) (mv_eqb : mv -> mv -> bool)
         (K : Type) (key : pos -> K) (syms : pos -> list K) (K_eqb : K -> K -> bool)
         (child_search : nat -> mv -> pos -> list mv -> Z -> Z -> list mv * Z)
         (dedup : bool) (cancelled : nat -> bool) (beta : Z)
         p tt h ms pvhint stale alpha0 pv v,
  yield pos mv apply mv_eqb p h ms <> [] ->
  (forall j m q hint b, (alpha0 < snd (child_search j m q hint alpha0 b))%Z) ->
  root_search pos mv apply mv_eqb K key syms K_eqb child_search dedup cancelled beta p tt h ms pvhint stale alpha0 = Some (pv, v) ->
  head_legal pos mv apply p pv.
Proof. exact root_first_move_legal. Qed.
Print Assumptions C04_root_first_move_legal.

(* without any assumption on values: the first move is legal whenever some child improved on alpha *)
Theorem C04_root_improved_first_move_legal :
  forall (pos mv : Type) (apply : pos -> mv -> option pos) (mv_eqb : mv -> mv -> bool)
         (K : Type) (key : pos -> K) (syms : pos -> list K) (K_eqb : K -> K -> bool)
         (child_search : nat -> mv -> pos -> list mv -> Z -> Z -> list mv * Z)
         (dedup : bool) (cancelled : nat -> bool) (beta : Z)
         p h ms pvhint stale alpha0 best a,
  root_loop pos mv K key syms K_eqb child_search dedup cancelled beta (yield pos mv apply mv_eqb p h ms) 0
            (match pvhint with [] => [stale] | _ => pvhint end) alpha0 false [] = Some (best, a, true) ->
  head_legal pos mv apply p best.
Proof. exact root_improved_legal. Qed.
Print Assumptions C04_root_improved_first_move_legal.

(* (4) (1)+(2)+(3) on the bit-level model: Examples LegalMoveInst.hypotheses_satisfiable, window_hypothesis_satisfiable. *)
Theorem C04_analyze_first_move_legal_partial :
  forall (K : Type) (key : position -> K) (syms : position -> list K) (K_eqb : K -> K -> bool)
         (child_search : nat -> rmove -> position -> list rmove -> Z -> Z -> list rmove * Z)
         (dedup : bool) (cancelled : nat -> bool) (beta alpha0 : Z)
         (p : position) (c : gcolor) (tt : option (rmove * Z)) (h : hints rmove) (pvhint : list rmove) (stale : rmove)
         (pv : list rmove) (v : Z),
  wf p -> in_mask p -> opening_supply p -> game_over p = Some (false, c) ->
  (forall j m q hint b, (alpha0 < snd (child_search j m q hint alpha0 b))%Z) ->
  root_search position rmove apply_m move_equal K key syms K_eqb child_search dedup cancelled beta
              p tt h (all_moves p) pvhint stale alpha0 = Some (pv, v) ->
  exists m rest q, pv = m :: rest /\ Inst.mv_fixed p m = Ok q.
Proof. exact model_root_first_move_legal. Qed.
Print Assumptions C04_analyze_first_move_legal_partial.

(* (5) Analyze's deepening loop keeps a legal head: a cancelled iteration keeps the previous PV, a completed one
   replaces it by its own; the table seed must be legal unless the first iteration completes. *)
Theorem C04_deepening_keeps_legal_head :
  forall (pos mv : Type) (apply : pos -> mv -> option pos) (stop : Z -> bool) (p : pos)
         (iters : list (list mv -> option (list mv * Z))) (ms0 : list mv) (v0 : Z),
  (forall it ms r, In it iters -> it ms = Some r -> head_legal pos mv apply p (fst r)) ->
  (head_legal pos mv apply p ms0 \/ exists it rest r, iters = it :: rest /\ it ms0 = Some r) ->
  head_legal pos mv apply p (fst (deepen mv stop iters ms0 v0)).
Proof. exact analyze_first_move_legal. Qed.
Print Assumptions C04_deepening_keeps_legal_head.

(* GetMove with RandomizeWindow returns pv[0] or a generator-yielded move, for every random stream `pick` *)
Theorem C04_randomised_choice_legal :
  forall (pos mv : Type) (apply : pos -> mv -> option pos) (mv_eqb : mv -> mv -> bool) (pick : nat -> mv -> pos -> bool)
         p (h : hints mv) ms i rv,
  legal pos mv apply p rv -> legal pos mv apply p (getmove_random pos mv pick (yield pos mv apply mv_eqb p h ms) i rv).
Proof. exact getmove_random_legal. Qed.
Print Assumptions C04_randomised_choice_legal.

(* every PV reported by AnalyzeAll starts with pv[0] or a generator-yielded move *)
Theorem C04_analyze_all_heads_legal :
  forall (pos mv : Type) (apply : pos -> mv -> option pos) (mv_eqb : mv -> mv -> bool) (keep : mv -> pos -> option (list mv))
         p (h : hints mv) ms pv,
  head_legal pos mv apply p pv ->
  Forall (head_legal pos mv apply p) (analyze_all pos mv keep pv (yield pos mv apply mv_eqb p h ms)).
Proof. exact analyze_all_heads_legal. Qed.
Print Assumptions C04_analyze_all_heads_legal.


(* ---- (6) the Monte-Carlo player (ai/mcts), model coq/Mcts.v, executed against the code pass by pass (CASE MCTS lines) ----
   F, f_*: the float scores of tree.ucb are a parameter (any type, any functions): every statement holds for ANY selection rule.
   rs: the oracle stream of math/rand values; fuel: how often the clock lets the loop run; perm: sort.Sort's permutation. *)

(* the invariant: every child in the tree was produced by a successful MovePreallocated on its parent's position *)
Theorem C04_mcts_pass_keeps_invariant :
  forall (F : Type) (f_neg_inf f_m100 f_p100 f_p10 : F) (f_score : Z -> Z -> Z -> F) (f_gt f_eq : F -> F -> bool)
         (cfg : Mcts.mcfg) (t : Mcts.tree) (rs : Mcts.rstream) (t' : Mcts.tree) (brk : bool) (rs' : Mcts.rstream),
  MctsFacts.tree_ok t ->
  Mcts.iter_step F f_neg_inf f_m100 f_p100 f_p10 f_score f_gt f_eq cfg t rs = Ok (t', brk, rs') ->
  MctsFacts.tree_ok t' /\ MctsFacts.same_head t t'.
Proof. exact MctsFacts.iter_step_preserves. Qed.
Print Assumptions C04_mcts_pass_keeps_invariant.

Theorem C04_mcts_loop_keeps_invariant :
  forall (F : Type) (f_neg_inf f_m100 f_p100 f_p10 : F) (f_score : Z -> Z -> Z -> F) (f_gt f_eq : F -> F -> bool)
         (cfg : Mcts.mcfg) (fuel : nat) (t : Mcts.tree) (rs : Mcts.rstream) (t' : Mcts.tree) (rs' : Mcts.rstream),
  MctsFacts.tree_ok t ->
  Mcts.iterate F f_neg_inf f_m100 f_p100 f_p10 f_score f_gt f_eq cfg fuel t rs = Ok (t', rs') ->
  MctsFacts.tree_ok t' /\ MctsFacts.same_head t t'.
Proof. exact MctsFacts.iterate_preserves. Qed.
Print Assumptions C04_mcts_loop_keeps_invariant.

(* the final choice (most simulations with random tie-break / proven child) returns the move of a child of the root *)
Theorem C04_mcts_final_choice_is_a_child :
  forall (t : Mcts.tree) (perm : list nat) (rs : Mcts.rstream) (m : rmove) (rs' : Mcts.rstream),
  Mcts.final_choice t perm rs = Ok (m, rs') -> exists c, In c (Mcts.t_children t) /\ m = Mcts.t_move c.
Proof. exact MctsFacts.final_choice_child. Qed.
Print Assumptions C04_mcts_final_choice_is_a_child.

(* hence: whatever GetMove returns after searching is accepted by MovePreallocated on the searched position — NO hypothesis on
   the position, the stream, the scores, the clock, the sort *)
Theorem C04_mcts_searched_move_legal :
  forall (F : Type) (f_neg_inf f_m100 f_p100 f_p10 : F) (f_score : Z -> Z -> Z -> F) (f_gt f_eq : F -> F -> bool)
         (cfg : Mcts.mcfg) (fuel : nat) (perm : list nat) (p : position) (rs : Mcts.rstream) (m : rmove) (rs' : Mcts.rstream),
  Mcts.force_corners cfg && (move p <? 2)%Z = false ->
  Mcts.get_move F f_neg_inf f_m100 f_p100 f_p10 f_score f_gt f_eq cfg fuel perm p rs = Ok (m, rs') ->
  exists q, Inst.mv_fixed p m = Ok q.
Proof. exact MctsFacts.getmove_searched_move_legal. Qed.
Print Assumptions C04_mcts_searched_move_legal.

(* cornerMove (ForceCorners, plies 0 and 1): the returned corner is empty and the placement is legal; no panic; the loop can
   only fail to return (Err: stream exhausted) when every pair of draws selected an occupied corner ... *)
Theorem C04_mcts_corner_move_legal :
  forall (p : position) (rs : Mcts.rstream), wf p -> (move p < 2)%Z -> opening_supply p ->
  match Mcts.corner_move p rs with
  | Ok (m, _) => exists q, Inst.mv_fixed p m = Ok q
  | Err => MctsFacts2.all_pairs_occupied p rs
  | Panic => False
  end.
Proof. exact MctsFacts2.corner_move_legal. Qed.
Print Assumptions C04_mcts_corner_move_legal.

(* ... which cannot happen with at most one occupied square once the stream holds two pairs of draws differing in a low bit *)
Theorem C04_mcts_corner_move_returns :
  forall (p : position) (rs : Mcts.rstream) (ab ab' : N * N), wf p -> (move p < 2)%Z -> opening_supply p ->
  MctsFacts2.at_most_one_occupied p -> In ab (MctsFacts2.pairs rs) -> In ab' (MctsFacts2.pairs rs) -> ab <> ab' ->
  exists m rs' q, Mcts.corner_move p rs = Ok (m, rs') /\ Inst.mv_fixed p m = Ok q.
Proof. exact MctsFacts2.corner_move_returns. Qed.
Print Assumptions C04_mcts_corner_move_returns.

(* descend never panics and stops at a node of the tree *)
Theorem C04_mcts_descend_in_tree :
  forall (F : Type) (f_neg_inf f_m100 f_p100 f_p10 : F) (f_score : Z -> Z -> Z -> F) (f_gt f_eq : F -> F -> bool)
         (t : Mcts.tree) (rs : Mcts.rstream),
  match Mcts.descend F f_neg_inf f_m100 f_p100 f_p10 f_score f_gt f_eq t rs with
  | Ok (path, _) => (exists node, Mcts.node_at path t = Some node) /\ (Mcts.t_children t <> [] -> path <> [])
  | Err => True
  | Panic => False
  end.
Proof. exact MctsFacts3.descend_spec. Qed.
Print Assumptions C04_mcts_descend_in_tree.

(* after at least one pass over a live position the root has a child (C04_live_has_legal_move): tree.children[0] exists *)
Theorem C04_mcts_root_has_child :
  forall (F : Type) (f_neg_inf f_m100 f_p100 f_p10 : F) (f_score : Z -> Z -> Z -> F) (f_gt f_eq : F -> F -> bool)
         (cfg : Mcts.mcfg) (p : position) (c : gcolor) (fuel : nat) (rs : Mcts.rstream) (t : Mcts.tree) (rs' : Mcts.rstream),
  wf p -> in_mask p -> opening_supply p -> game_over p = Some (false, c) ->
  Mcts.iterate F f_neg_inf f_m100 f_p100 f_p10 f_score f_gt f_eq cfg (S fuel) (Mcts.root_of p) rs = Ok (t, rs') ->
  Mcts.t_children t <> [].
Proof. exact MctsFacts3.iterate_root_has_child. Qed.
Print Assumptions C04_mcts_root_has_child.

(* GetMove returns only legal moves (searched answer and forced corner) *)
Theorem C04_mcts_getmove_legal :
  forall (F : Type) (f_neg_inf f_m100 f_p100 f_p10 : F) (f_score : Z -> Z -> Z -> F) (f_gt f_eq : F -> F -> bool)
         (cfg : Mcts.mcfg) (fuel : nat) (perm : list nat) (p : position) (rs : Mcts.rstream) (m : rmove) (rs' : Mcts.rstream),
  (Mcts.force_corners cfg && (move p <? 2)%Z = true -> wf p /\ opening_supply p) ->
  Mcts.get_move F f_neg_inf f_m100 f_p100 f_p10 f_score f_gt f_eq cfg fuel perm p rs = Ok (m, rs') ->
  exists q, Inst.mv_fixed p m = Ok q.
Proof. exact MctsFacts5.getmove_legal. Qed.
Print Assumptions C04_mcts_getmove_legal.

(* GetMove does not panic (Int31n(0) in a rollout, index panics, BitCoords, tree.children[0]) with at least one pass of the loop,
   for every invariant G of positions that is kept by moves, excludes MovePreallocated panics (PtnFileSafe.safe), gives live
   positions a legal move and makes the evaluator total *)
Theorem C04_mcts_search_no_panic_generic :
  forall G : position -> Prop,
  (forall p, G p -> PtnFileSafe.safe p) ->
  (forall p m q, G p -> Inst.mv_fixed p m = Ok q -> G q) ->
  (forall p c, G p -> game_over p = Some (false, c) -> exists m q, In m (all_moves p) /\ Inst.mv_fixed p m = Ok q) ->
  (forall p, G p -> EvalInst.eval_default p <> Panic) ->
  forall (F : Type) (f_neg_inf f_m100 f_p100 f_p10 : F) (f_score : Z -> Z -> Z -> F) (f_gt f_eq : F -> F -> bool)
         (cfg : Mcts.mcfg) (fuel : nat) (perm : list nat) (p : position) (c : gcolor) (rs : Mcts.rstream),
  G p -> game_over p = Some (false, c) -> Mcts.force_corners cfg && (move p <? 2)%Z = false ->
  Mcts.get_move F f_neg_inf f_m100 f_p100 f_p10 f_score f_gt f_eq cfg (S fuel) perm p rs <> Panic.
Proof. exact MctsFacts4.getmove_search_no_panic. Qed.
Print Assumptions C04_mcts_search_no_panic_generic.

(* FULL STATEMENT (not proved): forall p, wf-reachable p -> live p -> get_move ... (S fuel) ... p rs <> Panic.
   PROVED: for G0 = C01's pos_ok + at most 64 pieces in the game (every standard game up to 6x6) + ply >= 0 + opening supply,
   ASSUMING the built-in evaluator is total on G0 (C18 bounds its values; totality needs the geometry of bitboard.Dimensions:
   missing), and without the 7x7/8x8 games (more than 64 pieces: needs a stack-height hypothesis along the rollouts). *)
Theorem C04_mcts_getmove_no_panic_partial :
  (forall p, MctsFacts5.G0 p -> EvalInst.eval_default p <> Panic) ->
  forall (F : Type) (f_neg_inf f_m100 f_p100 f_p10 : F) (f_score : Z -> Z -> Z -> F) (f_gt f_eq : F -> F -> bool)
         (cfg : Mcts.mcfg) (fuel : nat) (perm : list nat) (p : position) (c : gcolor) (rs : Mcts.rstream),
  MctsFacts5.G0 p -> game_over p = Some (false, c) ->
  Mcts.get_move F f_neg_inf f_m100 f_p100 f_p10 f_score f_gt f_eq cfg (S fuel) perm p rs <> Panic.
Proof. exact MctsFacts5.getmove_no_panic_partial. Qed.
Print Assumptions C04_mcts_getmove_no_panic_partial.

(* THE SAME WITHOUT THE ASSUMPTION: the built-in evaluator is total on the invariant (EvalTotal.v: bitboard.Dimensions measures a
   group wider than the board - and scoreGroups then indexes past the weight array - only when the group touches both the left and
   the right edge, i.e. only when the game is over, where evaluate takes the terminal branch).  What remains outside: games of
   more than 64 pieces (7x7, 8x8), which need a stack-height hypothesis along the rollouts. *)
Theorem C04_mcts_getmove_no_panic :
  forall (F : Type) (f_neg_inf f_m100 f_p100 f_p10 : F) (f_score : Z -> Z -> Z -> F) (f_gt f_eq : F -> F -> bool)
         (cfg : Mcts.mcfg) (fuel : nat) (perm : list nat) (p : position) (c : gcolor) (rs : Mcts.rstream),
  MctsFacts5.G0 p -> game_over p = Some (false, c) ->
  Mcts.get_move F f_neg_inf f_m100 f_p100 f_p10 f_score f_gt f_eq cfg (S fuel) perm p rs <> Panic.
Proof. exact MctsFacts6.getmove_no_panic. Qed.
Print Assumptions C04_mcts_getmove_no_panic.

(* the evaluator never panics (and never hangs: the loops of Dimensions run on fuel in the model and report exhaustion as a panic):
   every weight vector, every position of C02's invariant, finished or not *)
Theorem C04_evaluate_never_panics : forall w p, GameOverFacts2.inv p -> exists v, Eval.evaluate w p = Ok v.
Proof. exact EvalTotal.evaluate_never_panics. Qed.
Print Assumptions C04_evaluate_never_panics.

(* non-vacuity: a live 14-ply 5x5 position and the 5x5 start position satisfy the hypotheses above *)
Theorem C04_mcts_nonvacuous :
  (MctsFacts5.G0 PreserveEx.p14 /\ game_over PreserveEx.p14 = Some (false, GNone)) /\
  (MctsFacts5.G0 PreserveEx.start5 /\ game_over PreserveEx.start5 = Some (false, GNone) /\ wf PreserveEx.start5 /\
   opening_supply PreserveEx.start5 /\ MctsFacts2.at_most_one_occupied PreserveEx.start5).
Proof. exact (conj MctsFacts5.G0_p14 MctsFacts5.G0_start5). Qed.
Print Assumptions C04_mcts_nonvacuous.

(* non-vacuity of the legality theorems: the model returns moves (3x3 start position, three passes; forced corner) *)
Theorem C04_mcts_nonvacuous_runs :
  MctsFacts5.ex_search = Ok ({| mX := 2; mY := 2; mT := 2; mS := 0 |}, repeat 0%N 8) /\
  MctsFacts5.ex_corner = Ok ({| mX := 2; mY := 0; mT := 2; mS := 0 |}, []).
Proof. exact (conj MctsFacts5.ex_getmove_search MctsFacts5.ex_getmove_corner). Qed.
Print Assumptions C04_mcts_nonvacuous_runs.

(* ---- (7) the opening book (ai/opening.go), model coq/Opening.v, executed against the code on every run (CASE BOOK lines) ----
   Opening.build_book gen_basis sz lines = BOk b: BuildOpeningBook(sz, lines) returned a book (no error exit, no panic);
     lines are the raw byte strings, split at single spaces and parsed with PtnMove.parse_move as the code does.
   Opening.book_get_move b p rnd i = Ok (m, true, j): OpeningBook.GetMove(p, r) returned (m, true), where rnd k n is the
     result of the k-th call r.Int31n(n) (OpeningFacts.in_range: 0 <= rnd k n < n, as math/rand guarantees).
   HYPOTHESES, all explicit:
   - OpeningFacts.NoCollisionOn S, S = the queried position p and OpeningFacts.book_position sz lines (the eight symmetric
     images of every position in front of a word of a line): two members of S with the same 64-bit Hash() show the same
     squares and have the same side to move.  (Hash() does not see the ply counter, so the entry found for p may have
     been created at another ply: the proof transfers legality along "same squares, same side to move".)
   - OpeningFacts.lines_heights64 sz lines: no position reached along a book line has a stack higher than 64 - the
     representation limit of C01.  For sizes 3..6 (at most 62 pieces) it holds outright: C04_opening_book_move_legal_small.
   - the queried position: Preserve1.pos_ok p (the C01 invariant), TpsFacts5.reserves_match_board p (its four reserve counters
     are the default counts of its size less the pieces on its board - Symmetries rebuilds the book's positions with
     FromSquares from the default configuration, so only such positions have the book positions' legal moves),
     OpeningFacts2.opening_consistent p (the ply counter is below 2 exactly when fewer than two pieces have left the
     reserves).  Every position reached from tak.New(Config{Size}) by legal moves satisfies all three
     (C04_game_positions_satisfy_query_hypotheses, sizes 3..6).
   Non-vacuity: C04_opening_book_nonvacuous (a concrete two-move 5x5 line: the book builds, every hypothesis holds, a move is returned).
   "Not Panic": C04_opening_book_get_move_no_panic / C04_opening_player_no_panic below - for a book of fewer than 2^28 words
   GetMove returns for EVERY position, random source and hash behaviour (Int31n's argument int32(sum) stays positive because an
   entry's weights sum to at most 8 per word); above that bound the model, like the code, panics in rand.Int31n. *)
Theorem C04_opening_book_move_legal :
  forall (sz : Z) (lines : list (list N)) (b : Opening.book) (p : position) (rnd : nat -> Z -> Z) (i : nat) (m : rmove) (j : nat),
  Opening.build_book Generated.Consts.gen_basis sz lines = Opening.BOk b ->
  OpeningFacts.lines_heights64 sz lines ->
  OpeningFacts.NoCollisionOn (fun x => x = p \/ OpeningFacts.book_position sz lines x) ->
  Preserve1.pos_ok p -> TpsFacts5.reserves_match_board p -> OpeningFacts2.opening_consistent p ->
  OpeningFacts.in_range rnd ->
  Opening.book_get_move b p rnd i = Ok (m, true, j) ->
  exists p', Refine.mv p m = Ok p'.
Proof. exact OpeningFacts.opening_book_move_legal. Qed.
Print Assumptions C04_opening_book_move_legal.

Theorem C04_opening_book_move_legal_small :
  forall (sz : Z) (lines : list (list N)) (b : Opening.book) (p : position) (rnd : nat -> Z -> Z) (i : nat) (m : rmove) (j : nat),
  (sz <= 6)%Z ->
  Opening.build_book Generated.Consts.gen_basis sz lines = Opening.BOk b ->
  OpeningFacts.NoCollisionOn (fun x => x = p \/ OpeningFacts.book_position sz lines x) ->
  Preserve1.pos_ok p -> TpsFacts5.reserves_match_board p -> OpeningFacts2.opening_consistent p ->
  OpeningFacts.in_range rnd ->
  Opening.book_get_move b p rnd i = Ok (m, true, j) ->
  exists p', Refine.mv p m = Ok p'.
Proof. exact OpeningFacts.opening_book_move_legal_small. Qed.
Print Assumptions C04_opening_book_move_legal_small.

(* OpeningPlayer.GetMove: the book's answer when it has one, else the inner player's (an arbitrary function) *)
Theorem C04_opening_player_move_legal :
  forall (sz : Z) (lines : list (list N)) (b : Opening.book) (inner : position -> Move.res rmove) (p : position)
         (rnd : nat -> Z -> Z) (i : nat) (m : rmove) (j : nat),
  Opening.build_book Generated.Consts.gen_basis sz lines = Opening.BOk b ->
  OpeningFacts.lines_heights64 sz lines ->
  OpeningFacts.NoCollisionOn (fun x => x = p \/ OpeningFacts.book_position sz lines x) ->
  Preserve1.pos_ok p -> TpsFacts5.reserves_match_board p -> OpeningFacts2.opening_consistent p ->
  OpeningFacts.in_range rnd ->
  (forall m', inner p = Ok m' -> exists p', Refine.mv p m' = Ok p') ->
  Opening.opening_player_get_move b inner p rnd i = Ok (m, j) ->
  exists p', Refine.mv p m = Ok p'.
Proof. exact OpeningFacts.opening_player_move_legal. Qed.
Print Assumptions C04_opening_player_move_legal.

(* the invariant behind it: every entry of a built book is keyed by the hash of its position, lists at least one reply,
   and every listed reply is accepted by Position.Move on the entry's own position *)
Theorem C04_opening_book_entries_legal :
  forall (sz : Z) (lines : list (list N)) (b : Opening.book) (S : position -> Prop),
  OpeningFacts.NoCollisionOn S -> (forall q, OpeningFacts.book_position sz lines q -> S q) ->
  OpeningFacts.lines_heights64 sz lines ->
  Opening.build_book Generated.Consts.gen_basis sz lines = Opening.BOk b ->
  forall e, In e b ->
    Opening.be_hash e = GameOver.hash_of (Opening.be_pos e) /\ Opening.be_moves e <> [] /\
    forall c, In c (Opening.be_moves e) -> exists q', Refine.mv (Opening.be_pos e) (Opening.ch_move c) = Ok q'.
Proof. exact OpeningEx.book_entries_legal. Qed.
Print Assumptions C04_opening_book_entries_legal.

(* the hypotheses on the queried position hold in every game from tak.New with default counts (sizes 3..6: no height hypothesis) *)
Theorem C04_game_positions_satisfy_query_hypotheses :
  forall (sz : Z) (p0 : position) (ms : list rmove) (p : position),
  (sz <= 6)%Z -> Opening.new_pos Generated.Consts.gen_basis sz = Ok p0 -> AllMovesFacts5.replay p0 ms = Ok p ->
  Preserve1.pos_ok p /\ TpsFacts5.reserves_match_board p /\ OpeningFacts2.opening_consistent p.
Proof. exact OpeningEx.game_positions_good. Qed.
Print Assumptions C04_game_positions_satisfy_query_hypotheses.

(* non-vacuity: the 5x5 line "a1 e5" *)
Theorem C04_opening_book_nonvacuous :
  exists (b : Opening.book) (p : position) (m : rmove) (j : nat),
  Opening.build_book Generated.Consts.gen_basis 5 [OpeningEx.ex_line] = Opening.BOk b /\
  OpeningFacts.lines_heights64 5 [OpeningEx.ex_line] /\
  OpeningFacts.NoCollisionOn (fun x => x = p \/ OpeningFacts.book_position 5 [OpeningEx.ex_line] x) /\
  Preserve1.pos_ok p /\ TpsFacts5.reserves_match_board p /\ OpeningFacts2.opening_consistent p /\
  OpeningFacts.in_range (fun _ _ => 0%Z) /\
  Opening.book_get_move b p (fun _ _ => 0%Z) 0 = Ok (m, true, j) /\ m <> Opening.zero_move.
Proof. exact OpeningEx.ex_nonvacuous. Qed.
Print Assumptions C04_opening_book_nonvacuous.

(* OpeningBook.GetMove / OpeningPlayer.GetMove never panic on a book BuildOpeningBook returned, as long as the lines hold fewer
   than 2^28 words (OpeningFacts3.words counts them as strings.Split does): no hypothesis on the position, the hashes or the
   random source.  With C04_opening_book_move_legal: "the returned move is Ok on p, and the call is not Panic". *)
Theorem C04_opening_book_get_move_no_panic :
  forall (sz : Z) (lines : list (list N)) (b : Opening.book) (p : position) (rnd : nat -> Z -> Z) (i : nat),
  (8 * Z.of_nat (OpeningFacts3.words lines) < 2147483648)%Z ->
  Opening.build_book Generated.Consts.gen_basis sz lines = Opening.BOk b ->
  exists m ok j, Opening.book_get_move b p rnd i = Ok (m, ok, j).
Proof. exact OpeningFacts3.book_get_move_no_panic. Qed.
Print Assumptions C04_opening_book_get_move_no_panic.

Theorem C04_opening_player_no_panic :
  forall (sz : Z) (lines : list (list N)) (b : Opening.book) (inner : position -> Move.res rmove) (p : position)
         (rnd : nat -> Z -> Z) (i : nat),
  (8 * Z.of_nat (OpeningFacts3.words lines) < 2147483648)%Z ->
  Opening.build_book Generated.Consts.gen_basis sz lines = Opening.BOk b ->
  (exists m, inner p = Ok m) ->
  exists m j, Opening.opening_player_get_move b inner p rnd i = Ok (m, j).
Proof. exact OpeningFacts3.opening_player_no_panic. Qed.
Print Assumptions C04_opening_player_no_panic.


(* ---- (8) Analyze of the alpha-beta engine, EXECUTED model coq/Search.v (ai/minimax.go + ai/moves.go; replayed against the code on
   every ./check C05 / C16 run, all 17 Stats counters included) ----
   Search.analyze_cancel gen_basis cfg k s p = (sk, (pv, v, d, acc, c)): MinimaxAI.Analyze on the engine state s (table, history and
     response tables, frames: whatever earlier calls left), context cancelled inside the k-th leaf evaluation (k = 0: never);
     result: line pv, value v, Stats.Depth d, Stats.Canceled c; sk = the engine state afterwards.
   cfg: ANY configuration (depth, NoSort, NoNullMove, NoReduceSlides, MultiCut on or off; table of any size, also none) whose evaluator
     is one of the two of the check (SearchNeg5.builtin_eval: EvaluateWinner or the built-in weights).
   SearchLegal2.SJ s: the engine-state invariant - no Pass among the moves the state can supply as hints (table moves, response
     moves, PV buffers), table values inside the root window.  Search.new_state n satisfies it for every table size n
     (C04_engine_invariant_fresh) and every Analyze call preserves it (first conjunct below): it holds after ANY history of calls.
   SearchNeg2.base_ok p: Preserve1.pos_ok p (C01's invariant) /\ at most 255 pieces in the game /\ 0 <= move p /\ the stones of the two
     opening plies exist.  Search.is_over p = false: GameOver says the game is not over.
   SearchLegal3.withinP d p: in the tree of depth d below p (moves and null moves; finished games are not expanded) no accepted move
     builds a stack higher than 64 (C01's representation limit).  Proved outright for every game of at most 64 pieces, on every board
     size (withinP_total64: the standard sets of 3x3..6x6), which gives C04_analyze_first_move_legal_64 / _game64 without it.  (The
     model's loops over the move generator are bounded by the node's own number of generated moves - Search.gfuel - so, unlike in
     the first version, nothing is assumed about that number.)
   move p + c_depth cfg <= max_terminal_ply (2 684 354): C18's ply limit for the built-in evaluator.
   SearchLegal3.seed_legal s p: NoCollision at the root, stated on the table - IF the table holds an exact entry under the root's hash,
     its move is accepted by MovePreallocated at the root.  (Analyze seeds its line with that move and never re-validates it when no
     iteration runs; an entry written for the same position always satisfies this, C04_example_table shows the path taken.)
   SearchLegal3.head_legal p pv: pv = m :: rest and Refine.mv p m = Ok q (the repaired MovePreallocated accepts m at p).
   STATEMENT: the state afterwards satisfies SJ again; a reported line is empty or starts with a legal move; and a call that is not
   reported as cancelled, with a positive configured depth, reports a line (so MinimaxAI.GetMove's pv[0] exists and is legal). *)
Theorem C04_analyze_first_move_legal : forall cfg, SearchNeg5.builtin_eval cfg ->
  forall k s p sk pv v d acc c,
  SearchLegal2.SJ s -> SearchNeg2.base_ok p -> Search.is_over p = false ->
  SearchLegal3.withinP (Z.to_nat (Search.c_depth cfg)) p -> (move p + Search.c_depth cfg <= EvalSpec.max_terminal_ply)%Z ->
  SearchLegal3.seed_legal s p ->
  Search.analyze_cancel Generated.Consts.gen_basis cfg k s p = (sk, (pv, v, d, acc, c)) ->
  SearchLegal2.SJ sk /\ (pv = [] \/ SearchLegal3.head_legal p pv) /\
  (c = false -> (0 < Search.c_depth cfg)%Z -> SearchLegal3.head_legal p pv).
Proof. exact SearchLegal3.analyze_first_move_legal_seed. Qed.
Print Assumptions C04_analyze_first_move_legal.

(* the same without the seed hypothesis: (base, ms0, v0) = the seed Analyze takes from the table (Search.az_root; (0, [], 0) without an
   exact root entry).  The reported line is still the seed exactly when the reported depth is still the seed's; otherwise it starts
   with a legal move; a call not reported as cancelled that was allowed an iteration beyond the seed's depth has completed one. *)
Theorem C04_analyze_line_is_seed_or_legal : forall cfg, SearchNeg5.builtin_eval cfg ->
  forall k s p sk pv v d acc c,
  SearchLegal2.SJ s -> SearchNeg2.base_ok p -> Search.is_over p = false ->
  SearchLegal3.withinP (Z.to_nat (Search.c_depth cfg)) p -> (move p + Search.c_depth cfg <= EvalSpec.max_terminal_ply)%Z ->
  Search.analyze_cancel Generated.Consts.gen_basis cfg k s p = (sk, (pv, v, d, acc, c)) ->
  let '(base, ms0, v0) := Search.az_root false (Search.az_start s) p in
  SearchLegal2.SJ sk /\ ((d = base /\ pv = ms0) \/ (base < d)%Z /\ SearchLegal3.head_legal p pv) /\
  (c = false -> (base < Search.c_depth cfg)%Z -> (base < d)%Z).
Proof. exact SearchLegal3.analyze_first_move_legal. Qed.
Print Assumptions C04_analyze_line_is_seed_or_legal.

(* engines without a table (SearchExact.SI: no table, no Pass among the stored hints): no seed, no NoCollision hypothesis *)
Theorem C04_analyze_first_move_legal_no_table : forall cfg, SearchNeg5.builtin_eval cfg ->
  forall k s p sk pv v d acc c,
  SearchExact.SI s -> SearchNeg2.base_ok p -> Search.is_over p = false ->
  SearchLegal3.withinP (Z.to_nat (Search.c_depth cfg)) p -> (move p + Search.c_depth cfg <= EvalSpec.max_terminal_ply)%Z ->
  Search.analyze_cancel Generated.Consts.gen_basis cfg k s p = (sk, (pv, v, d, acc, c)) ->
  (pv = [] \/ SearchLegal3.head_legal p pv) /\ (c = false -> (0 < Search.c_depth cfg)%Z -> SearchLegal3.head_legal p pv).
Proof. exact SearchLegal3.analyze_first_move_legal_notable. Qed.
Print Assumptions C04_analyze_first_move_legal_no_table.

(* boards up to 5x5 with at most 51 pieces (the standard sets have 20, 30, 44): no side condition about the searched tree is left *)
Theorem C04_analyze_first_move_legal_small : forall cfg, SearchNeg5.builtin_eval cfg ->
  forall k s p sk pv v d acc c,
  SearchLegal2.SJ s -> SearchNeg2.base_ok p -> Search.is_over p = false -> (size p <= 5)%N -> (Preserve1.total p <= 51)%N ->
  (move p + Search.c_depth cfg <= EvalSpec.max_terminal_ply)%Z ->
  SearchLegal3.seed_legal s p ->
  Search.analyze_cancel Generated.Consts.gen_basis cfg k s p = (sk, (pv, v, d, acc, c)) ->
  SearchLegal2.SJ sk /\ (pv = [] \/ SearchLegal3.head_legal p pv) /\
  (c = false -> (0 < Search.c_depth cfg)%Z -> SearchLegal3.head_legal p pv).
Proof. exact SearchLegal4.analyze_first_move_legal_small. Qed.
Print Assumptions C04_analyze_first_move_legal_small.

(* ... in particular on every live position of a game replayed from tak.New (sizes 3..5, any piece set of at most 51 pieces) *)
Theorem C04_analyze_first_move_legal_game : forall cfg, SearchNeg5.builtin_eval cfg ->
  forall sz bwt stones caps ms p, (3 <= sz <= 5)%N -> (0 < stones)%N -> (2 * (stones + caps) <= 51)%N ->
  Reach1.replay (Alloc.new_pos sz bwt stones caps) ms = Ok p -> Search.is_over p = false ->
  (Z.of_nat (length ms) + Search.c_depth cfg <= EvalSpec.max_terminal_ply)%Z ->
  forall k s sk pv v d acc c, SearchLegal2.SJ s -> SearchLegal3.seed_legal s p ->
  Search.analyze_cancel Generated.Consts.gen_basis cfg k s p = (sk, (pv, v, d, acc, c)) ->
  SearchLegal2.SJ sk /\ (pv = [] \/ SearchLegal3.head_legal p pv) /\
  (c = false -> (0 < Search.c_depth cfg)%Z -> SearchLegal3.head_legal p pv).
Proof. exact SearchLegal4.analyze_first_move_legal_game. Qed.
Print Assumptions C04_analyze_first_move_legal_game.

(* EVERY board size, every game of at most 64 pieces (the standard sets of 3x3, 4x4, 5x5, 6x6): no side condition about the tree *)
Theorem C04_analyze_first_move_legal_64 : forall cfg, SearchNeg5.builtin_eval cfg ->
  forall k s p sk pv v d acc c,
  SearchLegal2.SJ s -> SearchNeg2.base_ok p -> Search.is_over p = false -> (Preserve1.total p <= 64)%N ->
  (move p + Search.c_depth cfg <= EvalSpec.max_terminal_ply)%Z ->
  SearchLegal3.seed_legal s p ->
  Search.analyze_cancel Generated.Consts.gen_basis cfg k s p = (sk, (pv, v, d, acc, c)) ->
  SearchLegal2.SJ sk /\ (pv = [] \/ SearchLegal3.head_legal p pv) /\
  (c = false -> (0 < Search.c_depth cfg)%Z -> SearchLegal3.head_legal p pv).
Proof. exact SearchLegal4.analyze_first_move_legal_64. Qed.
Print Assumptions C04_analyze_first_move_legal_64.

Theorem C04_analyze_first_move_legal_game64 : forall cfg, SearchNeg5.builtin_eval cfg ->
  forall sz bwt stones caps ms p, (3 <= sz <= 8)%N -> (0 < stones)%N -> (2 * (stones + caps) <= 64)%N ->
  Reach1.replay (Alloc.new_pos sz bwt stones caps) ms = Ok p -> Search.is_over p = false ->
  (Z.of_nat (length ms) + Search.c_depth cfg <= EvalSpec.max_terminal_ply)%Z ->
  forall k s sk pv v d acc c, SearchLegal2.SJ s -> SearchLegal3.seed_legal s p ->
  Search.analyze_cancel Generated.Consts.gen_basis cfg k s p = (sk, (pv, v, d, acc, c)) ->
  SearchLegal2.SJ sk /\ (pv = [] \/ SearchLegal3.head_legal p pv) /\
  (c = false -> (0 < Search.c_depth cfg)%Z -> SearchLegal3.head_legal p pv).
Proof. exact SearchLegal4.analyze_first_move_legal_game64. Qed.
Print Assumptions C04_analyze_first_move_legal_game64.

Theorem C04_within_total64 : forall d p, Preserve1.pos_ok p -> (Preserve1.total p <= 64)%N -> SearchLegal3.withinP d p.
Proof. exact SearchLegal3.withinP_total64. Qed.
Print Assumptions C04_within_total64.

(* a fresh engine satisfies the invariant, whatever the size of its table *)
Theorem C04_engine_invariant_fresh : forall n, SearchLegal2.SJ (Search.new_state n).
Proof. exact SearchLegal2.SJ_new. Qed.
Print Assumptions C04_engine_invariant_fresh.

(* the side condition on small boards, null moves included *)
Theorem C04_within_small : forall d p, Preserve1.pos_ok p -> (size p <= 5)%N -> (Preserve1.total p <= 51)%N -> SearchLegal3.withinP d p.
Proof. exact SearchLegal3.withinP_small. Qed.
Print Assumptions C04_within_small.

(* Non-vacuity, computed on the instantiated model: q4 = the 3x3 position after a1 c3 b2 b1; cfgA = depth 4, sorted, null move, slide
   reduction and multi-cut ON, built-in evaluator, 64-entry table.  The hypotheses hold; the first call reports a depth-4 line; the
   second call on the same engine finds the exact root entry of depth 4, runs no iteration and reports the seed [c1] - the path that
   seed_legal covers. *)
Theorem C04_example_table :
  SearchNeg5.builtin_eval SearchLegal4.cfgA /\ SearchLegal2.SJ (Search.new_state 64) /\ SearchLegal3.seed_legal (Search.new_state 64) SearchNeg5.q4 /\
  CancelEx.obs SearchLegal4.ex_r1 =
    ([{| mX := 2; mY := 0; mT := 2; mS := 0 |}; {| mX := 1; mY := 0; mT := 6; mS := 1 |};
      {| mX := 1; mY := 0; mT := 2; mS := 0 |}; {| mX := 2; mY := 0; mT := 5; mS := 2 |}], 500%Z, 4%Z, false) /\
  Search.az_root false (Search.az_start (fst SearchLegal4.ex_r1)) SearchNeg5.q4 = (4%Z, [{| mX := 2; mY := 0; mT := 2; mS := 0 |}], 500%Z) /\
  CancelEx.obs SearchLegal4.ex_r2 = ([{| mX := 2; mY := 0; mT := 2; mS := 0 |}], 500%Z, 4%Z, false).
Proof. exact SearchLegal4.ex_table. Qed.
Print Assumptions C04_example_table.

Theorem C04_example_position : SearchNeg2.base_ok SearchNeg5.q4 /\ size SearchNeg5.q4 = 3%N /\ Preserve1.total SearchNeg5.q4 = 20%N /\
  Search.is_over SearchNeg5.q4 = false /\ move SearchNeg5.q4 = 4%Z.
Proof. exact SearchLegal4.q4_facts. Qed.
Print Assumptions C04_example_position.

(* ================= (9) third wave: AnalyzeAll, the randomised GetMove and whole-PV replay over the EXECUTED model Search.v =================
   Search.analyze_all_cancel basis cfg k = Search.analyze_all_gen false basis cfg k: MinimaxAI.AnalyzeAll (repaired code), context
     cancelled inside the k-th leaf evaluation (k = 0: never; Search.analyze_all, which ./check C05 executes against the code).
   SearchAllLegal2.seed_depth s p = the depth of the exact root entry Analyze would start from (0 without one): AnalyzeAll / GetMove
     search the children to that depth minus one when no iteration runs, so C18's ply limit is asked up to it.
   Every line of AnalyzeAll is non-empty and starts with a move the repaired MovePreallocated accepts; the state satisfies SJ again. *)
Theorem C04_analyze_all_heads_legal_executed : forall cfg, SearchNeg5.builtin_eval cfg ->
  forall k s p sk pvs v d c,
  SearchLegal2.SJ s -> SearchNeg2.base_ok p -> Search.is_over p = false -> (Preserve1.total p <= 64)%N ->
  (move p + Z.max 1 (Z.max (Search.c_depth cfg) (SearchAllLegal2.seed_depth s p)) <= EvalSpec.max_terminal_ply)%Z ->
  SearchLegal3.seed_legal s p ->
  Search.analyze_all_cancel Generated.Consts.gen_basis cfg k s p = (sk, (pvs, v, d, c)) ->
  SearchLegal2.SJ sk /\ Forall (SearchLegal3.head_legal p) pvs /\ Forall (fun l => l <> []) pvs.
Proof. exact SearchAllLegal2.analyze_all_heads_legal_64. Qed.
Print Assumptions C04_analyze_all_heads_legal_executed.

Theorem C04_analyze_all_heads_legal_game64 : forall cfg, SearchNeg5.builtin_eval cfg ->
  forall sz bwt stones caps ms p, (3 <= sz <= 8)%N -> (0 < stones)%N -> (2 * (stones + caps) <= 64)%N ->
  Reach1.replay (Alloc.new_pos sz bwt stones caps) ms = Ok p -> Search.is_over p = false ->
  forall k s sk pvs v d c, SearchLegal2.SJ s -> SearchLegal3.seed_legal s p ->
  (Z.of_nat (length ms) + Z.max 1 (Z.max (Search.c_depth cfg) (SearchAllLegal2.seed_depth s p)) <= EvalSpec.max_terminal_ply)%Z ->
  Search.analyze_all_cancel Generated.Consts.gen_basis cfg k s p = (sk, (pvs, v, d, c)) ->
  SearchLegal2.SJ sk /\ Forall (SearchLegal3.head_legal p) pvs /\ Forall (fun l => l <> []) pvs.
Proof. exact SearchAllLegal2.analyze_all_heads_legal_game64. Qed.
Print Assumptions C04_analyze_all_heads_legal_game64.

(* without a table (engine created without one; SearchExact.SI): no seed *)
Theorem C04_analyze_all_heads_legal_notable : forall cfg, SearchNeg5.builtin_eval cfg ->
  forall k s p sk pvs v d c,
  SearchExact.SI s -> SearchNeg2.base_ok p -> Search.is_over p = false -> (Preserve1.total p <= 64)%N ->
  (move p + Z.max 1 (Search.c_depth cfg) <= EvalSpec.max_terminal_ply)%Z ->
  Search.analyze_all_cancel Generated.Consts.gen_basis cfg k s p = (sk, (pvs, v, d, c)) ->
  Forall (SearchLegal3.head_legal p) pvs /\ Forall (fun l => l <> []) pvs.
Proof. exact SearchAllLegal2.analyze_all_heads_legal_notable_64. Qed.
Print Assumptions C04_analyze_all_heads_legal_notable.

(* non-vacuity: depth 3, sorted, null move, slide reduction, multi-cut on, 64-entry table, built-in evaluator, q4 *)
Theorem C04_example_analyze_all_table :
  SearchNeg5.builtin_eval SearchAllLegal2.cfgB /\ SearchLegal2.SJ (Search.new_state 64) /\ SearchLegal3.seed_legal (Search.new_state 64) SearchNeg5.q4 /\
  SearchAllLegal2.seed_depth (Search.new_state 64) SearchNeg5.q4 = 0%Z /\
  (let '(s1, (pvs, v, d, c)) := Search.analyze_all Generated.Consts.gen_basis SearchAllLegal2.cfgB (Search.new_state 64) SearchNeg5.q4 in
   (map (hd Search.move0) pvs, v, d, c) = ([{| mX := 2; mY := 0; mT := 2; mS := 0 |}], 960%Z, 3%Z, false)).
Proof. exact SearchAllLegal2.ex_all_table. Qed.
Print Assumptions C04_example_analyze_all_table.

(* The randomised move choice of MinimaxAI.GetMove: model SearchRand.get_move basis cfg k rwindow rscale rnd s p (SearchRand.v; rnd = the
   successive raw values of ai.rand.Int63(), an oracle stream; rscale = Cfg.RandomizeScale after NewMinimax turned 0 into 1; int64
   arithmetic wraps; Err = the stream ran out, Panic = a Go panic).  Every configuration, any table, any cancellation point, any stream,
   0 < RandomizeWindow <= 2^29 (= WinThreshold; GetMove never randomises beyond it), ANY RandomizeScale: a move that is returned is the
   zero move exactly when Analyze reported no line (SearchC.r_pv ... = []), and otherwise is accepted by MovePreallocated at p; the state
   satisfies SJ again; and the run can only panic if RandomizeScale is not 1 (or AllMoves had 2^31 entries). *)
Theorem C04_get_move_randomised_legal : forall cfg, SearchNeg5.builtin_eval cfg ->
  forall k rw rsc rnd s p, (0 < rw <= 2 ^ 29)%Z ->
  SearchLegal2.SJ s -> SearchNeg2.base_ok p -> Search.is_over p = false -> (Preserve1.total p <= 64)%N ->
  (move p + Z.max 1 (Z.max (Search.c_depth cfg) (SearchAllLegal2.seed_depth s p)) <= EvalSpec.max_terminal_ply)%Z ->
  SearchLegal3.seed_legal s p ->
  match SearchRand.get_move Generated.Consts.gen_basis cfg k rw rsc rnd s p with
  | Ok (s', m, _) => SearchLegal2.SJ s' /\
                     (SearchC.r_pv (snd (Search.analyze_cancel Generated.Consts.gen_basis cfg k s p)) = [] /\ m = Search.move0 \/
                      exists q, Refine.mv p m = Ok q)
  | Err => True
  | Panic => ~ (rsc = 1%Z /\ (Z.of_nat (length (all_moves p)) + 8 < 2 ^ 31)%Z)
  end.
Proof. exact SearchRand3.get_move_legal_64. Qed.
Print Assumptions C04_get_move_randomised_legal.

(* non-vacuity: depth 2, NoSort, null move / slide reduction / multi-cut on, 64-entry table, RandomizeWindow 10, scale 1, ten raw values:
   a legal move comes back and two values of the stream were used *)
Theorem C04_example_get_move_random :
  exists m used, SearchRand3.gm_obs (SearchRand.get_move Generated.Consts.gen_basis SearchRand3.cfgr 0 10 1 [5; 0; 3; 0; 0; 0; 0; 0; 0; 0]%N (Search.new_state 64) SearchRand3.p2)
                 = Ok (m, (10 - used)%nat) /\ (exists q, Refine.mv SearchRand3.p2 m = Ok q) /\ (1 <= used)%nat.
Proof. exact SearchRand3.getmove_random_ok. Qed.
Print Assumptions C04_example_get_move_random.

(* FINDING (model; the real engine does the same - ai.MinimaxConfig{Size: 3, Depth: 2, RandomizeWindow: 10, RandomizeScale: 100} on the 3x3
   position after a1 c3 panics with "invalid argument to Int63n"): with RandomizeScale larger than RandomizeWindow (or negative) the first
   counted move has pts = (cv - base) / scale = 0, the counter i is 0 and ai.rand.Int63n(i) panics: GetMove crashes on a live position. *)
Theorem C04_get_move_scale_panics :
  SearchRand3.gm_obs (SearchRand.get_move Generated.Consts.gen_basis SearchRand3.cfgr 0 10 100 [5; 0; 3; 0; 0; 0; 0; 0; 0; 0]%N (Search.new_state 64) SearchRand3.p2) = Panic /\
  SearchRand3.gm_obs (SearchRand.get_move Generated.Consts.gen_basis SearchRand3.cfgr 0 10 (-1) [5; 0; 3; 0; 0; 0; 0; 0; 0; 0]%N (Search.new_state 64) SearchRand3.p2) = Panic.
Proof. exact SearchRand3.getmove_scale_panics. Qed.
Print Assumptions C04_get_move_scale_panics.

(* "The whole variation replays legally": MakePrecise options, no table (SearchExact.SI), any sort setting, both evaluators, any engine
   state left by earlier calls, a call cancelled at any point or never, every board size, games of at most 64 pieces: the line Analyze
   reports replays from p move by move (Reach1.replay = Position.Move repeatedly) - for EVERY reported value, decisive or not.
   With a table the replay is tested, not proved. *)
Theorem C04_pv_replays_precise : forall cfg, SearchExact.precise cfg -> SearchNeg5.builtin_eval cfg ->
  forall k s p sk pv v d acc c,
  SearchExact.SI s -> SearchNeg2.base_ok p -> (Preserve1.total p <= 64)%N -> (move p + 16 <= EvalSpec.max_terminal_ply)%Z ->
  Search.analyze_cancel Generated.Consts.gen_basis cfg k s p = (sk, (pv, v, d, acc, c)) -> exists q, Reach1.replay p pv = Ok q.
Proof. exact SearchPv2.analyze_pv_replays_64. Qed.
Print Assumptions C04_pv_replays_precise.

Theorem C04_example_pv_replays :
  (exists q, Reach1.replay SearchNeg5.q4 (SearchC.r_pv (snd (SearchInst.run_analyze SearchNeg5.cfg3 0 (Search.new_state 0) SearchNeg5.q4))) = Ok q) /\
  length (SearchC.r_pv (snd (SearchInst.run_analyze SearchNeg5.cfg3 0 (Search.new_state 0) SearchNeg5.q4))) = 3%nat.
Proof. exact SearchPv2.ex_pv_replays. Qed.
Print Assumptions C04_example_pv_replays.

(* ... and so does every line of the repaired AnalyzeAll (same setting, any cancellation point) *)
Theorem C04_analyze_all_lines_replay_precise : forall cfg, SearchExact.precise cfg -> SearchNeg5.builtin_eval cfg ->
  forall k s p sk pvs v d c,
  SearchExact.SI s -> SearchNeg2.base_ok p -> (Preserve1.total p <= 64)%N -> (move p + 16 <= EvalSpec.max_terminal_ply)%Z ->
  Search.analyze_all_cancel Generated.Consts.gen_basis cfg k s p = (sk, (pvs, v, d, c)) ->
  Forall (fun l => exists q, Reach1.replay p l = Ok q) pvs.
Proof. exact SearchPv4.analyze_all_lines_replay_64. Qed.
Print Assumptions C04_analyze_all_lines_replay_precise.

Theorem C04_example_all_lines_replay :
  let pvs := fst (fst (fst (snd (Search.analyze_all Generated.Consts.gen_basis SearchNeg5.cfg3w (Search.new_state 0) SearchNeg5.q4)))) in
  map (fun l => match Reach1.replay SearchNeg5.q4 l with Ok _ => length l | _ => 0%nat end) pvs = [3%nat; 3%nat; 3%nat].
Proof. exact SearchPv4.ex_all_lines_replay. Qed.
Print Assumptions C04_example_all_lines_replay.


(* ================================================================================================================================
   (9) Cfg.DedupSymmetry: the option lattice of C04 includes the symmetry de-duplication of pvSearch.  Model: coq/SearchDedup.v (the
   engine of Search.v with the per-node cache; with the option off it IS Search.v's: C05_dedup_off), validated by the C05 check and by the
   CASE RAND lines of this check that carry the option (window 0: GetMove = the first move of Analyze).  Proofs: SearchDedupLegal.v.
   The theorems of block (8) hold verbatim for it: the cache is empty when the first successor arrives, so the first successor is always
   searched, and a skipped successor is never searched, so it cannot become best[0].
   ================================================================================================================================ *)
Require SearchDedup SearchDedupInst SearchDedupLegal SearchDedupEx SearchDedupLegalEx.

(* EVERY configuration (any table, null move, slide reduction, multi-cut, sorting, cancellation point, the option on or off), either
   built-in evaluator, any engine state satisfying SJ: the state afterwards satisfies SJ again; the reported line is the seed of an exact
   root entry exactly when the reported depth is the seed's, and otherwise starts with a move that MovePreallocated accepts at p; an
   uncancelled call that was allowed an iteration has completed one *)
Theorem C04_dedup_analyze_first_move_legal : forall cfg, SearchNeg5.builtin_eval cfg ->
  forall k dedup s p sk pv v d acc c,
  SearchLegal2.SJ s -> SearchNeg2.base_ok p -> Search.is_over p = false -> SearchLegal3.withinP (Z.to_nat (Search.c_depth cfg)) p ->
  (move p + Search.c_depth cfg <= EvalSpec.max_terminal_ply)%Z ->
  SearchDedup.analyze_gen_d Generated.Consts.gen_basis cfg k dedup s p = (sk, (pv, v, d, acc, c)) ->
  let '(base, ms0, v0) := Search.az_root false (Search.az_start s) p in
  SearchLegal2.SJ sk /\ ((d = base /\ pv = ms0) \/ (base < d /\ SearchLegal3.head_legal p pv))%Z /\ (c = false -> base < Search.c_depth cfg -> base < d)%Z.
Proof. exact SearchDedupLegal.analyze_d_first_move_legal. Qed.
Print Assumptions C04_dedup_analyze_first_move_legal.

(* without a table: every reported line starts with a legal move, and an uncancelled call with a positive depth reports one *)
Theorem C04_dedup_analyze_first_move_legal_no_table : forall cfg, SearchNeg5.builtin_eval cfg ->
  forall k dedup s p sk pv v d acc c,
  SearchExact.SI s -> SearchNeg2.base_ok p -> Search.is_over p = false -> SearchLegal3.withinP (Z.to_nat (Search.c_depth cfg)) p ->
  (move p + Search.c_depth cfg <= EvalSpec.max_terminal_ply)%Z ->
  SearchDedup.analyze_gen_d Generated.Consts.gen_basis cfg k dedup s p = (sk, (pv, v, d, acc, c)) ->
  (pv = [] \/ SearchLegal3.head_legal p pv) /\ (c = false -> (0 < Search.c_depth cfg)%Z -> SearchLegal3.head_legal p pv).
Proof. exact SearchDedupLegal.analyze_d_first_move_legal_notable. Qed.
Print Assumptions C04_dedup_analyze_first_move_legal_no_table.

(* the abstract form: any hash basis, any evaluator bounded by the root window, any position sets closed under moves and null moves *)
Theorem C04_dedup_analyze_legal_abstract : forall basis cfg k dedup (Pos : nat -> position -> Prop),
  (forall d p, Pos (S d) p -> Pos d p) ->
  (forall d p m q, Pos (S d) p -> Search.is_over p = false -> SearchGen.okm m -> Search.try_move basis p m = Some q -> Pos d q) ->
  (forall d p, Pos (S d) p -> Search.is_over p = false -> Pos d (Search.pass_move p)) ->
  (forall d p, Pos (S d) p -> Search.is_over p = false -> exists m q, In m (GameOver.all_moves p) /\ Search.try_move basis p m = Some q) ->
  (forall d p, Pos d p -> SearchLegal2.okv (Search.c_eval cfg p)) ->
  forall s p sk pv v d acc c, SearchLegal2.SJ s -> (forall d, (Z.of_nat d <= Search.c_depth cfg)%Z -> Pos d p) -> Search.is_over p = false ->
  SearchDedup.analyze_gen_d basis cfg k dedup s p = (sk, (pv, v, d, acc, c)) ->
  let '(base, ms0, v0) := Search.az_root false (Search.az_start s) p in
  SearchLegal2.SJ sk /\ SearchExact.okl pv /\ ((d = base /\ pv = ms0) \/ (base < d /\ SearchLegal2.head_ok basis p pv))%Z /\
  (c = false -> base < Search.c_depth cfg -> base < d)%Z.
Proof. exact SearchDedupLegal.analyze_d_legal. Qed.
Print Assumptions C04_dedup_analyze_legal_abstract.

(* non-vacuity: the empty 3x3 board, depth 2, EvaluateWinner, no table, the option ON (computed run of SearchDedupEx.v) *)
Theorem C04_dedup_example :
  SearchNeg5.builtin_eval SearchDedupEx.cfg_dd /\ SearchNeg2.base_ok CancelEx.start3 /\ Search.is_over CancelEx.start3 = false /\
  SearchLegal3.withinP (Z.to_nat (Search.c_depth SearchDedupEx.cfg_dd)) CancelEx.start3 /\
  SearchLegal3.head_legal CancelEx.start3 (SearchC.r_pv (snd SearchDedupEx.run_on)) /\ SearchC.r_canceled (snd SearchDedupEx.run_on) = false.
Proof. exact SearchDedupLegalEx.dedup_legal_applies. Qed.
Print Assumptions C04_dedup_example.
