(* C04 - every searching player answers a live position with a legal move.
   Only statements, `exact`, and Print Assumptions live here.

   FULL STATEMENT (DESIGN 5.4), not proved in this generality:
     forall cfg st p, wf p -> game_over p = (false,_) -> NoCollisionOn ... -> at_least_one_iteration ... ->
       let '(pv,v,stats,st') := analyze cfg st p in pv <> [] /\ is_ok (move_prealloc p (hd pv))
     + the same for the randomised GetMove, AnalyzeAll, OpeningPlayer.GetMove and MonteCarloAI.GetMove (not Panic, move Ok on p)
     + pv_replays: |v| <= WinThreshold -> replay p pv = Ok _.
   WHAT IS PROVED HERE (all closed under the global context):
     (1) C04_live_has_legal_move: over the bit-level, executed-against-the-code model of GameOver / AllMoves /
         MovePreallocated: a live position has a move in AllMoves that MovePreallocated accepts.
     (2) C04_generator_*: the abstract model of moveGenerator.Next yields only moves that applied, and yields at
         least one whenever AllMoves holds a legal move (hint de-duplication loses nothing).
     (3) C04_root_first_move_legal / C04_root_improved_first_move_legal: the root invariant of pvSearch for an
         ARBITRARY search below the root, table entry, hints, stale PV buffer, symmetry de-duplication.
     (4) C04_analyze_first_move_legal_partial: (1)+(2)+(3) instantiated with the bit-level rules model.
     (5) C04_deepening_keeps_legal_head, C04_randomised_choice_legal, C04_analyze_all_heads_legal: the iterative
         deepening loop, the randomised choice and the AnalyzeAll list only ever report pv[0] or generator-yielded moves.
   `_partial` = WHAT IS MISSING for the full statement:
     - the root-search model of LegalMove.v is abstract and NOT executed against ai/minimax.go (the executed search
       model is coq/Search.v, owned by C05/C16); its shape was transcribed from pvSearch / moveGenerator.Next by hand;
     - the hypothesis "every child value exceeds the root's alpha" (root window (MinEval-1, MaxEval+1) wider than
       every evaluation and every stored value) is assumed, not derived from the evaluator (C18) and the search;
     - the seed path of Analyze (ms := [te.m] from an exact root entry, never re-validated when no iteration runs) is
       covered only through the hypothesis "the seed's head is legal or the first iteration completes" (NoCollisionOn);
     - whole-PV replay for non-decisive values, the opening book wrapper and the Monte-Carlo player are NOT modelled:
       they are covered by the direct oracle only (harness/cmd/runimpl/c04.go). *)
From Coq Require Import NArith ZArith List Bool.
Require Import Board Move GameOver Refine RefinePlace2 Inst LegalMove LegalMoveLive LegalMoveInst.
Import ListNotations.

(* (1) A live position has a legal move and AllMoves lists it.  wf: sizes 3..8, Height/Stacks of length size^2,
   Height[i] = 0 iff no piece on i, White/Black disjoint, Standing/Caps only on occupied squares, byte reserves;
   in_mask: no piece bit outside the board; opening_supply: in the two opening plies the opponent owns a stone
   (true in every position reached from New).  Example LegalMoveInst.hypotheses_satisfiable: non-vacuous. *)
Theorem C04_live_has_legal_move : forall p c,
  wf p -> in_mask p -> opening_supply p -> game_over p = Some (false, c) ->
  exists m q, In m (all_moves p) /\ Inst.mv_fixed p m = Ok q.
Proof. exact live_has_legal_move. Qed.
Print Assumptions C04_live_has_legal_move.

(* (2) moveGenerator.Next: every candidate (table move, pv[0], response move, AllMoves minus the hints) is applied
   before it is yielded ... *)
Theorem C04_generator_yields_only_applied_moves :
  forall (pos mv : Type) (apply : pos -> mv -> option pos) (mv_eqb : mv -> mv -> bool) p (h : hints mv) ms m q,
  In (m, q) (yield pos mv apply mv_eqb p h ms) -> apply p m = Some q.
Proof. exact yield_legal. Qed.
Print Assumptions C04_generator_yields_only_applied_moves.

(* ... and skipping the AllMoves moves that are Equal to a hint never loses the last legal move. *)
Theorem C04_generator_complete :
  forall (pos mv : Type) (apply : pos -> mv -> option pos) (mv_eqb : mv -> mv -> bool) p (h : hints mv) ms m,
  (forall a b, mv_eqb a b = true -> (legal pos mv apply p a <-> legal pos mv apply p b)) ->
  In m ms -> legal pos mv apply p m -> yield pos mv apply mv_eqb p h ms <> [].
Proof. exact yield_complete. Qed.
Print Assumptions C04_generator_complete.

(* the side condition of C04_generator_complete holds for the model of Move.Equal and of MovePreallocated *)
Theorem C04_equal_moves_equally_legal : forall p a b, move_equal a b = true -> Inst.mv_fixed p a = Inst.mv_fixed p b.
Proof. exact move_equal_same_result. Qed.
Print Assumptions C04_equal_moves_equally_legal.

(* (3) The root invariant, for every rules engine `apply`, every search below the root, every table entry `tt`,
   hint set, PV hint, stale buffer content, de-duplication setting and cancellation pattern: a root search that
   completes reports a PV whose first move is legal, provided the generator can yield and every child value
   exceeds alpha0. *)
Theorem C04_root_first_move_legal :
  forall (pos mv : Type) (apply : pos -> mv -> option pos) (mv_eqb : mv -> mv -> bool)
         (K : Type) (key : pos -> K) (syms : pos -> list K) (K_eqb : K -> K -> bool)
         (child_search : nat -> mv -> pos -> list mv -> Z -> Z -> list mv * Z)
         (dedup : bool) (cancelled : nat -> bool) (beta : Z)
         p tt h ms pvhint stale alpha0 pv v,
  yield pos mv apply mv_eqb p h ms <> [] ->
  (forall j m q hint b, (alpha0 < snd (child_search j m q hint alpha0 b))%Z) ->
  root_search pos mv apply mv_eqb K key syms K_eqb child_search dedup cancelled beta p tt h ms pvhint stale alpha0 = Some (pv, v) ->
  head_legal pos mv apply p pv.
Proof. exact root_first_move_legal. Qed.
Print Assumptions C04_root_first_move_legal.

(* without any assumption on values: the first move is legal whenever some child improved on alpha *)
Theorem C04_root_improved_first_move_legal :
  forall (pos mv : Type) (apply : pos -> mv -> option pos) (mv_eqb : mv -> mv -> bool)
         (K : Type) (key : pos -> K) (syms : pos -> list K) (K_eqb : K -> K -> bool)
         (child_search : nat -> mv -> pos -> list mv -> Z -> Z -> list mv * Z)
         (dedup : bool) (cancelled : nat -> bool) (beta : Z)
         p h ms pvhint stale alpha0 best a,
  root_loop pos mv K key syms K_eqb child_search dedup cancelled beta (yield pos mv apply mv_eqb p h ms) 0
            (match pvhint with [] => [stale] | _ => pvhint end) alpha0 false [] = Some (best, a, true) ->
  head_legal pos mv apply p best.
Proof. exact root_improved_legal. Qed.
Print Assumptions C04_root_improved_first_move_legal.

(* (4) (1)+(2)+(3) on the bit-level model: Examples LegalMoveInst.hypotheses_satisfiable, window_hypothesis_satisfiable. *)
Theorem C04_analyze_first_move_legal_partial :
  forall (K : Type) (key : position -> K) (syms : position -> list K) (K_eqb : K -> K -> bool)
         (child_search : nat -> rmove -> position -> list rmove -> Z -> Z -> list rmove * Z)
         (dedup : bool) (cancelled : nat -> bool) (beta alpha0 : Z)
         (p : position) (c : gcolor) (tt : option (rmove * Z)) (h : hints rmove) (pvhint : list rmove) (stale : rmove)
         (pv : list rmove) (v : Z),
  wf p -> in_mask p -> opening_supply p -> game_over p = Some (false, c) ->
  (forall j m q hint b, (alpha0 < snd (child_search j m q hint alpha0 b))%Z) ->
  root_search position rmove apply_m move_equal K key syms K_eqb child_search dedup cancelled beta
              p tt h (all_moves p) pvhint stale alpha0 = Some (pv, v) ->
  exists m rest q, pv = m :: rest /\ Inst.mv_fixed p m = Ok q.
Proof. exact model_root_first_move_legal. Qed.
Print Assumptions C04_analyze_first_move_legal_partial.

(* (5) Analyze's deepening loop keeps a legal head: a cancelled iteration keeps the previous PV, a completed one
   replaces it by its own; the table seed must be legal unless the first iteration completes. *)
Theorem C04_deepening_keeps_legal_head :
  forall (pos mv : Type) (apply : pos -> mv -> option pos) (stop : Z -> bool) (p : pos)
         (iters : list (list mv -> option (list mv * Z))) (ms0 : list mv) (v0 : Z),
  (forall it ms r, In it iters -> it ms = Some r -> head_legal pos mv apply p (fst r)) ->
  (head_legal pos mv apply p ms0 \/ exists it rest r, iters = it :: rest /\ it ms0 = Some r) ->
  head_legal pos mv apply p (fst (deepen mv stop iters ms0 v0)).
Proof. exact analyze_first_move_legal. Qed.
Print Assumptions C04_deepening_keeps_legal_head.

(* GetMove with RandomizeWindow returns pv[0] or a generator-yielded move, for every random stream `pick` *)
Theorem C04_randomised_choice_legal :
  forall (pos mv : Type) (apply : pos -> mv -> option pos) (mv_eqb : mv -> mv -> bool) (pick : nat -> mv -> pos -> bool)
         p (h : hints mv) ms i rv,
  legal pos mv apply p rv -> legal pos mv apply p (getmove_random pos mv pick (yield pos mv apply mv_eqb p h ms) i rv).
Proof. exact getmove_random_legal. Qed.
Print Assumptions C04_randomised_choice_legal.

(* every PV reported by AnalyzeAll starts with pv[0] or a generator-yielded move *)
Theorem C04_analyze_all_heads_legal :
  forall (pos mv : Type) (apply : pos -> mv -> option pos) (mv_eqb : mv -> mv -> bool) (keep : mv -> pos -> option (list mv))
         p (h : hints mv) ms pv,
  head_legal pos mv apply p pv ->
  Forall (head_legal pos mv apply p) (analyze_all pos mv keep pv (yield pos mv apply mv_eqb p h ms)).
Proof. exact analyze_all_heads_legal. Qed.
Print Assumptions C04_analyze_all_heads_legal.
