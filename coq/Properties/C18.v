(* C18 — heuristic scores never enter the range reserved for decided games.
   Only statements, `exact`, and Print Assumptions live here.  Proofs: EvalFacts1..5.v, ThreatsFacts1.v;
   model: Eval.v (transcription of ai/evaluate.go), definitions of the statements: EvalSpec.v, EvalInst.v.

   shape_ok p  = p is a value of the Go type: 3 <= size <= 8, len(Height) = size*size, uint8 heights and stone reserves,
                 uint64 bitboards.  No well-formedness (disjoint colours, heights matching bitboards, ...) is assumed.
   bound w     = closed-form sum of |weight| x maximal feature count (EvalSpec.v).
   gen_*       = constants regenerated from /repo on every run (coq/Generated/Consts.v). *)
From Coq Require Import NArith ZArith List Bool.
Require Import Board Move GameOver Eval EvalSpec EvalInst EvalFacts4 EvalFacts5.
Require EvalTotal GameOverFacts2.
Require Import Generated.Consts.
Import ListNotations.

(* The constants transcribed in Eval.v are the regenerated ones. *)
Theorem C18_consts_current : gen_WinBase = WinBase /\ gen_ForcedWin = ForcedWin /\ gen_MaxFeature = MaxFeature /\
  gen_WinBase = ((gen_WinThreshold + gen_MaxEval) / 2)%Z.
Proof. exact eval_consts_current. Qed.
Print Assumptions C18_consts_current.

(* For EVERY weight vector and every position value with the game not over, the evaluation is bounded by bound w. *)
Theorem C18_eval_bound : forall w p c v, shape_ok p -> game_over p = Some (false, c) -> evaluate w p = Ok v -> (Z.abs v <= bound w)%Z.
Proof. exact eval_bound. Qed.
Print Assumptions C18_eval_bound.

(* The bound of every built-in weight set is below the win threshold (recomputed from the regenerated weights). *)
Theorem C18_builtin_in_range : Forall (fun w => (bound w < gen_WinThreshold)%Z) gen_DefaultWeights.
Proof. exact builtin_in_range. Qed.
Print Assumptions C18_builtin_in_range.

(* Hence: ai.MakeEvaluator(size, nil) on an unfinished game stays strictly inside the undecided range. *)
Theorem C18_heuristic_in_range : forall p c v, shape_ok p -> game_over p = Some (false, c) -> eval_default p = Ok v ->
  (Z.abs v < gen_WinThreshold)%Z.
Proof. exact heuristic_in_range. Qed.
Print Assumptions C18_heuristic_in_range.

(* A finished game evaluates to 0 for a draw and otherwise to +-v, term_lo w M <= v <= term_hi w M, positive iff the
   winner is the side to move — for every weight vector and every ply bound M. *)
Theorem C18_terminal_value : forall w p winner M, shape_ok p -> game_over p = Some (true, winner) -> (0 <= move p <= M)%Z ->
  match winner with
  | GNone => evaluate w p = Ok 0%Z
  | _ => exists v, (term_lo w M <= v <= term_hi w M)%Z /\ evaluate w p = Ok (if mover_wins p winner then v else - v)%Z
  end.
Proof. exact terminal_value. Qed.
Print Assumptions C18_terminal_value.

(* With the built-in weights and ply numbers up to max_terminal_ply = 2 684 354 the value of a finished game is 0 for a draw
   and lies beyond the threshold (and within MaxEval) with the sign of the winner relative to the side to move. *)
Theorem C18_terminal_outside : forall w, In w gen_DefaultWeights -> forall p winner, shape_ok p -> game_over p = Some (true, winner) ->
  (0 <= move p <= max_terminal_ply)%Z ->
  match winner with
  | GNone => evaluate w p = Ok 0%Z
  | _ => exists v, evaluate w p = Ok v /\ (gen_WinThreshold < Z.abs v <= gen_MaxEval)%Z /\ ((0 < v)%Z <-> mover_wins p winner = true)
  end.
Proof. exact terminal_outside. Qed.
Print Assumptions C18_terminal_outside.

(* The ply bound is the real limit of the margin: with one more ply the guaranteed lower bound of a won game's value is
   no longer above the threshold (Terminal_Plies = -100 per ply against WinBase - WinThreshold = 2^28). *)
Theorem C18_max_terminal_ply_sharp : Forall (fun w => (term_lo w (max_terminal_ply + 1) <= gen_WinThreshold)%Z) gen_DefaultWeights.
Proof. exact max_terminal_ply_sharp. Qed.
Print Assumptions C18_max_terminal_ply_sharp.

(* ai.EvaluateWinner: 0 on unfinished games and draws, +-WinBase (beyond the threshold) with the winner's sign otherwise. *)
Theorem C18_winner_eval_outside : forall p winner, game_over p = Some (true, winner) ->
  match winner with
  | GNone => eval_winner p = Ok 0%Z
  | _ => exists v, eval_winner p = Ok v /\ (gen_WinThreshold < Z.abs v <= gen_MaxEval)%Z /\ ((0 < v)%Z <-> mover_wins p winner = true)
  end.
Proof. exact winner_eval_outside. Qed.
Print Assumptions C18_winner_eval_outside.
Theorem C18_winner_eval_unfinished : forall p c, game_over p = Some (false, c) -> eval_winner p = Ok 0%Z.
Proof. exact winner_eval_unfinished. Qed.
Print Assumptions C18_winner_eval_unfinished.

(* Every value of the built-in evaluator lies in the root window [-MaxEval, MaxEval] (used by C04/C05: the window is never met). *)
Theorem C18_all_in_root_window : forall p v, shape_ok p -> (0 <= move p <= max_terminal_ply)%Z -> eval_default p = Ok v ->
  (Z.abs v <= gen_MaxEval)%Z.
Proof. exact all_in_root_window. Qed.
Print Assumptions C18_all_in_root_window.

(* The evaluation EXISTS: on every position of C02's invariant (size 3..8, a well-formed board, no bit outside the board, byte
   reserves that do not wrap) evaluate returns a value for every weight vector - it cannot panic (scoreGroups' index Groups+w
   stays inside the weight array because a group is measured wider than the board only when it spans it, and then the game is
   over) and the loops of bitboard.Dimensions terminate.  Together with the range theorems above: every such position has a score,
   and the score is on the right side of the threshold. *)
Theorem C18_evaluate_total : forall w p, GameOverFacts2.inv p -> exists v, evaluate w p = Ok v.
Proof. exact EvalTotal.evaluate_never_panics. Qed.
Print Assumptions C18_evaluate_total.

Theorem C18_dimensions_within_board : forall s, (3 <= s <= 8)%N -> forall bits, bits <> 0%N -> N.land bits (cMask (precompute s)) = bits ->
  (N.land bits (cL (precompute s)) = 0%N \/ N.land bits (cR (precompute s)) = 0%N) ->
  exists wd ht, dimensions (precompute s) bits = Some (wd, ht) /\ (wd <= N.to_nat s)%nat /\ (ht <= N.to_nat s)%nat.
Proof. exact EvalTotal.dimensions_ok. Qed.
Print Assumptions C18_dimensions_within_board.

(* Non-vacuity: a position value satisfying the hypotheses of the unfinished / finished theorems, with its evaluation. *)
Theorem C18_nonvacuous_unfinished : shape_ok ex_start5 /\ game_over ex_start5 = Some (false, GNone) /\ eval_default ex_start5 = Ok 250%Z.
Proof. exact eval_bound_nonvacuous. Qed.
Print Assumptions C18_nonvacuous_unfinished.
Theorem C18_nonvacuous_finished : shape_ok ex_road3 /\ game_over ex_road3 = Some (true, GWhite) /\ (0 <= move ex_road3 <= max_terminal_ply)%Z /\
  eval_default ex_road3 = Ok (-805307455)%Z.
Proof. exact terminal_nonvacuous. Qed.
Print Assumptions C18_nonvacuous_finished.

(* NOT stated here (belongs to C05's search model): decided_means_terminal — a search value beyond the threshold implies a
   finished game on the line searched; it follows from C18_heuristic_in_range for leaf values once the search value is shown
   to be some leaf's evaluation (pvs_correct, C05). *)
