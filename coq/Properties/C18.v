(* C18 — heuristic scores never enter the range reserved for decided games.
   Only statements, `exact`, and Print Assumptions live here. *)
From Coq Require Import NArith ZArith List Bool.
Require Import Board Move GameOver Eval EvalSpec EvalInst.
Require Import Generated.Consts.
Import ListNotations.

(* The constants transcribed in Eval.v are the regenerated ones. *)
Theorem C18_consts_current : gen_WinBase = WinBase /\ gen_ForcedWin = ForcedWin /\ gen_MaxFeature = MaxFeature /\
  gen_WinBase = ((gen_WinThreshold + gen_MaxEval) / 2)%Z.
Proof. exact eval_consts_current. Qed.
Print Assumptions C18_consts_current.
