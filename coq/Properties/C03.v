(* C03 — the move generator lists every legal move exactly once, none off the board.
   Only statements, `exact`, and Print Assumptions live here. *)
From Coq Require Import NArith ZArith List Bool.
Require Import Board Move GameOver AllMovesFacts.
Import ListNotations.

(* The slides table built like move.go's init()/calculateSlides is, for every carry limit h in 1..8,
   a duplicate-free list of exactly the packed compositions `good h` (non-empty, every drop >= 1,
   sum <= h), and nibble decoding inverts the packing. *)
Theorem C03_slides_table_spec : forall h, (1 <= h <= 8)%nat ->
  NoDup (nth h slides_table []) /\
  (forall s, In s (nth h slides_table []) <-> exists ds, good h ds /\ s = pack ds) /\
  (forall ds, good h ds -> nibbles 8 (pack ds) = map N.of_nat ds).
Proof. exact slides_table_spec. Qed.
Print Assumptions C03_slides_table_spec.

(* Completeness of the slide part of AllMoves: on every size, for every square with a stack whose top
   belongs to the side to move (from ply 2 on), every direction and every drop composition whose carry
   is within min(height, size) and whose length is within the distance to the edge is in the list.
   (C03_partial: completeness for placements, NoDup of the whole list and on-board endpoints are
   decided by the correspondence + oracle for now; planned as allmoves_complete / allmoves_nodup /
   allmoves_on_board in DESIGN 5.3.) *)
Theorem C03_allmoves_has_slide_partial : forall p x y t dc ds,
  (3 <= size p <= 8)%N -> (x < N.to_nat (size p))%nat -> (y < N.to_nat (size p))%nat ->
  let i := N.of_nat (y * N.to_nat (size p) + x) in
  nthN (Height p) i <> 0%N -> (2 <= move p)%Z ->
  (if to_move_white p then has (White p) i else has (Black p) i) = true ->
  dist p x y t = Some dc ->
  good (N.to_nat (N.min (nthN (Height p) i) (size p))) ds -> (length ds <= dc)%nat ->
  In {| mX := Z.of_nat x; mY := Z.of_nat y; mT := t; mS := pack ds |} (all_moves p).
Proof. exact allmoves_has_slide. Qed.
Print Assumptions C03_allmoves_has_slide_partial.
