(* C03 — the move generator lists every legal move exactly once, none off the board.
   Only statements, `exact`, and Print Assumptions live here.

   Vocabulary (definitions in AllMovesFacts2.v / AllMovesFacts4.v, all a few lines):
     move_equal a b   tak.Move.Equal: X, Y, Type equal and, for slides (Type >= 5), Slides equal
     meq a b          move_equal a b = true
     onb p (x, y)     0 <= x < size p /\ 0 <= y < size p
     dest_z g         Move.Dest() in unbounded integers: the origin moved by Slides.Len() squares
     legal_list p     filter (fun g => is_ok (mv p g)) (all_moves p)   -- what search/solvers iterate over
     count m l        length (filter (fun g => move_equal g m) l)
     invariant p      size 3..8, board_ok, reserves_ok, tall_ok (the hypotheses of C01)
     mv               Refine.mv = move_prealloc with the bounds check (the repaired MovePreallocated) *)
From Coq Require Import NArith ZArith List Bool SetoidList.
Require Import Board Rules Move GameOver Refine RefinePlace2.
Require Import AllMovesFacts AllMovesFacts2 AllMovesFacts3 AllMovesFacts4 AllMovesFacts5 AllMovesFacts6 AllMovesFacts8.
Require Preserve1 Reach1 Alloc.
Require Symmetry.
Import ListNotations.

(* The slides table built like move.go's init()/calculateSlides is, for every carry limit h in 1..8,
   a duplicate-free list of exactly the packed compositions `good h` (non-empty, every drop >= 1,
   sum <= h), and nibble decoding inverts the packing. *)
Theorem C03_slides_table_spec : forall h, (1 <= h <= 8)%nat ->
  NoDup (nth h slides_table []) /\
  (forall s, In s (nth h slides_table []) <-> exists ds, good h ds /\ s = pack ds) /\
  (forall ds, good h ds -> nibbles 8 (pack ds) = map N.of_nat ds).
Proof. exact slides_table_spec. Qed.
Print Assumptions C03_slides_table_spec.

(* Slide part of completeness, in terms of shapes: on every size, for every square with a stack whose top
   belongs to the side to move (from ply 2 on), every direction and every drop composition whose carry
   is within min(height, size) and whose length is within the distance to the edge is in the list. *)
Theorem C03_allmoves_has_slide : forall p x y t dc ds,
  (3 <= size p <= 8)%N -> (x < N.to_nat (size p))%nat -> (y < N.to_nat (size p))%nat ->
  let i := N.of_nat (y * N.to_nat (size p) + x) in
  nthN (Height p) i <> 0%N -> (2 <= move p)%Z ->
  (if to_move_white p then has (White p) i else has (Move.Black p) i) = true ->
  dist p x y t = Some dc ->
  good (N.to_nat (N.min (nthN (Height p) i) (size p))) ds -> (length ds <= dc)%nat ->
  In {| mX := Z.of_nat x; mY := Z.of_nat y; mT := t; mS := pack ds |} (all_moves p).
Proof. exact allmoves_has_slide. Qed.
Print Assumptions C03_allmoves_has_slide.

(* THE EXACT CONTENT OF AllMoves (sizes 3..8, any field values otherwise).  `generated p g` (AllMovesFacts6.v):
   g's origin (x, y) is on the board and either the square is empty, the Slides word is 0 and the type is
   PlaceFlat, or - from ply 2 on - PlaceStanding, or PlaceCapstone when the mover still has a capstone
   (nothing about the stone reserve: AllMoves lists flats and walls even when the reserve is empty);
   or the square holds a stack owned by the mover, the ply is >= 2, and the Slides word is pack ds for a
   drop list ds (every drop >= 1, sum <= min(height, size)) no longer than the distance to the edge in
   the direction of the type. *)
Theorem C03_all_moves_spec : forall p g, (3 <= size p <= 8)%N -> (In g (all_moves p) <-> generated p g).
Proof. exact all_moves_spec. Qed.
Print Assumptions C03_all_moves_spec.

(* COMPLETENESS.  Every raw move value other than Pass - any coordinates, any type code, any Slides word,
   whatever is in the Slides field of a placement - that the model of the repaired MovePreallocated
   accepts in a well-formed position is Equal to an entry of AllMoves.  (wf: size 3..8, Height/Stacks of
   length size^2, height 0 iff no colour bit, ...; nothing about reserves or stack heights is needed.) *)
Theorem C03_allmoves_complete : forall p m p',
  wf p -> mT m <> 1%N -> mv p m = Ok p' ->
  exists g, In g (all_moves p) /\ move_equal g m = true.
Proof. exact allmoves_complete. Qed.
Print Assumptions C03_allmoves_complete.

(* the same under the two facts the proof really uses *)
Theorem C03_allmoves_complete_min : forall p m p',
  (3 <= size p <= 8)%N ->
  (forall i, (i < size p * size p)%N -> has (N.lor (White p) (Move.Black p)) i = false -> nthN (Height p) i = 0%N) ->
  mT m <> 1%N -> mv p m = Ok p' ->
  exists g, In g (all_moves p) /\ move_equal g m = true.
Proof. exact allmoves_complete_min. Qed.
Print Assumptions C03_allmoves_complete_min.

(* NO DUPLICATES, for every value of the position record whatsoever (no well-formedness needed):
   no two entries of AllMoves are Equal. *)
Theorem C03_allmoves_nodup : forall p, NoDupA meq (all_moves p).
Proof. exact allmoves_nodup. Qed.
Print Assumptions C03_allmoves_nodup.

(* ON THE BOARD, again for every position value: every entry has a type in PlaceFlat..SlideDown, its
   origin and its destination are on the board (hence the whole path), and a slide moves at least one square. *)
Theorem C03_allmoves_on_board : forall p g, In g (all_moves p) ->
  (2 <= mT g <= 8)%N /\ onb p (mX g, mY g) /\ onb p (dest_z g) /\ ((5 <= mT g)%N -> (1 <= slide_len (mS g))%Z).
Proof. exact allmoves_on_board. Qed.
Print Assumptions C03_allmoves_on_board.

(* ... and the int8 arithmetic of Move.Dest() (the model used by the symmetry code) computes that destination *)
Theorem C03_allmoves_dest : forall p g, (size p <= 8)%N -> In g (all_moves p) ->
  Symmetry.dest g = Ok (dest_z g) /\ onb p (mX g, mY g) /\ onb p (dest_z g).
Proof. exact allmoves_dest. Qed.
Print Assumptions C03_allmoves_dest.

(* THE LEGAL MOVE SET.  For every position satisfying the invariant of C01: AllMoves filtered by
   MovePreallocated's verdict has no two Equal entries, each entry is legal by the rules of Tak (Rules.v),
   and EVERY raw move value m occurs in it (up to Equal) exactly once if the rules allow m and not at all
   otherwise. *)
Theorem C03_legal_set_exact : forall p, invariant p ->
  NoDupA meq (legal_list p) /\
  (forall g, In g (legal_list p) -> In g (all_moves p) /\ is_some (rules_move (abs p) (raw g)) = true) /\
  (forall m, count m (legal_list p) = if is_some (rules_move (abs p) (raw m)) then 1%nat else 0%nat).
Proof. exact legal_set_exact. Qed.
Print Assumptions C03_legal_set_exact.

Corollary C03_legal_set_iff : forall p m, invariant p ->
  (is_some (rules_move (abs p) (raw m)) = true <-> exists g, In g (legal_list p) /\ move_equal g m = true).
Proof. exact legal_set_iff. Qed.
Print Assumptions C03_legal_set_iff.

(* The same under the EXACT invariant of C01 (Preserve1.pos_ok: every stack within the 64 pieces a stack word can hold) instead of
   `invariant` (height + size <= 64): legality never depends on the 64 limit (C01_move_exact), so on every position the
   representation can hold the filtered list is exactly the legal move set. *)
Theorem C03_legal_set_exact_pos_ok : forall p, Preserve1.pos_ok p ->
  NoDupA meq (legal_list p) /\
  (forall g, In g (legal_list p) -> In g (all_moves p) /\ is_some (rules_move (abs p) (raw g)) = true) /\
  (forall m, count m (legal_list p) = if is_some (rules_move (abs p) (raw m)) then 1%nat else 0%nat).
Proof. exact legal_set_exact_pos_ok. Qed.
Print Assumptions C03_legal_set_exact_pos_ok.

Corollary C03_legal_set_iff_pos_ok : forall p m, Preserve1.pos_ok p ->
  (is_some (rules_move (abs p) (raw m)) = true <-> exists g, In g (legal_list p) /\ move_equal g m = true).
Proof. exact legal_set_iff_pos_ok. Qed.
Print Assumptions C03_legal_set_iff_pos_ok.

(* ... hence for every position of a real game (any size, any piece set of at most 64 pieces, any sequence of accepted moves from
   tak.New): the position is the one the rules reach, and the filtered list lists every rules-legal move exactly once. *)
Corollary C03_legal_set_exact_game : forall sz bwt stones caps ms p,
  (3 <= sz <= 8)%N -> (2 * (stones + caps) <= 64)%N -> Reach1.no_pass ms ->
  Reach1.replay (Alloc.new_pos sz bwt stones caps) ms = Ok p ->
  Rules.play (Reach1.rules_start (N.to_nat sz) stones caps bwt) (map raw ms) = Some (abs p) /\
  NoDupA meq (legal_list p) /\
  (forall m, count m (legal_list p) = if is_some (rules_move (abs p) (raw m)) then 1%nat else 0%nat).
Proof. exact legal_set_exact_game. Qed.
Print Assumptions C03_legal_set_exact_game.

(* Non-vacuity (AllMovesFacts5.v): ex_pos is a 5x5 position after 14 plies (a white stack of three, a black
   wall and a black capstone in the way); it satisfies `invariant` and `wf`, the model accepts moves in it,
   AllMoves has 78 entries of which 69 are legal; and without the bounds check (pinned tree) completeness
   is false. *)
Theorem C03_example_position : invariant ex_pos /\ wf ex_pos /\
  (exists q, mT (M 1 1 7 33) <> 1%N /\ mv ex_pos (M 1 1 7 33) = Ok q) /\
  length (all_moves ex_pos) = 78%nat /\ length (legal_list ex_pos) = 69%nat.
Proof. exact ex_summary. Qed.
Print Assumptions C03_example_position.

Theorem C03_pinned_incomplete :
  invariant (new 5 21 1) /\ mT (M 5 (-1) 2 0) <> 1%N /\
  (exists q, mv_pinned (new 5 21 1) (M 5 (-1) 2 0) = Ok q) /\
  (forall g, In g (all_moves (new 5 21 1)) -> move_equal g (M 5 (-1) 2 0) = false) /\
  mv (new 5 21 1) (M 5 (-1) 2 0) = Err.
Proof. exact pinned_incomplete. Qed.
Print Assumptions C03_pinned_incomplete.
