(* C14 — the eight board symmetries commute with the rules.
   Only statements, `exact`, and Print Assumptions live here. *)
From Coq Require Import ZArith List Lia Bool.
Require Import Sym.
Import ListNotations.

(* The eight coordinate maps of symmetry/canonical.go on an n x n board (any n) form a group: composition is
   given by comp (closure), inv gives inverses; each maps the board onto itself and preserves orthogonal
   adjacency - the basis of road invariance and of slide-direction transport.
   C14_partial: rules_equivariant (rules_move (img s b) (tm s m) = option_map (img s) (rules_move b m) on Rules.v)
   and its transport to the bit level through C01/C02 are still to be proved (DESIGN 5.14); the
   commutation itself is decided by the correspondence + independent oracle for now. *)
Theorem C14_group_closed_partial : forall n a b, (a < 8)%nat -> (b < 8)%nat -> forall xy, sym n a (sym n b xy) = sym n (comp a b) xy.
Proof. exact comp_ok. Qed.
Print Assumptions C14_group_closed_partial.

Theorem C14_group_inverse_partial : forall n a, (a < 8)%nat -> forall xy, sym n (inv a) (sym n a xy) = xy.
Proof. exact inv_ok. Qed.
Print Assumptions C14_group_inverse_partial.

Theorem C14_on_board_partial : forall n a x y, (a < 8)%nat -> (0 <= x < n)%Z -> (0 <= y < n)%Z ->
  (0 <= fst (sym n a (x, y)) < n /\ 0 <= snd (sym n a (x, y)) < n)%Z.
Proof. exact sym_on_board. Qed.
Print Assumptions C14_on_board_partial.

Theorem C14_adjacency_preserved_partial : forall n a p q, (a < 8)%nat ->
  (Z.abs (fst p - fst q) + Z.abs (snd p - snd q) = 1)%Z ->
  (Z.abs (fst (sym n a p) - fst (sym n a q)) + Z.abs (snd (sym n a p) - snd (sym n a q)) = 1)%Z.
Proof. exact sym_adjacent. Qed.
Print Assumptions C14_adjacency_preserved_partial.
