(* C14 — the eight board symmetries commute with the rules.
   Only statements, `exact`, and Print Assumptions live here.
   Proof files: Sym.v (group table), SymRules1-4.v (Rules.v level), SymCode1-2.v (code-shaped TransformMove / Move). *)
From Coq Require Import NArith ZArith List Lia Bool.
Require Import Rules Sym SymRules1 SymRules2 SymRules3 SymRules4.
Require Import Board Move GameOver Tps Symmetry Refine SymCode1 Canon2 SymCode2 SymCode3 SymCode4.
Require Import Preserve1 Preserve6 GameOverFacts2.
Import ListNotations.
Close Scope Z_scope. Close Scope N_scope.

(* ---- the group (any n): closure by the table comp, inverses, the board is mapped onto itself, adjacency is preserved ---- *)
Theorem C14_group_closed : forall n a b, a < 8 -> b < 8 -> forall xy, sym n a (sym n b xy) = sym n (comp a b) xy.
Proof. exact comp_ok. Qed.
Print Assumptions C14_group_closed.

Theorem C14_group_inverse : forall n a, a < 8 -> forall xy, sym n (Sym.inv a) (sym n a xy) = xy.
Proof. exact inv_ok. Qed.
Print Assumptions C14_group_inverse.

Theorem C14_on_board : forall n a x y, a < 8 -> (0 <= x < n)%Z -> (0 <= y < n)%Z ->
  (0 <= fst (sym n a (x, y)) < n /\ 0 <= snd (sym n a (x, y)) < n)%Z.
Proof. exact sym_on_board. Qed.
Print Assumptions C14_on_board.

Theorem C14_adjacency_preserved : forall n a p q, a < 8 ->
  (Z.abs (fst p - fst q) + Z.abs (snd p - snd q) = 1)%Z ->
  (Z.abs (fst (sym n a p) - fst (sym n a q)) + Z.abs (snd (sym n a p) - snd (sym n a q)) = 1)%Z.
Proof. exact sym_adjacent. Qed.
Print Assumptions C14_adjacency_preserved.

(* ---- DESIGN 5.14 rules_equivariant, on Rules.v.  img k b: the board whose stack at (sym k (x,y)) is b's stack at (x,y), reserves, ply, n
   unchanged (C14_img_stack).  tm k n m: coordinates mapped, slide direction (type codes 5..8) mapped, the Slides word kept for type codes >= 5
   and zero for type codes < 5 (that is what TransformMove returns; the rules ignore the Slides word of a placement).
   For EVERY raw move value: illegal, off-board, bad type code (both sides None).  well_shaped b: 3 <= n b <= 8, length (sq b) = n*n. ---- *)
Theorem C14_img_stack : forall k p x y, k < 8 -> size_ok (n p) -> on_board p x y = true ->
  let xy := symb (n p) k (x, y) in stack_at (img k p) (fst xy) (snd xy) = stack_at p x y.
Proof. exact stack_at_img_sym. Qed.
Print Assumptions C14_img_stack.

Theorem C14_rules_equivariant : forall k b m, k < 8 -> well_shaped b ->
  rules_move (img k b) (tm k (Z.of_nat (n b)) m) = option_map (img k) (rules_move b m).
Proof. exact rules_equivariant. Qed.
Print Assumptions C14_rules_equivariant.

(* the images compose like the table (so the eight images of a board are an orbit), and k / inv k undo each other *)
Theorem C14_img_comp : forall a b p, a < 8 -> b < 8 -> size_ok (n p) -> img a (img b p) = img (comp a b) p.
Proof. exact img_comp. Qed.
Print Assumptions C14_img_comp.

Theorem C14_tm_comp : forall a b s m, a < 8 -> b < 8 -> tm a s (tm b s m) = tm (comp a b) s m.
Proof. exact tm_comp. Qed.
Print Assumptions C14_tm_comp.

Theorem C14_img_inv : forall k b, k < 8 -> well_shaped b -> img (Sym.inv k) (img k b) = b.
Proof. exact img_inv. Qed.
Print Assumptions C14_img_inv.

(* ---- DESIGN 5.14 road_invariant: roads, flat counts, fullness, reserves and side to move, hence the outcome (game over, winner, reason) ---- *)
Theorem C14_road_invariant : forall k b c, k < 8 -> well_shaped b -> Road (img k b) c <-> Road b c.
Proof. exact road_invariant. Qed.
Print Assumptions C14_road_invariant.

Theorem C14_flat_count_invariant : forall k b c, k < 8 -> well_shaped b -> flat_count (img k b) c = flat_count b c.
Proof. exact flat_count_invariant. Qed.
Print Assumptions C14_flat_count_invariant.

Theorem C14_board_full_invariant : forall k b, k < 8 -> well_shaped b -> board_full (img k b) = board_full b.
Proof. exact board_full_invariant. Qed.
Print Assumptions C14_board_full_invariant.

Theorem C14_reserves_invariant : forall k b,
  wstones (img k b) = wstones b /\ wcaps (img k b) = wcaps b /\ bstones (img k b) = bstones b /\ bcaps (img k b) = bcaps b /\
  ply (img k b) = ply b /\ to_move (img k b) = to_move b /\ n (img k b) = n b /\ Rules.black_wins_ties (img k b) = Rules.black_wins_ties b.
Proof. exact reserves_invariant. Qed.
Print Assumptions C14_reserves_invariant.

Theorem C14_outcome_invariant : forall k b o, k < 8 -> well_shaped b -> Outcome (img k b) o <-> Outcome b o.
Proof. exact outcome_invariant. Qed.
Print Assumptions C14_outcome_invariant.

(* ---- the code-shaped TransformMove (int8 flips, direction re-derived from the transformed end point) IS tm on transformable moves:
   coordinates in [-64,64) (all on-board squares and near misses: there the int8 arithmetic is exact), type code <= 8, a slide has >= 1 drop.
   Outside that it panics (C14_transform_move_panics): forced by the code, reported. ---- *)
Theorem C14_transform_move_tm : forall k s m, k < 8 -> size_ok s -> transformable m ->
  transform_move (csym s k) m = Ok (tmr k s m) /\ raw (tmr k s m) = tm k (Z.of_nat s) (raw m).
Proof. exact transform_move_tm_raw. Qed.
Print Assumptions C14_transform_move_tm.

Theorem C14_transform_move_panics : forall s k m, k < 8 -> size_ok s -> (-64 <= mX m < 64)%Z -> (-64 <= mY m < 64)%Z ->
  ((5 <= mT m <= 8)%N /\ mS m = 0%N) \/ (9 <= mT m)%N -> transform_move (csym s k) m = Panic.
Proof. exact transform_move_panics. Qed.
Print Assumptions C14_transform_move_panics.

(* ---- DESIGN 5.14 move_equivariant, through C01: for p, q satisfying the C01 invariant (c01_inv = the hypotheses of move_refines_rules:
   size 3..8, board_ok, reserves < 256, no stack above 64 - size) with abs q = img k (abs p), Position.Move on q with TransformMove's image
   of m succeeds/fails exactly as Move on p with m, the results correspond again, and nothing panics.
   PARTIAL with respect to DESIGN's statement: q is any position that shows the image, not yet Symmetry.image (the rebuild through
   from_squares: abs (image p s) = img k (abs p) is not proved here), and Pass (type code 1) is excluded as in C01.
   symmetries_exact (and abs (image p s) = img k (abs p), which also needs the reserves of p to be the default counts minus the pieces on
   the board, because image rebuilds them through from_squares) is not proved: covered by the correspondence and the independent oracle. ---- *)
Theorem C14_move_equivariant_partial : forall k p q m, k < 8 -> c01_inv p -> c01_inv q -> abs q = img k (abs p) -> transformable m -> mT m <> 1%N ->
  match transform_move (csym (N.to_nat (size p)) k) m with
  | Ok m' => match mv p m, mv q m' with
             | Ok p', Ok q' => abs q' = img k (abs p')
             | Err, Err => True
             | _, _ => False
             end
  | _ => False
  end.
Proof. exact move_equivariant_code. Qed.
Print Assumptions C14_move_equivariant_partial.

(* the same under C01's full invariant pos_ok with the EXACT limit fits64 (no stack of the rules successor above 64; the first version needs
   every stack <= 64 - size); the invariant holds again on both sides *)
Theorem C14_move_equivariant64_partial : forall k p q m, k < 8 -> pos_ok p -> pos_ok q -> abs q = img k (abs p) -> fits64 p m ->
  transformable m -> mT m <> 1%N ->
  match transform_move (csym (N.to_nat (size p)) k) m with
  | Ok m' => match mv p m, mv q m' with
             | Ok p', Ok q' => abs q' = img k (abs p') /\ pos_ok p' /\ pos_ok q'
             | Err, Err => True
             | _, _ => False
             end
  | _ => False
  end.
Proof. exact move_equivariant64_code. Qed.
Print Assumptions C14_move_equivariant64_partial.

(* ---- DESIGN 5.14 gameover_invariant, through C02 (game_over_correct): positions satisfying C02's invariant that show a board and its image
   have the same GameOver verdict and the same WinDetails (over, reason, winner, both flat counts).  PARTIAL in the same respect as
   move_equivariant: q is any position showing the image, not yet Symmetry.image. ---- *)
Theorem C14_gameover_invariant_partial : forall k p q, k < 8 -> GameOverFacts2.inv p -> GameOverFacts2.inv q -> abs q = img k (abs p) ->
  game_over q = game_over p /\ win_details q = win_details p.
Proof. exact gameover_invariant. Qed.
Print Assumptions C14_gameover_invariant_partial.

(* non-vacuity: SymRules3.ex_equivariant (5x5, a two-high stack slides, k = 6), ex_equivariant_illegal, ex_road (3x3 road and its image),
   SymCode1.ex_transform. *)
