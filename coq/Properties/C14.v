(* C14 — the eight board symmetries commute with the rules.
   Only statements, `exact`, and Print Assumptions live here.
   Proof files: Sym.v (group table), SymRules1-4.v (Rules.v level), SymCode1-2.v (code-shaped TransformMove / Move),
   Import3-6.v (the rebuilt images, default configuration), TpsCfg.v / SymmetryCfg.v / ImportCfg1-5.v (the rebuilt images under the
   position's OWN configuration, which is what symmetry.Symmetries passes to FromSquares: last block). *)
From Coq Require Import NArith ZArith List Lia Bool.
Require Import Rules Sym SymRules1 SymRules2 SymRules3 SymRules4.
Require Import Board Move GameOver Tps Symmetry Refine SymCode1 Canon2 SymCode2 SymCode3 SymCode4.
Require Import Preserve1 Preserve6 GameOverFacts2.
Require TpsFacts5 PreserveEx.
Require Import Generated.Consts.
Require Import Import3 Import4 Import5 Import6.
Require Import TpsCfg SymmetryCfg ImportCfg1 ImportCfg2 ImportCfg3 ImportCfg4.
Require PnCong3 ImportCfg5 Import1.
Import ListNotations.
Close Scope Z_scope. Close Scope N_scope.

(* ---- the group (any n): closure by the table comp, inverses, the board is mapped onto itself, adjacency is preserved ---- *)
Theorem C14_group_closed : forall n a b, a < 8 -> b < 8 -> forall xy, sym n a (sym n b xy) = sym n (comp a b) xy.
Proof. exact comp_ok. Qed.
Print Assumptions C14_group_closed.

Theorem C14_group_inverse : forall n a, a < 8 -> forall xy, sym n (Sym.inv a) (sym n a xy) = xy.
Proof. exact inv_ok. Qed.
Print Assumptions C14_group_inverse.

Theorem C14_on_board : forall n a x y, a < 8 -> (0 <= x < n)%Z -> (0 <= y < n)%Z ->
  (0 <= fst (sym n a (x, y)) < n /\ 0 <= snd (sym n a (x, y)) < n)%Z.
Proof. exact sym_on_board. Qed.
Print Assumptions C14_on_board.

Theorem C14_adjacency_preserved : forall n a p q, a < 8 ->
  (Z.abs (fst p - fst q) + Z.abs (snd p - snd q) = 1)%Z ->
  (Z.abs (fst (sym n a p) - fst (sym n a q)) + Z.abs (snd (sym n a p) - snd (sym n a q)) = 1)%Z.
Proof. exact sym_adjacent. Qed.
Print Assumptions C14_adjacency_preserved.

(* ---- DESIGN 5.14 rules_equivariant, on Rules.v.  img k b: the board whose stack at (sym k (x,y)) is b's stack at (x,y), reserves, ply, n
   unchanged (C14_img_stack).  tm k n m: coordinates mapped, slide direction (type codes 5..8) mapped, the Slides word kept for type codes >= 5
   and zero for type codes < 5 (that is what TransformMove returns; the rules ignore the Slides word of a placement).
   For EVERY raw move value: illegal, off-board, bad type code (both sides None).  well_shaped b: 3 <= n b <= 8, length (sq b) = n*n. ---- *)
Theorem C14_img_stack : forall k p x y, k < 8 -> size_ok (n p) -> on_board p x y = true ->
  let xy := symb (n p) k (x, y) in stack_at (img k p) (fst xy) (snd xy) = stack_at p x y.
Proof. exact stack_at_img_sym. Qed.
Print Assumptions C14_img_stack.

Theorem C14_rules_equivariant : forall k b m, k < 8 -> well_shaped b ->
  rules_move (img k b) (tm k (Z.of_nat (n b)) m) = option_map (img k) (rules_move b m).
Proof. exact rules_equivariant. Qed.
Print Assumptions C14_rules_equivariant.

(* the images compose like the table (so the eight images of a board are an orbit), and k / inv k undo each other *)
Theorem C14_img_comp : forall a b p, a < 8 -> b < 8 -> size_ok (n p) -> img a (img b p) = img (comp a b) p.
Proof. exact img_comp. Qed.
Print Assumptions C14_img_comp.

Theorem C14_tm_comp : forall a b s m, a < 8 -> b < 8 -> tm a s (tm b s m) = tm (comp a b) s m.
Proof. exact tm_comp. Qed.
Print Assumptions C14_tm_comp.

Theorem C14_img_inv : forall k b, k < 8 -> well_shaped b -> img (Sym.inv k) (img k b) = b.
Proof. exact img_inv. Qed.
Print Assumptions C14_img_inv.

(* ---- DESIGN 5.14 road_invariant: roads, flat counts, fullness, reserves and side to move, hence the outcome (game over, winner, reason) ---- *)
Theorem C14_road_invariant : forall k b c, k < 8 -> well_shaped b -> Road (img k b) c <-> Road b c.
Proof. exact road_invariant. Qed.
Print Assumptions C14_road_invariant.

Theorem C14_flat_count_invariant : forall k b c, k < 8 -> well_shaped b -> flat_count (img k b) c = flat_count b c.
Proof. exact flat_count_invariant. Qed.
Print Assumptions C14_flat_count_invariant.

Theorem C14_board_full_invariant : forall k b, k < 8 -> well_shaped b -> board_full (img k b) = board_full b.
Proof. exact board_full_invariant. Qed.
Print Assumptions C14_board_full_invariant.

Theorem C14_reserves_invariant : forall k b,
  wstones (img k b) = wstones b /\ wcaps (img k b) = wcaps b /\ bstones (img k b) = bstones b /\ bcaps (img k b) = bcaps b /\
  ply (img k b) = ply b /\ to_move (img k b) = to_move b /\ n (img k b) = n b /\ Rules.black_wins_ties (img k b) = Rules.black_wins_ties b.
Proof. exact reserves_invariant. Qed.
Print Assumptions C14_reserves_invariant.

Theorem C14_outcome_invariant : forall k b o, k < 8 -> well_shaped b -> Outcome (img k b) o <-> Outcome b o.
Proof. exact outcome_invariant. Qed.
Print Assumptions C14_outcome_invariant.

(* ---- the code-shaped TransformMove (int8 flips, direction re-derived from the transformed end point) IS tm on transformable moves:
   coordinates in [-64,64) (all on-board squares and near misses: there the int8 arithmetic is exact), type code <= 8, a slide has >= 1 drop.
   Outside that it panics (C14_transform_move_panics): forced by the code, reported. ---- *)
Theorem C14_transform_move_tm : forall k s m, k < 8 -> size_ok s -> transformable m ->
  transform_move (csym s k) m = Ok (tmr k s m) /\ raw (tmr k s m) = tm k (Z.of_nat s) (raw m).
Proof. exact transform_move_tm_raw. Qed.
Print Assumptions C14_transform_move_tm.

Theorem C14_transform_move_panics : forall s k m, k < 8 -> size_ok s -> (-64 <= mX m < 64)%Z -> (-64 <= mY m < 64)%Z ->
  ((5 <= mT m <= 8)%N /\ mS m = 0%N) \/ (9 <= mT m)%N -> transform_move (csym s k) m = Panic.
Proof. exact transform_move_panics. Qed.
Print Assumptions C14_transform_move_panics.

(* ---- DESIGN 5.14 move_equivariant, through C01: for p, q satisfying the C01 invariant (c01_inv = the hypotheses of move_refines_rules:
   size 3..8, board_ok, reserves < 256, no stack above 64 - size) with abs q = img k (abs p), Position.Move on q with TransformMove's image
   of m succeeds/fails exactly as Move on p with m, the results correspond again, and nothing panics.
   Stated for ANY position q that shows the image (hence `_partial` in the name); the instance q := Symmetry.image p s is
   C14_move_equivariant / C14_move_commutes below.  Pass (type code 1) is excluded as in C01. ---- *)
Theorem C14_move_equivariant_partial : forall k p q m, k < 8 -> c01_inv p -> c01_inv q -> abs q = img k (abs p) -> transformable m -> mT m <> 1%N ->
  match transform_move (csym (N.to_nat (size p)) k) m with
  | Ok m' => match mv p m, mv q m' with
             | Ok p', Ok q' => abs q' = img k (abs p')
             | Err, Err => True
             | _, _ => False
             end
  | _ => False
  end.
Proof. exact move_equivariant_code. Qed.
Print Assumptions C14_move_equivariant_partial.

(* the same under C01's full invariant pos_ok with the EXACT limit fits64 (no stack of the rules successor above 64; the first version needs
   every stack <= 64 - size); the invariant holds again on both sides *)
Theorem C14_move_equivariant64_partial : forall k p q m, k < 8 -> pos_ok p -> pos_ok q -> abs q = img k (abs p) -> fits64 p m ->
  transformable m -> mT m <> 1%N ->
  match transform_move (csym (N.to_nat (size p)) k) m with
  | Ok m' => match mv p m, mv q m' with
             | Ok p', Ok q' => abs q' = img k (abs p') /\ pos_ok p' /\ pos_ok q'
             | Err, Err => True
             | _, _ => False
             end
  | _ => False
  end.
Proof. exact move_equivariant64_code. Qed.
Print Assumptions C14_move_equivariant64_partial.

(* ---- DESIGN 5.14 gameover_invariant, through C02 (game_over_correct): positions satisfying C02's invariant that show a board and its image
   have the same GameOver verdict and the same WinDetails (over, reason, winner, both flat counts).  For any q showing the image; the instance
   q := Symmetry.image p s is C14_gameover_invariant below. ---- *)
Theorem C14_gameover_invariant_partial : forall k p q, k < 8 -> GameOverFacts2.inv p -> GameOverFacts2.inv q -> abs q = img k (abs p) ->
  game_over q = game_over p /\ win_details q = win_details p.
Proof. exact gameover_invariant. Qed.
Print Assumptions C14_gameover_invariant_partial.

(* ==================== THE REBUILT IMAGES: Symmetry.image, Symmetry.symmetries (Import3-6.v) ====================
   image basis p s   what symmetry.Symmetries builds for the coordinate map s: the board whose square s(x,y) is Position.At(x,y), through
                     tak.FromSquares (on tak.New with the DEFAULT configuration) with p's ply number.
   csym n k          the k-th entry of the code's table symmetries(n) (int8 flips);  imgk p k := image gen_basis p (csym (size p) k).
   Two hypotheses on p beyond the C01 invariant pos_ok, both forced by the model's FromSquares (default piece counts, default flag):
     reserves_match_board p (TpsFacts5.v)  p's four reserve counters are the default counts of its size minus the pieces on its board
                                           (true at tak.New with the default counts and preserved by every move: C10, C14_move_commutes);
     black_wins_ties p = false.
   Both hold again for every image and every successor, so the theorems compose along games and orbits. *)

(* the rebuild satisfies the invariant, for ANY coordinate map and without the two hypotheses ... *)
Theorem C14_image_pos_ok : forall p s, pos_ok p -> pos_ok (image gen_basis p s).
Proof. exact image_pos_ok. Qed.
Print Assumptions C14_image_pos_ok.

(* ... and shows the permuted board: size, squares and ply need neither hypothesis ... *)
Theorem C14_image_abs_board : forall k p, k < 8 -> pos_ok p ->
  let q := image gen_basis p (csym (N.to_nat (size p)) k) in
  n (abs q) = n (img k (abs p)) /\ sq (abs q) = sq (img k (abs p)) /\ ply (abs q) = ply (img k (abs p)).
Proof. exact image_abs_board. Qed.
Print Assumptions C14_image_abs_board.

(* THE MISSING LINK: the code-shaped image abstracts to the specification-level image *)
Theorem C14_image_abs : forall k p, k < 8 -> pos_ok p -> TpsFacts5.reserves_match_board p -> Move.black_wins_ties p = false ->
  abs (image gen_basis p (csym (N.to_nat (size p)) k)) = img k (abs p).
Proof. exact image_abs. Qed.
Print Assumptions C14_image_abs.

(* the same in the spelling of Symmetry.symmetries: the k-th entry of syms (size p) *)
Theorem C14_image_abs_nth : forall k p, k < 8 -> pos_ok p -> TpsFacts5.reserves_match_board p -> Move.black_wins_ties p = false ->
  abs (image gen_basis p (nth k (syms (Z.of_N (size p))) (fun x y => (x, y)))) = img k (abs p).
Proof. exact image_abs_nth. Qed.
Print Assumptions C14_image_abs_nth.

Theorem C14_image_reserves_match : forall k p, k < 8 -> pos_ok p -> TpsFacts5.reserves_match_board p ->
  TpsFacts5.reserves_match_board (image gen_basis p (csym (N.to_nat (size p)) k)).
Proof. exact image_reserves_match. Qed.
Print Assumptions C14_image_reserves_match.

(* ---- DESIGN 5.14 move_equivariant for q := image p s: for EVERY transformable raw move other than Pass whose rules successor has no stack
   above 64, TransformMove succeeds, Move on p and Move on the image succeed/fail together, never panic, and the results correspond ---- *)
Theorem C14_move_equivariant : forall k p m, k < 8 -> pos_ok p -> TpsFacts5.reserves_match_board p -> Move.black_wins_ties p = false ->
  fits64 p m -> transformable m -> mT m <> 1%N ->
  let s := csym (N.to_nat (size p)) k in
  match transform_move s m with
  | Ok m' => match mv p m, mv (image gen_basis p s) m' with
             | Ok p', Ok q' => abs q' = img k (abs p') /\ pos_ok p' /\ pos_ok q'
             | Err, Err => True
             | _, _ => False
             end
  | _ => False
  end.
Proof. exact image_move_equivariant. Qed.
Print Assumptions C14_move_equivariant.

(* the commuting square of the property text, field for field (bitboards, heights, stack words, hash, reserves, ply):
   Move (image p) (TransformMove m) = image (Move p m); both fail together; the successor satisfies all hypotheses again *)
Theorem C14_move_commutes : forall k p m, k < 8 -> pos_ok p -> TpsFacts5.reserves_match_board p -> Move.black_wins_ties p = false ->
  fits64 p m -> transformable m -> mT m <> 1%N ->
  let s := csym (N.to_nat (size p)) k in
  match transform_move s m with
  | Ok m' => match mv p m with
             | Ok p' => mv (image gen_basis p s) m' = Ok (image gen_basis p' s) /\
                        pos_ok p' /\ TpsFacts5.reserves_match_board p' /\ Move.black_wins_ties p' = false
             | Err => mv (image gen_basis p s) m' = Err
             | Panic => False
             end
  | _ => False
  end.
Proof. exact image_move_commutes. Qed.
Print Assumptions C14_move_commutes.

(* ---- DESIGN 5.14 gameover_invariant for q := image p s ---- *)
Theorem C14_gameover_invariant : forall k p, k < 8 -> pos_ok p -> TpsFacts5.reserves_match_board p -> Move.black_wins_ties p = false ->
  let q := image gen_basis p (csym (N.to_nat (size p)) k) in
  game_over q = game_over p /\ win_details q = win_details p.
Proof. exact image_gameover_invariant. Qed.
Print Assumptions C14_gameover_invariant.

(* an image undone by the inverse symmetry is the position itself, field for field *)
Theorem C14_image_image_inv : forall k p, k < 8 -> pos_ok p -> TpsFacts5.reserves_match_board p -> Move.black_wins_ties p = false ->
  let n := N.to_nat (size p) in
  image gen_basis (image gen_basis p (csym n k)) (csym n (Sym.inv k)) = p.
Proof. exact image_image_inv. Qed.
Print Assumptions C14_image_image_inv.

(* ---- DESIGN 5.14 symmetries_exact ----
   firsts key seen l (Import5.v): the elements of l whose key is neither in `seen` nor carried by an earlier element of l (order kept);
   hkey (q, k) := Hash() of q;  all_images p := [(imgk p 0, 0); ...; (imgk p 7, 7)].
   Symmetries(p) IS the list of the eight rebuilt images with every entry dropped whose Hash() occurred before: no hypothesis. *)
Theorem C14_symmetries_firsts : forall p, symmetries gen_basis p = firsts hkey [] (all_images p).
Proof. exact symmetries_firsts. Qed.
Print Assumptions C14_symmetries_firsts.

(* no_collision p: two of the eight images with the same Hash() show the same squares.  Then: (A) every entry is (imgk p k, k), k < 8,
   satisfies the invariant, and k is the first index producing that image; (B) every one of the eight images is in the list (as a record),
   paired with an index not above its own; (C) no two entries show the same board, no two have the same Hash(): each distinct image occurs
   exactly once.  Only (B) uses no_collision: an image colliding with an earlier different one would be dropped. *)
Theorem C14_symmetries_exact : forall p, pos_ok p -> no_collision p ->
  let L := symmetries gen_basis p in
  (forall q k, In (q, k) L -> k < 8 /\ q = imgk p k /\ pos_ok q /\ forall i, i < k -> imgk p i <> q) /\
  (forall k, k < 8 -> exists j, j <= k /\ In (imgk p k, j) L) /\
  NoDup (map (fun x => sq (abs (fst x))) L) /\ NoDup (map hkey L).
Proof. exact symmetries_exact. Qed.
Print Assumptions C14_symmetries_exact.

(* each listed position, paired with k, abstracts to the specification-level image img k *)
Theorem C14_symmetries_abs : forall p q k, pos_ok p -> TpsFacts5.reserves_match_board p -> Move.black_wins_ties p = false ->
  In (q, k) (symmetries gen_basis p) -> k < 8 /\ q = imgk p k /\ abs q = img k (abs p).
Proof. exact symmetries_abs. Qed.
Print Assumptions C14_symmetries_abs.

(* NON-VACUITY.  p14 (5x5 after 14 plies, PreserveEx.v) satisfies the hypotheses; rotated (k = 6) the long slide m_long (left from e2, drops
   2,1,1,1) becomes a slide up from b1, the square commutes, the image differs from p14, GameOver agrees. *)
Theorem C14_nonvacuous_image :
  exists m' p', transform_move (csym 5 6) PreserveEx.m_long = Ok m' /\ m' <> PreserveEx.m_long /\ mv PreserveEx.p14 PreserveEx.m_long = Ok p' /\
    mv (image gen_basis PreserveEx.p14 (csym 5 6)) m' = Ok (image gen_basis p' (csym 5 6)) /\
    White (image gen_basis PreserveEx.p14 (csym 5 6)) <> White PreserveEx.p14 /\
    game_over (image gen_basis PreserveEx.p14 (csym 5 6)) = game_over PreserveEx.p14.
Proof. exact ex_image_move_commutes. Qed.
Print Assumptions C14_nonvacuous_image.

(* p14 has eight different images; the empty 5x5 board one; the board after a1 four (indices 0, 1, 2 and 4: the corner is fixed by one diagonal) *)
Theorem C14_nonvacuous_symmetries :
  pos_ok PreserveEx.p14 /\ no_collision PreserveEx.p14 /\ map snd (symmetries gen_basis PreserveEx.p14) = [0; 1; 2; 3; 4; 5; 6; 7].
Proof. exact ex_symmetries_p14. Qed.
Print Assumptions C14_nonvacuous_symmetries.

Theorem C14_nonvacuous_symmetries_sym :
  pos_ok PreserveEx.start5 /\ no_collision PreserveEx.start5 /\ map snd (symmetries gen_basis PreserveEx.start5) = [0] /\
  pos_ok p_a1 /\ no_collision p_a1 /\ map snd (symmetries gen_basis p_a1) = [0; 1; 2; 4].
Proof. exact ex_symmetries_sym. Qed.
Print Assumptions C14_nonvacuous_symmetries_sym.

(* ==================== THE REBUILT IMAGES UNDER THE POSITION'S OWN CONFIGURATION (TpsCfg.v, SymmetryCfg.v, ImportCfg1-5.v) ====================
   symmetry.Symmetries calls tak.FromSquares(p.Config(), ...): custom Pieces / Capstones / BlackWinsTies are carried over to every
   image.  The models above (Tps.from_squares, Symmetry.image, Symmetry.symmetries) are FromSquares at tak.Config{Size} - default
   counts, flag false - and their theorems carry the hypotheses reserves_match_board p and black_wins_ties p = false.  Here:
     from_squares_cfg basis sz stones caps bwt board mv   tak.FromSquares(Config{sz, stones, caps, bwt}, board, mv): tak.New's
                        defaulting (a count of 0 selects the default of the size), byte reserves, one byte decrement per piece;
     image_cfg basis stones caps p s / symmetries_cfg     the image / the list Symmetries builds, under p.Config() = {size p, stones,
                        caps, black_wins_ties p} (Pieces and Capstones are not fields of the model's position record: parameters);
     imgck stones caps p k := image_cfg gen_basis stones caps p (csym (size p) k);
     cfgS n stones / cfgC n caps                          the effective counts: byte(Pieces), byte(Capstones) after the defaulting;
     reserves_match_cfg stones caps p                     p's four reserves are (cfgS, cfgC, cfgS, cfgC) minus the pieces on its board,
                        in byte arithmetic (dec8) - what tak.New(cfg) establishes, every FromSquares(cfg, ...) computes
                        (C14_cfg_from_squares_matches), every move preserves (C14_cfg_move_matches) and every image has again
                        (C14_cfg_image_matches); implied by conservation `reserve + pieces on board = configuration`
                        (C14_cfg_cons4_matches; PnCong3.cinv: C14_cfg_cinv_matches).
   This is the ONLY hypothesis beyond pos_ok that remains; nothing is assumed about the flag: it is carried over and the images have it.
   The executed model (ocaml/drv_c14.ml) is symmetries_cfg. *)

(* the old models are the default-configuration instances of the new ones *)
Theorem C14_cfg_from_squares_zero : forall basis sz board mv,
  from_squares basis sz board mv = from_squares_cfg basis sz 0%N 0%N false board mv.
Proof. exact from_squares_zero. Qed.
Print Assumptions C14_cfg_from_squares_zero.

Theorem C14_cfg_from_squares_default : forall basis sz board mv,
  from_squares basis sz board mv =
  from_squares_cfg basis sz (nth (N.to_nat sz) default_pieces 0%N) (nth (N.to_nat sz) default_caps 0%N) false board mv.
Proof. exact from_squares_default. Qed.
Print Assumptions C14_cfg_from_squares_default.

Theorem C14_cfg_image_default : forall basis p s, Move.black_wins_ties p = false ->
  image basis p s = image_cfg basis (nth (N.to_nat (size p)) default_pieces 0%N) (nth (N.to_nat (size p)) default_caps 0%N) p s.
Proof. exact image_default. Qed.
Print Assumptions C14_cfg_image_default.

Theorem C14_cfg_symmetries_default : forall basis p, Move.black_wins_ties p = false ->
  symmetries basis p = symmetries_cfg basis (nth (N.to_nat (size p)) default_pieces 0%N) (nth (N.to_nat (size p)) default_caps 0%N) p.
Proof. exact symmetries_default. Qed.
Print Assumptions C14_cfg_symmetries_default.

(* FromSquares under ANY configuration (the import theorem of C01/C08/C10 without the default-configuration restriction): for every
   board that fits the representation the result satisfies pos_ok for any counts and flag, has the flag, shows the board, its reserves
   are the byte decrements, and it abstracts to cfg_apos (reserves = configuration - pieces on the board) when the counts fit *)
Theorem C14_cfg_from_squares_wf : forall n stones caps bwt board mv, Import1.fit_board n board ->
  let q := from_squares_cfg gen_basis (N.of_nat n) stones caps bwt board mv in
  pos_ok q /\ size q = N.of_nat n /\ Move.move q = mv /\ Move.black_wins_ties q = bwt /\
  sq (abs q) = map (map Import1.piece_of) (concat board) /\
  (whiteStones q, whiteCaps q, blackStones q, blackCaps q) = cfg_reserves n stones caps (Import1.pieces_of board) /\
  (counts_fit_cfg n stones caps board -> abs q = cfg_apos n stones caps bwt board mv).
Proof. exact from_squares_cfg_wf. Qed.
Print Assumptions C14_cfg_from_squares_wf.

Theorem C14_cfg_from_squares_matches : forall n stones caps bwt board mv, Import1.fit_board n board ->
  reserves_match_cfg stones caps (from_squares_cfg gen_basis (N.of_nat n) stones caps bwt board mv).
Proof. exact from_squares_cfg_matches. Qed.
Print Assumptions C14_cfg_from_squares_matches.

(* the image under the configuration: the invariant for ANY coordinate map, ANY counts, ANY flag ... *)
Theorem C14_cfg_image_pos_ok : forall stones caps p s, pos_ok p -> pos_ok (image_cfg gen_basis stones caps p s).
Proof. exact image_cfg_pos_ok. Qed.
Print Assumptions C14_cfg_image_pos_ok.

(* ... its reserves match the configuration whatever p's reserves are ... *)
Theorem C14_cfg_image_matches : forall stones caps k p, k < 8 -> pos_ok p ->
  reserves_match_cfg stones caps (image_cfg gen_basis stones caps p (csym (N.to_nat (size p)) k)).
Proof. exact image_cfg_matches. Qed.
Print Assumptions C14_cfg_image_matches.

(* ... size, squares, ply AND FLAG need no hypothesis ... *)
Theorem C14_cfg_image_abs_board : forall stones caps k p, k < 8 -> pos_ok p ->
  let q := image_cfg gen_basis stones caps p (csym (N.to_nat (size p)) k) in
  n (abs q) = n (img k (abs p)) /\ sq (abs q) = sq (img k (abs p)) /\ ply (abs q) = ply (img k (abs p)) /\
  Rules.black_wins_ties (abs q) = Rules.black_wins_ties (img k (abs p)).
Proof. exact image_cfg_abs_board. Qed.
Print Assumptions C14_cfg_image_abs_board.

(* ... and it abstracts to the specification-level image: C14_image_abs without `black_wins_ties p = false`, for any configuration *)
Theorem C14_cfg_image_abs : forall stones caps k p, k < 8 -> pos_ok p -> reserves_match_cfg stones caps p ->
  abs (image_cfg gen_basis stones caps p (csym (N.to_nat (size p)) k)) = img k (abs p).
Proof. exact image_cfg_abs. Qed.
Print Assumptions C14_cfg_image_abs.

Theorem C14_cfg_image_abs_nth : forall stones caps k p, k < 8 -> pos_ok p -> reserves_match_cfg stones caps p ->
  abs (image_cfg gen_basis stones caps p (nth k (syms (Z.of_N (size p))) (fun x y => (x, y)))) = img k (abs p).
Proof. exact image_cfg_abs_nth. Qed.
Print Assumptions C14_cfg_image_abs_nth.

(* where the hypothesis comes from: conservation (reserve + pieces on the board = configuration), the clause of PnCong3.cinv ... *)
Theorem C14_cfg_cons4_matches : forall stones caps p, pos_ok p ->
  TpsFacts9.cons4 (abs p) = (cfgS (N.to_nat (size p)) stones, cfgC (N.to_nat (size p)) caps, cfgS (N.to_nat (size p)) stones, cfgC (N.to_nat (size p)) caps) ->
  reserves_match_cfg stones caps p.
Proof. exact cons4_matches. Qed.
Print Assumptions C14_cfg_cons4_matches.

(* ... so C06's game invariant cinv (established by tak.New, preserved by every accepted move) implies ALL hypotheses used below ... *)
Theorem C14_cfg_cinv_matches : forall stones caps b p,
  let n := N.to_nat (size p) in
  PnCong3.cinv (cfgS n stones, cfgC n caps, cfgS n stones, cfgC n caps) b p ->
  pos_ok p /\ reserves_match_cfg stones caps p /\ res_sums_ok p /\ Move.black_wins_ties p = b.
Proof. exact ImportCfg5.cinv_matches. Qed.
Print Assumptions C14_cfg_cinv_matches.

(* ... as does every replay from tak.New(cfg) with at most 64 pieces in the game ... *)
Theorem C14_cfg_reachable : forall sz bwt stones caps ms p, (3 <= sz <= 8)%N ->
  (2 * (cfgS (N.to_nat sz) stones + cfgC (N.to_nat sz) caps) <= 64)%N -> Reach1.no_pass ms ->
  Reach1.replay (Alloc.new_pos sz bwt (cfgS (N.to_nat sz) stones) (cfgC (N.to_nat sz) caps)) ms = Ok p ->
  pos_ok p /\ reserves_match_cfg stones caps p /\ res_sums_ok p /\ Move.black_wins_ties p = bwt /\ size p = sz.
Proof. exact reachable_matches_cfg. Qed.
Print Assumptions C14_cfg_reachable.

(* ... and it is preserved by every move that refines the rules *)
Theorem C14_cfg_move_matches : forall stones caps p m p', pos_ok p -> pos_ok p' -> reserves_match_cfg stones caps p ->
  rules_move (abs p) (raw m) = Some (abs p') -> size p' = size p -> reserves_match_cfg stones caps p'.
Proof. exact move_matches_cfg. Qed.
Print Assumptions C14_cfg_move_matches.

(* ---- DESIGN 5.14 move_equivariant for q := the image under p's configuration (C14_move_equivariant without the two hypotheses) ---- *)
Theorem C14_cfg_move_equivariant : forall stones caps k p m, k < 8 -> pos_ok p -> reserves_match_cfg stones caps p ->
  fits64 p m -> transformable m -> mT m <> 1%N ->
  let s := csym (N.to_nat (size p)) k in
  match transform_move s m with
  | Ok m' => match mv p m, mv (image_cfg gen_basis stones caps p s) m' with
             | Ok p', Ok q' => abs q' = img k (abs p') /\ pos_ok p' /\ pos_ok q'
             | Err, Err => True
             | _, _ => False
             end
  | _ => False
  end.
Proof. exact image_cfg_move_equivariant. Qed.
Print Assumptions C14_cfg_move_equivariant.

(* the commuting square field for field; the successor satisfies the hypotheses again and keeps the flag *)
Theorem C14_cfg_move_commutes : forall stones caps k p m, k < 8 -> pos_ok p -> reserves_match_cfg stones caps p ->
  fits64 p m -> transformable m -> mT m <> 1%N ->
  let s := csym (N.to_nat (size p)) k in
  match transform_move s m with
  | Ok m' => match mv p m with
             | Ok p' => mv (image_cfg gen_basis stones caps p s) m' = Ok (image_cfg gen_basis stones caps p' s) /\
                        pos_ok p' /\ reserves_match_cfg stones caps p' /\ Move.black_wins_ties p' = Move.black_wins_ties p
             | Err => mv (image_cfg gen_basis stones caps p s) m' = Err
             | Panic => False
             end
  | _ => False
  end.
Proof. exact image_cfg_move_commutes. Qed.
Print Assumptions C14_cfg_move_commutes.

(* ---- DESIGN 5.14 gameover_invariant INCLUDING THE TIE-BREAK FLAG: the image has p's flag, and GameOver / WinDetails (over, reason,
   winner, both flat counts) are equal - so a drawn flat count is Black's win under BlackWinsTies in every image (C14_cfg_nonvacuous_tie).
   res_sums_ok p: the byte sums whiteStones+whiteCaps, blackStones+blackCaps that GameOver tests do not wrap (C02's domain). ---- *)
Theorem C14_cfg_gameover_invariant : forall stones caps k p, k < 8 -> pos_ok p -> reserves_match_cfg stones caps p -> res_sums_ok p ->
  let q := image_cfg gen_basis stones caps p (csym (N.to_nat (size p)) k) in
  Move.black_wins_ties q = Move.black_wins_ties p /\ game_over q = game_over p /\ win_details q = win_details p.
Proof. exact image_cfg_gameover_invariant. Qed.
Print Assumptions C14_cfg_gameover_invariant.

Theorem C14_cfg_image_image_inv : forall stones caps k p, k < 8 -> pos_ok p -> reserves_match_cfg stones caps p ->
  let n := N.to_nat (size p) in
  image_cfg gen_basis stones caps (image_cfg gen_basis stones caps p (csym n k)) (csym n (Sym.inv k)) = p.
Proof. exact image_cfg_image_inv. Qed.
Print Assumptions C14_cfg_image_image_inv.

(* ---- DESIGN 5.14 symmetries_exact for Symmetries under p's configuration ---- *)
Theorem C14_cfg_symmetries_firsts : forall stones caps p,
  symmetries_cfg gen_basis stones caps p = firsts hkey [] (all_images_cfg stones caps p).
Proof. exact symmetries_cfg_firsts. Qed.
Print Assumptions C14_cfg_symmetries_firsts.

(* the collision hypothesis is the one of C14_symmetries_exact: Hash() and the squares of an image do not depend on the configuration *)
Theorem C14_cfg_no_collision_iff : forall stones caps p, pos_ok p -> (no_collision_cfg stones caps p <-> no_collision p).
Proof. exact no_collision_cfg_iff. Qed.
Print Assumptions C14_cfg_no_collision_iff.

(* (A) every entry is (imgck k, k), k < 8, the first index producing that image, satisfies the invariant, HAS p's FLAG AND RESERVES MATCHING
   THE CONFIGURATION; (B) every one of the eight images is in the list; (C) no two entries show the same board / have the same Hash() *)
Theorem C14_cfg_symmetries_exact : forall stones caps p, pos_ok p -> no_collision_cfg stones caps p ->
  let L := symmetries_cfg gen_basis stones caps p in
  (forall q k, In (q, k) L -> k < 8 /\ q = imgck stones caps p k /\ pos_ok q /\ Move.black_wins_ties q = Move.black_wins_ties p /\
                              reserves_match_cfg stones caps q /\ forall i, i < k -> imgck stones caps p i <> q) /\
  (forall k, k < 8 -> exists j, j <= k /\ In (imgck stones caps p k, j) L) /\
  NoDup (map (fun x => sq (abs (fst x))) L) /\ NoDup (map hkey L).
Proof. exact symmetries_cfg_exact. Qed.
Print Assumptions C14_cfg_symmetries_exact.

Theorem C14_cfg_symmetries_abs : forall stones caps p q k, pos_ok p -> reserves_match_cfg stones caps p ->
  In (q, k) (symmetries_cfg gen_basis stones caps p) -> k < 8 /\ q = imgck stones caps p k /\ abs q = img k (abs p).
Proof. exact symmetries_cfg_abs. Qed.
Print Assumptions C14_cfg_symmetries_abs.

(* which transforms are listed does not depend on the configuration *)
Theorem C14_cfg_symmetries_indices : forall stones caps p, pos_ok p ->
  map snd (symmetries_cfg gen_basis stones caps p) = map snd (symmetries gen_basis p).
Proof. exact symmetries_cfg_indices. Qed.
Print Assumptions C14_cfg_symmetries_indices.

(* NON-VACUITY.  (1) the 5x5 board of Import1.v under 7 stones and 3 capstones a side with BlackWinsTies.  (2) p14c: the 14-ply 5x5 game of
   PreserveEx.v played with 25 stones and 2 capstones under BlackWinsTies satisfies the hypotheses; rotated (k = 6) the square commutes,
   the image has the flag and 23 white stones in reserve (the default-configuration image has 19).  (3) p_tie: a full 3x3 board, four flats
   each, 6 stones a side, BlackWinsTies: Black wins in p_tie and in all eight images under its configuration, all eight are listed; the
   image rebuilt under the default configuration (Symmetry.image) reports a draw. *)
Theorem C14_cfg_nonvacuous_from_squares :
  let q := from_squares_cfg gen_basis 5%N 7%N 3%N true Import1.ex_board5 13%Z in
  pos_ok q /\ abs q = cfg_apos 5 7%N 3%N true Import1.ex_board5 13%Z /\ Move.black_wins_ties q = true /\
  wstones (abs q) = 2%N /\ wcaps (abs q) = 2%N /\ bstones (abs q) = 2%N /\ bcaps (abs q) = 2%N.
Proof. exact ex_from_squares_cfg_wf. Qed.
Print Assumptions C14_cfg_nonvacuous_from_squares.

Theorem C14_cfg_nonvacuous_image :
  exists m' p', transform_move (csym 5 6) PreserveEx.m_long = Ok m' /\ m' <> PreserveEx.m_long /\ mv p14c PreserveEx.m_long = Ok p' /\
    mv (image_cfg gen_basis 25%N 2%N p14c (csym 5 6)) m' = Ok (image_cfg gen_basis 25%N 2%N p' (csym 5 6)) /\
    White (image_cfg gen_basis 25%N 2%N p14c (csym 5 6)) <> White p14c /\
    Move.black_wins_ties (image_cfg gen_basis 25%N 2%N p14c (csym 5 6)) = true /\
    whiteStones (image_cfg gen_basis 25%N 2%N p14c (csym 5 6)) = 23%N /\ whiteStones (image gen_basis p14c (csym 5 6)) = 19%N /\
    game_over (image_cfg gen_basis 25%N 2%N p14c (csym 5 6)) = game_over p14c.
Proof. exact ex_image_cfg_move_commutes. Qed.
Print Assumptions C14_cfg_nonvacuous_image.

Theorem C14_cfg_nonvacuous_tie :
  pos_ok p_tie /\ reserves_match_cfg 6%N 0%N p_tie /\ res_sums_ok p_tie /\ game_over p_tie = Some (true, GBlack) /\
  (forall k, k < 8 -> game_over (imgck 6%N 0%N p_tie k) = Some (true, GBlack) /\ game_over (imgk p_tie k) = Some (true, GNone)) /\
  map snd (symmetries_cfg gen_basis 6%N 0%N p_tie) = [0; 1; 2; 3; 4; 5; 6; 7].
Proof. exact ex_tie_black_wins. Qed.
Print Assumptions C14_cfg_nonvacuous_tie.

(* non-vacuity: SymRules3.ex_equivariant (5x5, a two-high stack slides, k = 6), ex_equivariant_illegal, ex_road (3x3 road and its image),
   SymCode1.ex_transform. *)
