(* C13 — text entry points are total: malformed input gives an error, never a crash.
   Only statements, `exact`, and Print Assumptions live here.
   The models return Ok | Err | Panic with every Go index / slice expression guarded; "never crashes" is
   `<> Panic`, for EVERY byte list.  Termination is by construction (structural recursion). *)
From Coq Require Import NArith ZArith List Bool.
Require Import Board Move GameOver PtnMove Playtak Tps TotalFacts PtnFile PtnFileTotalThm Tei TeiTotal.
Require Bot BotLine BotLineFacts.
Require WeightsJson WeightsJsonFacts WeightsJsonRt Generated.Consts.
From Coq Require Permutation.

Theorem C13_parse_move_total : forall s : list N, PtnMove.parse_move s <> PtnMove.Panic.
Proof. exact parse_move_total. Qed.
Print Assumptions C13_parse_move_total.

Theorem C13_parse_server_total : forall s : list N, Playtak.parse_server s <> PtnMove.Panic.
Proof. exact parse_server_total. Qed.
Print Assumptions C13_parse_server_total.

(* ParseTPS including FromSquares, for any basis table *)
Theorem C13_parse_tps_total : forall (basis : list N) (s : list N), Tps.parse_tps basis s <> Move.Panic.
Proof. exact parse_tps_total. Qed.
Print Assumptions C13_parse_tps_total.

(* PTN files: ParsePTN of ANY byte list never panics, and when it succeeds, deriving the initial position, replaying
   the whole game through the Iterator and PositionAtMove for every (n, colour) never panic either. *)
Theorem C13_ptn_file_total : forall (basis : list N) (s : list N),
  match PtnFile.parse_ptn s with
  | Move.Panic => False
  | Move.Err => True
  | Move.Ok g =>
    PtnFile.initial_position basis g <> Move.Panic /\
    (forall p0, PtnFile.initial_position basis g = Move.Ok p0 -> PtnFile.replay_all basis g p0 <> Move.Panic) /\
    (forall n c, PtnFile.position_at_move basis g n c <> Move.Panic)
  end.
Proof. exact PtnFileTotalThm.ptn_file_total. Qed.
Print Assumptions C13_ptn_file_total.

(* The TEI command stream: Engine.Run of a new engine on ANY byte stream never crashes, whatever the searcher
   oracle answers (any searcher state type, constructor and search function). *)
Theorem C13_tei_run_total : forall (basis : list N) (SS : Type) (mk_searcher : Z -> SS)
    (search : SS -> option Z -> position -> SS * (list rmove * Z * Z * Z)) (s : list N),
  snd (fst (Tei.run_bytes basis SS mk_searcher search s (Tei.engine0 SS))) <> Tei.Crashed.
Proof. exact TeiTotal.tei_run_bytes_total. Qed.
Print Assumptions C13_tei_run_total.

(* The chat lines: ParseTell / ParseShout / ParseShoutRoom of playtak/client.go, i.e. FindStringSubmatch of
     `^Tell <([^> ]+)> (.+)$`   `^Shout <([^> ]+)> (.+)$`   `^ShoutRoom (\S+) <([^> ]+)> (.+)$`
   modelled in BotLine.v as direct functions from byte lists to pairs / triples of byte lists: their result types have no Panic
   constructor and they are structurally recursive, so totality ("returns for EVERY byte list, never panics") holds by
   construction; what is PROVED is their specification, for every byte list l:
     BotLineFacts.tell_line l w m  :=  l = "Tell <" ++ w ++ "> " ++ m,  w non-empty without '>' (62) and ' ' (32) - it MAY contain
                                       "\n" -,  m non-empty without "\n" (10)
     BotLineFacts.shout_line l w m :=  the same behind "Shout <"
     BotLineFacts.room_line l r w m := l = "ShoutRoom " ++ r ++ " <" ++ w ++ "> " ++ m,  r non-empty without \t \n \f \r ' ',
                                       w and m as above
   - if l is in the language the parser returns exactly that split, otherwise empty strings;
   - the split is unique (the name cannot contain '>' or ' ', so the first "> " decides: "Tell <a> <b> c" is who = "a",
     msg = "<b> c"; a room may contain '<': "ShoutRoom a<b <c> d");
   - the direct functions equal BotLine.re_tell / re_shout / re_shout_room: an ordered backtracking search (first successful
     branch wins, longer repetitions first = Go's leftmost-first semantics with greedy +) over the three patterns.
   The correspondence with the real regexp package is by execution (family C of the check: all short strings behind the
   literal prefixes, real lines and their mutations; L1 = the returned strings). *)
Theorem C13_chat_total :
  (forall l, (exists w m, BotLineFacts.tell_line l w m /\ BotLine.parse_tell l = (w, m)) \/
             ((forall w m, ~ BotLineFacts.tell_line l w m) /\ BotLine.parse_tell l = (nil, nil))) /\
  (forall l w m w' m', BotLineFacts.tell_line l w m -> BotLineFacts.tell_line l w' m' -> w = w' /\ m = m') /\
  (forall l, (exists w m, BotLineFacts.shout_line l w m /\ BotLine.parse_shout l = (w, m)) \/
             ((forall w m, ~ BotLineFacts.shout_line l w m) /\ BotLine.parse_shout l = (nil, nil))) /\
  (forall l w m w' m', BotLineFacts.shout_line l w m -> BotLineFacts.shout_line l w' m' -> w = w' /\ m = m') /\
  (forall l, (exists r w m, BotLineFacts.room_line l r w m /\ BotLine.parse_shout_room l = (r, w, m)) \/
             ((forall r w m, ~ BotLineFacts.room_line l r w m) /\ BotLine.parse_shout_room l = (nil, nil, nil))) /\
  (forall l r w m r' w' m', BotLineFacts.room_line l r w m -> BotLineFacts.room_line l r' w' m' -> r = r' /\ w = w' /\ m = m') /\
  (forall l, BotLine.re_tell l = BotLine.parse_tell l /\ BotLine.re_shout l = BotLine.parse_shout l /\
             BotLine.re_shout_room l = BotLine.parse_shout_room l).
Proof. exact BotLineFacts.chat_total. Qed.
Print Assumptions C13_chat_total.

(* The evaluation-weight JSON (ai/json.go).  encoding/json stays trusted; the Go-specific part is modelled in WeightsJson.v:
   unmarshal_post names maxf pairs ws = the loop of UnmarshalJSON over the decoded map h (for k, v := range h: look k up in
   featureNames - Err if unknown -, ws[f] = v - Panic if f is not below the array length MaxFeature), marshal_pre = the loop of
   MarshalJSON.  Generated.Consts.gen_featureNames is featureNames AS BUILT BY init(), read from the linked package by
   harness/cmd/genconsts on every check run (with gen_MaxFeature and gen_featureStrings = Feature(i).String(), i < MaxFeature).

   Every index of the regenerated table is below MaxFeature: by computation over the regenerated constants, so a table into
   which an out-of-range entry leaks (e.g. the stringer's sentinel "MaxFeature" -> 36) breaks THIS obligation on the next run. *)
Theorem C13_weights_names_in_range :
  forallb (fun p => N.ltb (snd p) (N.of_nat Generated.Consts.gen_MaxFeature)) Generated.Consts.gen_featureNames = true.
Proof. exact WeightsJsonFacts.weights_names_in_range. Qed.
Print Assumptions C13_weights_names_in_range.

(* hence the post-processing never panics, for EVERY decoded map (any pairs, in any order, any previous contents of ws) *)
Theorem C13_weights_unmarshal_total : forall (pairs : list (list N * Z)) (ws : list Z),
  WeightsJson.unmarshal_post Generated.Consts.gen_featureNames (N.of_nat Generated.Consts.gen_MaxFeature) pairs ws <> PtnMove.Panic.
Proof. exact WeightsJsonFacts.weights_unmarshal_total. Qed.
Print Assumptions C13_weights_unmarshal_total.

(* Go's map iteration order is unspecified: for any table whose indices are in range (in particular the regenerated one) the
   outcome class (0 = value, 1 = error) is "error iff some key is unknown", the same for every order of the pairs. *)
Theorem C13_weights_class_order_free : forall (names : list (list N * N)) (maxf : N),
  WeightsJsonFacts.in_range_table names maxf = true ->
  forall pairs pairs' ws ws', Permutation.Permutation pairs pairs' ->
  WeightsJson.res_class (WeightsJson.unmarshal_post names maxf pairs ws) = (if forallb (WeightsJsonFacts.known names) pairs then 0%N else 1%N) /\
  WeightsJson.res_class (WeightsJson.unmarshal_post names maxf pairs ws) = WeightsJson.res_class (WeightsJson.unmarshal_post names maxf pairs' ws').
Proof. exact (fun names maxf H pairs pairs' ws ws' P => conj (WeightsJsonFacts.unmarshal_class names maxf H pairs ws)
                (WeightsJsonFacts.unmarshal_class_order names maxf H pairs pairs' ws ws' P)). Qed.
Print Assumptions C13_weights_class_order_free.

(* the name table is the inverse of the stringer on 0 .. MaxFeature-1 and both tables have exactly MaxFeature entries (by
   computation over the regenerated constants); hence marshal then unmarshal into zeroed slots gives back EVERY weight set
   (any MaxFeature int64 values): the loop of MarshalJSON followed by the loop of UnmarshalJSON is the identity on the slots. *)
Theorem C13_weights_roundtrip :
  WeightsJsonFacts.tables_agree = true /\
  forall ws : list Z, length ws = Generated.Consts.gen_MaxFeature ->
    WeightsJson.unmarshal_post Generated.Consts.gen_featureNames (N.of_nat Generated.Consts.gen_MaxFeature)
      (WeightsJson.marshal_pre Generated.Consts.gen_featureStrings ws) (WeightsJson.zeros (N.of_nat Generated.Consts.gen_MaxFeature)) = PtnMove.Ok ws.
Proof. exact (conj WeightsJsonFacts.weights_tables_agree WeightsJsonRt.weights_roundtrip). Qed.
Print Assumptions C13_weights_roundtrip.

(* Not a theorem: encoding/json itself (the decoding of the text into map[string]int64, the encoding of the map) is trusted
   to be total; the J family is decided by the crash/hang oracle, and by the model's class whenever the text is a JSON object
   of integers.  "Bounded time" is by construction for the Gallina models (structural recursion); for the Go code it is checked
   by a deadline. *)
