(* C13 — text entry points are total: malformed input gives an error, never a crash.
   Only statements, `exact`, and Print Assumptions live here.
   The models return Ok | Err | Panic with every Go index / slice expression guarded; "never crashes" is
   `<> Panic`, for EVERY byte list.  Termination is by construction (structural recursion). *)
From Coq Require Import NArith ZArith List Bool.
Require Import Board Move GameOver PtnMove Playtak Tps TotalFacts PtnFile PtnFileTotalThm Tei TeiTotal.

Theorem C13_parse_move_total : forall s : list N, PtnMove.parse_move s <> PtnMove.Panic.
Proof. exact parse_move_total. Qed.
Print Assumptions C13_parse_move_total.

Theorem C13_parse_server_total : forall s : list N, Playtak.parse_server s <> PtnMove.Panic.
Proof. exact parse_server_total. Qed.
Print Assumptions C13_parse_server_total.

(* ParseTPS including FromSquares, for any basis table *)
Theorem C13_parse_tps_total : forall (basis : list N) (s : list N), Tps.parse_tps basis s <> Move.Panic.
Proof. exact parse_tps_total. Qed.
Print Assumptions C13_parse_tps_total.

(* PTN files: ParsePTN of ANY byte list never panics, and when it succeeds, deriving the initial position, replaying
   the whole game through the Iterator and PositionAtMove for every (n, colour) never panic either. *)
Theorem C13_ptn_file_total : forall (basis : list N) (s : list N),
  match PtnFile.parse_ptn s with
  | Move.Panic => False
  | Move.Err => True
  | Move.Ok g =>
    PtnFile.initial_position basis g <> Move.Panic /\
    (forall p0, PtnFile.initial_position basis g = Move.Ok p0 -> PtnFile.replay_all basis g p0 <> Move.Panic) /\
    (forall n c, PtnFile.position_at_move basis g n c <> Move.Panic)
  end.
Proof. exact PtnFileTotalThm.ptn_file_total. Qed.
Print Assumptions C13_ptn_file_total.

(* The TEI command stream: Engine.Run of a new engine on ANY byte stream never crashes, whatever the searcher
   oracle answers (any searcher state type, constructor and search function). *)
Theorem C13_tei_run_total : forall (basis : list N) (SS : Type) (mk_searcher : Z -> SS)
    (search : SS -> option Z -> position -> SS * (list rmove * Z * Z * Z)) (s : list N),
  snd (fst (Tei.run_bytes basis SS mk_searcher search s (Tei.engine0 SS))) <> Tei.Crashed.
Proof. exact TeiTotal.tei_run_bytes_total. Qed.
Print Assumptions C13_tei_run_total.

(* Not theorems: the chat-line parsers and Weights.UnmarshalJSON are thin wrappers around regexp / encoding/json,
   which are trusted to be total; these two entry points are decided by the crash/hang oracle only.  "Bounded time"
   is by construction for the Gallina models (structural recursion); for the Go code it is checked by a deadline. *)
