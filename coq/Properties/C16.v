(* C16 — cancellation only truncates a search.  Only statements, `exact`, and Print Assumptions live here. *)
From Coq Require Import ZArith List Bool.
Require Import Pvs.
Open Scope Z_scope.
(* placeholder until CancelFacts.v is in place *)
Theorem C16_placeholder_partial : True.
Proof. exact I. Qed.
Print Assumptions C16_placeholder_partial.
