(* C16 — cancellation only truncates a search; it never alters results or the engine.
   Only statements, `exact`, and Print Assumptions live here.  Proofs: CancelFacts.v, CancelEx.v; model: Search.v.

   The model (Search.v) is one function for the cancelled and the uninterrupted search: [analyze_cancel basis cfg k s p] is the Analyze
   call on engine state s (transposition table, history and response tables, frames left by ANY earlier calls) whose context is
   cancelled inside its k-th leaf evaluation (the flag reads 1 at every atomic load after that evaluation: in the child loops of
   pvSearch and zwSearch, in ttPut, and in Analyze after the root search returns); k = 0 is "never".  [analyze_limited basis cfg d s p]
   is the never-cancelled call with Cfg.Depth = d (Cfg.Depth is read by Analyze's loop bound only).  Results are
   (state, (pv, value, Stats.Depth, merged Stats, Stats.Canceled)).  Every configuration (precise or not, any table size incl. none,
   sort on/off through the model's stable stand-in, any evaluation function, any hash basis) is covered: cfg, basis and s are
   universally quantified.

   Full statement of the property (DESIGN 5.16):
     cancel_truncates          PROVED below (C16_cancel_truncates + C16_cancel_deepest + C16_cancel_no_move).
     cancel_preserves_engine   PROVED (C16_cancel_preserves_engine, abstract: C16_cancel_preserves_engine_abstract; block at the end) under
                               the hypotheses of C05's table clause (precise configurations, NoCollision on the touched set): the state
                               left by a call cancelled inside ANY leaf evaluation satisfies the table invariant and SJ again, and
                               every later call on it (cancelled or not) reports right forced-result verdicts.  For the positions
                               of ONE game the hash hypothesis is the syntactic one (equal Position.Hash => Position.Equal):
                               C16_cancel_preserves_engine_game.  For every configuration without null move the SOUNDNESS half
                               survives a cancellation (C16_cancel_preserves_soundness); otherwise it is tested on every run
                               (exhaustive-negamax / forced-result oracles, model replay).
     data-race freedom         not expressible as a theorem about this model (Go memory model); -race run = supporting evidence. *)
From Coq Require Import NArith ZArith List Bool.
Require Import Board Move GameOver Eval Search SearchC CancelFacts CancelEx.
Import ListNotations.
Open Scope Z_scope.

(* A cancelled call that reports depth d returns exactly the principal variation, value, depth (and merged statistics) of the
   uninterrupted call limited to depth d on the same engine; that call is not flagged cancelled and is over before the k-th leaf
   evaluation, i.e. it consists of iterations that were complete before the flag was set. *)
Theorem C16_cancel_truncates : forall basis cfg k s p sk pv v d acc c,
  analyze_cancel basis cfg k s p = (sk, (pv, v, d, acc, c)) ->
  exists s0, analyze_limited basis cfg d s p = (s0, (pv, v, d, acc, false)) /\ cancelled k s0 = false.
Proof. exact cancel_truncates_fixed. Qed.
Print Assumptions C16_cancel_truncates.

(* ... and d is the DEEPEST such depth: when the call was cut short (Canceled), every uninterrupted depth-limited call that is over
   before the k-th leaf evaluation reports a depth <= d. *)
Theorem C16_cancel_deepest : forall basis cfg k s p sk pv v d acc,
  analyze_cancel basis cfg k s p = (sk, (pv, v, d, acc, true)) ->
  forall D' s0 pv' v' d' acc' c',
  analyze_limited basis cfg D' s p = (s0, (pv', v', d', acc', c')) -> cancelled k s0 = false -> d' <= d.
Proof. exact cancel_deepest_fixed. Qed.
Print Assumptions C16_cancel_deepest.

(* No iteration completed on a fresh engine (any table size n): no move, value 0. *)
Theorem C16_cancel_no_move : forall basis cfg k n p sk pv v acc c,
  analyze_cancel basis cfg k (new_state n) p = (sk, (pv, v, 0, acc, c)) -> pv = [] /\ v = 0.
Proof. exact cancel_no_move_fresh. Qed.
Print Assumptions C16_cancel_no_move.

(* Non-vacuity: on the instantiated model (hash basis regenerated from /repo, winner-only evaluation, empty 3x3 board, depth 2) the
   call cancelled inside the 20th leaf evaluation is flagged Canceled and keeps the completed first iteration (d > 0, a move), and the
   call cancelled inside the 5th completes nothing (d = 0). *)
Theorem C16_cancel_nonvacuous :
  (exists sk pv v d acc,
     analyze_cancel Generated.Consts.gen_basis cfg_ex 20 (new_state 0) start3 = (sk, (pv, v, d, acc, true)) /\ 0 < d /\ pv <> []) /\
  (exists sk pv v acc,
     analyze_cancel Generated.Consts.gen_basis cfg_ex 5 (new_state 0) start3 = (sk, (pv, v, 0, acc, true))).
Proof. exact cancel_nonvacuous. Qed.
Print Assumptions C16_cancel_nonvacuous.


Require Import EvalSpec NegamaxSpec SearchGen SearchExact SearchInst SearchNeg2 SearchNeg5 SearchLegal2 SearchTable1 SearchTable2 SearchTable3 SearchTable4 SearchTable5 SearchTableThms SearchTableEx.
Require Import Generated.Consts.

(* ---------------- C16 ---------------- *)

(* cancel_preserves_engine on the instantiated model: the state left by a call cancelled inside ANY leaf evaluation (k = 0: never) is an
   engine state again - SJ and the table invariant hold - and every later call on it reports right verdicts *)
Theorem C16_cancel_preserves_engine : forall U, touch_set U ->
  forall s cfg k p sk r, engine_inst U s -> precise cfg -> builtin_eval cfg -> ask_ok cfg U p ->
  analyze_cancel gen_basis cfg k s p = (sk, r) ->
  engine_inst U sk /\ SJ sk /\ tt_valid gen_basis (PosT U 0%nat) sk /\
  forall cfg' k' p' sk' pv v d acc c, precise cfg' -> builtin_eval cfg' -> ask_ok cfg' U p' ->
    analyze_cancel gen_basis cfg' k' sk p' = (sk', (pv, v, d, acc, c)) -> 0 < d -> verdict_ok gen_basis p' v d.
Proof. exact table_cancel_preserves_engine_inst. Qed.
Print Assumptions C16_cancel_preserves_engine.

Theorem C16_cancel_preserves_engine_abstract : forall basis Pos, table_facts basis Pos ->
  forall s cfg k p sk r, engine basis Pos s -> precise cfg -> eval_facts cfg Pos -> call_ok cfg Pos p ->
  analyze_cancel basis cfg k s p = (sk, r) ->
  engine basis Pos sk /\ SJ sk /\ tt_valid basis (Pos 0%nat) sk /\
  forall cfg' k' p' sk' pv v d acc c, precise cfg' -> eval_facts cfg' Pos -> call_ok cfg' Pos p' ->
    analyze_cancel basis cfg' k' sk p' = (sk', (pv, v, d, acc, c)) -> 0 < d -> verdict_ok basis p' v d.
Proof. exact table_cancel_preserves_engine. Qed.
Print Assumptions C16_cancel_preserves_engine_abstract.


(* ---- second round (SearchTable6-8.v) ---- *)
Require Import SearchTable6 SearchTable7 SearchTable8.

(* cancel_preserves_engine for the positions of ONE game: the only hash hypothesis is "equal Position.Hash on the touched set implies
   Position.Equal" (game_set); C01's invariant and the piece limit follow from "replayed from tak.New" *)
Theorem C16_cancel_preserves_engine_game : forall sz bwt stones caps, (3 <= sz <= 8)%N -> (0 < stones)%N -> (2 * (stones + caps) <= 64)%N ->
  forall U, game_set sz bwt stones caps U ->
  forall s cfg k p sk r, engine_game U s -> precise cfg -> builtin_eval cfg -> ask_game cfg U p ->
  analyze_cancel gen_basis cfg k s p = (sk, r) ->
  engine_game U sk /\ SJ sk /\ tt_valid gen_basis (PosT U 0%nat) sk /\
  forall cfg' k' p' sk' pv v d acc c, precise cfg' -> builtin_eval cfg' -> ask_game cfg' U p' ->
    analyze_cancel gen_basis cfg' k' sk p' = (sk', (pv, v, d, acc, c)) -> 0 < d -> verdict_ok gen_basis p' v d.
Proof. exact table_cancel_preserves_engine_game. Qed.
Print Assumptions C16_cancel_preserves_engine_game.

(* every configuration without null move: after a call cancelled anywhere the engine is an engine state again (engsi_call), so every
   later call - of any such configuration, cancelled or not - reports only real forced results *)
Theorem C16_cancel_preserves_soundness : forall U, touch_set U ->
  forall s cfg k p sk r, engine_sinst U s -> c_nonull cfg = true -> builtin_eval cfg -> ask_s cfg U p ->
  analyze_cancel gen_basis cfg k s p = (sk, r) ->
  forall cfg' k' p' sk' pv v d acc c, c_nonull cfg' = true -> builtin_eval cfg' -> ask_s cfg' U p' ->
    analyze_cancel gen_basis cfg' k' sk p' = (sk', (pv, v, d, acc, c)) -> sound_verdict gen_basis p' v.
Proof. exact cancel_preserves_soundness_inst. Qed.
Print Assumptions C16_cancel_preserves_soundness.


(* ---- the dedup-capable model (SearchDedup.v, SearchDedupSound.v): soundness survives a cancellation there too ---- *)
Require SearchDedup SearchDedupSound.
Theorem C16_cancel_preserves_soundness_dedup : forall U, SearchDedupSound.touch_set_d U ->
  forall s cfg k dedup p sk r, SearchDedupSound.engine_sd U s -> c_nonull cfg = true -> builtin_eval cfg -> SearchDedupSound.ask_sd U cfg p ->
  SearchDedup.analyze_gen_d gen_basis cfg k dedup s p = (sk, r) ->
  forall cfg' k' dedup' p' sk' pv v d acc c, c_nonull cfg' = true -> builtin_eval cfg' -> SearchDedupSound.ask_sd U cfg' p' ->
    SearchDedup.analyze_gen_d gen_basis cfg' k' dedup' sk p' = (sk', (pv, v, d, acc, c)) -> sound_verdict gen_basis p' v.
Proof. exact SearchDedupSound.cancel_preserves_soundness_d. Qed.
Print Assumptions C16_cancel_preserves_soundness_dedup.
