(* C17 — the TEI engine analyses the told position; one legal bestmove per go; thinking time within the clock
   (and the TEI part of C13: the command stream never crashes).
   Only statements, `exact`, and Print Assumptions live here.

   Model: coq/Tei.v (tei/server.go of the repaired tree: Engine.Run, parsePosition, analyze; the searcher is a parameter
   [SS, mk_searcher, search] - every theorem holds for EVERY searcher), coq/TeiBudget.v (calcBudget).
   Specification: coq/TeiSpec.v - what a command history declares, read backwards from the most recent command without any
   engine state: [spec_size] = argument of the last `teinewgame`; [spec_position] = the position declared by the last
   `position` command (start position named there - standard of the size in force, or the TPS - with exactly the listed moves
   applied), unless a `teinewgame` came later (then none).  [exec e0 pre = Some e'] : Run gets through the lines [pre].
   Proofs: coq/TeiFacts.v, coq/TeiTotal.v; non-vacuity examples: coq/TeiExamples.v.

   The CLIENT side (tei/client.go, tei/time.go; third wave): model coq/TeiClient.v - Client.NewGame, sendCommand's reading loop,
   Player.TEIGetMove / GetMove, formatTime, over an arbitrary engine process [eng] (what it answers to each line written, when it
   closes its pipes), and [tei_proc]: Engine.Run of Tei.v as that process.  Proofs: coq/TeiClientFacts.v (the lines as
   strings.Fields reads them; the position line), TeiClientFacts2.v (the go line), TeiClientFmt.v, TeiClientFacts3.v (composition
   client/engine; totality), TeiClientFacts4.v (budget from the client's side), non-vacuity on a real 14-ply game position:
   coq/TeiClientExamples.v.  Theorems C17_client_* below.
   Behaviour of the client that the model has, the Go code shows (C17 check, client sessions) and no property forbids - observations:
   (1) an engine output line without a word (empty / white space only) met by sendCommand's reading loop makes it panic with
       index out of range at `words[0]` (also inside NewClient): PBlankLine, C17_client_total; the engine of Tei.v never prints one;
   (2) a `go` the engine does not answer - a finished game: "search returned no move" is only logged - blocks TEIGetMove for ever
       (the context is not watched while reading): RHang, TeiClientExamples.cx_finished_game_hangs;
   (3) NewGame bumps the client's game number before it writes: when the write fails the current player is a dead player too.
   Repaired (was a finding): a deadline less than 1 ms ahead was sent as `movetime 0` = no limit; now refused
   (C17_client_go_refused, C17_client_deadline_always_capped, C17_client_deadline_uncapped_refuted_pinned). *)
From Coq Require Import NArith ZArith List Bool String.
Require Import Board Move GameOver PtnMove Playtak Tps TeiBudget Tei TeiSpec TeiFacts TeiTotal TeiExamples.
Require Selfplay SelfplayFacts SelfplayFacts2 SelfplayFacts3 SelfplayExamples Reach1.
Require TeiClient TeiClientFacts TeiClientFacts2 TeiClientFacts3 TeiClientFacts4 TeiClientExamples Preserve1 TpsFacts5 TpsFacts6 PreserveEx Generated.Consts.
Import ListNotations.

(* The thinking time: for all clock values representable in time.Duration (int64 ns), strictly less than the remaining
   clock, never more than the per-move time (the repaired calcBudget). *)
Theorem C17_budget_bounds_fixed : forall mt gt inc : Z,
  (0 <= mt < 2 ^ 63)%Z -> (0 <= gt < 2 ^ 63)%Z -> (0 <= inc < 2 ^ 63)%Z ->
  ((0 < gt)%Z -> (calc_budget_fixed mt gt inc < gt)%Z) /\ ((0 < mt)%Z -> (calc_budget_fixed mt gt inc <= mt)%Z).
Proof. exact budget_bounds_fixed. Qed.
Print Assumptions C17_budget_bounds_fixed.

(* ... and the code before repair f938f55 violated it (kept as the record of the finding). *)
Theorem C17_budget_refuted_pinned : exists mt gt inc : Z,
  (0 <= mt)%Z /\ (0 < gt)%Z /\ (0 <= inc)%Z /\ ~ (calc_budget mt gt inc < gt)%Z.
Proof. exact budget_refuted_pinned. Qed.
Print Assumptions C17_budget_refuted_pinned.

(* The time limit a searching `go` puts on the searcher's context is calcBudget of the clock OF THE SIDE TO MOVE in the
   position analysed (none when neither movetime nor that clock is positive), hence within that clock. *)
Theorem C17_tei_limit_within_clock :
  forall (basis : list N) (SS : Type) (mk_searcher : Z -> SS) (search : SS -> option Z -> position -> SS * (list rmove * Z * Z * Z))
         (e : engine SS) (line : list N) (g : goinfo),
  sr_go (step basis SS mk_searcher search e line) = Some g ->
  exists (args : list (list N)) (a : targs),
    classify line = CGo args /\ parse_go args targs0 = Some a /\
    (let white := to_move_white (g_pos g) in
     let tm := if white then wtime a else btime a in
     let inc := if white then winc a else binc a in
     g_limit g = None /\ (movetime a <= 0)%Z /\ (tm <= 0)%Z \/
     (exists b : Z, g_limit g = Some b /\ b = calc_budget_fixed (movetime a) tm inc /\
        ((0 <= movetime a < 2 ^ 63)%Z -> (0 <= tm < 2 ^ 63)%Z -> (0 <= inc < 2 ^ 63)%Z ->
         ((0 < tm)%Z -> (b < tm)%Z) /\ ((0 < movetime a)%Z -> (b <= movetime a)%Z)))).
Proof. exact tei_limit_within_clock. Qed.
Print Assumptions C17_tei_limit_within_clock.

(* The position handed to the searcher by a `go` is exactly the position declared by the commands before it; when they
   declare none (no `position` since the last `teinewgame`, or the last one was refused) the go is refused: no search, no
   output, no change of state. *)
Theorem C17_tei_position_exact :
  forall (basis : list N) (SS : Type) (mk_searcher : Z -> SS) (search : SS -> option Z -> position -> SS * (list rmove * Z * Z * Z))
         (pre : list (list N)) (line : list N) (e' : engine SS),
  exec basis SS mk_searcher search (engine0 SS) pre = Some e' ->
  (forall g : goinfo, sr_go (step basis SS mk_searcher search e' line) = Some g -> spec_position basis (rev pre) = Some (g_pos g)) /\
  (spec_position basis (rev pre) = None -> forall args : list (list N), classify line = CGo args ->
     sr_go (step basis SS mk_searcher search e' line) = None /\
     sr_out (step basis SS mk_searcher search e' line) = [] /\ sr_eng (step basis SS mk_searcher search e' line) = e').
Proof. exact tei_position_exact. Qed.
Print Assumptions C17_tei_position_exact.

(* The same for Run on a whole stream: every search Run performed was of the position declared by the lines before its go. *)
Theorem C17_tei_run_position_exact :
  forall (basis : list N) (SS : Type) (mk_searcher : Z -> SS) (search : SS -> option Z -> position -> SS * (list rmove * Z * Z * Z))
         (lines : list (list N)) (g : goinfo),
  In g (snd (run basis SS mk_searcher search lines (engine0 SS))) ->
  exists (pre : list (list N)) (line : list N) (rest : list (list N)),
    lines = pre ++ line :: rest /\ spec_position basis (rev pre) = Some (g_pos g).
Proof. exact tei_run_position_exact. Qed.
Print Assumptions C17_tei_run_position_exact.

(* One bestmove per go.  Assuming the searcher answers every live position with a non-empty PV whose first move is legal
   there ([searcher_ok]: property C04; the proof uses it only at the position of this go, where TeiExamples.tei_example_live /
   tei_example_legal show it satisfiable), a `go` with well-formed arguments on a live position prints exactly
   [info ... pv m ...; bestmove m] with m legal in that position. *)
Theorem C17_tei_one_bestmove :
  forall (basis : list N) (SS : Type) (mk_searcher : Z -> SS) (search : SS -> option Z -> position -> SS * (list rmove * Z * Z * Z))
         (e : engine SS) (line : list N) (args : list (list N)) (p : position),
  searcher_ok basis SS search -> wf_engine SS e ->
  classify line = CGo args -> e_pos e = Some p -> live p -> parse_go args targs0 <> None ->
  exists (m : rmove) (rest : list rmove) (v d n : Z),
    sr_out (step basis SS mk_searcher search e line) = [info_line (m :: rest) v d n; bestmove_line m] /\
    legal basis p m /\ (exists g : goinfo, sr_go (step basis SS mk_searcher search e line) = Some g /\ g_pos g = p).
Proof. exact tei_go_answered. Qed.
Print Assumptions C17_tei_one_bestmove.

(* ... and nothing else ever prints a bestmove line (no hypothesis on the searcher): a line of Run's output that starts with
   "bestmove" is the second of exactly two lines printed by one `go`, which searched the position declared by the lines
   before it, and it names the first move of the PV in its info line. *)
Theorem C17_tei_bestmove_only_from_go :
  forall (basis : list N) (SS : Type) (mk_searcher : Z -> SS) (search : SS -> option Z -> position -> SS * (list rmove * Z * Z * Z))
         (lines : list (list N)) (l : list N),
  In l (snd (fst (fst (run basis SS mk_searcher search lines (engine0 SS))))) -> is_bestmove l = true ->
  exists (pre : list (list N)) (line : list N) (rest : list (list N)) (e' : engine SS) (g : goinfo) (m : rmove) (pvr : list rmove) (v d n : Z),
    lines = pre ++ line :: rest /\ exec basis SS mk_searcher search (engine0 SS) pre = Some e' /\
    sr_go (step basis SS mk_searcher search e' line) = Some g /\ spec_position basis (rev pre) = Some (g_pos g) /\
    sr_out (step basis SS mk_searcher search e' line) = [info_line (m :: pvr) v d n; bestmove_line m] /\ l = bestmove_line m.
Proof. exact tei_run_bestmove. Qed.
Print Assumptions C17_tei_bestmove_only_from_go.

(* Starting a new game discards earlier state: after `teinewgame` (accepted or refused for its size) there is neither
   searcher nor position; a `go` that follows without a new `position` is refused and changes nothing ... *)
Theorem C17_tei_newgame_resets :
  forall (basis : list N) (SS : Type) (mk_searcher : Z -> SS) (search : SS -> option Z -> position -> SS * (list rmove * Z * Z * Z))
         (e : engine SS) (line : list N) (args : list (list N)),
  classify line = CNew args ->
  let e' := sr_eng (step basis SS mk_searcher search e line) in
  e_mm e' = None /\ e_pos e' = None /\ sr_out (step basis SS mk_searcher search e line) = [] /\
  (forall (line2 : list N) (args2 : list (list N)), classify line2 = CGo args2 ->
     sr_out (step basis SS mk_searcher search e' line2) = [] /\
     sr_go (step basis SS mk_searcher search e' line2) = None /\ sr_eng (step basis SS mk_searcher search e' line2) = e').
Proof. exact tei_newgame_resets. Qed.
Print Assumptions C17_tei_newgame_resets.

(* ... only a `go` can bring a searcher into being, and the first go that searches builds a NEW searcher, for the size now in
   force, and it is that one which is asked (and kept). *)
Theorem C17_tei_fresh_searcher :
  forall (basis : list N) (SS : Type) (mk_searcher : Z -> SS) (search : SS -> option Z -> position -> SS * (list rmove * Z * Z * Z))
         (e : engine SS) (line : list N),
  e_mm e = None ->
  ((forall args : list (list N), classify line <> CGo args) -> e_mm (sr_eng (step basis SS mk_searcher search e line)) = None) /\
  (forall g : goinfo, sr_go (step basis SS mk_searcher search e line) = Some g ->
     g_fresh g = true /\ e_pos e = Some (g_pos g) /\
     (wf_engine SS e ->
      e_mm (sr_eng (step basis SS mk_searcher search e line)) = Some (e_size e, fst (search (mk_searcher (e_size e)) (g_limit g) (g_pos g))))).
Proof. exact tei_fresh_searcher_full. Qed.
Print Assumptions C17_tei_fresh_searcher.

(* C13, TEI part: Engine.Run of a new engine never panics, on any byte stream, whatever the searcher answers (the only panic
   left in the searcher's interface - Analyze on a position of another size than the searcher's - is excluded by the size
   invariant [wf_engine]; the position parsers and MovePreallocated by TotalFacts.parse_tps_total and PtnFileSafe.safe). *)
Theorem C17_tei_run_total :
  forall (basis : list N) (SS : Type) (mk_searcher : Z -> SS) (search : SS -> option Z -> position -> SS * (list rmove * Z * Z * Z))
         (s : list N),
  snd (fst (run_bytes basis SS mk_searcher search s (engine0 SS))) <> Crashed.
Proof. exact tei_run_bytes_total. Qed.
Print Assumptions C17_tei_run_total.

(* ... and from any engine state whose sizes agree, on any list of lines. *)
Theorem C17_tei_run_total_lines :
  forall (basis : list N) (SS : Type) (mk_searcher : Z -> SS) (search : SS -> option Z -> position -> SS * (list rmove * Z * Z * Z))
         (lines : list (list N)) (e : engine SS),
  wf_engine SS e -> snd (fst (run basis SS mk_searcher search lines e)) <> Crashed.
Proof. exact tei_run_total_full. Qed.
Print Assumptions C17_tei_run_total_lines.

(* ===================================== the client side (tei/client.go, tei/time.go) ===================================== *)

(* The position line.  For every position on the hypotheses of C10's exact round trip (the Move invariant, reserves matching the
   board, default tie-break flag, 0 <= ply < 2^63), the engine that receives the client's `teinewgame <size p>` and
   `position tps <FormatTPS p>` lines - from whatever state - keeps running, prints nothing and holds p ITSELF (squares, ply,
   reserves, hash), configured for p's size and without a searcher. *)
Theorem C17_client_position_line_exact :
  forall (SS : Type) (mk_searcher : Z -> SS) (search : SS -> option Z -> position -> SS * (list rmove * Z * Z * Z))
         (e : engine SS) (p : position),
  Preserve1.pos_ok p -> TpsFacts5.reserves_match_board p -> Move.black_wins_ties p = false -> (0 <= Move.move p < 2 ^ 63)%Z ->
  let r1 := step Generated.Consts.gen_basis SS mk_searcher search e (TeiClient.newgame_line (Z.of_N (Move.size p))) in
  let r2 := step Generated.Consts.gen_basis SS mk_searcher search (sr_eng r1) (TeiClient.position_line p) in
  sr_status r1 = Running /\ sr_out r1 = [] /\ sr_status r2 = Running /\ sr_out r2 = [] /\
  sr_eng r2 = {| e_mm := None; e_pos := Some p; e_size := Z.of_N (Move.size p) |}.
Proof. exact TeiClientFacts.client_position_line_exact. Qed.
Print Assumptions C17_client_position_line_exact.

(* The go line.  When the client does not refuse (go_words = Some ws), the engine splits the line into the client's words and
   the five durations it parses are the client's values as formatTime prints them: the time left until the deadline and the
   four TimeControl values, each rounded DOWN to whole milliseconds and never below 0 (ms_round d = 1000000 * max 0 (d quot
   1000000)); a value the client leaves out because it is 0 is 0 for the engine too. *)
Theorem C17_client_go_line :
  forall (dl : option Z) (tc : option TeiClient.tctl) (ws : list (list N)),
  (forall d, dl = Some d -> TeiClientFacts2.int64 d) -> (forall t, tc = Some t -> TeiClientFacts2.tc_int64 t) ->
  TeiClient.go_words dl tc = Some ws ->
  exists args, ws = s_go :: args /\ fields (TeiClient.go_line ws) = ws /\
    parse_go args targs0 =
      Some {| movetime := match dl with Some d => TeiClientFacts2.ms_round d | None => 0%Z end;
              wtime := match tc with Some t => TeiClientFacts2.ms_round (TeiClient.tc_white t) | None => 0%Z end;
              btime := match tc with Some t => TeiClientFacts2.ms_round (TeiClient.tc_black t) | None => 0%Z end;
              winc := match tc with Some t => TeiClientFacts2.ms_round (TeiClient.tc_winc t) | None => 0%Z end;
              binc := match tc with Some t => TeiClientFacts2.ms_round (TeiClient.tc_binc t) | None => 0%Z end |}.
Proof. exact TeiClientFacts2.client_go_line. Qed.
Print Assumptions C17_client_go_line.

(* ms_round: everything below 1 ms (negative values included) becomes 0; otherwise the value rounded down to a multiple of 1 ms. *)
Theorem C17_client_ms_round : forall d : Z,
  ((d < 1000000)%Z -> TeiClientFacts2.ms_round d = 0%Z) /\
  ((0 <= d)%Z -> (d - 1000000 < TeiClientFacts2.ms_round d <= d)%Z /\ (TeiClientFacts2.ms_round d mod 1000000 = 0)%Z).
Proof. exact TeiClientFacts2.ms_round_spec. Qed.
Print Assumptions C17_client_ms_round.

(* The client refuses with "Timeout too short" exactly when the context's deadline is less than 1 ms ahead (repair "tei client
   refuses a deadline less than a millisecond away instead of sending movetime 0") or one of the four clock values is neither 0
   nor at least 1 ms. *)
Theorem C17_client_go_refused : forall (dl : option Z) (tc : option TeiClient.tctl),
  TeiClient.go_words dl tc = None <->
  (exists d, dl = Some d /\ (d < 1000000)%Z) \/
  exists t, tc = Some t /\ ~ (TeiClientFacts2.sayable (TeiClient.tc_white t) /\ TeiClientFacts2.sayable (TeiClient.tc_black t) /\
                              TeiClientFacts2.sayable (TeiClient.tc_winc t) /\ TeiClientFacts2.sayable (TeiClient.tc_binc t)).
Proof. exact TeiClientFacts2.go_words_none. Qed.
Print Assumptions C17_client_go_refused.

(* The budget clause from the client's side: the thinking time the engine allots for the client's go line (go_limit = calcBudget of
   what it parsed) is strictly less than the CLIENT's clock of the side to move (when that clock is positive) and never more than
   the time left until the CLIENT's deadline - for every deadline, since the repaired client never puts `movetime 0` on the wire. *)
Theorem C17_client_budget_within_clock :
  forall (dl : option Z) (tc : option TeiClient.tctl) (ws : list (list N)) (white : bool),
  (forall d, dl = Some d -> TeiClientFacts2.int64 d) -> (forall t, tc = Some t -> TeiClientFacts2.tc_int64 t) ->
  TeiClient.go_words dl tc = Some ws ->
  exists a, parse_go (tl ws) targs0 = Some a /\
    forall b, go_limit white a = Some b ->
      (forall t, tc = Some t -> let tm := if white then TeiClient.tc_white t else TeiClient.tc_black t in (0 < tm)%Z -> (b < tm)%Z) /\
      (forall d, dl = Some d -> (b <= d)%Z).
Proof. exact TeiClientFacts4.client_budget_within_clock. Qed.
Print Assumptions C17_client_budget_within_clock.

(* ... and a context with a deadline ALWAYS caps the search: whenever the client writes a go line for it, the engine puts a time
   limit on the searcher, at most the time left. *)
Theorem C17_client_deadline_always_capped :
  forall (d : Z) (tc : option TeiClient.tctl) (ws : list (list N)) (white : bool),
  TeiClientFacts2.int64 d -> (forall t, tc = Some t -> TeiClientFacts2.tc_int64 t) -> TeiClient.go_words (Some d) tc = Some ws ->
  exists a b, parse_go (tl ws) targs0 = Some a /\ go_limit white a = Some b /\ (b <= d)%Z.
Proof. exact TeiClientFacts4.client_deadline_always_capped. Qed.
Print Assumptions C17_client_deadline_always_capped.

(* The code before the repair sent a deadline less than 1 ms ahead, or already passed, as `movetime 0`, which the engine reads
   as NO per-move time: with no clocks the search got no time limit at all (kept as the record of the finding;
   go_words_pinned = the old goCmd construction). *)
Theorem C17_client_deadline_uncapped_refuted_pinned : exists d : Z, TeiClientFacts2.int64 d /\ (d < 1000000)%Z /\
  exists ws a, TeiClient.go_words_pinned (Some d) None = Some ws /\ parse_go (tl ws) targs0 = Some a /\ movetime a = 0%Z /\
               go_limit true a = None /\ go_limit false a = None.
Proof. exact TeiClientFacts4.client_deadline_uncapped_pinned. Qed.
Print Assumptions C17_client_deadline_uncapped_refuted_pinned.

(* Composition.  A client in step with a running engine model (nothing unread in the pipe; sizes of the engine agree) calls
   NewGame(size p) and TEIGetMove(p) - p live, on the hypotheses of C10's exact round trip; deadline and clocks int64 values that
   can be said in milliseconds.  If the searcher answers live positions with a non-empty PV whose first move is legal and fits the
   wire (Slides a uint32, 0 for placements: what every move generator produces; hypothesis searcher_ok of C17_tei_one_bestmove
   plus that shape), then NewGame succeeds, TEIGetMove returns Ok m with m accepted by the move model in p (it is the searcher's
   move, through FormatMove and ParseMove: C11), the engine holds exactly p, and client and engine are in step again. *)
Theorem C17_client_server_move_legal :
  forall (SS : Type) (mk_searcher : Z -> SS) (search : SS -> option Z -> position -> SS * (list rmove * Z * Z * Z))
         (c : TeiClient.client (TeiClient.proc SS)) (p : position) (dl : option Z) (tc : option TeiClient.tctl),
  TeiClientFacts3.searcher_ok_wire SS search -> TeiClientFacts3.in_sync SS c ->
  Preserve1.pos_ok p -> TpsFacts5.reserves_match_board p -> Move.black_wins_ties p = false -> (0 <= Move.move p < 2 ^ 63)%Z ->
  live p ->
  (forall d, dl = Some d -> TeiClientFacts2.int64 d) -> (forall t, tc = Some t -> TeiClientFacts2.tc_int64 t) ->
  TeiClient.go_words dl tc <> None ->
  let eng := TeiClient.tei_proc Generated.Consts.gen_basis SS mk_searcher search in
  exists c1 g, TeiClient.new_game (TeiClient.proc SS) eng c (Z.of_N (Move.size p)) = (c1, TeiClient.ROk g) /\
  exists c2 m, TeiClient.tei_get_move (TeiClient.proc SS) eng c1 g p dl tc = (c2, TeiClient.ROk m) /\
    legal Generated.Consts.gen_basis p (to_rmove m) /\ TeiClientFacts3.in_sync SS c2 /\
    e_pos (TeiClient.p_eng (TeiClient.c_es c2)) = Some p.
Proof. exact TeiClientFacts3.client_server_move_legal. Qed.
Print Assumptions C17_client_server_move_legal.

(* Totality.  TEIGetMove of the client model - against ANY engine process - panics only (1) as a dead player: the player's game
   is not the client's current one, nothing is written and the client is unchanged; or (2) with index-out-of-range in
   sendCommand's reading loop (`words[0]` of a line without a word), and then the position line had been written, the go line
   was sayable, and the engine output met by the loop contained a blank line (empty or white space only).  Both are real:
   TeiClientExamples.cx_dead_player_panics / cx_blank_line_panics, and the Go code does the same (C17 check, client sessions). *)
Theorem C17_client_total :
  forall (ES : Type) (eng : ES -> list N -> option (TeiClient.eresp ES)) (c : TeiClient.client ES) (pgid : Z) (p : position)
         (dl : option Z) (tc : option TeiClient.tctl) (c' : TeiClient.client ES) (w : TeiClient.cpanic),
  TeiClient.tei_get_move ES eng c pgid p dl tc = (c', TeiClient.RPanic w) ->
  (w = TeiClient.PDeadPlayer /\ pgid <> TeiClient.c_gameid c /\ c' = c) \/
  (w = TeiClient.PBlankLine /\ pgid = TeiClient.c_gameid c /\
   exists c1 ws l, TeiClient.send_command ES eng c (TeiClient.position_line p) [] = (c1, TeiClient.ROk []) /\
                   TeiClient.go_words dl tc = Some ws /\
                   In l (TeiClientFacts3.pipe_after ES eng c1 (TeiClient.go_line ws)) /\ TeiClientFacts3.blank l).
Proof. exact TeiClientFacts3.tei_get_move_panics. Qed.
Print Assumptions C17_client_total.

(* ... NewGame never panics nor blocks (Ok, or the write error); GetMove adds its own panic on every error of TEIGetMove. *)
Theorem C17_client_new_game_total :
  forall (ES : Type) (eng : ES -> list N -> option (TeiClient.eresp ES)) (c : TeiClient.client ES) (size : Z),
  (exists c' g, TeiClient.new_game ES eng c size = (c', TeiClient.ROk g)) \/
  (exists c', TeiClient.new_game ES eng c size = (c', TeiClient.RErr TeiClient.EWrite)).
Proof. exact TeiClientFacts3.new_game_total. Qed.
Print Assumptions C17_client_new_game_total.

Theorem C17_client_get_move_panics :
  forall (ES : Type) (eng : ES -> list N -> option (TeiClient.eresp ES)) (c : TeiClient.client ES) (pgid : Z) (p : position)
         (dl : option Z) (c' : TeiClient.client ES) (w : TeiClient.cpanic),
  TeiClient.get_move ES eng c pgid p dl = (c', TeiClient.RPanic w) ->
  (w = TeiClient.PDeadPlayer /\ pgid <> TeiClient.c_gameid c) \/ (w = TeiClient.PBlankLine /\ pgid = TeiClient.c_gameid c) \/
  (exists e, w = TeiClient.PGetMove e /\ TeiClient.tei_get_move ES eng c pgid p dl None = (c', TeiClient.RErr e)).
Proof. exact TeiClientFacts3.get_move_panics. Qed.
Print Assumptions C17_client_get_move_panics.

(* ... and against the engine model (which never prints a line without a word) a live player's TEIGetMove never panics, whatever
   the searcher answers and whatever the position and the clocks are. *)
Theorem C17_client_tei_no_panic :
  forall (basis : list N) (SS : Type) (mk_searcher : Z -> SS) (search : SS -> option Z -> position -> SS * (list rmove * Z * Z * Z))
         (c : TeiClient.client (TeiClient.proc SS)) (p : position) (dl : option Z) (tc : option TeiClient.tctl)
         (c' : TeiClient.client (TeiClient.proc SS)) (w : TeiClient.cpanic),
  Forall (fun l => ~ TeiClientFacts3.blank l) (TeiClient.c_buf c) ->
  TeiClient.tei_get_move (TeiClient.proc SS) (TeiClient.tei_proc basis SS mk_searcher search) c (TeiClient.c_gameid c) p dl tc
    <> (c', TeiClient.RPanic w).
Proof. exact TeiClientFacts3.client_tei_no_panic. Qed.
Print Assumptions C17_client_tei_no_panic.

(* Non-vacuity: the position after the 14-ply 5x5 game of PreserveEx.v satisfies every hypothesis of the composition theorem
   (with a searcher that answers b2 there), and the conclusion holds of it. *)
Theorem C17_client_nonvacuous :
  Preserve1.pos_ok PreserveEx.p14 /\ TpsFacts5.reserves_match_board PreserveEx.p14 /\ live PreserveEx.p14 /\
  TeiClient.position_line PreserveEx.p14 = str "position tps 2,x3,1/x4,1C/x4,2S/x4,22221/2,x4 1 8" /\
  (let eng := TeiClient.tei_proc Generated.Consts.gen_basis unit TeiClientExamples.cx_mk TeiClientExamples.cx_search in
   exists c1 g, TeiClient.new_game (TeiClient.proc unit) eng TeiClientExamples.cx_c0 (Z.of_N (Move.size PreserveEx.p14)) = (c1, TeiClient.ROk g) /\
   exists c2 m, TeiClient.tei_get_move (TeiClient.proc unit) eng c1 g PreserveEx.p14 (Some TeiClientExamples.cx_dl) (Some TeiClientExamples.cx_tc)
                  = (c2, TeiClient.ROk m) /\
     legal Generated.Consts.gen_basis PreserveEx.p14 (to_rmove m) /\ TeiClientFacts3.in_sync unit c2 /\
     e_pos (TeiClient.p_eng (TeiClient.c_es c2)) = Some PreserveEx.p14).
Proof. exact TeiClientExamples.cx_all. Qed.
Print Assumptions C17_client_nonvacuous.

(* ===================================== selfplay: the system (cmd/internal/selfplay/simulate.go) ===================================== *)
(* Model coq/Selfplay.v: the per-game loop of `worker` (two clients of TeiClient.v, NewGame on both, colours by p1color, TimeControl
   bookkeeping with the measured durations as inputs, Limit as the context deadline with the measured time left as input,
   log.Fatalf = GFatal, panic("illegal move") = GPanic, Cutoff) and Simulate's tally.  Proofs coq/SelfplayFacts*.v, with both engine
   processes = Engine.Run of Tei.v (tei_proc).  good p = the hypotheses of C10's exact round trip (pos_ok, reserves matching the
   board, default tie-break flag); ready c g sz = client in step with its engine, current game g, engine configured for size sz;
   reach p = p is replayed from the start position of a 3x3..6x6 board with the default piece counts (on those boards every stack
   fits the 64-bit stack word, so C01's invariant is kept unconditionally); opening_ok = reach, live, ply + Cutoff < 2^63. *)

(* One call.  TEIGetMove by the player of a ready client on a good position with a searcher that is right at that position:
   Ok m, m legal in p, the engine held exactly p, the client is ready again (same game, same size). *)
Theorem C17_selfplay_call :
  forall (SS : Type) (mk_searcher : Z -> SS) (search : SS -> option Z -> position -> SS * (list rmove * Z * Z * Z))
         (c : TeiClient.client (TeiClient.proc SS)) (g : Z) (p : position) (dl : option Z) (tc : option TeiClient.tctl),
  TeiClientFacts3.searcher_ok_wire_at SS search p -> SelfplayFacts.ready SS c g (Z.of_N (Move.size p)) -> SelfplayFacts.good p ->
  (0 <= Move.move p < 2 ^ 63)%Z ->
  (forall d, dl = Some d -> TeiClientFacts2.int64 d) -> (forall t, tc = Some t -> TeiClientFacts2.tc_int64 t) ->
  TeiClient.go_words dl tc <> None ->
  exists c2 m, TeiClient.tei_get_move (TeiClient.proc SS) (TeiClient.tei_proc Generated.Consts.gen_basis SS mk_searcher search) c g p dl tc
                 = (c2, TeiClient.ROk m) /\
    legal Generated.Consts.gen_basis p (to_rmove m) /\ SelfplayFacts.ready SS c2 g (Z.of_N (Move.size p)) /\
    e_pos (TeiClient.p_eng (TeiClient.c_es c2)) = Some p.
Proof. exact SelfplayFacts.tei_get_move_ok. Qed.
Print Assumptions C17_selfplay_call.

(* One game.  Both searchers answer live positions with a legal, wire-shaped first PV move (searcher_ok of C17_tei_one_bestmove +
   wire_move); Increment 0 or in [1 ms, 2^63); GameTime 0 or at least 1 ms and GameTime + Cutoff*Increment < 2^63; every measured
   duration in [0, 2^63); when Limit <> 0 the time left that TEIGetMove measures is at least 1 ms at every call (with the repaired
   client a smaller one is refused and the worker dies in log.Fatalf: SelfplayExamples.sx_limit_too_short - so Limit must exceed
   1 ms by the client's latency); both clients in step with their engines; the opening reachable on a 3x3..6x6 board, live, with
   room for Cutoff plies.  Then the game ends with a Result - no panic, no Fatalf, no hang - the clients are in step again, and:
   Initial is the opening; Moves replays the opening to Position through the move model (every answer was legal where it was
   asked); at most Cutoff moves; and Winner is GameOver's winner of Position when the game ended on the board, or the opponent of
   the side to move in Position (still live; a clock was in use) when that side's clock ran out, or NoColor with exactly Cutoff
   moves played. *)
Theorem C17_selfplay_game :
  forall (SS1 : Type) (mk1 : Z -> SS1) (search1 : SS1 -> option Z -> position -> SS1 * (list rmove * Z * Z * Z))
         (SS2 : Type) (mk2 : Z -> SS2) (search2 : SS2 -> option Z -> position -> SS2 * (list rmove * Z * Z * Z))
         (cf : Selfplay.config),
  TeiClientFacts3.searcher_ok_wire SS1 search1 -> TeiClientFacts3.searcher_ok_wire SS2 search2 ->
  (Selfplay.cf_increment cf = 0 \/ 1000000 <= Selfplay.cf_increment cf < 2 ^ 63)%Z ->
  (Selfplay.cf_gametime cf = 0 \/
   (1000000 <= Selfplay.cf_gametime cf /\ Selfplay.cf_gametime cf + Z.of_nat (Selfplay.cf_cutoff cf) * Selfplay.cf_increment cf < 2 ^ 63))%Z ->
  forall (dur left : nat -> Z) (w : Selfplay.wstate (TeiClient.proc SS1) (TeiClient.proc SS2)) (g : Selfplay.spec),
  (forall k, 0 <= dur k < 2 ^ 63)%Z -> (Selfplay.cf_limit cf <> 0%Z -> forall k, (1000000 <= left k < 2 ^ 63)%Z) ->
  SelfplayFacts3.wsync SS1 SS2 w -> SelfplayFacts3.opening_ok cf (Selfplay.sp_opening g) ->
  exists w' r,
    Selfplay.play_game (TeiClient.proc SS1) (TeiClient.proc SS2)
      (TeiClient.tei_proc Generated.Consts.gen_basis SS1 mk1 search1) (TeiClient.tei_proc Generated.Consts.gen_basis SS2 mk2 search2)
      Generated.Consts.gen_basis cf dur left w g = (w', Selfplay.GDone r) /\
    SelfplayFacts3.wsync SS1 SS2 w' /\ SelfplayFacts3.result_ok cf g r.
Proof. exact SelfplayFacts3.play_game_ok. Qed.
Print Assumptions C17_selfplay_game.

(* what result_ok says, spelled out *)
Theorem C17_selfplay_result_ok : forall (cf : Selfplay.config) (g : Selfplay.spec) (r : Selfplay.result),
  SelfplayFacts3.result_ok cf g r <->
  (Selfplay.r_initial r = Selfplay.sp_opening g /\
   Reach1.replay (Selfplay.sp_opening g) (map to_rmove (Selfplay.r_moves r)) = Move.Ok (Selfplay.r_position r) /\
   (List.length (Selfplay.r_moves r) <= Selfplay.cf_cutoff cf)%nat /\
   (game_over (Selfplay.r_position r) = Some (true, Selfplay.r_winner r) \/
    (live (Selfplay.r_position r) /\ Selfplay.cf_gametime cf <> 0%Z /\
     Selfplay.r_winner r = Selfplay.flip_mover (to_move_white (Selfplay.r_position r))) \/
    (live (Selfplay.r_position r) /\ Selfplay.r_winner r = GNone /\ List.length (Selfplay.r_moves r) = Selfplay.cf_cutoff cf))).
Proof. exact SelfplayFacts3.result_ok_iff. Qed.
Print Assumptions C17_selfplay_result_ok.

(* Several games in a row on the same two clients (each NewGame bumps the client's game number and resets its engine:
   C17_tei_newgame_resets): every game is played to a Result with the properties above. *)
Theorem C17_selfplay_games :
  forall (SS1 : Type) (mk1 : Z -> SS1) (search1 : SS1 -> option Z -> position -> SS1 * (list rmove * Z * Z * Z))
         (SS2 : Type) (mk2 : Z -> SS2) (search2 : SS2 -> option Z -> position -> SS2 * (list rmove * Z * Z * Z))
         (cf : Selfplay.config),
  TeiClientFacts3.searcher_ok_wire SS1 search1 -> TeiClientFacts3.searcher_ok_wire SS2 search2 ->
  (Selfplay.cf_increment cf = 0 \/ 1000000 <= Selfplay.cf_increment cf < 2 ^ 63)%Z ->
  (Selfplay.cf_gametime cf = 0 \/
   (1000000 <= Selfplay.cf_gametime cf /\ Selfplay.cf_gametime cf + Z.of_nat (Selfplay.cf_cutoff cf) * Selfplay.cf_increment cf < 2 ^ 63))%Z ->
  forall (dur left : nat -> nat -> Z) (gs : list Selfplay.spec) (j : nat) (w : Selfplay.wstate (TeiClient.proc SS1) (TeiClient.proc SS2)),
  (forall j k, 0 <= dur j k < 2 ^ 63)%Z -> (Selfplay.cf_limit cf <> 0%Z -> forall j k, (1000000 <= left j k < 2 ^ 63)%Z) ->
  SelfplayFacts3.wsync SS1 SS2 w -> Forall (fun g => SelfplayFacts3.opening_ok cf (Selfplay.sp_opening g)) gs ->
  exists w' rs,
    Selfplay.play_games (TeiClient.proc SS1) (TeiClient.proc SS2)
      (TeiClient.tei_proc Generated.Consts.gen_basis SS1 mk1 search1) (TeiClient.tei_proc Generated.Consts.gen_basis SS2 mk2 search2)
      Generated.Consts.gen_basis cf dur left j w gs = (w', rs, None) /\
    SelfplayFacts3.wsync SS1 SS2 w' /\ Forall2 (SelfplayFacts3.result_ok cf) gs rs.
Proof. exact SelfplayFacts3.play_games_ok. Qed.
Print Assumptions C17_selfplay_games.

(* Non-vacuity, by running the models: two 3x3 games in a row from the empty board (colours swapped), both engines the engine model
   with a toy searcher (first legal flat placement), Limit 2 s, 60 s + 1 s clocks, calls of 5, 10, 15 ... ms: nine plies each,
   White wins on flats, Moves replays the opening to the final position, both clients are at game 2; and a Limit of 0.9 ms ends
   the worker in Fatalf("Timeout too short"). *)
Theorem C17_selfplay_nonvacuous :
  SelfplayFacts3.opening_ok SelfplayExamples.sx_cf SelfplayExamples.sx_start /\ SelfplayFacts3.wsync unit unit SelfplayExamples.sx_w0 /\
  (match SelfplayExamples.sx_run with
   | (w, [r1; r2], None) =>
     map (fun m => format_move false m) (Selfplay.r_moves r1) = map str ["a1"; "b1"; "c1"; "a2"; "b2"; "c2"; "a3"; "b3"; "c3"]%string /\
     Selfplay.r_moves r2 = Selfplay.r_moves r1 /\ game_over (Selfplay.r_position r1) = Some (true, Selfplay.r_winner r1) /\
     Selfplay.r_winner r1 = GWhite /\
     Reach1.replay SelfplayExamples.sx_start (map to_rmove (Selfplay.r_moves r1)) = Move.Ok (Selfplay.r_position r1) /\
     TeiClient.c_gameid (Selfplay.w_c1 w) = 2%Z /\ TeiClient.c_gameid (Selfplay.w_c2 w) = 2%Z
   | _ => False
   end) /\
  snd (Selfplay.play_game (TeiClient.proc unit) (TeiClient.proc unit) SelfplayExamples.toy_eng SelfplayExamples.toy_eng Generated.Consts.gen_basis
         {| Selfplay.cf_cutoff := 30; Selfplay.cf_limit := 900000; Selfplay.cf_gametime := 0; Selfplay.cf_increment := 0 |}
         (SelfplayExamples.sx_dur 0) (fun _ => 899000%Z) SelfplayExamples.sx_w0
         {| Selfplay.sp_opening := SelfplayExamples.sx_start; Selfplay.sp_p1white := true |}) = Selfplay.GFatal TeiClient.ETimeoutShort.
Proof. exact SelfplayExamples.sx_all. Qed.
Print Assumptions C17_selfplay_nonvacuous.
