(* C17 — the TEI engine analyses the told position; one legal bestmove per go; thinking time within the clock
   (and the TEI part of C13: the command stream never crashes).
   Only statements, `exact`, and Print Assumptions live here.

   Model: coq/Tei.v (tei/server.go of the repaired tree: Engine.Run, parsePosition, analyze; the searcher is a parameter
   [SS, mk_searcher, search] - every theorem holds for EVERY searcher), coq/TeiBudget.v (calcBudget).
   Specification: coq/TeiSpec.v - what a command history declares, read backwards from the most recent command without any
   engine state: [spec_size] = argument of the last `teinewgame`; [spec_position] = the position declared by the last
   `position` command (start position named there - standard of the size in force, or the TPS - with exactly the listed moves
   applied), unless a `teinewgame` came later (then none).  [exec e0 pre = Some e'] : Run gets through the lines [pre].
   Proofs: coq/TeiFacts.v, coq/TeiTotal.v; non-vacuity examples: coq/TeiExamples.v. *)
From Coq Require Import NArith ZArith List Bool.
Require Import Board Move GameOver PtnMove Playtak Tps TeiBudget Tei TeiSpec TeiFacts TeiTotal TeiExamples.
Import ListNotations.

(* The thinking time: for all clock values representable in time.Duration (int64 ns), strictly less than the remaining
   clock, never more than the per-move time (the repaired calcBudget). *)
Theorem C17_budget_bounds_fixed : forall mt gt inc : Z,
  (0 <= mt < 2 ^ 63)%Z -> (0 <= gt < 2 ^ 63)%Z -> (0 <= inc < 2 ^ 63)%Z ->
  ((0 < gt)%Z -> (calc_budget_fixed mt gt inc < gt)%Z) /\ ((0 < mt)%Z -> (calc_budget_fixed mt gt inc <= mt)%Z).
Proof. exact budget_bounds_fixed. Qed.
Print Assumptions C17_budget_bounds_fixed.

(* ... and the code before repair f938f55 violated it (kept as the record of the finding). *)
Theorem C17_budget_refuted_pinned : exists mt gt inc : Z,
  (0 <= mt)%Z /\ (0 < gt)%Z /\ (0 <= inc)%Z /\ ~ (calc_budget mt gt inc < gt)%Z.
Proof. exact budget_refuted_pinned. Qed.
Print Assumptions C17_budget_refuted_pinned.

(* The time limit a searching `go` puts on the searcher's context is calcBudget of the clock OF THE SIDE TO MOVE in the
   position analysed (none when neither movetime nor that clock is positive), hence within that clock. *)
Theorem C17_tei_limit_within_clock :
  forall (basis : list N) (SS : Type) (mk_searcher : Z -> SS) (search : SS -> option Z -> position -> SS * (list rmove * Z * Z * Z))
         (e : engine SS) (line : list N) (g : goinfo),
  sr_go (step basis SS mk_searcher search e line) = Some g ->
  exists (args : list (list N)) (a : targs),
    classify line = CGo args /\ parse_go args targs0 = Some a /\
    (let white := to_move_white (g_pos g) in
     let tm := if white then wtime a else btime a in
     let inc := if white then winc a else binc a in
     g_limit g = None /\ (movetime a <= 0)%Z /\ (tm <= 0)%Z \/
     (exists b : Z, g_limit g = Some b /\ b = calc_budget_fixed (movetime a) tm inc /\
        ((0 <= movetime a < 2 ^ 63)%Z -> (0 <= tm < 2 ^ 63)%Z -> (0 <= inc < 2 ^ 63)%Z ->
         ((0 < tm)%Z -> (b < tm)%Z) /\ ((0 < movetime a)%Z -> (b <= movetime a)%Z)))).
Proof. exact tei_limit_within_clock. Qed.
Print Assumptions C17_tei_limit_within_clock.

(* The position handed to the searcher by a `go` is exactly the position declared by the commands before it; when they
   declare none (no `position` since the last `teinewgame`, or the last one was refused) the go is refused: no search, no
   output, no change of state. *)
Theorem C17_tei_position_exact :
  forall (basis : list N) (SS : Type) (mk_searcher : Z -> SS) (search : SS -> option Z -> position -> SS * (list rmove * Z * Z * Z))
         (pre : list (list N)) (line : list N) (e' : engine SS),
  exec basis SS mk_searcher search (engine0 SS) pre = Some e' ->
  (forall g : goinfo, sr_go (step basis SS mk_searcher search e' line) = Some g -> spec_position basis (rev pre) = Some (g_pos g)) /\
  (spec_position basis (rev pre) = None -> forall args : list (list N), classify line = CGo args ->
     sr_go (step basis SS mk_searcher search e' line) = None /\
     sr_out (step basis SS mk_searcher search e' line) = [] /\ sr_eng (step basis SS mk_searcher search e' line) = e').
Proof. exact tei_position_exact. Qed.
Print Assumptions C17_tei_position_exact.

(* The same for Run on a whole stream: every search Run performed was of the position declared by the lines before its go. *)
Theorem C17_tei_run_position_exact :
  forall (basis : list N) (SS : Type) (mk_searcher : Z -> SS) (search : SS -> option Z -> position -> SS * (list rmove * Z * Z * Z))
         (lines : list (list N)) (g : goinfo),
  In g (snd (run basis SS mk_searcher search lines (engine0 SS))) ->
  exists (pre : list (list N)) (line : list N) (rest : list (list N)),
    lines = pre ++ line :: rest /\ spec_position basis (rev pre) = Some (g_pos g).
Proof. exact tei_run_position_exact. Qed.
Print Assumptions C17_tei_run_position_exact.

(* One bestmove per go.  Assuming the searcher answers every live position with a non-empty PV whose first move is legal
   there ([searcher_ok]: property C04; the proof uses it only at the position of this go, where TeiExamples.tei_example_live /
   tei_example_legal show it satisfiable), a `go` with well-formed arguments on a live position prints exactly
   [info ... pv m ...; bestmove m] with m legal in that position. *)
Theorem C17_tei_one_bestmove :
  forall (basis : list N) (SS : Type) (mk_searcher : Z -> SS) (search : SS -> option Z -> position -> SS * (list rmove * Z * Z * Z))
         (e : engine SS) (line : list N) (args : list (list N)) (p : position),
  searcher_ok basis SS search -> wf_engine SS e ->
  classify line = CGo args -> e_pos e = Some p -> live p -> parse_go args targs0 <> None ->
  exists (m : rmove) (rest : list rmove) (v d n : Z),
    sr_out (step basis SS mk_searcher search e line) = [info_line (m :: rest) v d n; bestmove_line m] /\
    legal basis p m /\ (exists g : goinfo, sr_go (step basis SS mk_searcher search e line) = Some g /\ g_pos g = p).
Proof. exact tei_go_answered. Qed.
Print Assumptions C17_tei_one_bestmove.

(* ... and nothing else ever prints a bestmove line (no hypothesis on the searcher): a line of Run's output that starts with
   "bestmove" is the second of exactly two lines printed by one `go`, which searched the position declared by the lines
   before it, and it names the first move of the PV in its info line. *)
Theorem C17_tei_bestmove_only_from_go :
  forall (basis : list N) (SS : Type) (mk_searcher : Z -> SS) (search : SS -> option Z -> position -> SS * (list rmove * Z * Z * Z))
         (lines : list (list N)) (l : list N),
  In l (snd (fst (fst (run basis SS mk_searcher search lines (engine0 SS))))) -> is_bestmove l = true ->
  exists (pre : list (list N)) (line : list N) (rest : list (list N)) (e' : engine SS) (g : goinfo) (m : rmove) (pvr : list rmove) (v d n : Z),
    lines = pre ++ line :: rest /\ exec basis SS mk_searcher search (engine0 SS) pre = Some e' /\
    sr_go (step basis SS mk_searcher search e' line) = Some g /\ spec_position basis (rev pre) = Some (g_pos g) /\
    sr_out (step basis SS mk_searcher search e' line) = [info_line (m :: pvr) v d n; bestmove_line m] /\ l = bestmove_line m.
Proof. exact tei_run_bestmove. Qed.
Print Assumptions C17_tei_bestmove_only_from_go.

(* Starting a new game discards earlier state: after `teinewgame` (accepted or refused for its size) there is neither
   searcher nor position; a `go` that follows without a new `position` is refused and changes nothing ... *)
Theorem C17_tei_newgame_resets :
  forall (basis : list N) (SS : Type) (mk_searcher : Z -> SS) (search : SS -> option Z -> position -> SS * (list rmove * Z * Z * Z))
         (e : engine SS) (line : list N) (args : list (list N)),
  classify line = CNew args ->
  let e' := sr_eng (step basis SS mk_searcher search e line) in
  e_mm e' = None /\ e_pos e' = None /\ sr_out (step basis SS mk_searcher search e line) = [] /\
  (forall (line2 : list N) (args2 : list (list N)), classify line2 = CGo args2 ->
     sr_out (step basis SS mk_searcher search e' line2) = [] /\
     sr_go (step basis SS mk_searcher search e' line2) = None /\ sr_eng (step basis SS mk_searcher search e' line2) = e').
Proof. exact tei_newgame_resets. Qed.
Print Assumptions C17_tei_newgame_resets.

(* ... only a `go` can bring a searcher into being, and the first go that searches builds a NEW searcher, for the size now in
   force, and it is that one which is asked (and kept). *)
Theorem C17_tei_fresh_searcher :
  forall (basis : list N) (SS : Type) (mk_searcher : Z -> SS) (search : SS -> option Z -> position -> SS * (list rmove * Z * Z * Z))
         (e : engine SS) (line : list N),
  e_mm e = None ->
  ((forall args : list (list N), classify line <> CGo args) -> e_mm (sr_eng (step basis SS mk_searcher search e line)) = None) /\
  (forall g : goinfo, sr_go (step basis SS mk_searcher search e line) = Some g ->
     g_fresh g = true /\ e_pos e = Some (g_pos g) /\
     (wf_engine SS e ->
      e_mm (sr_eng (step basis SS mk_searcher search e line)) = Some (e_size e, fst (search (mk_searcher (e_size e)) (g_limit g) (g_pos g))))).
Proof. exact tei_fresh_searcher_full. Qed.
Print Assumptions C17_tei_fresh_searcher.

(* C13, TEI part: Engine.Run of a new engine never panics, on any byte stream, whatever the searcher answers (the only panic
   left in the searcher's interface - Analyze on a position of another size than the searcher's - is excluded by the size
   invariant [wf_engine]; the position parsers and MovePreallocated by TotalFacts.parse_tps_total and PtnFileSafe.safe). *)
Theorem C17_tei_run_total :
  forall (basis : list N) (SS : Type) (mk_searcher : Z -> SS) (search : SS -> option Z -> position -> SS * (list rmove * Z * Z * Z))
         (s : list N),
  snd (fst (run_bytes basis SS mk_searcher search s (engine0 SS))) <> Crashed.
Proof. exact tei_run_bytes_total. Qed.
Print Assumptions C17_tei_run_total.

(* ... and from any engine state whose sizes agree, on any list of lines. *)
Theorem C17_tei_run_total_lines :
  forall (basis : list N) (SS : Type) (mk_searcher : Z -> SS) (search : SS -> option Z -> position -> SS * (list rmove * Z * Z * Z))
         (lines : list (list N)) (e : engine SS),
  wf_engine SS e -> snd (fst (run basis SS mk_searcher search lines e)) <> Crashed.
Proof. exact tei_run_total_full. Qed.
Print Assumptions C17_tei_run_total_lines.
