(* C01 — applying a move succeeds iff it is legal Tak and yields the exact successor.
   Only statements, `exact`, and Print Assumptions live here. *)
From Coq Require Import NArith ZArith List Bool.
Require Import Board Stack Rules Move Refine RefinePlace RefinePlace2 RefinePlace3 Slide1 Slide2 Slide3 Slide4 Slide5 Slide6 Slide7 Slide8 MoveRefines.

(* For every well-formed position p (board_ok: bitboards, heights and stack words describe a board
   whose squares hold only flats below the top; byte-range reserves; tall_ok: representation limit)
   and EVERY raw move value m other than Pass - any int8 coordinates, any type code, any Slides word -
   the code-shaped model of MovePreallocated (with the real per-square hash) returns Ok exactly when
   the rules of Tak (Rules.v) allow the move, its result then abstracts to exactly the rules
   successor (every stack, reserves, ply), it returns Err exactly when the rules reject, and it
   never panics. *)
Theorem C01_move_refines_rules : forall p m,
  (3 <= size p <= 8)%N -> board_ok (size p) (bview p) -> reserves_ok p -> tall_ok p -> mT m <> 1%N ->
  match mv p m with
  | Ok p' => rules_move (abs p) (raw m) = Some (abs p')
  | Err => rules_move (abs p) (raw m) = None
  | Panic => False
  end.
Proof. exact move_refines_rules. Qed.
Print Assumptions C01_move_refines_rules.
