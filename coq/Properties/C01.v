(* C01 — applying a move succeeds iff it is legal Tak and yields the exact successor.
   Only statements, `exact`, and Print Assumptions live here. *)
From Coq Require Import NArith ZArith List Bool.
Require Import Board Stack Rules Move Refine RefinePlace RefinePlace2 RefinePlace3 Slide1 Slide2 Slide3 Slide4 Slide5 Slide6 Slide7 Slide8 MoveRefines.
Require Import HashInv GameOver Alloc Tps Generated.Consts.
Require Import Preserve1 Preserve2 PreserveExt Preserve3 Preserve4 Preserve5 Preserve6 Reach1 HashMove1 PreserveEx PreserveOver64.
Require Symmetry.
Require Import TpsFacts TpsFacts5 Import1 Import2 Import3.
Import ListNotations.

(* Vocabulary (definitions in Preserve1.v, Preserve5.v, Preserve6.v, Reach1.v):
   pos_ok p      the invariant: 3 <= size <= 8; board_ok (bitboards, heights and stack words describe a board whose
                 squares hold only flats below the top, every stack <= 64); byte-range reserves; ext_ok: every stack word
                 has no bit at or above Height-1, no bitboard bit outside the board, lists of length size^2, and
                 hash = fnvBasis xor XOR_i hash_at i (the real per-square hash hsq).
   mv            move_prealloc hsq true = the repaired MovePreallocated with the real hash.
   step_ok p p'  size, tie-break flag unchanged; move+1; total (pieces on board + reserves) unchanged; byte-range
                 reserves; ext_ok of p' (so the hash and canonical-word clauses hold for EVERY successful move).
   same_shape s p'  stack lengths of the abstract position s = Height entries of p'.
   heights64 p'  no Height entry of p' above 64.      fits64 p m  no stack of the rules successor above 64.
   replay        fold of mv over a list of raw moves;  no_pass: no move of type code 1. *)

(* First version (kept): every stack at most 64 - size. *)
Theorem C01_move_refines_rules : forall p m,
  (3 <= size p <= 8)%N -> board_ok (size p) (bview p) -> reserves_ok p -> tall_ok p -> mT m <> 1%N ->
  match mv p m with
  | Ok p' => rules_move (abs p) (raw m) = Some (abs p')
  | Err => rules_move (abs p) (raw m) = None
  | Panic => False
  end.
Proof. exact move_refines_rules. Qed.
Print Assumptions C01_move_refines_rules.

(* The full statement of DESIGN 5.1 with the EXACT representation limit.  For every position satisfying the
   invariant and EVERY raw move value m other than Pass (any int8 coordinates, type code, Slides word) whose rules
   successor, if any, has no stack above 64: the model succeeds exactly when the rules allow the move, the result
   abstracts to exactly the rules successor AND satisfies the invariant again; it fails exactly when the rules
   reject; it never panics. *)
Theorem C01_move_refines_rules64 : forall p m, pos_ok p -> fits64 p m -> mT m <> 1%N ->
  match mv p m with
  | Ok p' => rules_move (abs p) (raw m) = Some (abs p') /\ pos_ok p' /\ step_ok p p'
  | Err => rules_move (abs p) (raw m) = None
  | Panic => False
  end.
Proof. exact move_refines_rules64. Qed.
Print Assumptions C01_move_refines_rules64.

(* The same without any hypothesis on the successor: legality (Ok/Err), panic-freedom, the fields outside the board,
   the piece count, the hash invariant and the stack LENGTHS are right for every move from a position satisfying
   the invariant; the stack CONTENTS are right (and the invariant holds again) as soon as the result has no stack
   above 64. *)
Theorem C01_move_exact : forall p m, pos_ok p -> mT m <> 1%N ->
  match mv p m with
  | Ok p' => exists s, rules_move (abs p) (raw m) = Some s /\ step_ok p p' /\ same_shape s p' /\
                       (heights64 p' -> s = abs p' /\ pos_ok p')
  | Err => rules_move (abs p) (raw m) = None
  | Panic => False
  end.
Proof. exact move_exact. Qed.
Print Assumptions C01_move_exact.

(* the first version's hypothesis implies the exact one *)
Theorem C01_tall_ok_fits64 : forall p m, pos_ok p -> tall_ok p -> mT m <> 1%N -> fits64 p m.
Proof. exact tall_ok_fits64. Qed.
Print Assumptions C01_tall_ok_fits64.

(* The height hypothesis cannot be dropped: from a position satisfying the invariant (a 63-high stack on 3x3) a legal
   slide raises the stack to 66; the model - like the Go code, which has no check - succeeds, the rules successor s
   has a black piece at the bottom of that stack and the result shows a white one (the bit fell off the 64-bit word);
   the stack lengths and the hash invariant are still right. *)
Theorem C01_over64_refuted : exists p m p',
  pos_ok p /\ mT m <> 1%N /\ mv p m = Ok p' /\
  (exists s, rules_move (abs p) (raw m) = Some s /\ s <> abs p' /\ same_shape s p' /\
             nth 65 (nth 0 (sq s) []) (Rules.White, Flat) = (Rules.Black, Flat) /\
             nth 65 (nth 0 (sq (abs p')) []) (Rules.Black, Flat) = (Rules.White, Flat)) /\
  ~ heights64 p' /\ ~ fits64 p m /\ hash_good p'.
Proof. exact over64_refuted. Qed.
Print Assumptions C01_over64_refuted.

(* PRESERVATION with at most 64 pieces in the game: no height hypothesis at all. *)
Theorem C01_move_preserves_small : forall p m p', pos_ok p -> (total p <= 64)%N -> mT m <> 1%N -> mv p m = Ok p' ->
  rules_move (abs p) (raw m) = Some (abs p') /\ pos_ok p' /\ step_ok p p'.
Proof. exact move_preserves_small. Qed.
Print Assumptions C01_move_preserves_small.

(* tak.New (Alloc.new_pos: empty board, hash = fnvBasis) satisfies the invariant and is the rules' start position. *)
Theorem C01_new_ok : forall sz bwt stones caps, (3 <= sz <= 8)%N -> (stones < 256)%N -> (caps < 256)%N ->
  pos_ok (new_pos sz bwt stones caps) /\
  abs (new_pos sz bwt stones caps) = rules_start (N.to_nat sz) stones caps bwt /\
  total (new_pos sz bwt stones caps) = (2 * (stones + caps))%N.
Proof. exact new_ok. Qed.
Print Assumptions C01_new_ok.

(* ... and it is what FromSquares of an empty board with the default reserves builds (the spelling of tak.New in
   Tps.v / PtnFile.v / Tei.v / Symmetry.v), for the regenerated constants *)
Theorem C01_from_squares_empty_is_new : forall sz, In sz [3; 4; 5; 6; 7; 8]%N ->
  Tps.from_squares gen_basis sz (repeat (repeat [] (N.to_nat sz)) (N.to_nat sz)) 0 =
  new_pos sz false (nth (N.to_nat sz) gen_defaultPieces 0%N) (nth (N.to_nat sz) gen_defaultCaps 0%N).
Proof. exact from_squares_empty_is_new. Qed.
Print Assumptions C01_from_squares_empty_is_new.

(* EVERY REACHABLE POSITION.  Replaying any list of raw move values (no Pass) from a position satisfying the invariant
   in a game of at most 64 pieces: the replay fails exactly when the rules reject one of the moves, never panics, and
   the position reached satisfies the invariant and abstracts to the position the rules reach. *)
Theorem C01_replay_refines : forall ms p, pos_ok p -> (total p <= 64)%N -> no_pass ms ->
  match replay p ms with
  | Ok q => play (abs p) (map raw ms) = Some (abs q) /\ pos_ok q /\ total q = total p /\ size q = size p /\
            Move.black_wins_ties q = Move.black_wins_ties p /\ move q = (move p + Z.of_nat (length ms))%Z
  | Err => play (abs p) (map raw ms) = None
  | Panic => False
  end.
Proof. exact replay_refines. Qed.
Print Assumptions C01_replay_refines.

(* the same for any game (sizes 7, 8 with 84 and 104 pieces), under the exact limit along the way *)
Theorem C01_replay_refines64 : forall ms p, pos_ok p -> no_pass ms ->
  (forall ms1 ms2 q, ms = ms1 ++ ms2 -> replay p ms1 = Ok q -> heights64 q) ->
  match replay p ms with
  | Ok q => play (abs p) (map raw ms) = Some (abs q) /\ pos_ok q /\ total q = total p /\ size q = size p
  | Err => play (abs p) (map raw ms) = None
  | Panic => False
  end.
Proof. exact replay_refines64. Qed.
Print Assumptions C01_replay_refines64.

Corollary C01_reachable_ok : forall sz bwt stones caps ms p,
  (3 <= sz <= 8)%N -> (2 * (stones + caps) <= 64)%N -> no_pass ms ->
  replay (new_pos sz bwt stones caps) ms = Ok p ->
  pos_ok p /\ total p = (2 * (stones + caps))%N /\ size p = sz /\
  play (rules_start (N.to_nat sz) stones caps bwt) (map raw ms) = Some (abs p).
Proof. exact reachable_ok. Qed.
Print Assumptions C01_reachable_ok.

(* every position on the way *)
Corollary C01_reachable_prefix_ok : forall sz bwt stones caps ms1 ms2 p,
  (3 <= sz <= 8)%N -> (2 * (stones + caps) <= 64)%N -> no_pass (ms1 ++ ms2) ->
  replay (new_pos sz bwt stones caps) (ms1 ++ ms2) = Ok p ->
  exists q, replay (new_pos sz bwt stones caps) ms1 = Ok q /\ pos_ok q /\
            play (rules_start (N.to_nat sz) stones caps bwt) (map raw ms1) = Some (abs q).
Proof. exact reachable_prefix_ok. Qed.
Print Assumptions C01_reachable_prefix_ok.

(* with the default piece counts of sizes 3..6 (20, 30, 44, 62 pieces; constants regenerated from /repo) no height
   hypothesis is left *)
Corollary C01_reachable_ok_default : forall sz bwt ms p, (3 <= sz <= 6)%N -> no_pass ms ->
  let stones := nth (N.to_nat sz) gen_defaultPieces 0%N in let caps := nth (N.to_nat sz) gen_defaultCaps 0%N in
  replay (new_pos sz bwt stones caps) ms = Ok p ->
  pos_ok p /\ play (rules_start (N.to_nat sz) stones caps bwt) (map raw ms) = Some (abs p).
Proof. exact reachable_ok_default. Qed.
Print Assumptions C01_reachable_ok_default.

(* NON-VACUITY: a 5x5 position after 14 plies (5-high stack at e2, black wall at e3, white capstone at e4) satisfies
   every hypothesis; the capstone flattens the wall; the tall stack is dealt out 2,1,1,1; a wrapped off-board junk
   move is rejected by both sides. *)
Theorem C01_nonvacuous_reachable : pos_ok p14 /\ total p14 = 44%N /\
  nth 9 (sq (abs p14)) [] = [(Rules.White, Flat); (Rules.Black, Flat); (Rules.Black, Flat); (Rules.Black, Flat); (Rules.Black, Flat)] /\
  play (rules_start 5 21 1 false) (map raw ms14) = Some (abs p14).
Proof. exact ex_reachable. Qed.
Print Assumptions C01_nonvacuous_reachable.

Theorem C01_nonvacuous_flatten : pos_ok p14 /\ fits64 p14 m_flatten /\ mT m_flatten <> 1%N /\
  exists p', mv p14 m_flatten = Ok p' /\ nth 14 (sq (abs p')) [] = [(Rules.White, Cap); (Rules.Black, Flat)].
Proof. exact ex_flatten. Qed.
Print Assumptions C01_nonvacuous_flatten.

Theorem C01_nonvacuous_long_slide : pos_ok p14 /\ fits64 p14 m_long /\ mT m_long <> 1%N /\
  exists p', mv p14 m_long = Ok p' /\
    firstn 5 (skipn 5 (sq (abs p'))) =
      [[(Rules.White, Flat)]; [(Rules.Black, Flat)]; [(Rules.Black, Flat)]; [(Rules.Black, Flat); (Rules.Black, Flat)]; []] /\
    scratch_hash gen_basis p' = hash p'.
Proof. exact ex_long_slide. Qed.
Print Assumptions C01_nonvacuous_long_slide.


(* ==================== THE IMPORT PATHS: tak.FromSquares, ptn.ParseTPS, the rebuilt symmetry images (Import1-3.v) ====================
   Vocabulary (Import1.v, Import2.v, TpsFacts.v, TpsFacts5.v):
   wf_square sq     the shape Position.At produces: non-empty, top of kind 1..3 (flat, wall, capstone), only flats below.
   fit_board n b    3 <= n <= 8, n rows of n squares, every square [] or (wf_square and at most 64 high).
   shape_board n b  the same without the height bound;  low_board b: every square at most 64 high.
   piece_of         the Rules.v piece of a TPS piece;  pieces_of b: all pieces of the board;  dp n / dc n: tak.New's default stones / capstones.
   count is_ws / is_wc / is_bs / is_bc   number of white stones (flats+walls) / white capstones / black stones / black capstones in a list.
   dec8 a k         a uint8 decremented k times ((a + 255 k) mod 256): what FromSquares' `p.whiteStones--` loop computes.
   counts_fit n b   per colour and kind, no more pieces on the board than the default count (then dec8 = subtraction).
   board_apos n b mv   the abstract position with exactly those squares (map piece_of), reserves = defaults minus pieces on the board, ply mv,
                    tie-break flag false (the model of FromSquares builds on tak.New with the default configuration). *)

(* tak.FromSquares of a fitting board, any ply number: the C01 invariant holds - with NO hypothesis on the piece counts, the byte reserves
   just wrap - and the position abstracts to exactly that board; the reserves are exactly `default - on board` under counts_fit. *)
Theorem C01_from_squares_wf : forall n board mv, fit_board n board ->
  let q := Tps.from_squares gen_basis (N.of_nat n) board mv in
  pos_ok q /\ size q = N.of_nat n /\ Move.move q = mv /\ Move.black_wins_ties q = false /\
  sq (abs q) = map (map piece_of) (concat board) /\
  whiteStones q = dec8 (dp n) (count is_ws (pieces_of board)) /\ whiteCaps q = dec8 (dc n) (count is_wc (pieces_of board)) /\
  blackStones q = dec8 (dp n) (count is_bs (pieces_of board)) /\ blackCaps q = dec8 (dc n) (count is_bc (pieces_of board)) /\
  (counts_fit n board -> abs q = board_apos n board mv).
Proof. exact from_squares_wf. Qed.
Print Assumptions C01_from_squares_wf.

(* ... and then its reserves are the default counts minus what At reads off its own board (the hypothesis of C10 / C14) *)
Theorem C01_from_squares_reserves_match : forall n board mv, fit_board n board -> counts_fit n board ->
  reserves_match_board (Tps.from_squares gen_basis (N.of_nat n) board mv).
Proof. exact from_squares_reserves_match. Qed.
Print Assumptions C01_from_squares_reserves_match.

(* the reserve hypothesis is exact: 11 white flats on a 3x3 board (10 in the reserve) wrap the byte counter to 255; pos_ok still holds *)
Theorem C01_reserve_hypothesis_exact :
  fit_board 3 ex_over3 /\ ~ counts_fit 3 ex_over3 /\ pos_ok (Tps.from_squares gen_basis 3 ex_over3 0) /\
  whiteStones (Tps.from_squares gen_basis 3 ex_over3 0) = 255%N.
Proof. exact ex_reserve_wraps. Qed.
Print Assumptions C01_reserve_hypothesis_exact.

(* ptn.ParseTPS: whatever text it accepts, the result is FromSquares of a board of the right shape (no hypothesis) ... *)
Theorem C01_parse_tps_shape : forall basis s q, Tps.parse_tps basis s = Ok q ->
  exists n board mv, q = Tps.from_squares basis (N.of_nat n) board mv /\ shape_board n board.
Proof. exact parse_tps_shape. Qed.
Print Assumptions C01_parse_tps_shape.

(* ... so, when no parsed stack is above 64 (the parser itself puts no bound on the height), the parsed position satisfies the invariant and
   abstracts to the parsed board *)
Theorem C01_parse_tps_wf : forall s q, Tps.parse_tps gen_basis s = Ok q ->
  exists n board mv, q = Tps.from_squares gen_basis (N.of_nat n) board mv /\ shape_board n board /\
    size q = N.of_nat n /\ Move.move q = mv /\ Move.black_wins_ties q = false /\
    (low_board board ->
       pos_ok q /\ sq (abs q) = map (map piece_of) (concat board) /\
       (counts_fit n board -> abs q = board_apos n board mv)).
Proof. exact parse_tps_wf. Qed.
Print Assumptions C01_parse_tps_wf.

(* the height hypothesis cannot be dropped: "x3/x3/1{65},x2 1 40" parses, Height[0] = 65, the invariant fails (and the 65th piece has no
   bit in the stack word) *)
Theorem C01_parse_tps_over64_refuted : exists q, Tps.parse_tps gen_basis tall_text = Ok q /\ nthN (Height q) 0 = 65%N /\ ~ pos_ok q.
Proof. exact ex_parse_tall. Qed.
Print Assumptions C01_parse_tps_over64_refuted.

(* the positions symmetry.Symmetries rebuilds (Position.At of every square, permuted by ANY coordinate map s, through FromSquares) *)
Theorem C01_image_pos_ok : forall p s, pos_ok p -> pos_ok (Symmetry.image gen_basis p s).
Proof. exact image_pos_ok. Qed.
Print Assumptions C01_image_pos_ok.

(* NON-VACUITY: the text "x4,2/x5/x2,21S,x2/x,2112212C,x3/1,x2,1C,x 2 7" (ex_tps5) parses to the position of the next example *)
Theorem C01_nonvacuous_parse_tps : exists q, Tps.parse_tps gen_basis ex_tps5 = Ok q /\ pos_ok q /\ abs q = board_apos 5 ex_board5 13.
Proof. exact ex_parse_tps_wf. Qed.
Print Assumptions C01_nonvacuous_parse_tps.

(* NON-VACUITY: a 5x5 board with a seven-high stack under a black capstone, a wall on a flat, a lone capstone *)
Theorem C01_nonvacuous_from_squares :
  let q := Tps.from_squares gen_basis 5 ex_board5 13 in
  pos_ok q /\ abs q = board_apos 5 ex_board5 13 /\
  nth 6 (sq (abs q)) [] = [(Rules.Black, Cap); (Rules.White, Flat); (Rules.Black, Flat); (Rules.Black, Flat); (Rules.White, Flat); (Rules.White, Flat); (Rules.Black, Flat)] /\
  wstones (abs q) = 16%N /\ wcaps (abs q) = 0%N /\ bstones (abs q) = 16%N /\ bcaps (abs q) = 0%N.
Proof. exact ex_from_squares_wf. Qed.
Print Assumptions C01_nonvacuous_from_squares.

(* ================================================================================================================================
   FromSquares under ANY configuration (wave 4, worker build4-symcfg; proof ImportCfg1.v): the import theorem C01_from_squares_wf
   without the default-configuration restriction (custom piece counts, BlackWinsTies).
   ================================================================================================================================ *)
Require Import Rules Board Move GameOver Refine Preserve1 Tps TpsCfg Import1 ImportCfg1.
Close Scope Z_scope. Close Scope N_scope.

Theorem C01_from_squares_cfg_wf : forall n stones caps bwt board mv, fit_board n board ->
  let q := from_squares_cfg gen_basis (N.of_nat n) stones caps bwt board mv in
  pos_ok q /\ size q = N.of_nat n /\ Move.move q = mv /\ Move.black_wins_ties q = bwt /\
  sq (abs q) = map (map piece_of) (concat board) /\
  (whiteStones q, whiteCaps q, blackStones q, blackCaps q) = cfg_reserves n stones caps (pieces_of board) /\
  (counts_fit_cfg n stones caps board -> abs q = cfg_apos n stones caps bwt board mv).
Proof. exact from_squares_cfg_wf. Qed.
Print Assumptions C01_from_squares_cfg_wf.
