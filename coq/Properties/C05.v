(* C05 — precise search = exhaustive negamax.  Only statements, `exact`, and Print Assumptions live here. *)
From Coq Require Import ZArith List Bool.
Require Import Pvs.
Open Scope Z_scope.

(* Abstract principal-variation search (Pvs.v: [pv] with first-child full window, zero-window scouts [zw] for the later
   children, re-search when the scout lands strictly inside the window, fail-hard scouts) on ANY finite game tree with ANY
   evaluation, to ANY depth: the value returned for the window (a, b) obeys the negamax trichotomy, in particular it IS the
   negamax value whenever that lies inside the window. *)
Theorem C05_pvs_correct : forall d,
  (forall t a, wft d t ->
     (negamax d t <= a -> negamax d t <= zw d t a <= a) /\ (a < negamax d t -> a < zw d t a <= negamax d t)) /\
  (forall t a b, wft d t -> a < b ->
     (negamax d t <= a -> negamax d t <= pv d t a b <= a) /\
     (a < negamax d t < b -> pv d t a b = negamax d t) /\
     (b <= negamax d t -> b <= pv d t a b <= negamax d t)).
Proof. exact pvs_correct. Qed.
Print Assumptions C05_pvs_correct.
