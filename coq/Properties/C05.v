(* C05 — precise search = exhaustive negamax; verdicts hold on reused engines.
   Only statements, `exact`, and Print Assumptions live here.  Proofs: Pvs.v, NegamaxSpec.v, SearchGen.v, SearchExact.v; model: Search.v.

   Full statement of the property (DESIGN 5.5) and what is proved:
     zw_correct / pvs_correct      PROVED, abstractly (C05_pvs_correct) and for the concrete engine model (C05_search_window_partial).
     analyze_precise_exact         PROVED for the engine model Search.v, on every engine state without a table (fresh or left by ANY
                                   history of earlier calls), modulo explicitly listed facts about the rules engine and the evaluator
                                   (rules_facts: C03's "every accepted move is generated", a bound on the number of generated moves,
                                   "an unfinished game has a legal move", C18's |eval| <= MaxEval) — hence the suffix _partial.
     analyze_all_exact             not proved (AnalyzeAll is modelled, Search.analyze_all; its set of first moves is compared with the
                                   exhaustive oracle and with the implementation on every run).
     dedup_value_preserving        not proved and not modelled (DedupSymmetry); judged by the exhaustive oracle only.
     tt_valid_preserved / win_sound_complete (the table clause)   not proved; tested on every run against the forced-result solver on
                                   fresh engines and after histories of calls (repeats, neighbours, cancelled calls, tables of 2 entries up).

   How Search.v's pvSearch/zwSearch instantiate the abstract PVS of Pvs.v.  Pvs.v fixes a finite game tree T ev over kids, evaluates
   [negamax d], and defines [zw d t a] (zero-window: the children are scouted with window (-a-1, -a); the node returns a+1 if some child
   beats a, else a; leaves and finished games return the raw evaluation) and [pv d t a b] (first child with the full window, later
   children with a zero-window scout and a re-search only when the scout lands strictly inside (a, b); cut-off at b).  These are exactly
   the value computations of Search.zw_node/zw_loop and Search.pv_node/pv_loop/pv_child once the table, null-move, slide reduction and
   multi-cut are off.  The concrete search differs in what Pvs.v abstracts away: the children are not a fixed list — they are produced
   by the move generator (Search.mg_next) from the hint moves pv[0] and the response move, then AllMoves in history order, so their
   order depends on the engine state and a successor can be searched twice; and the search threads frames, history/response tables and
   the principal variation through every call.  SearchGen.v proves that without a table entry the generator yields only legal
   successors and, when exhausted, has yielded every legal successor at least once (whatever the state does in between);
   SearchExact.v replays the induction of Pvs.pvs_correct (window trichotomy, simultaneously for zw and pv, by induction on the depth)
   on the concrete loops with "the successors seen so far" in place of the list prefix, against NegamaxSpec.nmx — which is
   Pvs.negamax on the game tree of the rules model (tree_of). *)
From Coq Require Import NArith ZArith List Bool.
Require Import Board Move GameOver Eval Search NegamaxSpec SearchGen SearchExact SearchEx.
Require Pvs.
Import ListNotations.
Open Scope Z_scope.

(* Abstract principal-variation search on ANY finite game tree with ANY evaluation, to ANY depth: the value returned for the window
   (a, b) obeys the negamax window trichotomy; in particular it IS the negamax value whenever that lies inside the window. *)
Theorem C05_pvs_correct : forall d,
  (forall t a, Pvs.wft d t ->
     (Pvs.negamax d t <= a -> Pvs.negamax d t <= Pvs.zw d t a <= a) /\ (a < Pvs.negamax d t -> a < Pvs.zw d t a <= Pvs.negamax d t)) /\
  (forall t a b, Pvs.wft d t -> a < b ->
     (Pvs.negamax d t <= a -> Pvs.negamax d t <= Pvs.pv d t a b <= a) /\
     (a < Pvs.negamax d t < b -> Pvs.pv d t a b = Pvs.negamax d t) /\
     (b <= Pvs.negamax d t -> b <= Pvs.pv d t a b <= Pvs.negamax d t)).
Proof. exact Pvs.pvs_correct. Qed.
Print Assumptions C05_pvs_correct.

(* The concrete search of the engine model (both variants of the code, pinned or repaired; any sort setting; never cancelled), precise
   options, no table: for every depth d below the fuel, every state satisfying the invariant SI (no table, no Pass among the stored hint
   moves), every position of Pos, every hint line pv and every window, zwSearch (zw = true) and pvSearch (zw = false) return a value
   obeying the window trichotomy with respect to exhaustive negamax (nmx) of the rules model under the engine's evaluation function,
   pvSearch's line starts with a move attaining the value when it is exact, and the state afterwards satisfies SI again. *)
Theorem C05_search_window_partial : forall pinned basis cfg Pos, precise cfg -> rules_facts basis cfg Pos ->
  forall f d, (d < f)%nat -> rec_ok basis cfg Pos d (srch pinned basis cfg 0 f).
Proof.
  intros pinned basis cfg Pos (P1 & P2 & P3) (R1 & R2 & R3 & R4 & _). exact (srch_ok pinned basis cfg P1 P2 P3 Pos R1 R2 R3 R4).
Qed.
Print Assumptions C05_search_window_partial.

(* Analyze (iterative deepening, repaired code) with the value-preserving options and no table, on a fresh engine or after any history
   of earlier calls: whenever it reports a depth d > 0, the reported value is the exhaustive negamax value to depth d under the same
   evaluation function and the first move of the reported line attains it:
     exact_result basis cfg p pv v d  :=  v = nmx basis (c_eval cfg) d p  /\
        exists m rest q, pv = m :: rest /\ try_move basis p m = Some q /\ In q (children basis p) /\ - nmx basis (c_eval cfg) (d-1) q = v. *)
Theorem C05_analyze_precise_exact_partial : forall basis cfg Pos, precise cfg -> rules_facts basis cfg Pos ->
  forall s p sk pv v d acc c, SI s -> Pos p ->
  analyze_search basis cfg s p = (sk, (pv, v, d, acc, c)) ->
  SI sk /\ (0 < d -> exact_result basis cfg p pv v d).
Proof. exact analyze_precise_exact_fixed. Qed.
Print Assumptions C05_analyze_precise_exact_partial.

(* a fresh engine without a table satisfies SI *)
Theorem C05_fresh_engine_invariant : SI (new_state 0).
Proof. exact (SI_new 0 eq_refl). Qed.
Print Assumptions C05_fresh_engine_invariant.

(* The assumptions (precise, rules_facts) are jointly satisfiable: winner-only evaluation with Pos = the finished games.  (This shows
   the hypotheses are not contradictory; that they hold on the positions the engine searches is what C01/C03/C18 and the oracle say.) *)
Theorem C05_assumptions_consistent : forall basis depth nosort,
  let cfg := {| c_depth := depth; c_nosort := nosort; c_nonull := true; c_noreduce := true; c_multicut := false; c_eval := evaluate_winner |} in
  precise cfg /\ rules_facts basis cfg (fun p => is_over p = true).
Proof. exact rules_facts_consistent. Qed.
Print Assumptions C05_assumptions_consistent.

(* Two of the facts the search needs about the rules model are proved rather than assumed: AllMoves never generates Pass, and moves
   that are Move.Equal have the same effect. *)
Theorem C05_equal_moves_same_effect : forall basis p a b, move_equal a b = true -> try_move basis p a = try_move basis p b.
Proof. exact move_equal_try. Qed.
Print Assumptions C05_equal_moves_same_effect.

(* The repaired defect "second Analyze of the same position reports value 0" (known_findings: analyze-twice-value, fixed by 8daa71e) in the
   model: with the `pinned` switch of Search.v set (the code before the repair) the second of two identical calls on one engine (64-entry
   table, default evaluator, empty 3x3 board, depth 2; SearchEx.twice) reports 0 after a non-zero first value; the model of the repaired
   code reports the same value twice.  Computed on the instantiated model (constants regenerated from /repo). *)
Theorem C05_analyze_twice_refuted_pinned : exists v1, twice true = (v1, 0) /\ v1 <> 0.
Proof. exact analyze_twice_refuted_pinned. Qed.
Print Assumptions C05_analyze_twice_refuted_pinned.

Theorem C05_analyze_twice_fixed : exists v1, twice false = (v1, v1) /\ v1 <> 0.
Proof. exact analyze_twice_fixed. Qed.
Print Assumptions C05_analyze_twice_fixed.
