(* C05 — precise search = exhaustive negamax; verdicts hold on reused engines.
   Only statements, `exact`, and Print Assumptions live here.  Proofs: Pvs.v, NegamaxSpec.v, SearchGen.v, SearchExact.v, SearchNeg1-5.v, SearchAll1-4.v;
   model: Search.v.

   Full statement of the property (DESIGN 5.5) and what is proved:
     zw_correct / pvs_correct      PROVED, abstractly (C05_pvs_correct) and for the concrete engine model (C05_search_window_partial).
     analyze_precise_exact         PROVED for the engine model Search.v, on every engine state without a table (fresh or left by ANY
                                   history of earlier calls, completed or cancelled), for a call cancelled at ANY point or never:
                                   C05_analyze_precise_exact_64 (EVERY board size, games of at most 64 pieces - the standard sets of
                                   3x3..6x6 - both evaluators of the check: NO hypothesis about the rules engine or the evaluator is
                                   left - C01/C02/C03/C04/C18 discharge them), C05_analyze_precise_exact_game64 (every position of a
                                   game replayed from tak.New), C05_analyze_precise_exact (the earlier form: boards up to 5x5, 51 pieces),
                                   C05_analyze_precise_exact_winner / _default (any game: under the side condition `within`, which says
                                   that the searched tree stays inside C01's 64-piece stack limit; proved outright for games of at
                                   most 64 pieces: C05_within_total64).  The model's loops over the move generator are bounded by the
                                   node's own number of generated moves (Search.gfuel), so no bound on that number is assumed.
                                   The conditional forms over an abstract set of positions keep the suffix _partial.
     analyze_all_exact             PROVED for the engine model (SearchAll1-4.v), same setting as analyze_precise_exact (precise options,
                                   no table, any sort setting, any engine state without a table, every board size, games of at most
                                   64 pieces or `within`, both evaluators), for the REPAIRED AnalyzeAll (bbe216e: AnalyzeAll stops listing
                                   lines once the search is cancelled) and EVERY cancellation point k: C05_analyze_all_exact_64 (the
                                   list itself: Analyze's line first, then a PREFIX of filter (not Equal to pv[0] and attaining the
                                   value) over AllMoves in the generator's order; the whole filter when the call is not reported as
                                   cancelled - so also the order and the absence of duplicates), C05_analyze_all_sets_cancel_64 (for
                                   every k every listed first move attains the value and no two are Equal; not reported as cancelled
                                   => every entry of AllMoves that attains it is listed up to Move.Equal), C05_analyze_all_sets_64
                                   (k = 0), C05_analyze_all_complete_raw (every raw move value that attains it is Equal to a listed
                                   one).  The code BEFORE the repair (switch `pinned` of Search.v) satisfies this only while the flag
                                   is unset (C05_analyze_all_sets_pinned) and lists losing moves afterwards:
                                   C05_analyze_all_cancelled_refuted_pinned (depth 3, value 0, twelve lines of which two attain the
                                   value; the unrepaired engine did the same), C05_analyze_all_cancelled_fixed (the repaired model:
                                   one line, Canceled), C05_example_cancelled_during_second_pass (prefixes).
     dedup_value_preserving        MODELLED (SearchDedup.v: pvSearch's per-node symmetry cache; Search.v unchanged, the model with the option
                                   off IS Search.v's: C05_dedup_off; configurations with the option run as model cases of the check) and
                                   PROVED (block at the end): precise options, no table, DedupSymmetry on, an evaluator invariant under the
                                   eight images (EvaluateWinner: proved to be one), games under the default configuration with at most 64
                                   pieces: Analyze reports nmx d p with a first move attaining it, exactly as without the option
                                   (C05_dedup_value_preserving_winner / _sym); hash hypothesis dedup_nocollision.  Ingredient:
                                   C05_dedup_nmx_image (exhaustive negamax is invariant under the images).  FINDING: the built-in evaluator
                                   MakeEvaluator(size, nil) is NOT symmetric (C05_dedup_default_eval_not_symmetric; the real evaluator gives
                                   the same numbers: notes/finding_default_eval_asymmetric.txt) - CountThreats depends on the order in which
                                   the groups are enumerated - so "a symmetric evaluator" excludes it.  Every other theorem of this
                                   file is about Search.analyze_* = the model with the option OFF and claims nothing about dedup = true.
     tt_valid_preserved / win_sound_complete (the table clause)   PROVED for the engine model Search.v with MakePrecise options, a table
        of any size and content, sort on/off, both evaluators of the check, every call cancelled anywhere or never, on a fresh engine or
        after ANY history of such calls (C05_table_win_sound_complete; abstract form C05_table_win_sound_complete_abstract; invariant
        C05_table_valid_preserved; per-search form C05_table_search_verdict; block at the end of this file).  Hypotheses left: the set U
        of touched positions with NoCollision (touch_set: equal Position.Hash => same forced-result classification), positions of at
        most 64 pieces satisfying C01's invariant, ply + configured depth <= max_terminal_ply, configured depth < 40 (the recursion fuel
        of the model; the Go code indexes m.stack[ply] with ply < Depth in an array of ai.maxDepth = 15 frames and has no clamp, so it
        cannot run deeper than 15 without an index panic: the bound covers every depth the code can run).
        For the positions of ONE game (replayed from tak.New, at most 64 pieces) the hash hypothesis is the syntactic one - equal
        Position.Hash on the touched set implies Position.Equal - and C01's invariant is derived: C05_table_win_sound_complete_game
        (W / L are invariant under PnCong1.sim: C05_table_sim_classification).
        SOUNDNESS ("a reported win or loss is a real forced one") is proved for EVERY configuration without null move - slide
        reduction, multi-cut, any table, any history, no bound on the depth: C05_table_sound_any_config.  The completeness half is false
        for those configurations by design; with the null move even soundness is not a theorem about the rules (a null-move cut is a
        claim about a position the rules cannot reach) - those stay with the forced-result oracle.

   How Search.v's pvSearch/zwSearch instantiate the abstract PVS of Pvs.v.  Pvs.v fixes a finite game tree T ev over kids, evaluates
   [negamax d], and defines [zw d t a] (zero-window: the children are scouted with window (-a-1, -a); the node returns a+1 if some child
   beats a, else a; leaves and finished games return the raw evaluation) and [pv d t a b] (first child with the full window, later
   children with a zero-window scout and a re-search only when the scout lands strictly inside (a, b); cut-off at b).  These are exactly
   the value computations of Search.zw_node/zw_loop and Search.pv_node/pv_loop/pv_child once the table, null-move, slide reduction and
   multi-cut are off.  The concrete search differs in what Pvs.v abstracts away: the children are not a fixed list — they are produced
   by the move generator (Search.mg_next) from the hint moves pv[0] and the response move, then AllMoves in history order, so their
   order depends on the engine state and a successor can be searched twice; and the search threads frames, history/response tables and
   the principal variation through every call.  SearchGen.v proves that without a table entry the generator yields only legal
   successors and, when exhausted, has yielded every legal successor at least once (whatever the state does in between);
   SearchExact.v replays the induction of Pvs.pvs_correct (window trichotomy, simultaneously for zw and pv, by induction on the depth)
   on the concrete loops with "the successors seen so far" in place of the list prefix, against NegamaxSpec.nmx — which is
   Pvs.negamax on the game tree of the rules model (tree_of). *)
From Coq Require Import NArith ZArith List Bool.
Require Import Board Move GameOver Eval EvalSpec Search NegamaxSpec SearchGen SearchExact SearchEx SearchInst SearchC CancelEx.
Require Import Preserve1 Reach1 Alloc SearchNeg1 SearchNeg2 SearchNeg3 SearchNeg4 SearchNeg5 SearchAll1 SearchAll2 SearchAll3 SearchAll4.
Require AllMovesFacts2.
Require Import Generated.Consts.
Require Pvs.
Import ListNotations.
Open Scope Z_scope.

(* Abstract principal-variation search on ANY finite game tree with ANY evaluation, to ANY depth: the value returned for the window
   (a, b) obeys the negamax window trichotomy; in particular it IS the negamax value whenever that lies inside the window. *)
Theorem C05_pvs_correct : forall d,
  (forall t a, Pvs.wft d t ->
     (Pvs.negamax d t <= a -> Pvs.negamax d t <= Pvs.zw d t a <= a) /\ (a < Pvs.negamax d t -> a < Pvs.zw d t a <= Pvs.negamax d t)) /\
  (forall t a b, Pvs.wft d t -> a < b ->
     (Pvs.negamax d t <= a -> Pvs.negamax d t <= Pvs.pv d t a b <= a) /\
     (a < Pvs.negamax d t < b -> Pvs.pv d t a b = Pvs.negamax d t) /\
     (b <= Pvs.negamax d t -> b <= Pvs.pv d t a b <= Pvs.negamax d t)).
Proof. exact Pvs.pvs_correct. Qed.
Print Assumptions C05_pvs_correct.

(* The concrete search of the engine model (both variants of the code, pinned or repaired; any sort setting; never cancelled), precise
   options, no table: for every depth d below the fuel, every state satisfying the invariant SI (no table, no Pass among the stored hint
   moves), every position of Pos, every hint line pv and every window, zwSearch (zw = true) and pvSearch (zw = false) return a value
   obeying the window trichotomy with respect to exhaustive negamax (nmx) of the rules model under the engine's evaluation function,
   pvSearch's line starts with a move attaining the value when it is exact, and the state afterwards satisfies SI again. *)
Theorem C05_search_window_partial : forall pinned basis cfg Pos, precise cfg -> rules_facts basis cfg Pos ->
  forall f d, (d < f)%nat -> rec_ok basis cfg Pos d (srch pinned basis cfg 0 f).
Proof.
  intros pinned basis cfg Pos (P1 & P2 & P3) (R1 & R2 & R4 & _). exact (srch_ok pinned basis cfg P1 P2 P3 Pos R1 R2 R4).
Qed.
Print Assumptions C05_search_window_partial.

(* Analyze (iterative deepening, repaired code) with the value-preserving options and no table, on a fresh engine or after any history
   of earlier calls: whenever it reports a depth d > 0, the reported value is the exhaustive negamax value to depth d under the same
   evaluation function and the first move of the reported line attains it:
     exact_result basis cfg p pv v d  :=  v = nmx basis (c_eval cfg) d p  /\
        exists m rest q, pv = m :: rest /\ try_move basis p m = Some q /\ In q (children basis p) /\ - nmx basis (c_eval cfg) (d-1) q = v. *)
Theorem C05_analyze_precise_exact_partial : forall basis cfg Pos, precise cfg -> rules_facts basis cfg Pos ->
  forall s p sk pv v d acc c, SI s -> Pos p ->
  analyze_search basis cfg s p = (sk, (pv, v, d, acc, c)) ->
  SI sk /\ (0 < d -> exact_result basis cfg p pv v d).
Proof. exact analyze_precise_exact_fixed. Qed.
Print Assumptions C05_analyze_precise_exact_partial.

(* ---- the same with the hypotheses asked only where the search goes, and for a call cancelled anywhere ----
   rules_factsx basis cfg Pos: the four facts of rules_facts for a family Pos d of positions indexed by the remaining depth
   (a successor of a Pos (S d) position is a Pos d position; nothing is asked of the successors of Pos 0 positions).
   analyze_cancel basis cfg k: the context is cancelled inside the k-th leaf evaluation of the call (k = 0: never; analyze_search). *)
Theorem C05_analyze_precise_exact_indexed_partial : forall basis cfg Pos, precise cfg -> rules_factsx basis cfg Pos ->
  forall k s p sk pv v d acc c, SI s ->
  (forall d, (1 <= d <= 16)%nat -> Z.of_nat d <= c_depth cfg -> Pos d p) ->
  analyze_cancel basis cfg k s p = (sk, (pv, v, d, acc, c)) ->
  SI sk /\ (0 < d -> exact_result basis cfg p pv v d).
Proof. exact analyze_precise_exact_indexed. Qed.
Print Assumptions C05_analyze_precise_exact_indexed_partial.

(* ---- the hypotheses discharged (SearchNeg2-5.v), instantiated model (hash basis regenerated from /repo) ----
   base_ok p   = Preserve1.pos_ok p (the invariant of C01: what New establishes and every accepted move preserves)
                 /\ total p <= 255 (pieces on the board + reserves: the byte reserves cannot wrap, C02) /\ 0 <= move p
                 /\ supply p (in the two opening plies the stones about to be placed exist).
   within d p  = in the tree of depth d below p (finished games are not expanded) no accepted move builds a stack higher than 64:
                   within 0 p = True;  within (S d) p = is_over p = false -> forall m q, Refine.mv p m = Ok q -> heights64 q /\ within d q.
                 (Until the model's loops were given the node's own move count as fuel - Search.gfuel - this also had to bound the number
                 of generated moves per node by 690; a position with more moves made the model, not the Go code, stop early.)
   dmax cfg    = min (c_depth cfg) 16, the deepest iteration Analyze runs.
   max_terminal_ply = 2 684 354 (C18: beyond it a won game's score can leave the decided range).
   Discharged: closure of the position set under moves (C01 move_exact), "an accepted hint move leads where a generated move leads"
   (C03 allmoves_complete), "a live position has a legal generated move" (C04_live_has_legal_move + C02 game_over_iff: GameOver always
   answers), |eval| <= MaxEval (EvaluateWinner: by cases; built-in evaluator: C18_all_in_root_window). *)
Theorem C05_analyze_precise_exact_winner : forall cfg, precise cfg -> c_eval cfg = evaluate_winner ->
  forall k s p sk pv v d acc c, SI s -> base_ok p -> within (dmax cfg) p ->
  analyze_cancel gen_basis cfg k s p = (sk, (pv, v, d, acc, c)) ->
  SI sk /\ (0 < d -> exact_result gen_basis cfg p pv v d).
Proof. exact analyze_exact_winner. Qed.
Print Assumptions C05_analyze_precise_exact_winner.

Theorem C05_analyze_precise_exact_default : forall cfg, precise cfg -> c_eval cfg = default_eval ->
  forall k s p sk pv v d acc c, SI s -> base_ok p -> within (dmax cfg) p -> move p + Z.of_nat (dmax cfg) <= max_terminal_ply ->
  analyze_cancel gen_basis cfg k s p = (sk, (pv, v, d, acc, c)) ->
  SI sk /\ (0 < d -> exact_result gen_basis cfg p pv v d).
Proof. exact analyze_exact_default. Qed.
Print Assumptions C05_analyze_precise_exact_default.

(* AllMoves on boards up to 5x5: at most 3 entries per empty square and 12 per piece of a stack *)
Theorem C05_all_moves_small : forall p, (3 <= size p <= 5)%N -> length (Height p) = (N.to_nat (size p) * N.to_nat (size p))%nat ->
  (length (all_moves p) <= 75 + 12 * N.to_nat (sumH (Height p)))%nat.
Proof. exact all_moves_small. Qed.
Print Assumptions C05_all_moves_small.

(* the side condition holds at every depth, on every board size, when the game has at most 64 pieces (standard sets: 20, 30, 44, 62) *)
Theorem C05_within_total64 : forall d p, pos_ok p -> (total p <= 64)%N -> within d p.
Proof. exact within_total64. Qed.
Print Assumptions C05_within_total64.

Theorem C05_within_small : forall d p, pos_ok p -> (size p <= 5)%N -> (total p <= 51)%N -> within d p.
Proof. exact within_small. Qed.
Print Assumptions C05_within_small.

(* C05 clause 1, no hypothesis about the rules engine or the evaluator: MakePrecise options, no table, any sort setting, either
   evaluator of the check (builtin_eval cfg: c_eval cfg = evaluate_winner \/ c_eval cfg = default_eval), any engine state left by
   earlier calls, cancelled at any point or never: whenever a depth d > 0 is reported, the value is the exhaustive negamax value to
   depth d and the first move of the line attains it; the state afterwards satisfies SI again. *)
Theorem C05_analyze_precise_exact : forall cfg, precise cfg -> builtin_eval cfg ->
  forall k s p sk pv v d acc c,
  SI s -> base_ok p -> (size p <= 5)%N -> (total p <= 51)%N -> move p + 16 <= max_terminal_ply ->
  analyze_cancel gen_basis cfg k s p = (sk, (pv, v, d, acc, c)) ->
  SI sk /\ (0 < d -> exact_result gen_basis cfg p pv v d).
Proof. exact analyze_exact_small. Qed.
Print Assumptions C05_analyze_precise_exact.

(* ... in particular for every position of a game: replayed from tak.New(size 3..5, any tie-break flag, any piece set of at most 51
   pieces with at least one stone) through any sequence of accepted moves *)
Theorem C05_analyze_precise_exact_game : forall cfg, precise cfg -> builtin_eval cfg ->
  forall sz bwt stones caps ms p, (3 <= sz <= 5)%N -> (0 < stones)%N -> (2 * (stones + caps) <= 51)%N ->
  replay (new_pos sz bwt stones caps) ms = Ok p -> Z.of_nat (length ms) + 16 <= max_terminal_ply ->
  forall k s sk pv v d acc c, SI s ->
  analyze_cancel gen_basis cfg k s p = (sk, (pv, v, d, acc, c)) ->
  SI sk /\ (0 < d -> exact_result gen_basis cfg p pv v d).
Proof. exact analyze_exact_game. Qed.
Print Assumptions C05_analyze_precise_exact_game.

(* the same for EVERY board size and every game of at most 64 pieces (the standard sets of 3x3, 4x4, 5x5 and 6x6) *)
Theorem C05_analyze_precise_exact_64 : forall cfg, precise cfg -> builtin_eval cfg ->
  forall k s p sk pv v d acc c,
  SI s -> base_ok p -> (total p <= 64)%N -> move p + 16 <= max_terminal_ply ->
  analyze_cancel gen_basis cfg k s p = (sk, (pv, v, d, acc, c)) ->
  SI sk /\ (0 < d -> exact_result gen_basis cfg p pv v d).
Proof. exact analyze_exact_64. Qed.
Print Assumptions C05_analyze_precise_exact_64.

Theorem C05_analyze_precise_exact_game64 : forall cfg, precise cfg -> builtin_eval cfg ->
  forall sz bwt stones caps ms p, (3 <= sz <= 8)%N -> (0 < stones)%N -> (2 * (stones + caps) <= 64)%N ->
  replay (new_pos sz bwt stones caps) ms = Ok p -> Z.of_nat (length ms) + 16 <= max_terminal_ply ->
  forall k s sk pv v d acc c, SI s ->
  analyze_cancel gen_basis cfg k s p = (sk, (pv, v, d, acc, c)) ->
  SI sk /\ (0 < d -> exact_result gen_basis cfg p pv v d).
Proof. exact analyze_exact_game64. Qed.
Print Assumptions C05_analyze_precise_exact_game64.

(* Non-vacuity, computed on the instantiated model (vm_compute): q4 = the 3x3 position after a1 c3 b2 b1 (White to move, live);
   depth 3, sorted, built-in evaluator: every hypothesis of C05_analyze_precise_exact_default holds, the call reports depth 3 with the
   line c1, Sc2, b3 and the value 960 - which is the value of exhaustive negamax (computed separately). *)
Theorem C05_example_default : 
  precise cfg3 /\ c_eval cfg3 = default_eval /\ SI (new_state 0) /\ base_ok q4 /\ within (dmax cfg3) q4 /\
  move q4 + Z.of_nat (dmax cfg3) <= max_terminal_ply /\ is_over q4 = false /\
  obs (run_analyze cfg3 0 (new_state 0) q4) =
    ([{| mX := 2; mY := 0; mT := 2; mS := 0 |}; {| mX := 2; mY := 1; mT := 3; mS := 0 |}; {| mX := 1; mY := 2; mT := 2; mS := 0 |}], 960, 3, false) /\
  nmx gen_basis default_eval 3 q4 = 960.
Proof. exact ex_default3. Qed.
Print Assumptions C05_example_default.

(* q4w = after a3 a1 b1 b3: White completes the road with c1; EvaluateWinner: depth 1, value WinBase (decisive), = negamax *)
Theorem C05_example_winner :
  precise cfg3w /\ c_eval cfg3w = evaluate_winner /\ base_ok q4w /\ within (dmax cfg3w) q4w /\ is_over q4w = false /\
  obs (run_analyze cfg3w 0 (new_state 0) q4w) = ([{| mX := 2; mY := 0; mT := 2; mS := 0 |}], Eval.WinBase, 1, false) /\
  nmx gen_basis evaluate_winner 1 q4w = Eval.WinBase /\ WinThreshold < Eval.WinBase.
Proof. exact ex_winner. Qed.
Print Assumptions C05_example_winner.

(* one engine, three calls on q4: uninterrupted, cancelled inside the 40th leaf evaluation (reports its deepest completed
   iteration: depth 1 with the depth-1 negamax value), uninterrupted again on the state the cancelled call left *)
Theorem C05_example_reused_engine :
  let '(s1, r1) := run_analyze cfg3 0 (new_state 0) q4 in
  let '(s2, r2) := run_analyze cfg3 40 s1 q4 in
  let '(s3, r3) := run_analyze cfg3 0 s2 q4 in
  (r_value r1, r_depth r1, r_canceled r1, r_value r2, r_depth r2, r_canceled r2, r_value r3, r_depth r3, r_canceled r3)
  = (960, 3, false, nmx gen_basis default_eval 1 q4, 1, true, 960, 3, false).
Proof. exact ex_reused. Qed.
Print Assumptions C05_example_reused_engine.

(* a fresh engine without a table satisfies SI *)
Theorem C05_fresh_engine_invariant : SI (new_state 0).
Proof. exact (SI_new 0 eq_refl). Qed.
Print Assumptions C05_fresh_engine_invariant.

(* The assumptions (precise, rules_facts) are jointly satisfiable: winner-only evaluation with Pos = the finished games.  (This shows
   the hypotheses are not contradictory; that they hold on the positions the engine searches is what C01/C03/C18 and the oracle say.) *)
Theorem C05_assumptions_consistent : forall basis depth nosort,
  let cfg := {| c_depth := depth; c_nosort := nosort; c_nonull := true; c_noreduce := true; c_multicut := false; c_eval := evaluate_winner |} in
  precise cfg /\ rules_facts basis cfg (fun p => is_over p = true).
Proof. exact rules_facts_consistent. Qed.
Print Assumptions C05_assumptions_consistent.

(* Two of the facts the search needs about the rules model are proved rather than assumed: AllMoves never generates Pass, and moves
   that are Move.Equal have the same effect. *)
Theorem C05_equal_moves_same_effect : forall basis p a b, move_equal a b = true -> try_move basis p a = try_move basis p b.
Proof. exact move_equal_try. Qed.
Print Assumptions C05_equal_moves_same_effect.

(* The repaired defect "second Analyze of the same position reports value 0" (known_findings: analyze-twice-value, fixed by 8daa71e) in the
   model: with the `pinned` switch of Search.v set (the code before the repair) the second of two identical calls on one engine (64-entry
   table, default evaluator, empty 3x3 board, depth 2; SearchEx.twice) reports 0 after a non-zero first value; the model of the repaired
   code reports the same value twice.  Computed on the instantiated model (constants regenerated from /repo). *)
Theorem C05_analyze_twice_refuted_pinned : exists v1, twice true = (v1, 0) /\ v1 <> 0.
Proof. exact analyze_twice_refuted_pinned. Qed.
Print Assumptions C05_analyze_twice_refuted_pinned.

Theorem C05_analyze_twice_fixed : exists v1, twice false = (v1, v1) /\ v1 <> 0.
Proof. exact analyze_twice_fixed. Qed.
Print Assumptions C05_analyze_twice_fixed.

(* ================= AnalyzeAll: "its all-best-lines analysis lists exactly the first moves that attain it" =================
   Search.analyze_all_cancel basis cfg k = Search.analyze_all_gen false basis cfg k: the REPAIRED MinimaxAI.AnalyzeAll (after every child
   search of the second pass the cancel flag is read; when it is set the loop stops, the lines found so far are reported, Stats.Canceled is
   set) with the context cancelled inside the k-th leaf evaluation (k = 0: never; = Search.analyze_all).  Search.analyze_all_pinned = the
   code before that repair.  ./check C05 executes both entry points' model against MinimaxAI.AnalyzeAll on every run.
   all_exact pinned cfg k p sk pvs v d c :=  SI sk /\ (d = 0 /\ pvs = []  \/  1 <= d <= 16 /\ d <= c_depth cfg /\ is_over p = false /\
                                              all_result pinned gen_basis cfg k p sk pvs v d c)          (c = the reported Canceled flag)
   all_result pinned basis cfg k p sk pvs v d c :=
     v = nmx d p /\ exists pm pvt q0 ms tails,
       pvs = (pm :: pvt) :: tails /\ okl (pm :: pvt) /\                              (Analyze's line comes first)
       try_move p pm = Some q0 /\ In q0 (children p) /\ - nmx (d-1) q0 = v /\         (its first move is accepted and attains v)
       Forall (line_ok p) tails /\                                                   (every further line is m :: rest, m an accepted ENTRY of AllMoves)
       Permutation ms (all_moves p) /\ ((1 <? d) && negb nosort = false -> ms = all_moves p) /\   (the generator's order)
       let F := filter (fun m => negb (move_equal pm m) && best (d-1) p m) ms in     (what the uninterrupted second pass lists)
       (pinned = false \/ cancelled k sk = false -> exists rest', F = map hd tails ++ rest') /\   (repaired code, ANY k: a prefix of F)
       (cancelled k sk = false -> map hd tails = F) /\                                            (flag never seen: all of F)
       (pinned = false -> c = false -> cancelled k sk = false)                                    (repaired code: not reported cancelled = flag never seen)
     best d' p m := m is accepted at p and leads to q with - nmx d' q = nmx (S d') p.
   Duplicates: none (AllMoves has no two Equal entries, C03; entries Equal to pv[0] are left out).  Order: pv[0], then AllMoves order
   (NoSort or depth 1) or the history-table order the generator fixed at its second call (a permutation of AllMoves). *)
Theorem C05_analyze_all_exact_64 : forall cfg, precise cfg -> builtin_eval cfg ->
  forall k s p sk pvs v d c,
  SI s -> base_ok p -> (total p <= 64)%N -> move p + 16 <= max_terminal_ply ->
  analyze_all_cancel gen_basis cfg k s p = (sk, (pvs, v, d, c)) -> all_exact false cfg k p sk pvs v d c.
Proof. exact analyze_all_exact_64. Qed.
Print Assumptions C05_analyze_all_exact_64.

(* any game, under the side condition `within` (the searched tree stays inside C01's 64-piece stack limit) *)
Theorem C05_analyze_all_exact_within : forall cfg, precise cfg -> builtin_eval cfg ->
  forall k s p sk pvs v d c,
  SI s -> base_ok p -> within (dmax cfg) p -> move p + 16 <= max_terminal_ply ->
  analyze_all_cancel gen_basis cfg k s p = (sk, (pvs, v, d, c)) -> all_exact false cfg k p sk pvs v d c.
Proof. exact analyze_all_exact_within. Qed.
Print Assumptions C05_analyze_all_exact_within.

(* The same as a statement about SETS of first moves.
   attains basis cfg p d v m := exists q, mvp basis p m = Ok q /\ - nmx basis (c_eval cfg) (d-1) q = v
   head_accepted basis p l   := exists m rest q, l = m :: rest /\ okm m /\ mvp basis p m = Ok q.
   The repaired AnalyzeAll, cancelled at ANY point k or never, whenever it reports a depth d > 0: the value is the negamax value; every
   line is non-empty and starts with an accepted move; EVERY listed first move attains the value; no two listed first moves are Equal
   (different Equal-keys); and if the call is not reported as cancelled, every entry of AllMoves that attains the value is listed up to
   Move.Equal. *)
Theorem C05_analyze_all_sets_cancel_64 : forall cfg, precise cfg -> builtin_eval cfg ->
  forall k s p sk pvs v d c,
  SI s -> base_ok p -> (total p <= 64)%N -> move p + 16 <= max_terminal_ply ->
  analyze_all_cancel gen_basis cfg k s p = (sk, (pvs, v, d, c)) -> 0 < d ->
  SI sk /\ v = nmx gen_basis (c_eval cfg) (Z.to_nat d) p /\ pvs <> [] /\
  Forall (head_accepted gen_basis p) pvs /\
  (forall l, In l pvs -> attains gen_basis cfg p d v (hd move0 l)) /\
  NoDup (map AllMovesFacts2.key (map (hd move0) pvs)) /\
  (c = false ->
    forall m, In m (all_moves p) -> attains gen_basis cfg p d v m -> exists l, In l pvs /\ move_equal (hd move0 l) m = true).
Proof. exact analyze_all_sets_cancel_64. Qed.
Print Assumptions C05_analyze_all_sets_cancel_64.

(* never cancelled (Search.analyze_all): exactly the first moves that attain the value *)
Theorem C05_analyze_all_sets_64 : forall cfg, precise cfg -> builtin_eval cfg ->
  forall s p sk pvs v d c,
  SI s -> base_ok p -> (total p <= 64)%N -> move p + 16 <= max_terminal_ply ->
  analyze_all gen_basis cfg s p = (sk, (pvs, v, d, c)) -> 0 < d ->
  SI sk /\ v = nmx gen_basis (c_eval cfg) (Z.to_nat d) p /\
  Forall (head_accepted gen_basis p) pvs /\
  (forall l, In l pvs -> attains gen_basis cfg p d v (hd move0 l)) /\
  (forall m, In m (all_moves p) -> attains gen_basis cfg p d v m -> exists l, In l pvs /\ move_equal (hd move0 l) m = true) /\
  NoDup (map AllMovesFacts2.key (map (hd move0) pvs)).
Proof. exact analyze_all_sets_64. Qed.
Print Assumptions C05_analyze_all_sets_64.

(* completeness for EVERY raw move value, not only the entries of AllMoves (C03: an accepted move is Equal to an entry) *)
Theorem C05_analyze_all_complete_raw : forall cfg, precise cfg -> builtin_eval cfg ->
  forall k s p sk pvs v d c,
  SI s -> base_ok p -> (total p <= 64)%N -> move p + 16 <= max_terminal_ply ->
  analyze_all_cancel gen_basis cfg k s p = (sk, (pvs, v, d, c)) -> 0 < d -> c = false ->
  forall m, attains gen_basis cfg p d v m -> exists l, In l pvs /\ move_equal (hd move0 l) m = true.
Proof. exact analyze_all_complete_raw_64. Qed.
Print Assumptions C05_analyze_all_complete_raw.

(* the code BEFORE the repair (analyze_all_pinned): the set is right only as long as the flag was not seen set when AnalyzeAll returns *)
Theorem C05_analyze_all_sets_pinned : forall cfg, precise cfg -> builtin_eval cfg ->
  forall k s p sk pvs v d c,
  SI s -> base_ok p -> (total p <= 64)%N -> move p + 16 <= max_terminal_ply ->
  analyze_all_pinned gen_basis cfg k s p = (sk, (pvs, v, d, c)) -> 0 < d ->
  SI sk /\ v = nmx gen_basis (c_eval cfg) (Z.to_nat d) p /\ pvs <> [] /\
  Forall (head_accepted gen_basis p) pvs /\ attains gen_basis cfg p d v (hd move0 (hd [] pvs)) /\
  (cancelled k sk = false ->
    (forall l, In l pvs -> attains gen_basis cfg p d v (hd move0 l)) /\
    (forall m, In m (all_moves p) -> attains gen_basis cfg p d v m -> exists l, In l pvs /\ move_equal (hd move0 l) m = true) /\
    NoDup (map AllMovesFacts2.key (map (hd move0) pvs))).
Proof. exact analyze_all_sets_pinned_64. Qed.
Print Assumptions C05_analyze_all_sets_pinned.

(* Non-vacuity (vm_compute): q4 = 3x3 after a1 c3 b2 b1, EvaluateWinner, depth 3, sorted: the hypotheses hold; three lines - Sc1, c1, b2- -
   value 0; the specification (negamax over the 16 entries of AllMoves) names the same three *)
Theorem C05_example_all_three :
  precise cfg3w /\ builtin_eval cfg3w /\ SI (new_state 0) /\ base_ok q4 /\ (total q4 <= 64)%N /\ move q4 + 16 <= max_terminal_ply /\
  heads (analyze_all gen_basis cfg3w (new_state 0) q4) = ([Sc1; c1; b2dn], 0, 3, false) /\
  spec_best cfg3w q4 3 0 = [b2dn; c1; Sc1] /\ length (all_moves q4) = 16%nat.
Proof. exact ex_all_three. Qed.
Print Assumptions C05_example_all_three.

(* REPAIRED DEFECT (known_findings: analyze-all-lists-unsearched-move, fixed by bbe216e).  Before the repair AnalyzeAll ran its second pass with the flag
   set; a child search that is abandoned returns 0, which was taken for the child's value.  p5 = 3x3 after a1 c3 b2 b1 c1 (Black to
   move), MakePrecise, NoSort, EvaluateWinner, Depth 4, no table, fresh engine, cancelled inside the 400th leaf evaluation: reported depth
   3, value 0 (= negamax), TWELVE lines, among them a2 whose value is -WinBase; only two entries of AllMoves attain 0, and the
   uninterrupted depth-3 call lists two.  Model with the `pinned` switch set (and the unrepaired engine):
   cancelled_obs pinned = (number of lines, value, depth, Stats.Canceled, flag seen at the end, a2 is among the first moves) of that call;
   uninterrupted_obs = (number of lines, value, depth, Stats.Canceled) of the uninterrupted Depth-3 call on a fresh engine. *)
Theorem C05_analyze_all_cancelled_refuted_pinned :
  cancelled_obs true = (12%nat, 0, 3, true, true, true) /\
  (match mvp gen_basis p5 a2 with Ok q => - nmx gen_basis evaluate_winner 2 q | _ => 0 end) = - Eval.WinBase /\
  nmx gen_basis evaluate_winner 3 p5 = 0 /\
  length (spec_best cfg4wn p5 3 0) = 2%nat /\
  uninterrupted_obs = (2%nat, 0, 3, false).
Proof. exact cancelled_lists_losing_moves_pinned. Qed.
Print Assumptions C05_analyze_all_cancelled_refuted_pinned.

(* the repaired model on the same input: Analyze's line only, reported as cancelled *)
Theorem C05_analyze_all_cancelled_fixed : cancelled_obs false = (1%nat, 0, 3, true, true, false).
Proof. exact cancelled_fixed. Qed.
Print Assumptions C05_analyze_all_cancelled_fixed.

(* the flag flips during the second pass (q4, MakePrecise, NoSort, EvaluateWinner, Depth 3; Analyze alone takes 184 leaf evaluations, the
   whole call 282): prefixes of the uninterrupted list, flagged as cancelled.  heads_k k = (first moves, value, depth, Canceled) *)
Theorem C05_example_cancelled_during_second_pass :
  heads_k 0 = ([b2dn; c1; Sc1], 0, 3, false) /\ heads_k 250 = ([b2dn], 0, 3, true) /\ heads_k 270 = ([b2dn; c1], 0, 3, true) /\
  heads_k 281 = ([b2dn; c1; Sc1], 0, 3, true).
Proof. exact cancelled_during_second_pass. Qed.
Print Assumptions C05_example_cancelled_during_second_pass.


(* ================================================================================================================================
   THE TABLE CLAUSE (third wave, worker prove3-table; proofs SearchTable1-5.v, SearchTableEx.v, statements SearchTableThms.v)
   W n p / L n p: the side to move at p can force a win within n plies / is lost within n plies whatever it does (rules model).
   ================================================================================================================================ *)
Require Import SearchLegal2 SearchTable1 SearchTable2 SearchTable3 SearchTable4 SearchTable5 SearchTableThms SearchTableEx.

(* ---------------- C05 ---------------- *)

(* The table clause on the instantiated model.  engine_inst U s: s is a fresh engine (any table size) or was left by any sequence of
   Analyze calls (precise options, either built-in evaluator, any cancellation point, positions satisfying ask_ok).  Whatever such a
   call reports with a depth d > 0 obeys verdict_ok:  v > WinThreshold -> a forced win exists;  v < -WinThreshold -> a forced loss
   exists;  a forced win within d plies -> v > WinThreshold;  a forced loss within d plies -> v < -WinThreshold. *)
Theorem C05_table_win_sound_complete : forall U, touch_set U ->
  forall s cfg k p sk pv v d acc c, engine_inst U s -> precise cfg -> builtin_eval cfg -> ask_ok cfg U p ->
  analyze_cancel gen_basis cfg k s p = (sk, (pv, v, d, acc, c)) -> 0 < d -> verdict_ok gen_basis p v d.
Proof. exact table_win_sound_complete_inst. Qed.
Print Assumptions C05_table_win_sound_complete.

(* the same for any hash basis, any evaluator obeying eval_facts and any position sets obeying table_facts *)
Theorem C05_table_win_sound_complete_abstract : forall basis Pos, table_facts basis Pos ->
  forall s cfg k p sk pv v d acc c, engine basis Pos s -> precise cfg -> eval_facts cfg Pos -> call_ok cfg Pos p ->
  analyze_cancel basis cfg k s p = (sk, (pv, v, d, acc, c)) -> 0 < d -> verdict_ok basis p v d.
Proof. exact table_win_sound_complete. Qed.
Print Assumptions C05_table_win_sound_complete_abstract.

(* tt_valid_preserved: every state an engine can reach satisfies SJ and the table invariant *)
Theorem C05_table_valid_preserved : forall basis Pos, table_facts basis Pos ->
  forall s, engine basis Pos s -> SJ s /\ tt_valid basis (Pos 0%nat) s.
Proof. exact table_valid_preserved. Qed.
Print Assumptions C05_table_valid_preserved.

(* one zwSearch / pvSearch call at any node: the state afterwards satisfies the invariant (also when cut short) and, unless the flag was
   set, the value is right about forced results for the window it was asked with (tv_ok, vals_ok) *)
Theorem C05_table_search_verdict : forall basis cfg k Pos, precise cfg -> table_facts basis Pos -> eval_facts cfg Pos ->
  forall f d, (d < f)%nat -> tv_ok basis k Pos d (srch false basis cfg k f).
Proof. exact table_search_verdict. Qed.
Print Assumptions C05_table_search_verdict.

(* the specification side is executable *)
Theorem C05_table_spec_decidable : forall basis n p, (wb basis n p = true <-> W basis n p) /\ (lb basis n p = true <-> L basis n p).
Proof. exact table_spec_decidable. Qed.
Print Assumptions C05_table_spec_decidable.

(* a touched set by enumeration: the tree of depth D below a root, when no two of its positions share a hash *)
Theorem C05_table_touch_levels : forall root D, coll_free (lev root D) = true -> touch_set (Ulev root D).
Proof. exact table_touch_levels. Qed.
Print Assumptions C05_table_touch_levels.

(* Non-vacuity, computed on the instantiated model: rootw = 3x3 after a2 a1 b2 c3 (White wins by force in exactly three plies), rootb =
   rootw after b1; one engine with a 64-entry table; call 1 (depth 3, rootw) cancelled inside the 30th leaf evaluation, call 2 (depth 3,
   rootw) and call 3 (depth 2, rootb) uninterrupted on the states left before.  All hypotheses hold (touched set: the 3917 positions
   within three plies of rootw, pairwise different hashes), the theorems apply, and their conclusions agree with wb / lb. *)
Theorem C05_table_example :
  touch_set Uex /\ ask_ok cfg3t Uex rootw /\ ask_ok cfg2t Uex rootb /\
  verdict_ok gen_basis rootw (r_value (snd run2)) (r_depth (snd run2)) /\ WinThreshold < r_value (snd run2) /\
  (exists n, W gen_basis n rootw) /\ wb gen_basis 3 rootw = true /\
  verdict_ok gen_basis rootb (r_value (snd run3)) (r_depth (snd run3)) /\ r_value (snd run3) < - WinThreshold /\
  (exists n, L gen_basis n rootb) /\ lb gen_basis 2 rootb = true /\
  SJ (fst run3) /\ tt_valid gen_basis (PosT Uex 0%nat) (fst run3).
Proof. exact table_theorems_apply. Qed.
Print Assumptions C05_table_example.

Theorem C05_table_example_runs :
  (r_value (snd run1) = 660 /\ r_depth (snd run1) = 1 /\ r_canceled (snd run1) = true) /\
  (r_value (snd run2) = 805307244 /\ r_depth (snd run2) = 3 /\ r_canceled (snd run2) = false) /\
  (r_value (snd run3) = -805307244 /\ r_depth (snd run3) = 2 /\ r_canceled (snd run3) = false) /\
  hd move0 (r_pv (snd run2)) = {| mX := 1; mY := 0; mT := 2; mS := 0 |}.
Proof. exact runs_obs. Qed.
Print Assumptions C05_table_example_runs.

Theorem C05_table_example_class :
  wb gen_basis 3 rootw = true /\ wb gen_basis 2 rootw = false /\ lb gen_basis 2 rootb = true /\ lb gen_basis 1 rootb = false.
Proof. exact rootw_class. Qed.
Print Assumptions C05_table_example_class.



(* ================================================================================================================================
   THE TABLE CLAUSE, second round (proofs SearchTable6-8.v, SearchTableEx2.v)
   ================================================================================================================================ *)
Require Import SearchTable6 SearchTable7 SearchTable8 SearchTableEx2.
Require PnCong1.

(* the forced-result classification cannot tell apart two position records that differ only in a ply counter of the same parity on the
   same side of the opening (PnCong1.sim) *)
Theorem C05_table_sim_classification : forall basis q p, PnCong1.sim q p -> cls_eq basis q p.
Proof. exact table_sim_classification. Qed.
Print Assumptions C05_table_sim_classification.

(* a touched set of positions of one game needs only the syntactic NoCollision: equal Position.Hash implies Position.Equal *)
Theorem C05_table_game_touch : forall sz bwt stones caps, (3 <= sz <= 8)%N -> (2 * (stones + caps) <= 64)%N ->
  forall U, game_set sz bwt stones caps U -> touch_set U.
Proof. exact table_game_touch. Qed.
Print Assumptions C05_table_game_touch.

(* The table clause for the positions of ONE game.  game_set sz bwt stones caps U: U (S d) p -> U d p; legal successors of live
   U (S d) positions are in U d; every U 0 position is replayed from tak.New(sz, bwt, stones, caps) through accepted moves; two U 0
   positions with the same Position.Hash are Position.Equal.  ask_game cfg U p: ply + configured depth <= max_terminal_ply, game not
   over, configured depth < 40, p in U d for d up to the configured depth.  engine_game U s: fresh, or left by any history of such
   calls (precise, either built-in evaluator, cancelled anywhere or never). *)
Theorem C05_table_win_sound_complete_game : forall sz bwt stones caps, (3 <= sz <= 8)%N -> (0 < stones)%N -> (2 * (stones + caps) <= 64)%N ->
  forall U, game_set sz bwt stones caps U ->
  forall s cfg k p sk pv v d acc c, engine_game U s -> precise cfg -> builtin_eval cfg -> ask_game cfg U p ->
  analyze_cancel gen_basis cfg k s p = (sk, (pv, v, d, acc, c)) -> 0 < d -> verdict_ok gen_basis p v d.
Proof. exact table_win_sound_complete_game. Qed.
Print Assumptions C05_table_win_sound_complete_game.

(* the tree of depth D below a position of the game is such a set as soon as no two of its positions share a hash (boolean check) *)
Theorem C05_table_game_levels : forall sz bwt stones caps, (3 <= sz <= 8)%N -> (0 < stones)%N -> (2 * (stones + caps) <= 64)%N ->
  forall root D, in_game sz bwt stones caps root -> coll_free (lev root D) = true -> game_set sz bwt stones caps (Ulev root D).
Proof. exact table_game_levels. Qed.
Print Assumptions C05_table_game_levels.

(* non-vacuity of the one-game form: the example of C05_table_example inside the 3x3 game with 10 stones a side *)
Theorem C05_table_game_example :
  game_set 3 false 10 0 Uex /\ ask_game cfg3t Uex rootw /\ ask_game cfg2t Uex rootb /\
  verdict_ok gen_basis rootw (r_value (snd run2)) (r_depth (snd run2)) /\
  verdict_ok gen_basis rootb (r_value (snd run3)) (r_depth (snd run3)).
Proof. exact game_theorems_apply. Qed.
Print Assumptions C05_table_game_example.

(* SOUNDNESS for every configuration without null move (slide reduction, multi-cut, table of any size, sort on/off, either evaluator,
   cancelled anywhere or never, any history of such calls - precise ones included; no bound on the configured depth, any reported
   depth): sound_verdict basis p v := (v > WinThreshold -> exists n, W n p) /\ (v < -WinThreshold -> exists n, L n p).
   ask_s = ask_ok without the fuel bound.  PARTIAL with respect to the property's sentence only in that the completeness half
   ("a forced result within the searched depth is reported") is not claimed - it is false for these configurations by design. *)
Theorem C05_table_sound_any_config : forall U, touch_set U ->
  forall s cfg k p sk pv v d acc c, engine_sinst U s -> c_nonull cfg = true -> builtin_eval cfg -> ask_s cfg U p ->
  analyze_cancel gen_basis cfg k s p = (sk, (pv, v, d, acc, c)) -> sound_verdict gen_basis p v.
Proof. exact table_sound_any_config_inst. Qed.
Print Assumptions C05_table_sound_any_config.

Theorem C05_table_sound_any_config_abstract : forall basis Pos, table_facts basis Pos ->
  forall s cfg k p sk pv v d acc c, engine_s basis Pos s -> c_nonull cfg = true -> eval_facts cfg Pos -> call_s cfg Pos p ->
  analyze_cancel basis cfg k s p = (sk, (pv, v, d, acc, c)) -> sound_verdict basis p v.
Proof. exact table_sound_any_config. Qed.
Print Assumptions C05_table_sound_any_config_abstract.

(* per search: every value zwSearch / pvSearch returns - also after an abort, also out of fuel - is sound for its window *)
Theorem C05_table_sound_search : forall basis cfg k, c_nonull cfg = true -> forall Pos, table_facts basis Pos -> eval_facts cfg Pos ->
  forall f, ts_ok basis Pos (srch false basis cfg k f).
Proof. exact table_sound_search. Qed.
Print Assumptions C05_table_sound_search.

(* non-vacuity: slide reduction and multi-cut switched ON, no null move, 64-entry table, a cancelled call then an uninterrupted one *)
Theorem C05_table_sound_example :
  c_nonull cfgR = true /\ c_noreduce cfgR = false /\ c_multicut cfgR = true /\ ask_s cfgR Uex rootw /\
  sound_verdict gen_basis rootw (r_value (snd runR2)) /\ WinThreshold < r_value (snd runR2) /\ (exists n, W gen_basis n rootw).
Proof. exact sound_theorem_applies. Qed.
Print Assumptions C05_table_sound_example.


(* ================================================================================================================================
   SYMMETRY DE-DUPLICATION (Cfg.DedupSymmetry; model SearchDedup.v, proofs SearchDedup2-4.v, example SearchDedupEx.v)
   ================================================================================================================================ *)
Require Import SearchDedup SearchDedupInst SearchDedup2 SearchDedup3 SearchDedup4 SearchDedupEx.
Require Import5.

(* with the option off the model of SearchDedup.v IS Search.v's engine (Analyze and AnalyzeAll, any configuration, table, cancellation
   point, state) - so every theorem about Search.analyze_gen is a theorem about the dedup-capable model at dedup = false *)
Theorem C05_dedup_off : forall basis cfg k s p,
  analyze_gen_d basis cfg k false s p = analyze_gen false basis cfg k s p /\
  analyze_all_gen_d basis cfg k false s p = analyze_all_gen false basis cfg k s p.
Proof. exact dedup_off. Qed.
Print Assumptions C05_dedup_off.

(* exhaustive negamax is invariant under the eight rebuilt images, for an evaluator that is.  G p = OpeningFacts2.good p (C01's invariant,
   reserves = default set minus board, BlackWinsTies off, opening-ply invariant) /\ total p <= 64; imgk p k = the k-th image Symmetries builds *)
Theorem C05_dedup_nmx_image : forall eval, (forall p k, (k < 8)%nat -> G p -> eval (Import5.imgk p k) = eval p) ->
  forall d p k, (k < 8)%nat -> G p -> nmx gen_basis eval d (Import5.imgk p k) = nmx gen_basis eval d p.
Proof. exact nmx_image. Qed.
Print Assumptions C05_dedup_nmx_image.

Theorem C05_dedup_winner_symmetric : forall p k, (k < 8)%nat -> G p -> evaluate_winner (Import5.imgk p k) = evaluate_winner p.
Proof. exact ewinner_symmetric. Qed.
Print Assumptions C05_dedup_winner_symmetric.

(* the search part alone, for any basis / evaluator / position sets: relative to "a skipped successor has the value of the successor whose
   symmetry class put its hash into the cache" *)
Theorem C05_dedup_value_preserving_partial : forall basis cfg k dedup, c_nonull cfg = true -> c_noreduce cfg = true -> c_multicut cfg = false ->
  forall Pos : nat -> position -> Prop,
  (forall d p q, Pos (S d) p -> is_over p = false -> In q (children basis p) -> Pos d q) ->
  (forall d p m q, Pos (S d) p -> is_over p = false -> okm m -> try_move basis p m = Some q -> In q (children basis p)) ->
  (forall d p, Pos (S d) p -> is_over p = false -> children basis p <> []) ->
  (forall d p q q', Pos (S d) p -> is_over p = false -> move p < max_dedup -> In q (children basis p) -> In q' (children basis p) ->
     In (phash q) (sym_hashes basis q') -> nmx basis (c_eval cfg) d q = nmx basis (c_eval cfg) d q') ->
  (forall d p, Pos d p -> MinEval <= c_eval cfg p <= MaxEval) ->
  forall s p sk pv v d acc c, SI s -> (forall d0, (1 <= d0 <= 16)%nat -> Z.of_nat d0 <= c_depth cfg -> Pos d0 p) ->
  analyze_gen_d basis cfg k dedup s p = (sk, (pv, v, d, acc, c)) -> SI sk /\ (0 < d -> exact_result basis cfg p pv v d).
Proof. exact analyze_dedup_exactx. Qed.
Print Assumptions C05_dedup_value_preserving_partial.

(* dedup_value_preserving, EvaluateWinner: no hypothesis about the rules engine or the evaluator.  U = the positions the call may touch
   (closedU: successors of live U (S d) positions are in U d); dedup_nocollision (PosG U): for successors q, q' of one live node of the first
   four plies, Hash(q) = Hash(image q' k) implies q = image q' k. *)
Theorem C05_dedup_value_preserving_winner : forall cfg U, precise cfg -> c_eval cfg = evaluate_winner -> closedU U -> dedup_nocollision (PosG U) ->
  forall k dedup s p sk pv v d acc c, SI s -> base_ok p -> G p -> move p + 16 <= max_terminal_ply ->
  (forall d0, (1 <= d0 <= 16)%nat -> Z.of_nat d0 <= c_depth cfg -> U d0 p) ->
  analyze_gen_d gen_basis cfg k dedup s p = (sk, (pv, v, d, acc, c)) ->
  SI sk /\ (0 < d -> exact_result gen_basis cfg p pv v d).
Proof. exact analyze_dedup_exact_winner. Qed.
Print Assumptions C05_dedup_value_preserving_winner.

(* ... and for every evaluator that is invariant under the images and inside the root window (the property's "symmetric evaluator") *)
Theorem C05_dedup_value_preserving_sym : forall cfg, precise cfg ->
  (forall p k, (k < 8)%nat -> G p -> c_eval cfg (Import5.imgk p k) = c_eval cfg p) ->
  (forall d p, PosD d p -> MinEval <= c_eval cfg p <= MaxEval) -> forall U, closedU U -> dedup_nocollision (PosG U) ->
  forall k dedup s p sk pv v d acc c, SI s -> base_ok p -> G p -> move p + 16 <= max_terminal_ply ->
  (forall d0, (1 <= d0 <= 16)%nat -> Z.of_nat d0 <= c_depth cfg -> U d0 p) ->
  analyze_gen_d gen_basis cfg k dedup s p = (sk, (pv, v, d, acc, c)) ->
  SI sk /\ (0 < d -> exact_result gen_basis cfg p pv v d).
Proof. exact analyze_dedup_exact_64. Qed.
Print Assumptions C05_dedup_value_preserving_sym.

(* G holds along every game from a G position (tak.New under the default configuration: OpeningFacts2.new_pos_good) *)
Theorem C05_dedup_G_replay : forall ms p q, G p -> Reach1.replay p ms = Ok q -> G q.
Proof. exact G_replay. Qed.
Print Assumptions C05_dedup_G_replay.

(* non-vacuity: the empty 3x3 board, depth 2, EvaluateWinner, option ON: every hypothesis holds (dedup_nocollision by a boolean check over
   the tree), the theorem applies; the run with the option visits fewer positions than the run without and reports the same value = nmx *)
Theorem C05_dedup_example :
  precise cfg_dd /\ c_eval cfg_dd = evaluate_winner /\ closedU Udd /\ dedup_nocollision (PosG Udd) /\ base_ok start3 /\ G start3 /\
  exact_result gen_basis cfg_dd start3 (r_pv (snd run_on)) (r_value (snd run_on)) (r_depth (snd run_on)).
Proof. exact dedup_theorem_applies. Qed.
Print Assumptions C05_dedup_example.

Theorem C05_dedup_example_runs : r_value (snd run_on) = r_value (snd run_off) /\ r_depth (snd run_on) = 2 /\ r_depth (snd run_off) = 2 /\
  s_visited (r_acc_d (snd run_on)) < s_visited (r_acc_d (snd run_off)) /\ r_value (snd run_on) = nmx gen_basis evaluate_winner 2 start3.
Proof. exact runs_dd. Qed.
Print Assumptions C05_dedup_example_runs.


(* FINDING: the hypothesis eval_symmetric of C05_dedup_value_preserving_sym is FALSE for the built-in evaluator ai.MakeEvaluator(size, nil).
   px = 5x5 after a1 a3 b3 c1 c4 e1 d4 a5 e4 c5 c2 e5 d2 b4 e2 (Black to move, live, a position of a real game: G px): the evaluation is
   -1790 for px and six of its images and -1390 for images 4 and 6 (CountThreats counts the completion square c3 shared by two junctions once
   or twice depending on the order in which FloodGroups lists the groups).  The real evaluator returns the same eight numbers
   (notes/finding_default_eval_asymmetric.txt). *)
Require SearchDedupEx2.
Theorem C05_dedup_default_eval_not_symmetric :
  ~ (forall p k, (k < 8)%nat -> G p -> default_eval (Import5.imgk p k) = default_eval p).
Proof. exact SearchDedupEx2.default_eval_not_symmetric. Qed.
Print Assumptions C05_dedup_default_eval_not_symmetric.

Theorem C05_dedup_default_eval_asymmetric_values :
  map (fun k => default_eval (Import5.imgk SearchDedupEx2.px k)) (seq 0 8) = [-1790; -1790; -1790; -1790; -1390; -1790; -1390; -1790] /\
  default_eval SearchDedupEx2.px = -1790 /\ is_over SearchDedupEx2.px = false /\ move SearchDedupEx2.px = 15.
Proof. exact SearchDedupEx2.px_values. Qed.
Print Assumptions C05_dedup_default_eval_asymmetric_values.


(* ---- the soundness half of the table clause for the dedup-capable model (SearchDedupSound.v) ---- *)
Require SearchDedupSound SearchDedupSoundEx.

(* the forced-result classification is invariant under the eight rebuilt images *)
Theorem C05_dedup_cls_image : forall n p k, (k < 8)%nat -> G p ->
  (W gen_basis n (Import5.imgk p k) <-> W gen_basis n p) /\ (L gen_basis n (Import5.imgk p k) <-> L gen_basis n p).
Proof. exact SearchDedupSound.cls_image. Qed.
Print Assumptions C05_dedup_cls_image.

(* C05_table_sound_any_config for the model with Cfg.DedupSymmetry: every configuration without null move (slide reduction, multi-cut, any
   table, sort on/off, the option on or off per call), either built-in evaluator, any cancellation point, any history of such calls
   (engine_sd): a reported value beyond the threshold is a real forced result.  touch_set_d U = touch_set U /\ dedup_nocollision on U;
   ask_sd = ask_s /\ G (a position of a game under the default configuration). *)
Theorem C05_dedup_table_sound_any_config : forall U, SearchDedupSound.touch_set_d U ->
  forall s cfg k dedup p sk pv v d acc c, SearchDedupSound.engine_sd U s -> c_nonull cfg = true -> builtin_eval cfg -> SearchDedupSound.ask_sd U cfg p ->
  analyze_gen_d gen_basis cfg k dedup s p = (sk, (pv, v, d, acc, c)) -> sound_verdict gen_basis p v.
Proof. exact SearchDedupSound.analyze_d_sound_any_inst. Qed.
Print Assumptions C05_dedup_table_sound_any_config.

(* non-vacuity: empty 3x3 board, depth 2, 64-entry table, slide reduction and multi-cut ON, no null move, the option ON; a cancelled call,
   then an uninterrupted one *)
Theorem C05_dedup_table_sound_example :
  c_nonull SearchDedupSoundEx.cfgRd = true /\ c_noreduce SearchDedupSoundEx.cfgRd = false /\ c_multicut SearchDedupSoundEx.cfgRd = true /\
  SearchDedupSound.touch_set_d Udd /\ SearchDedupSound.ask_sd Udd SearchDedupSoundEx.cfgRd start3 /\
  r_canceled (snd SearchDedupSoundEx.runS1) = true /\ r_depth (snd SearchDedupSoundEx.runS2) = 2 /\
  sound_verdict gen_basis start3 (r_value (snd SearchDedupSoundEx.runS2)).
Proof. exact SearchDedupSoundEx.dedup_sound_applies. Qed.
Print Assumptions C05_dedup_table_sound_example.
