(* C08 — equality and hash depend only on board and side to move, whatever the path.
   Only statements, `exact`, and Print Assumptions live here. *)
From Coq Require Import NArith ZArith List Bool.
Require Import Board Stack Rules Move Refine RefinePlace RefinePlace2 RefinePlace3 Slide1 Slide2 Slide3 Slide4 Slide5 Slide6 Slide7 HashInv.
Require Import GameOver Alloc Generated.Consts.
Require Import Preserve1 Preserve5 Preserve6 Reach1 HashMove1 Canon8 PreserveEx.
Import ListNotations.

(* Vocabulary: pos_ok (Preserve1.v) is the invariant of positions that tak.New establishes and every successful move
   preserves (C01_new_ok, C01_move_exact, C01_replay_refines in Properties/C01.v): board_ok + byte reserves + canonical
   stack words + no bitboard bit outside the board + hash = fnvBasis xor XOR_i hash_at i.  mv is the repaired
   MovePreallocated with the real per-square hash hsq; replay folds it over raw moves; new_pos is tak.New.
   hash_good p := hash p = fnvBasis xor XOR over all squares of hash_at;  same_side p q := same side to move. *)

(* The core of the incremental hash, for ANY per-square hash function hf and any base value: the bracket
   h ^= hashAt(i); <mutate Height/Stacks of square i only>; h ^= hashAt(i)  keeps  hash = base xor XOR_i hash_at i. *)
Theorem C08_bracket_preserves : forall (hf : N -> N -> N -> N) (base : N) n b hs' st' i,
  (N.to_nat i < n)%nat -> hash_inv hf base n b ->
  (forall j, (j < n)%nat -> j <> N.to_nat i ->
     nthN hs' (N.of_nat j) = nthN (bhs b) (N.of_nat j) /\ nthN st' (N.of_nat j) = nthN (bst b) (N.of_nat j)) ->
  N.lxor (N.lxor (bh b) (hash_at hf (bhs b) (bst b) i)) (hash_at hf hs' st' i) = N.lxor base (hsum hf hs' st' n).
Proof. exact bracket_preserves. Qed.
Print Assumptions C08_bracket_preserves.

(* INVARIANT OF MOVES: through the whole of MovePreallocated (origin bracket, every drop bracket, placements).
   No hypothesis on the heights of the result. *)
Theorem C08_hash_invariant_move : forall p m p', pos_ok p -> mT m <> 1%N -> mv p m = Ok p' -> hash_good p'.
Proof. exact hash_invariant_move. Qed.
Print Assumptions C08_hash_invariant_move.

(* the incremental hash equals the from-scratch value (GameOver.scratch_hash = what FromSquares computes) *)
Theorem C08_scratch_hash_ok : forall p, pos_ok p -> scratch_hash gen_basis p = hash p.
Proof. exact scratch_hash_ok. Qed.
Print Assumptions C08_scratch_hash_ok.

Theorem C08_scratch_hash_move : forall p m p', pos_ok p -> mT m <> 1%N -> mv p m = Ok p' -> scratch_hash gen_basis p' = hash p'.
Proof. exact scratch_hash_move. Qed.
Print Assumptions C08_scratch_hash_move.

Corollary C08_scratch_hash_reachable : forall sz bwt stones caps ms p,
  (3 <= sz <= 8)%N -> (2 * (stones + caps) <= 64)%N -> no_pass ms ->
  replay (new_pos sz bwt stones caps) ms = Ok p -> scratch_hash gen_basis p = hash p.
Proof. exact scratch_hash_reachable. Qed.
Print Assumptions C08_scratch_hash_reachable.

(* CANONICAL REPRESENTATION: the same squares are represented by the same words. *)
Theorem C08_representation_canonical : forall p q, pos_ok p -> pos_ok q -> size p = size q -> sq (abs p) = sq (abs q) ->
  White p = White q /\ Move.Black p = Move.Black q /\ Standing p = Standing q /\ Caps p = Caps q /\
  Height p = Height q /\ Stacks p = Stacks q /\ hash p = hash q.
Proof. exact representation_canonical. Qed.
Print Assumptions C08_representation_canonical.

(* Position.Equal is sound ... *)
Theorem C08_equal_sound : forall p q, pos_ok p -> pos_ok q -> equal p q = true ->
  size p = size q /\ sq (abs p) = sq (abs q) /\ same_side p q /\ Rules.to_move (abs p) = Rules.to_move (abs q).
Proof. exact equal_sound. Qed.
Print Assumptions C08_equal_sound.

(* ... and complete, and Hash() then agrees: reserves, ply, tie-break flag and history do not matter *)
Theorem C08_equal_complete : forall p q, pos_ok p -> pos_ok q -> size p = size q -> sq (abs p) = sq (abs q) -> same_side p q ->
  equal p q = true /\ hash_of p = hash_of q.
Proof. exact equal_complete. Qed.
Print Assumptions C08_equal_complete.

(* path independence from tak.New (games of at most 64 pieces: sizes 3..6 with the default counts) *)
Corollary C08_equal_hash_path_independent : forall sz bwt stones caps ms1 ms2 p q,
  (3 <= sz <= 8)%N -> (2 * (stones + caps) <= 64)%N -> no_pass ms1 -> no_pass ms2 ->
  replay (new_pos sz bwt stones caps) ms1 = Ok p -> replay (new_pos sz bwt stones caps) ms2 = Ok q ->
  sq (abs p) = sq (abs q) -> same_side p q ->
  equal p q = true /\ hash_of p = hash_of q /\ hash p = hash q.
Proof. exact equal_hash_path_independent. Qed.
Print Assumptions C08_equal_hash_path_independent.

(* NON-VACUITY: two different move orders (a transposition on 5x5 with a wall and a capstone) satisfy every hypothesis *)
Theorem C08_nonvacuous_transposition : ms_a <> ms_b /\ replay start5 ms_a = Ok pa /\ replay start5 ms_b = Ok pb /\
  pos_ok pa /\ pos_ok pb /\ size pa = size pb /\ sq (abs pa) = sq (abs pb) /\ same_side pa pb /\
  equal pa pb = true /\ hash_of pa = hash_of pb.
Proof. exact ex_transposition. Qed.
Print Assumptions C08_nonvacuous_transposition.

(* NOT PROVED (and not provable): "no two of the millions of explored positions share a hash" is a statistical
   statement about a 64-bit mixer; the harness runs a census on the implementation (exploration, not proof). *)
