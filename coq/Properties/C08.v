(* C08 — equality and hash depend only on board and side to move, whatever the path.
   Only statements, `exact`, and Print Assumptions live here. *)
From Coq Require Import NArith ZArith List Bool.
Require Import Board Stack Rules Move Refine RefinePlace RefinePlace2 RefinePlace3 Slide1 Slide2 Slide3 Slide4 Slide5 Slide6 Slide7 HashInv.

(* The incremental hash: for ANY per-square hash function hf and any base value, if the running hash equals
   base xor (XOR over all n squares of hash_at), then after  h ^= hashAt(i); <mutate Height/Stacks of square i
   only>; h ^= hashAt(i)  it again equals base xor the XOR over the new contents.  This is the bracket at the
   origin and at every drop square of MovePreallocated.
   (C08_partial: plumbing this through the whole of move_prealloc, canonical representation
   `same squares -> same bitboards/heights/stacks/hash`, and equal_sound are still to do - DESIGN 5.8;
   the clause "no two of the millions of explored positions share a hash" is statistical and only explored.) *)
Theorem C08_bracket_preserves_partial : forall (hf : N -> N -> N -> N) (base : N) n b hs' st' i,
  (N.to_nat i < n)%nat -> hash_inv hf base n b ->
  (forall j, (j < n)%nat -> j <> N.to_nat i ->
     nthN hs' (N.of_nat j) = nthN (bhs b) (N.of_nat j) /\ nthN st' (N.of_nat j) = nthN (bst b) (N.of_nat j)) ->
  N.lxor (N.lxor (bh b) (hash_at hf (bhs b) (bst b) i)) (hash_at hf hs' st' i) = N.lxor base (hsum hf hs' st' n).
Proof. exact bracket_preserves. Qed.
Print Assumptions C08_bracket_preserves_partial.
