(* C08 — equality and hash depend only on board and side to move, whatever the path.
   Only statements, `exact`, and Print Assumptions live here. *)
From Coq Require Import NArith ZArith List Bool.
Require Import Board Stack Rules Move Refine RefinePlace RefinePlace2 RefinePlace3 Slide1 Slide2 Slide3 Slide4 Slide5 Slide6 Slide7 HashInv.
Require Import GameOver Alloc Generated.Consts.
Require Import Preserve1 Preserve5 Preserve6 Reach1 HashMove1 Canon8 PreserveEx.
Require Tps Symmetry SymCode1 Sym.
Require Import TpsFacts5 Import1 Import2 Import6.
Import ListNotations.

(* Vocabulary: pos_ok (Preserve1.v) is the invariant of positions that tak.New establishes and every successful move
   preserves (C01_new_ok, C01_move_exact, C01_replay_refines in Properties/C01.v): board_ok + byte reserves + canonical
   stack words + no bitboard bit outside the board + hash = fnvBasis xor XOR_i hash_at i.  mv is the repaired
   MovePreallocated with the real per-square hash hsq; replay folds it over raw moves; new_pos is tak.New.
   hash_good p := hash p = fnvBasis xor XOR over all squares of hash_at;  same_side p q := same side to move. *)

(* The core of the incremental hash, for ANY per-square hash function hf and any base value: the bracket
   h ^= hashAt(i); <mutate Height/Stacks of square i only>; h ^= hashAt(i)  keeps  hash = base xor XOR_i hash_at i. *)
Theorem C08_bracket_preserves : forall (hf : N -> N -> N -> N) (base : N) n b hs' st' i,
  (N.to_nat i < n)%nat -> hash_inv hf base n b ->
  (forall j, (j < n)%nat -> j <> N.to_nat i ->
     nthN hs' (N.of_nat j) = nthN (bhs b) (N.of_nat j) /\ nthN st' (N.of_nat j) = nthN (bst b) (N.of_nat j)) ->
  N.lxor (N.lxor (bh b) (hash_at hf (bhs b) (bst b) i)) (hash_at hf hs' st' i) = N.lxor base (hsum hf hs' st' n).
Proof. exact bracket_preserves. Qed.
Print Assumptions C08_bracket_preserves.

(* INVARIANT OF MOVES: through the whole of MovePreallocated (origin bracket, every drop bracket, placements).
   No hypothesis on the heights of the result. *)
Theorem C08_hash_invariant_move : forall p m p', pos_ok p -> mT m <> 1%N -> mv p m = Ok p' -> hash_good p'.
Proof. exact hash_invariant_move. Qed.
Print Assumptions C08_hash_invariant_move.

(* the incremental hash equals the from-scratch value (GameOver.scratch_hash = what FromSquares computes) *)
Theorem C08_scratch_hash_ok : forall p, pos_ok p -> scratch_hash gen_basis p = hash p.
Proof. exact scratch_hash_ok. Qed.
Print Assumptions C08_scratch_hash_ok.

Theorem C08_scratch_hash_move : forall p m p', pos_ok p -> mT m <> 1%N -> mv p m = Ok p' -> scratch_hash gen_basis p' = hash p'.
Proof. exact scratch_hash_move. Qed.
Print Assumptions C08_scratch_hash_move.

Corollary C08_scratch_hash_reachable : forall sz bwt stones caps ms p,
  (3 <= sz <= 8)%N -> (2 * (stones + caps) <= 64)%N -> no_pass ms ->
  replay (new_pos sz bwt stones caps) ms = Ok p -> scratch_hash gen_basis p = hash p.
Proof. exact scratch_hash_reachable. Qed.
Print Assumptions C08_scratch_hash_reachable.

(* CANONICAL REPRESENTATION: the same squares are represented by the same words. *)
Theorem C08_representation_canonical : forall p q, pos_ok p -> pos_ok q -> size p = size q -> sq (abs p) = sq (abs q) ->
  White p = White q /\ Move.Black p = Move.Black q /\ Standing p = Standing q /\ Caps p = Caps q /\
  Height p = Height q /\ Stacks p = Stacks q /\ hash p = hash q.
Proof. exact representation_canonical. Qed.
Print Assumptions C08_representation_canonical.

(* Position.Equal is sound ... *)
Theorem C08_equal_sound : forall p q, pos_ok p -> pos_ok q -> equal p q = true ->
  size p = size q /\ sq (abs p) = sq (abs q) /\ same_side p q /\ Rules.to_move (abs p) = Rules.to_move (abs q).
Proof. exact equal_sound. Qed.
Print Assumptions C08_equal_sound.

(* ... and complete, and Hash() then agrees: reserves, ply, tie-break flag and history do not matter *)
Theorem C08_equal_complete : forall p q, pos_ok p -> pos_ok q -> size p = size q -> sq (abs p) = sq (abs q) -> same_side p q ->
  equal p q = true /\ hash_of p = hash_of q.
Proof. exact equal_complete. Qed.
Print Assumptions C08_equal_complete.

(* path independence from tak.New (games of at most 64 pieces: sizes 3..6 with the default counts) *)
Corollary C08_equal_hash_path_independent : forall sz bwt stones caps ms1 ms2 p q,
  (3 <= sz <= 8)%N -> (2 * (stones + caps) <= 64)%N -> no_pass ms1 -> no_pass ms2 ->
  replay (new_pos sz bwt stones caps) ms1 = Ok p -> replay (new_pos sz bwt stones caps) ms2 = Ok q ->
  sq (abs p) = sq (abs q) -> same_side p q ->
  equal p q = true /\ hash_of p = hash_of q /\ hash p = hash q.
Proof. exact equal_hash_path_independent. Qed.
Print Assumptions C08_equal_hash_path_independent.

(* NON-VACUITY: two different move orders (a transposition on 5x5 with a wall and a capstone) satisfy every hypothesis *)
Theorem C08_nonvacuous_transposition : ms_a <> ms_b /\ replay start5 ms_a = Ok pa /\ replay start5 ms_b = Ok pb /\
  pos_ok pa /\ pos_ok pb /\ size pa = size pb /\ sq (abs pa) = sq (abs pb) /\ same_side pa pb /\
  equal pa pb = true /\ hash_of pa = hash_of pb.
Proof. exact ex_transposition. Qed.
Print Assumptions C08_nonvacuous_transposition.

(* ==================== HOWEVER PRODUCED (Import6.v, on top of Import1-4.v) ====================
   produced (Import6.v) is the inductive closure of the ways a position comes into being:
     pr_new      tak.New, any size 3..8, tie-break flag and byte piece counts;
     pr_squares  tak.FromSquares (on tak.New with the default counts) of a fit_board: n x n squares, 3 <= n <= 8, each [] or of the shape
                 Position.At produces and at most 64 high, ANY ply number, no condition on the piece counts;
     pr_tps      ptn.ParseTPS of any accepted text none of whose stacks is above 64;
     pr_image    the position symmetry.Symmetries rebuilds from a produced one (At of every square permuted by a coordinate map, FromSquares);
     pr_move     Position.Move (not Pass) from a produced position, when the result has no stack above 64 (the representation limit);
     pr_pass     Position.Move of a Pass (the null move of the search; Alloc.amv is the executed model of MovePreallocated incl. Pass).
   same_at p q   Position.At returns the same square at every index of the board ("the same stacks on every square"). *)
Theorem C08_produced_ok : forall p, produced p -> pos_ok p.
Proof. exact produced_ok. Qed.
Print Assumptions C08_produced_ok.

(* replays from tak.New are produced (games of at most 64 pieces; or any game while no stack on the way exceeds 64) *)
Theorem C08_produced_reachable : forall sz bwt stones caps ms p, (3 <= sz <= 8)%N -> (2 * (stones + caps) <= 64)%N -> no_pass ms ->
  replay (new_pos sz bwt stones caps) ms = Ok p -> produced p.
Proof. exact produced_reachable. Qed.
Print Assumptions C08_produced_reachable.

Theorem C08_produced_replay : forall ms p q, produced p -> no_pass ms ->
  (forall ms1 ms2 r, ms = ms1 ++ ms2 -> replay p ms1 = Ok r -> heights64 r) -> replay p ms = Ok q -> produced q.
Proof. exact produced_replay. Qed.
Print Assumptions C08_produced_replay.

(* At shows the same squares iff the abstract boards agree *)
Theorem C08_same_at_abs : forall p q, pos_ok p -> pos_ok q -> size p = size q -> (same_at p q <-> sq (abs p) = sq (abs q)).
Proof. exact same_at_abs. Qed.
Print Assumptions C08_same_at_abs.

(* THE PROPERTY: two positions, each produced in any of these ways (any mix: a TPS import moved on, rotated, ...), with the same size, the
   same stacks on every square and the same side to move are Equal, have the same Hash() and the same incremental hash ... *)
Theorem C08_equal_hash_however_produced : forall p q, produced p -> produced q ->
  size p = size q -> same_at p q -> same_side p q ->
  equal p q = true /\ hash_of p = hash_of q /\ hash p = hash q.
Proof. exact equal_hash_however_produced. Qed.
Print Assumptions C08_equal_hash_however_produced.

(* ... and positions that differ in size, in any piece or in the side to move compare unequal *)
Theorem C08_equal_sound_produced : forall p q, produced p -> produced q -> equal p q = true ->
  size p = size q /\ same_at p q /\ same_side p q.
Proof. exact equal_sound_produced. Qed.
Print Assumptions C08_equal_sound_produced.

(* NON-VACUITY: p14 reached by replaying 14 plies, the position parsed from its TPS text "2,x3,1/x4,1C/x4,2S/x4,22221/2,x4 1 8" (tps_p14),
   and p14 rotated (k = 6) and rotated back (k = 7) are all produced, Equal, with the same Hash(); the rotated position is not Equal *)
Theorem C08_nonvacuous_however_produced : exists q r,
  Tps.format_tps p14 = tps_p14 /\ Tps.parse_tps gen_basis tps_p14 = Ok q /\
  r = Symmetry.image gen_basis (Symmetry.image gen_basis p14 (SymCode1.csym 5 6)) (SymCode1.csym 5 7) /\
  produced p14 /\ produced q /\ produced r /\
  equal p14 q = true /\ hash_of p14 = hash_of q /\ equal q r = true /\ hash_of q = hash_of r /\
  equal p14 (Symmetry.image gen_basis p14 (SymCode1.csym 5 6)) = false.
Proof. exact ex_however_produced. Qed.
Print Assumptions C08_nonvacuous_however_produced.

(* PASS: the null move changes nothing but the ply counter ... *)
Theorem C08_pass_only_ply : forall p m p', mT m = 1%N -> Alloc.amv hsq p m = Ok p' ->
  size p' = size p /\ Slide2.bview p' = Slide2.bview p /\ move p' = (move p + 1)%Z /\
  whiteStones p' = whiteStones p /\ whiteCaps p' = whiteCaps p /\ blackStones p' = blackStones p /\ blackCaps p' = blackCaps p.
Proof. exact amv_pass. Qed.
Print Assumptions C08_pass_only_ply.

(* ... so the position after a pass is Equal to, and has the Hash() of, the same board with that side to move produced in any other
   way (q: e.g. FromSquares with the next ply number), and is NOT Equal to the position it came from *)
Theorem C08_pass_equal_hash : forall p m p' q, produced p -> mT m = 1%N -> Alloc.amv hsq p m = Ok p' -> produced q ->
  size p = size q -> same_at p q -> same_side p' q ->
  equal p' q = true /\ hash_of p' = hash_of q /\ equal p' p = false.
Proof. exact pass_equal_hash. Qed.
Print Assumptions C08_pass_equal_hash.

(* NOT PROVED (and not provable): "no two of the millions of explored positions share a hash" is a statistical
   statement about a 64-bit mixer; the harness runs a census on the implementation (exploration, not proof). *)

(* ================================================================================================================================
   "However produced" under ANY configuration (wave 4, worker build4-symcfg; proofs ImportCfg1.v, ImportCfg6.v): Import6.produced
   extended by FromSquares and the symmetry images under arbitrary piece counts and BlackWinsTies.
   ================================================================================================================================ *)
Require Import Rules Board Move GameOver Refine Preserve1 Canon8 Tps TpsCfg Symmetry SymmetryCfg Import1 Import6 ImportCfg1 ImportCfg6.
Close Scope Z_scope. Close Scope N_scope.

Theorem C08_produced_cfg_ok : forall p, produced_cfg p -> pos_ok p.
Proof. exact produced_cfg_ok. Qed.
Print Assumptions C08_produced_cfg_ok.

(* Equal and Hash depend only on size, squares and side to move for positions produced by ANY mix of tak.New, FromSquares / the symmetry
   images under ANY configuration (piece counts, BlackWinsTies), ParseTPS, moves and Pass: the configuration is not looked at *)
Theorem C08_equal_hash_however_produced_cfg : forall p q, produced_cfg p -> produced_cfg q ->
  size p = size q -> same_at p q -> same_side p q ->
  equal p q = true /\ hash_of p = hash_of q /\ hash p = hash q.
Proof. exact equal_hash_however_produced_cfg. Qed.
Print Assumptions C08_equal_hash_however_produced_cfg.

Theorem C08_equal_sound_produced_cfg : forall p q, produced_cfg p -> produced_cfg q -> equal p q = true ->
  size p = size q /\ same_at p q /\ same_side p q.
Proof. exact equal_sound_produced_cfg. Qed.
Print Assumptions C08_equal_sound_produced_cfg.

Theorem C08_example_however_produced_cfg :
  let q0 := from_squares gen_basis 5%N ex_board5 13%Z in
  let q1 := from_squares_cfg gen_basis 5%N 7%N 3%N true ex_board5 13%Z in
  produced_cfg q0 /\ produced_cfg q1 /\ produced_cfg (image_cfg gen_basis 7%N 3%N q1 (SymCode1.csym 5 6)) /\ q0 <> q1 /\
  equal q0 q1 = true /\ hash_of q0 = hash_of q1.
Proof. exact ex_however_produced_cfg. Qed.
Print Assumptions C08_example_however_produced_cfg.

