(* C11 — move notations (PTN short / long, playtak wire) round-trip and agree.
   Only statements, `exact`, and Print Assumptions live here. *)
From Coq Require Import NArith ZArith List Bool.
Require Import PtnMove Playtak PtnMoveFacts PtnMoveFacts2.
Import ListNotations.

(* legal_shape m: a placement on the 8x8 grid with Slides = 0, or a slide from a grid square in one of
   the four directions whose drop list is non-empty, has every drop >= 1 and carry <= 8.  Every legal move
   on every board size 3..8 has this shape (64 squares x (3 + 4 x 255 compositions) = 65 472 values);
   the theorems are proved by complete enumeration of that finite domain and lifted to the quantifier. *)
Theorem C11_ptn_short_roundtrip : forall m, legal_shape m -> parse_move (format_move false m) = Ok m.
Proof. exact (ptn_roundtrip false). Qed.
Print Assumptions C11_ptn_short_roundtrip.

Theorem C11_ptn_long_roundtrip : forall m, legal_shape m -> parse_move (format_move true m) = Ok m.
Proof. exact (ptn_roundtrip true). Qed.
Print Assumptions C11_ptn_long_roundtrip.

(* the playtak wire spelling; end_on_grid: the slide's last square is on the 8x8 grid (true of every legal move) *)
Theorem C11_server_roundtrip : forall m, legal_shape m -> end_on_grid m = true -> parse_server (format_server m) = Ok m.
Proof. exact server_roundtrip. Qed.
Print Assumptions C11_server_roundtrip.

Corollary C11_notations_agree : forall m, legal_shape m -> end_on_grid m = true ->
  parse_move (format_move false m) = parse_move (format_move true m) /\
  parse_move (format_move false m) = parse_server (format_server m).
Proof. exact notations_agree. Qed.
Print Assumptions C11_notations_agree.

(* Annotation suffixes never change the parsed move: after the canonical text of a legal-shaped move, an annotation
   byte (one of ! ? * ') followed by ARBITRARY bytes parses to the same move.  Structural proof (the parser stops at
   the first annotation byte: parse_move_annot_suffix) on top of the enumerated round trip. *)
Theorem C11_annotations_ignored : forall long m c rest, legal_shape m -> is_annot c = true ->
  parse_move (format_move long m ++ c :: rest) = Ok m.
Proof. exact annotations_ignored. Qed.
Print Assumptions C11_annotations_ignored.

(* the structural half on its own, for every byte list s (not only canonical texts) *)
Theorem C11_annot_suffix_any_text : forall s c rest m, is_annot c = true ->
  parse_move s = Ok m -> parse_move (s ++ c :: rest) = Ok m.
Proof. exact parse_move_annot_suffix. Qed.
Print Assumptions C11_annot_suffix_any_text.

(* No silent different move (support for C13): whatever the PTN parser accepts, for any byte list, is a
   legal-shaped move -- square on the 8x8 grid, one of the seven real type codes, Slides = 0 for placements,
   a non-empty drop list with drops >= 1 and total <= 8 for slides. *)
Theorem C11_parse_move_legal_shape : forall s m, parse_move s = Ok m -> legal_shape m.
Proof. exact parse_move_legal_shape. Qed.
Print Assumptions C11_parse_move_legal_shape.

Corollary C11_parse_move_fields : forall s m, parse_move s = Ok m ->
  (0 <= mX m < 8)%Z /\ (0 <= mY m < 8)%Z /\ (2 <= mT m <= 8)%N.
Proof. exact parse_move_fields. Qed.
Print Assumptions C11_parse_move_fields.

(* so every accepted text denotes a move whose canonical spellings parse back to it *)
Corollary C11_parse_format_parse : forall long s m, parse_move s = Ok m -> parse_move (format_move long m) = Ok m.
Proof. exact parse_format_parse. Qed.
Print Assumptions C11_parse_format_parse.

(* The playtak wire parser: accepted squares are on the grid (A..H / 1..8), the type is a real one, placements
   have Slides = 0, slide drops are <= 8.  NOT guaranteed (false of the code): drops >= 1, number of drops equal to
   the distance, total <= 8 -- "M A1 B1 0" is accepted (PtnMoveFacts2.parse_server_accepts_zero_drop); such moves
   are refused later by Position.Move. *)
Theorem C11_parse_server_shape : forall s m, parse_server s = Ok m ->
  (0 <= mX m < 8)%Z /\ (0 <= mY m < 8)%Z /\
  (((mT m = PlaceFlat \/ mT m = PlaceStanding \/ mT m = PlaceCapstone) /\ mS m = 0%N) \/
   ((mT m = SlideLeft \/ mT m = SlideRight \/ mT m = SlideUp \/ mT m = SlideDown) /\
    exists ds, Forall (fun d => (d <= 8)%N) ds /\ mS m = mk_slides ds)).
Proof. exact parse_server_shape. Qed.
Print Assumptions C11_parse_server_shape.

Corollary C11_parse_server_fields : forall s m, parse_server s = Ok m ->
  (0 <= mX m < 8)%Z /\ (0 <= mY m < 8)%Z /\ (2 <= mT m <= 8)%N.
Proof. exact parse_server_fields. Qed.
Print Assumptions C11_parse_server_fields.
