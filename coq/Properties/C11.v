(* C11 — move notations (PTN short / long, playtak wire) round-trip and agree.
   Only statements, `exact`, and Print Assumptions live here. *)
From Coq Require Import NArith ZArith List Bool.
Require Import PtnMove Playtak PtnMoveFacts.
Import ListNotations.

(* legal_shape m: a placement on the 8x8 grid with Slides = 0, or a slide from a grid square in one of
   the four directions whose drop list is non-empty, has every drop >= 1 and carry <= 8.  Every legal move
   on every board size 3..8 has this shape (64 squares x (3 + 4 x 255 compositions) = 65 472 values);
   the theorems are proved by complete enumeration of that finite domain and lifted to the quantifier. *)
Theorem C11_ptn_short_roundtrip : forall m, legal_shape m -> parse_move (format_move false m) = Ok m.
Proof. exact (ptn_roundtrip false). Qed.
Print Assumptions C11_ptn_short_roundtrip.

Theorem C11_ptn_long_roundtrip : forall m, legal_shape m -> parse_move (format_move true m) = Ok m.
Proof. exact (ptn_roundtrip true). Qed.
Print Assumptions C11_ptn_long_roundtrip.

(* the playtak wire spelling; end_on_grid: the slide's last square is on the 8x8 grid (true of every legal move) *)
Theorem C11_server_roundtrip : forall m, legal_shape m -> end_on_grid m = true -> parse_server (format_server m) = Ok m.
Proof. exact server_roundtrip. Qed.
Print Assumptions C11_server_roundtrip.

Corollary C11_notations_agree : forall m, legal_shape m -> end_on_grid m = true ->
  parse_move (format_move false m) = parse_move (format_move true m) /\
  parse_move (format_move false m) = parse_server (format_server m).
Proof. exact notations_agree. Qed.
Print Assumptions C11_notations_agree.

(* C11_partial: `annotations_ignored` (forall rest, annot c -> parse_move (format_move[_long] m ++ c :: rest) = Ok m)
   quantifies over arbitrary suffixes and is not yet a theorem; the correspondence checks ten suffix shapes on
   every move of the enumeration. *)
