(* C12 — PTN game files render/parse losslessly and replay to the right position.
   Only statements, `exact`, and Print Assumptions live here.  Models: PtnFile.v; proofs: PtnFileIter.v, PtnFileFacts.v. *)
From Coq Require Import NArith ZArith List Bool.
Require Import Board Move GameOver PtnMove Playtak Tps PtnFile PtnFileIter.
Import ListNotations.

(* Once Next has returned false - because a recorded move was illegal (error latch) or the game was over / the record
   exhausted (over latch) - every later call returns false and leaves the iterator unchanged. *)
Theorem C12_iterator_stops : forall basis it it',
  next basis it = Ok (false, it') -> forall k, next_n basis k it' = Ok (false, it').
Proof. exact iterator_stops. Qed.
Print Assumptions C12_iterator_stops.

(* What sets the latches: an illegal pending move makes Next return false with the error set; a pending move after which
   the game is over is applied and sets the over latch (Next returns true once more, for the final position). *)
Theorem C12_iterator_illegal_move : forall basis it m,
  it_err it = false -> it_over it = false -> it_pending it = Some m ->
  pmove basis (it_pos it) (to_rmove m) = Err -> next basis it = Ok (false, set_err it).
Proof. exact next_illegal. Qed.
Print Assumptions C12_iterator_illegal_move.

Theorem C12_iterator_game_over : forall basis it m q c,
  it_err it = false -> it_over it = false -> it_pending it = Some m ->
  pmove basis (it_pos it) (to_rmove m) = Ok q -> game_over q = Some (true, c) ->
  next basis it = Ok (true, set_over (applied it q)).
Proof. exact next_game_over. Qed.
Print Assumptions C12_iterator_game_over.

(* PositionAtMove (the look-ahead iterator driven by the loop of PositionAtMove) computes exactly the specification walk
   spec_position_at of PtnFile.v (15 lines: keep the last marker; the answer to (n, c), n > 0, is the first turn point - the position
   before a recorded move, or the position at which the walk stops - whose marker is n and whose side to move is c; n = 0 asks for the
   position at which the walk stops; the walk stops after a move that ends the game; an illegal move, a request beyond the record, and
   NoColor with n <> 0 are errors), values and error cases alike, for every game structure, move number and colour. *)
Theorem C12_position_at_move_spec : forall basis g n c,
  position_at_move basis g n c = spec_position_at basis g n c.
Proof. exact position_at_move_spec. Qed.
Print Assumptions C12_position_at_move_spec.
