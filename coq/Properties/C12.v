(* C12 — PTN game files render/parse losslessly and replay to the right position.
   Only statements, `exact`, and Print Assumptions live here.  Models: PtnFile.v; proofs: PtnFileIter.v (iterator), PtnFileFacts.v / PtnFileEnum.v / PtnFileRoundtrip.v (tokeniser),
   PtnFileTotal.v / PtnFileSafe.v / PtnFileTotalThm.v (totality). *)
From Coq Require Import NArith ZArith List Bool.
Require Import Board Move GameOver PtnMove Playtak Tps PtnFile PtnFileIter PtnFileFacts PtnFileEnum PtnFileRoundtrip PtnFileTotal PtnFileSafe TotalFacts PtnFileTotalThm.
Import ListNotations.

(* Once Next has returned false - because a recorded move was illegal (error latch) or the game was over / the record
   exhausted (over latch) - every later call returns false and leaves the iterator unchanged. *)
Theorem C12_iterator_stops : forall basis it it',
  next basis it = Ok (false, it') -> forall k, next_n basis k it' = Ok (false, it').
Proof. exact iterator_stops. Qed.
Print Assumptions C12_iterator_stops.

(* What sets the latches: an illegal pending move makes Next return false with the error set; a pending move after which
   the game is over is applied and sets the over latch (Next returns true once more, for the final position). *)
Theorem C12_iterator_illegal_move : forall basis it m,
  it_err it = false -> it_over it = false -> it_pending it = Some m ->
  pmove basis (it_pos it) (to_rmove m) = Err -> next basis it = Ok (false, set_err it).
Proof. exact next_illegal. Qed.
Print Assumptions C12_iterator_illegal_move.

Theorem C12_iterator_game_over : forall basis it m q c,
  it_err it = false -> it_over it = false -> it_pending it = Some m ->
  pmove basis (it_pos it) (to_rmove m) = Ok q -> game_over q = Some (true, c) ->
  next basis it = Ok (true, set_over (applied it q)).
Proof. exact next_game_over. Qed.
Print Assumptions C12_iterator_game_over.

(* PositionAtMove (the look-ahead iterator driven by the loop of PositionAtMove) computes exactly the specification walk
   spec_position_at of PtnFile.v (15 lines: keep the last marker; the answer to (n, c), n > 0, is the first turn point - the position
   before a recorded move, or the position at which the walk stops - whose marker is n and whose side to move is c; n = 0 asks for the
   position at which the walk stops; the walk stops after a move that ends the game; an illegal move, a request beyond the record, and
   NoColor with n <> 0 are errors), values and error cases alike, for every game structure, move number and colour. *)
Theorem C12_position_at_move_spec : forall basis g n c,
  position_at_move basis g n c = spec_position_at basis g n c.
Proof. exact position_at_move_spec. Qed.
Print Assumptions C12_position_at_move_spec.

(* Rendering a game and parsing the text again yields the same game: tags, move numbers, moves with their annotations, comments
   and results, for every syntactically well-formed game structure, with and without a UTF-8 byte-order mark in front.
   wf_ptn (PtnFileRoundtrip.v) is purely syntactic: tag names contain no space and no closing bracket, tag values no closing bracket and
   no double quote; move numbers fit a Go int (any sign); moves are of one of the 65 472 shapes of the notation (PtnMove.moves_at:
   placements and slides on the 8x8 grid with drops in 1..8 summing to at most 8 - enumerated completely, the bound is legal_shape);
   annotations are strings over ? ! and the apostrophe; comments contain no closing brace (any other byte, including bytes >= 0x80,
   0x85 and 0xA0, is allowed); results are accepted by the result recogniser.  Non-vacuity: Example ex_game_wf. *)
Theorem C12_ptn_render_parse : forall g, wf_ptn g ->
  parse_ptn (render g) = Ok g /\ parse_ptn (239 :: 187 :: 191 :: render g) = Ok g.
Proof. exact ptn_render_parse. Qed.
Print Assumptions C12_ptn_render_parse.

(* ParsePTN never panics, on any byte string (this is the repaired unterminated-comment case among others). *)
Theorem C12_parse_ptn_total : forall s : list N, parse_ptn s <> Panic.
Proof. exact parse_ptn_total. Qed.
Print Assumptions C12_parse_ptn_total.

(* PTN files are total (DESIGN 5.13, the PTN-file clause of C13): for EVERY byte string, ParsePTN does not panic; if it succeeds,
   InitialPosition does not panic (Size tag range check, TPS parser total: TotalFacts.parse_tps_total), and from every position
   InitialPosition returns - including TPS positions with arbitrarily tall stacks and wrapped reserves - the full replay through the
   Iterator (replay_all) and every PositionAtMove(n, colour) never panic: no index out of range in MovePreallocated, flood-fill fuel
   sufficient in GameOver, loop fuel sufficient.  Invariant used: `safe` of PtnFileSafe.v (size in 3..8, Height/Stacks of length
   size^2, both colour bitboards inside the board mask), established by FromSquares and preserved by MovePreallocated. *)
Theorem C12_ptn_file_total : forall basis (s : list N),
  match parse_ptn s with
  | Panic => False
  | Err => True
  | Ok g =>
    initial_position basis g <> Panic /\
    (forall p0, initial_position basis g = Ok p0 -> replay_all basis g p0 <> Panic) /\
    (forall n c, position_at_move basis g n c <> Panic)
  end.
Proof. exact ptn_file_total. Qed.
Print Assumptions C12_ptn_file_total.
