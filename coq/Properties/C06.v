(* C06 — proof-number solver verdicts agree with the game-theoretic truth.
   Only statements, `exact`, and Print Assumptions live here.  Models: Pn.v (prove/pn.go without PN-squared; entry point
   PnRun.pn_run with the constants of /repo), Pn2.v (prove/pn.go with the PN-squared switch; entry point Pn2Run.pn2_run),
   Dfpn.v (prove/dfpn.go).  Proofs: AndOr.v, AndOrS.v, PnFacts.v, PnRunFacts.v, Pn2Facts.v, Pn2RunFacts.v, Pn2Equiv.v, Pn2Stops.v, DfpnFacts.v,
   DfpnFactsL.v; non-vacuity examples: PnRunFacts.v, Pn2RunFacts.v, DfpnExample.v.

   The game the claims are about (PnFacts.v), for the attacker colour aw:
     succs basis p   legal successors of p: every move of AllMoves that Position.Move accepts
     terminal aw p   Some true = finished and won by the attacker, Some false = finished otherwise (lost or drawn), None = live
     attp aw p       the attacker is to move
   wn n p       = "won within n plies" of the history-free game (AndOr.v) - the attractor the retrograde oracle computes.
   Wb k h p     = "won within k plies on the line of play h" where the third occurrence (Position.Equal) of a position on
                  the line is not a win (AndOrS.v). *)
From Coq Require Import NArith ZArith List Bool.
Require Import Board Move GameOver Eval Search AndOr AndOrS Pn PnRun PnFacts PnRunFacts Dfpn DfpnFacts DfpnFactsL.
Require Import Pn2 Pn2Run Pn2Facts Pn2RunFacts Pn2Equiv Pn2Stops.
Require Import Generated.Consts.
Import ListNotations.
Open Scope N_scope.

(* 1. The notion of truth, any game with decidable equality of positions: a forced win under the third-repetition rule
   from the empty history = won within some number of plies in the history-free game. *)
Theorem C06_truth_equiv :
  forall (pos : Type) (pos_dec : forall a b : pos, {a = b} + {a <> b}) (moves : pos -> list pos)
         (terminal : pos -> option bool) (att : pos -> bool) (p : pos),
    Wh pos pos_dec moves terminal att [] p <-> exists n, wn pos moves terminal att n p = true.
Proof. exact truth_equiv. Qed.
Print Assumptions C06_truth_equiv.

(* 1'. The same with a depth bound and with positions identified by a boolean test `same` that the game respects. *)
Theorem C06_truth_equiv_bounded :
  forall (pos : Type) (same : pos -> pos -> bool) (moves : pos -> list pos) (terminal : pos -> option bool) (att : pos -> bool),
    (forall n q p, same q p = true -> wn pos moves terminal att n q = wn pos moves terminal att n p) ->
    forall k p, Wb pos same moves terminal att k [] p <-> wn pos moves terminal att k p = true.
Proof. exact truth_equiv_bounded. Qed.
Print Assumptions C06_truth_equiv_bounded.

(* 2. pn_invariant: every node of every tree that the search loop of the PN model reaches satisfies the invariant
   PnFacts.pok, which says (recursively, for the node at the head of its path from the root, `cur` its position):
     - proof number 0  (phi at an OR node, delta at an AND node)  ->  exists n, wn n cur = true        (W)
     - disproof number 0 (the dual)  ->  not (depth <= MaxDepth /\ Wb (MaxDepth - depth) ancestors cur)   (L)
     - AND/OR flag = side to move; children are legal moves of cur and satisfy the invariant at their positions;
       an unsolved expanded node has a child for every legal move. *)
Theorem C06_pn_invariant :
  forall basis cfg (p0 : position) k dfuel t st w,
    size p0 <= 8 ->
    search_loop basis cfg (to_move_white p0) k dfuel p0 (root_node cfg (to_move_white p0) p0) stats0 = (t, st, w) ->
    pok basis cfg (to_move_white p0) t [(p0, false)].
Proof. exact pn_invariant. Qed.
Print Assumptions C06_pn_invariant.

(* 3. pn_verdict_sound, for Prover.Prove as modelled by PnRun.pn_run (any node limit, PreserveSolved, MaxDepth, any fuel),
   boards up to 8x8, attacker = side to move:
     proven    -> the attacker has a forced win from p, and a returned move (type <> 0) is a legal move after which the
                  attacker still has a forced win;
     disproven -> on the empty line of play there is no win within MaxDepth plies (32767 when MaxDepth = 0) under the rule
                  that a draw, a lost game and a threefold repetition (Position.Equal) are not wins;
     unknown   -> no claim. *)
Theorem C06_pn_verdict_sound :
  forall iters dfuel maxnodes preserve maxdepth (p : position) root st result mv why,
    size p <= 8 ->
    pn_run iters dfuel maxnodes preserve maxdepth p = (root, st, result, mv, why) ->
    let aw := to_move_white p in
    let won q := exists n, wn position (succs gen_basis) (terminal aw) (attp aw) n q = true in
    (result = 1 -> won p /\ (mT mv <> 0 -> exists q, pmv gen_basis p mv = Ok q /\ In mv (all_moves p) /\ won q)) /\
    (result = 2 -> ~ ((0 <= eff_maxdepth maxdepth)%Z /\
                      Wb position pos_equal (succs gen_basis) (terminal aw) (attp aw) (Z.to_nat (eff_maxdepth maxdepth - 0)) [] p)).
Proof. exact pn_run_verdict_sound. Qed.
Print Assumptions C06_pn_verdict_sound.

(* 4. The two verdicts against the attractor of the retrograde oracle.  _partial: they assume that positions which
   Position.Equal identifies (board and side to move) have the same history-free value (equal_congruent); proving that
   for the bit-level model needs the invariant that the reserves are determined by the board and is not done. *)
Theorem C06_pn_proven_rules_partial :
  forall basis cfg p0 iters dfuel root st mv why,
    equal_congruent basis (to_move_white p0) -> size p0 <= 8 ->
    prove_pn basis cfg (to_move_white p0) iters dfuel p0 = (root, st, 1, mv, why) ->
    exists k, Wb position pos_equal (succs basis) (terminal (to_move_white p0)) (attp (to_move_white p0)) k [] p0.
Proof. exact pn_proven_rules. Qed.
Print Assumptions C06_pn_proven_rules_partial.

Theorem C06_pn_disproven_attractor_partial :
  forall basis cfg p0 iters dfuel root st mv why,
    equal_congruent basis (to_move_white p0) -> size p0 <= 8 -> (0 <= pc_maxdepth cfg)%Z ->
    prove_pn basis cfg (to_move_white p0) iters dfuel p0 = (root, st, 2, mv, why) ->
    wn position (succs basis) (terminal (to_move_white p0)) (attp (to_move_white p0)) (Z.to_nat (pc_maxdepth cfg)) p0 = false.
Proof. exact pn_disproven_attractor. Qed.
Print Assumptions C06_pn_disproven_attractor_partial.

(* 5. dfpn_proven_sound, for DFPNSolver.Prove as modelled by Dfpn.prove (fresh solver, any table size, any fuel, attacker aw,
   whoever is to move), for a set Sp of positions that contains the root and is closed under the generated legal moves
   of its live positions (e.g. everything reachable from the root in the game), under explicit hypotheses on Sp:
     boards up to 8x8; NoCollisionOn Sp (positions of Sp with equal hash have the same value, side to move and end of game);
     no position of Sp has hash 0 (the key of an empty slot); a live position has a move; C19 (an immediate threat of the
     attacker reported by CountThreats is a forced win).
   Then `proven` (result 1: phi = 0 when the attacker is to move, delta = 0 otherwise) implies a forced win of the attacker.
   The same holds for a solver whose table already holds sound entries (DfpnFacts.dfpn_proven_sound_from), i.e. for a solver
   reused over several positions with the same attacker. *)
Theorem C06_dfpn_proven_sound :
  forall (basis : list N) (aw : bool) (Sp : position -> Prop),
    (forall p m q, Sp p -> terminal aw p = None -> In m (all_moves p) -> dmv basis p m = Ok q -> Sp q) ->
    (forall p, Sp p -> size p <= 8) ->
    (forall p q, Sp p -> Sp q -> hash_of p = hash_of q ->
       (W basis aw p <-> W basis aw q) /\ to_move_white p = to_move_white q /\ terminal aw p = terminal aw q) ->
    (forall p, Sp p -> hash_of p <> 0) ->
    (forall p, Sp p -> terminal aw p = None -> all_moves p <> []) ->
    (forall p, Sp p -> terminal aw p = None -> solve p <> None -> attp aw p = true -> W basis aw p) ->
    forall lfuel dfuel entries g s e w,
      Sp g -> prove basis aw lfuel dfuel entries g = (s, e, w) -> result_of aw g e = 1 ->
      exists n, wn position (succs basis) (terminal aw) (attp aw) n g = true.
Proof. exact dfpn_proven_sound. Qed.
Print Assumptions C06_dfpn_proven_sound.

(* 6. dfpn_disproven_sound, restricted (_partial) to runs that met no threefold repetition: the full statement
       dfpn p = (Disproven, m) -> ~ Wins att [] p
   is open in the design because a bound derived from a repetition on one path is stored in the table and reused on other
   paths.  Proved: under the same hypotheses on Sp (with C19 for the defender's immediate threats), a fresh solver whose
   run ends with the repetition counter at 0 (DFPNStats.Repetition, compared with the solver on every run) reports
   `disproven` only where the attacker has no forced win in the history-free game, within any number of plies. *)
Theorem C06_dfpn_disproven_sound_norep_partial :
  forall (basis : list N) (aw : bool) (Sp : position -> Prop),
    (forall p m q, Sp p -> terminal aw p = None -> In m (all_moves p) -> dmv basis p m = Ok q -> Sp q) ->
    (forall p, Sp p -> size p <= 8) ->
    (forall p q, Sp p -> Sp q -> hash_of p = hash_of q ->
       (W basis aw p <-> W basis aw q) /\ to_move_white p = to_move_white q /\ terminal aw p = terminal aw q) ->
    (forall p, Sp p -> hash_of p <> 0) ->
    (forall p, Sp p -> terminal aw p = None -> all_moves p <> []) ->
    (forall p, Sp p -> terminal aw p = None -> solve p <> None -> attp aw p = false ->
       exists q, In q (succs basis p) /\ terminal aw q = Some false) ->
    forall lfuel dfuel entries g s e w,
      Sp g -> prove basis aw lfuel dfuel entries g = (s, e, w) -> ds_rep (dst s) = 0 -> result_of aw g e = 2 ->
      forall n, wn position (succs basis) (terminal aw) (attp aw) n g = false.
Proof. exact dfpn_disproven_sound_norep. Qed.
Print Assumptions C06_dfpn_disproven_sound_norep_partial.

(* 7. PN-squared (Config.PN2), model Pn2.v: once the first-level counter Stats.Nodes exceeds pn2Threshold, expand() runs a
   second-level search from the selected node instead of generating its children (own counters, node limit
   Live^2/MaxNodes - 0 meaning none -, the node in the role of the root, positions / depth / repetition along the node's
   line of play from the real root), copies the node's numbers, value and depth statistic back, keeps the node's children
   as unexpanded leaves WITH the numbers the second level gave them, and - because that search wrote into the node in
   place - does not recompute the ancestors of a node it leaves unsolved; iterations resume at the node where
   updateAncestors stopped.  pn2_invariant: every tree the first-level loop reaches satisfies Pn2Facts.pok2 = PnFacts.pok
   (block 2: proof number 0 -> forced win, disproof number 0 -> not won on the line of play within MaxDepth, children are
   legal moves, an unsolved expanded node has a child for every legal move) except that a node's value (set by evaluate,
   and by pn2 when its search solves the node) carries its claim directly: value proven -> forced win, value disproven ->
   not won on the line; for any threshold, either setting of the switch, any fuel. *)
Theorem C06_pn2_invariant :
  forall basis cfg threshold pn2on k2 dfuel2 (p0 : position) k dfuel t s w,
    size p0 <= 8 ->
    search2 basis (to_move_white p0) cfg (pn2_hook basis (to_move_white p0) cfg threshold pn2on k2 dfuel2) k dfuel
            [(p0, false)] (root_node cfg (to_move_white p0) p0) (s_of stats0) [] = (t, s, w) ->
    pok2 basis cfg (to_move_white p0) t [(p0, false)].
Proof. exact pn2_invariant. Qed.
Print Assumptions C06_pn2_invariant.

(* 8. pn2_verdict_sound, for Prover.Prove as modelled by Pn2Run.pn2_run (PN2 on or off, any node limit - halved by Prove
   when PN2 is on -, PreserveSolved, MaxDepth, any fuel of either level), boards up to 8x8, attacker = side to move: the
   verdicts are sound in exactly the sense of block 3 (proven -> forced win and the returned move keeps it; disproven ->
   no win within MaxDepth plies on the empty line of play under the repetition rule; unknown -> no claim).
   Pn2Run.pn2_run = pn2_run_at 1000 (pn2Threshold of pn.go); the theorem holds for every threshold.  Non-vacuity:
   Pn2RunFacts.ex2_proven / ex2_disproven are runs (threshold 10, so that vm_compute can afford them) that enter the second
   level (2 and 8 second-level searches) and end proven with a move / disproven; the extracted driver of the check runs
   pn2_run with the real threshold on inputs where the solver enters the second level. *)
Theorem C06_pn2_verdict_sound_any_threshold :
  forall threshold iters dfuel k2 dfuel2 maxnodes preserve maxdepth pn2 (p : position) root s result mv why,
    size p <= 8 ->
    pn2_run_at threshold iters dfuel k2 dfuel2 maxnodes preserve maxdepth pn2 p = (root, s, result, mv, why) ->
    let aw := to_move_white p in
    let won q := exists n, wn position (succs gen_basis) (terminal aw) (attp aw) n q = true in
    (result = 1 -> won p /\ (mT mv <> 0 -> exists q, pmv gen_basis p mv = Ok q /\ In mv (all_moves p) /\ won q)) /\
    (result = 2 -> ~ ((0 <= eff_maxdepth maxdepth)%Z /\
                      Wb position pos_equal (succs gen_basis) (terminal aw) (attp aw) (Z.to_nat (eff_maxdepth maxdepth - 0)) [] p)).
Proof. exact pn2_run_at_verdict_sound. Qed.
Print Assumptions C06_pn2_verdict_sound_any_threshold.

Theorem C06_pn2_verdict_sound :
  forall iters dfuel k2 dfuel2 maxnodes preserve maxdepth pn2 (p : position) root s result mv why,
    size p <= 8 ->
    pn2_run iters dfuel k2 dfuel2 maxnodes preserve maxdepth pn2 p = (root, s, result, mv, why) ->
    let aw := to_move_white p in
    let won q := exists n, wn position (succs gen_basis) (terminal aw) (attp aw) n q = true in
    (result = 1 -> won p /\ (mT mv <> 0 -> exists q, pmv gen_basis p mv = Ok q /\ In mv (all_moves p) /\ won q)) /\
    (result = 2 -> ~ ((0 <= eff_maxdepth maxdepth)%Z /\
                      Wb position pos_equal (succs gen_basis) (terminal aw) (attp aw) (Z.to_nat (eff_maxdepth maxdepth - 0)) [] p)).
Proof. exact pn2_run_verdict_sound. Qed.
Print Assumptions C06_pn2_verdict_sound.

(* 9. With the switch off, the PN-squared model IS the plain model: Pn2Run.pn2_run_at ... false returns the tree, counters,
   verdict, move and stop reason of PnRun.pn_run and an empty second-level trace - for every input, fuel and threshold.
   (Pn.v re-descends from the root in every iteration and recomputes every ancestor of the expanded node; Pn2.v, like the
   code, resumes at the node where updateAncestors stopped.  Without PN2 these are the same computation because the numbers
   of every unsolved expanded node agree with its children and the path to `current` is the path selection takes from the
   root - the two invariants of Pn2Equiv.v.  With PN2 neither holds, which is why Pn2.v cannot re-descend.) *)
Theorem C06_pn2_off_is_pn :
  forall threshold iters dfuel k2 dfuel2 maxnodes preserve maxdepth p,
    pn2_run_at threshold iters dfuel k2 dfuel2 maxnodes preserve maxdepth false p =
    let '(root, st, result, pv, why) := pn_run iters dfuel maxnodes preserve maxdepth p in (root, s_of st, result, pv, why).
Proof. exact pn2_run_off. Qed.
Print Assumptions C06_pn2_off_is_pn.

(* 10. Block 4 for the PN-squared model: the two verdicts against the attractor of the retrograde oracle, under the same
   congruence hypothesis (_partial for the same reason as block 4). *)
Theorem C06_pn2_proven_rules_partial :
  forall basis cfg threshold pn2on k2 dfuel2 p0 iters dfuel root s mv why,
    equal_congruent basis (to_move_white p0) -> size p0 <= 8 ->
    prove_pn2 basis (to_move_white p0) cfg threshold pn2on k2 dfuel2 iters dfuel p0 = (root, s, 1, mv, why) ->
    exists k, Wb position pos_equal (succs basis) (terminal (to_move_white p0)) (attp (to_move_white p0)) k [] p0.
Proof. exact pn2_proven_rules. Qed.
Print Assumptions C06_pn2_proven_rules_partial.

Theorem C06_pn2_disproven_attractor_partial :
  forall basis cfg threshold pn2on k2 dfuel2 p0 iters dfuel root s mv why,
    equal_congruent basis (to_move_white p0) -> size p0 <= 8 -> (0 <= pc_maxdepth cfg)%Z ->
    prove_pn2 basis (to_move_white p0) cfg threshold pn2on k2 dfuel2 iters dfuel p0 = (root, s, 2, mv, why) ->
    wn position (succs basis) (terminal (to_move_white p0)) (attp (to_move_white p0)) (Z.to_nat (pc_maxdepth cfg)) p0 = false.
Proof. exact pn2_disproven_attractor. Qed.
Print Assumptions C06_pn2_disproven_attractor_partial.

(* 11. The two "cannot happen" stops of Pn2.v do not happen (given fuel for at least one second-level iteration): a run of
   the model never ends with stop reason 4 (a second-level search that returns without expanding its root - the code would
   then compute the numbers of an unexpanded node from its value) or 5 (a path to `current` through a solved child).  So a
   model run stops where the code stops (0), where it panics (1), on saturated numbers (3, see Pn.pick_kid) or out of fuel (2). *)
Theorem C06_pn2_no_impossible_stop :
  forall basis aw cfg threshold pn2on k2 dfuel2, k2 <> O ->
  forall iters dfuel p0 root s result mv why,
    prove_pn2 basis aw cfg threshold pn2on k2 dfuel2 iters dfuel p0 = (root, s, result, mv, why) -> why <> 4 /\ why <> 5.
Proof. exact pn2_no_impossible_stop. Qed.
Print Assumptions C06_pn2_no_impossible_stop.

(* Not proved (tested by the check: model = solver on every generated run, oracle = exact retrograde solution):
     the move returned by DFPN with `proven` (the oracle judges it);
     dfpn_disproven_sound for runs WITH repetitions: see blocks 12 and 13 (refuted for the solver as it was, proved after the
                            repair); history: open in the design (a bound derived from a repetition on one path was
                            stored in the table and reused on other paths); the oracle hunts for a wrong `disproven` on
                            the cyclic region of the solved graphs (positions where the attacker can only shuffle - the
                            only roots where the search meets repetitions) and has found none. *)

(* ================================================================================================================================
   12. (third wave, worker prove3-cong)  Block 4 WITHOUT `_partial`, and block 6 extended to runs with repetitions.
   The hypothesis equal_congruent of block 4 (positions that Position.Equal identifies have the same history-free value) is false
   for arbitrary records (Position.Equal does not compare reserves, tie-break flag or ply counter) but holds between the positions
   of one game, PnCong3.cinv c b: C01's invariant pos_ok; at most 64 pieces in the game; reserve + pieces on the board = c for each
   of the four reserves; black_wins_ties = b; 0 <= move, and move < 2 exactly when fewer than 2 pieces have left the reserves.
   cinv is preserved by every accepted move and holds for every replay from tak.New with at most 64 pieces.
   ================================================================================================================================ *)
Require Import Refine Preserve1 Reach1 Alloc PnCong1 PnCong2 PnCong3 PnCong4 PnCong5 DfpnRep1.

(* 4a. the invariant: preserved by Position.Move, established by tak.New *)
Theorem C06_cinv_step : forall c b p m p', cinv c b p -> mv p m = Ok p' -> cinv c b p'.
Proof. exact cinv_step. Qed.
Print Assumptions C06_cinv_step.

Theorem C06_reachable_cinv : forall sz bwt stones caps ms p, 3 <= sz <= 8 -> 2 * (stones + caps) <= 64 ->
  replay (new_pos sz bwt stones caps) ms = Ok p -> cinv (stones, caps, stones, caps) bwt p.
Proof. exact reachable_cinv. Qed.
Print Assumptions C06_reachable_cinv.

(* 4b. equal_congruent between the positions of one game (any attacker) *)
Theorem C06_equal_congruent : forall c b aw n q p, cinv c b q -> cinv c b p -> pos_equal q p = true ->
  wn position (succs gen_basis) (terminal aw) (attp aw) n q = wn position (succs gen_basis) (terminal aw) (attp aw) n p.
Proof. exact equal_congruent_cinv. Qed.
Print Assumptions C06_equal_congruent.

(* 4b'. what makes it true: records that differ only in a ply counter of the same parity on the same side of the opening
   (PnCong1.sim) are indistinguishable for Move, GameOver and AllMoves - any basis, no invariant *)
Theorem C06_sim_wn : forall basis aw n q p, sim q p ->
  wn position (succs basis) (terminal aw) (attp aw) n q = wn position (succs basis) (terminal aw) (attp aw) n p.
Proof. exact sim_wn. Qed.
Print Assumptions C06_sim_wn.

(* 4c. truth under the repetition rule = attractor, for the positions of a game *)
Theorem C06_truth_equiv_game : forall c b aw k p, cinv c b p ->
  (Wb position pos_equal (succs gen_basis) (terminal aw) (attp aw) k [] p <->
   wn position (succs gen_basis) (terminal aw) (attp aw) k p = true).
Proof. exact truth_equiv_cinv. Qed.
Print Assumptions C06_truth_equiv_game.

(* 4d. the two verdicts of Prover.Prove (PnRun.pn_run) against the attractor, roots satisfying the invariant *)
Theorem C06_pn_proven_rules : forall c b iters dfuel maxnodes preserve maxdepth (p : position) root st mv why,
  cinv c b p ->
  pn_run iters dfuel maxnodes preserve maxdepth p = (root, st, 1, mv, why) ->
  exists k, Wb position pos_equal (succs gen_basis) (terminal (to_move_white p)) (attp (to_move_white p)) k [] p.
Proof. exact pn_run_proven_rules. Qed.
Print Assumptions C06_pn_proven_rules.

Theorem C06_pn_disproven_attractor : forall c b iters dfuel maxnodes preserve maxdepth (p : position) root st mv why,
  cinv c b p -> (0 <= maxdepth)%Z ->
  pn_run iters dfuel maxnodes preserve maxdepth p = (root, st, 2, mv, why) ->
  wn position (succs gen_basis) (terminal (to_move_white p)) (attp (to_move_white p)) (Z.to_nat (eff_maxdepth maxdepth)) p = false.
Proof. exact pn_run_disproven_attractor. Qed.
Print Assumptions C06_pn_disproven_attractor.

(* 4e. the same for roots that are positions of real games: anything replayed from tak.New *)
Theorem C06_pn_proven_rules_reachable :
  forall sz bwt stones caps ms iters dfuel maxnodes preserve maxdepth (p : position) root st mv why,
  3 <= sz <= 8 -> 2 * (stones + caps) <= 64 -> replay (new_pos sz bwt stones caps) ms = Ok p ->
  pn_run iters dfuel maxnodes preserve maxdepth p = (root, st, 1, mv, why) ->
  exists k, Wb position pos_equal (succs gen_basis) (terminal (to_move_white p)) (attp (to_move_white p)) k [] p.
Proof. exact pn_run_proven_rules_reachable. Qed.
Print Assumptions C06_pn_proven_rules_reachable.

Theorem C06_pn_disproven_attractor_reachable :
  forall sz bwt stones caps ms iters dfuel maxnodes preserve maxdepth (p : position) root st mv why,
  3 <= sz <= 8 -> 2 * (stones + caps) <= 64 -> replay (new_pos sz bwt stones caps) ms = Ok p -> (0 <= maxdepth)%Z ->
  pn_run iters dfuel maxnodes preserve maxdepth p = (root, st, 2, mv, why) ->
  wn position (succs gen_basis) (terminal (to_move_white p)) (attp (to_move_white p)) (Z.to_nat (eff_maxdepth maxdepth)) p = false.
Proof. exact pn_run_disproven_attractor_reachable. Qed.
Print Assumptions C06_pn_disproven_attractor_reachable.

(* the general-configuration forms over prove_pn (any pcfg) are PnCong4.pn_proven_rules_cinv / pn_disproven_attractor_cinv;
   non-vacuity: PnCong4.ex_proven_rules, ex_disproven_attractor (the roots of PnRunFacts' examples are replays from tak.New). *)


(* ===================== Block 6: DFPN `disproven` for runs WITH threefold-repetition events =====================
   Full statement
       dfpn p = (Disproven, m) -> ~ Wins att [] p          for every run, whatever the counters say:
   REFUTED for the solver as it was (a reused solver answered `disproven` for a position won in 12 plies:
   notes/prove3_cong_report.txt, known_findings.json class reused-solver-wrong-disproven), PROVED for the repaired solver in
   block 13.  What follows was proved about the unrepaired solver and still holds.
   Proved, in addition to 6 (repetition counter 0): a run that took no bound from the transposition table (DFPNStats.Hits
   unchanged - compared with the solver on every run like Repetition) reports `disproven` only where the attacker has no
   forced win, WITH repetitions, for ANY contents of the table (so also for a reused solver, any earlier attacker).
   The hypothesis on hashes is the depth-indexed no-collision (6c shows that it and the form used in 5/6 follow from
   "equal hash implies Position.Equal" on positions of one game).  Together: the only runs whose `disproven` is not
   covered have BOTH Repetition > 0 and Hits > 0 - the graph-history interaction proper.
   What was missing: bounds stored while an ancestor on the stack was still open are conditional on that ancestor
   (DfpnRep1.CL) and nothing invalidated them when the ancestor left the stack - the repair stops storing them. *)
Theorem C06_dfpn_disproven_sound_nohit_partial :
  forall (basis : list N) (aw : bool) (Sp : position -> Prop),
    (forall p m q, Sp p -> terminal aw p = None -> In m (all_moves p) -> dmv basis p m = Ok q -> Sp q) ->
    (forall p, Sp p -> size p <= 8) ->
    (forall p q, Sp p -> Sp q -> hash_of p = hash_of q ->
       forall n, wn position (succs basis) (terminal aw) (attp aw) n p = wn position (succs basis) (terminal aw) (attp aw) n q) ->
    (forall p, Sp p -> terminal aw p = None -> all_moves p <> []) ->
    (forall p, Sp p -> terminal aw p = None -> solve p <> None -> attp aw p = false ->
       exists q, In q (succs basis p) /\ terminal aw q = Some false) ->
    forall lfuel dfuel entries g s e w,
      Sp g -> prove basis aw lfuel dfuel entries g = (s, e, w) -> ds_hits (dst s) = 0 -> result_of aw g e = 2 ->
      forall n, wn position (succs basis) (terminal aw) (attp aw) n g = false.
Proof. exact dfpn_disproven_sound_nohit. Qed.
Print Assumptions C06_dfpn_disproven_sound_nohit_partial.

(* 6b. the same for Prove() on a solver in any state (table and killers from earlier calls; the caller resets the stack) *)
Theorem C06_dfpn_disproven_sound_nohit_from_partial :
  forall (basis : list N) (aw : bool) (Sp : position -> Prop),
    (forall p m q, Sp p -> terminal aw p = None -> In m (all_moves p) -> dmv basis p m = Ok q -> Sp q) ->
    (forall p, Sp p -> size p <= 8) ->
    (forall p q, Sp p -> Sp q -> hash_of p = hash_of q ->
       forall n, wn position (succs basis) (terminal aw) (attp aw) n p = wn position (succs basis) (terminal aw) (attp aw) n q) ->
    (forall p, Sp p -> terminal aw p = None -> all_moves p <> []) ->
    (forall p, Sp p -> terminal aw p = None -> solve p <> None -> attp aw p = false ->
       exists q, In q (succs basis p) /\ terminal aw q = Some false) ->
    forall lfuel dfuel s0 g s e w,
      Sp g -> dstack s0 = [] -> prove_from basis aw lfuel dfuel s0 g = (s, e, w) ->
      ds_hits (dst s) = ds_hits (dst s0) -> result_of aw g e = 2 ->
      forall n, wn position (succs basis) (terminal aw) (attp aw) n g = false.
Proof. exact dfpn_disproven_sound_nohit_from. Qed.
Print Assumptions C06_dfpn_disproven_sound_nohit_from_partial.

(* 6c. NoCollisionOn Sp (both forms) from "equal hash implies Position.Equal" for positions of one game *)
Theorem C06_nocollision_from_equal :
  forall c b aw (Sp : position -> Prop),
  (forall p, Sp p -> cinv c b p) ->
  (forall p q, Sp p -> Sp q -> hash_of p = hash_of q -> pos_equal p q = true) ->
  (forall p q, Sp p -> Sp q -> hash_of p = hash_of q ->
     (W gen_basis aw p <-> W gen_basis aw q) /\ to_move_white p = to_move_white q /\ terminal aw p = terminal aw q) /\
  (forall p q, Sp p -> Sp q -> hash_of p = hash_of q ->
     forall n, wn position (succs gen_basis) (terminal aw) (attp aw) n p = wn position (succs gen_basis) (terminal aw) (attp aw) n q).
Proof. exact nocollision_from_equal. Qed.
Print Assumptions C06_nocollision_from_equal.

(* non-vacuity: DfpnRep2.dfpn_disproven_sound_nohit_applies (the enumerated one-stone game) and, with the position sets by
   representatives of DfpnRep3, DfpnRep4.dfpn_proven_sound_cyclic / dfpn_disproven_sound_nohit_cyclic: a game with slide
   cycles (3x3, stone + capstone per side, 657 classes up to the ply counter), actual runs of the model. *)

(* ================================================================================================================================
   13. (third wave, worker prove3-cong)  dfpn_disproven_sound IN FULL, for the solver as REPAIRED after the finding of block 12's
   search ("a reused DFPNSolver answers `disproven` for a position the attacker wins in 12 plies", known_findings.json class
   reused-solver-wrong-disproven): mid() now stores its result only when the repetition counter did not move during the call
   (Dfpn.v: rep0).  Invariant (DfpnRep8.v): the table holds unconditional facts only (DfpnFactsL.table_okL); the bounds a call
   RETURNS are relative to the strict ancestors on the stack (DfpnRep1.CL) and unconditional whenever the call was clean - exactly
   the calls whose result is stored.  Hypotheses on the set Sp as in block 5, with NoCollisionOn Sp at every depth (12.6c derives
   it from "equal hash implies Position.Equal" inside one game) and C19 for the defender's threats.
   No condition on the counters, the table size, the fuel; fresh solver (13a), any solver state whose table holds facts (13b),
   the reused-solver models prove_on / prove_seq (13c, 13d) - every `disproven` of every call of a sequence is sound.
   Non-vacuity: DfpnRep4.dfpn_disproven_sound_cyclic (a game with slide cycles, 657 classes of positions, an actual run).
   ================================================================================================================================ *)
Require Import DfpnRep5 DfpnRep6 DfpnRep8.

Theorem C06_dfpn_disproven_sound :
  forall (basis : list N) (aw : bool) (Sp : position -> Prop),
    (forall p m q, Sp p -> terminal aw p = None -> In m (all_moves p) -> dmv basis p m = Ok q -> Sp q) ->
    (forall p, Sp p -> size p <= 8) ->
    (forall p q, Sp p -> Sp q -> hash_of p = hash_of q ->
       (forall n, wn position (succs basis) (terminal aw) (attp aw) n p = wn position (succs basis) (terminal aw) (attp aw) n q) /\
       to_move_white p = to_move_white q /\ terminal aw p = terminal aw q) ->
    (forall p, Sp p -> hash_of p <> 0) ->
    (forall p, Sp p -> terminal aw p = None -> all_moves p <> []) ->
    (forall p, Sp p -> terminal aw p = None -> solve p <> None -> attp aw p = false ->
       exists q, In q (succs basis p) /\ terminal aw q = Some false) ->
    forall lfuel dfuel entries g s e w,
      Sp g -> prove basis aw lfuel dfuel entries g = (s, e, w) -> result_of aw g e = 2 ->
      forall n, wn position (succs basis) (terminal aw) (attp aw) n g = false.
Proof. exact dfpn_disproven_sound. Qed.
Print Assumptions C06_dfpn_disproven_sound.

(* 13b. from any solver state whose table holds only facts (true of a fresh table); the table it leaves holds only facts again *)
Theorem C06_dfpn_disproven_sound_from :
  forall (basis : list N) (aw : bool) (Sp : position -> Prop),
    (forall p m q, Sp p -> terminal aw p = None -> In m (all_moves p) -> dmv basis p m = Ok q -> Sp q) ->
    (forall p, Sp p -> size p <= 8) ->
    (forall p q, Sp p -> Sp q -> hash_of p = hash_of q ->
       (forall n, wn position (succs basis) (terminal aw) (attp aw) n p = wn position (succs basis) (terminal aw) (attp aw) n q) /\
       to_move_white p = to_move_white q /\ terminal aw p = terminal aw q) ->
    (forall p, Sp p -> hash_of p <> 0) ->
    (forall p, Sp p -> terminal aw p = None -> all_moves p <> []) ->
    (forall p, Sp p -> terminal aw p = None -> solve p <> None -> attp aw p = false ->
       exists q, In q (succs basis p) /\ terminal aw q = Some false) ->
    forall lfuel dfuel s0 g s e w,
      Sp g -> table_okL basis aw Sp s0 -> dstack s0 = [] -> prove_from basis aw lfuel dfuel s0 g = (s, e, w) ->
      table_okL basis aw Sp s /\
      (result_of aw g e = 2 -> forall n, wn position (succs basis) (terminal aw) (attp aw) n g = false).
Proof. exact dfpn_disproven_sound_from. Qed.
Print Assumptions C06_dfpn_disproven_sound_from.

(* 13c. one call of a reused solver (Dfpn.prove_on): sv_okL = "if the solver was last used for this attacker, its table holds facts" *)
Theorem C06_dfpn_on_sound :
  forall (basis : list N) (aw : bool) (Sp : position -> Prop),
    (forall p m q, Sp p -> terminal aw p = None -> In m (all_moves p) -> dmv basis p m = Ok q -> Sp q) ->
    (forall p, Sp p -> size p <= 8) ->
    (forall p q, Sp p -> Sp q -> hash_of p = hash_of q ->
       (forall n, wn position (succs basis) (terminal aw) (attp aw) n p = wn position (succs basis) (terminal aw) (attp aw) n q) /\
       to_move_white p = to_move_white q /\ terminal aw p = terminal aw q) ->
    (forall p, Sp p -> hash_of p <> 0) ->
    (forall p, Sp p -> terminal aw p = None -> all_moves p <> []) ->
    (forall p, Sp p -> terminal aw p = None -> solve p <> None -> attp aw p = false ->
       exists q, In q (succs basis p) /\ terminal aw q = Some false) ->
    forall lfuel dfuel cfg_attacker sv g sv' s e w r,
      aw = match cfg_attacker with 1 => true | 2 => false | _ => to_move_white g end ->
      Sp g -> sv_okL basis aw Sp sv -> prove_on basis lfuel dfuel cfg_attacker sv g = (sv', (s, e, w, r)) ->
      sv_okL basis aw Sp sv' /\ (r = 2 -> forall n, wn position (succs basis) (terminal aw) (attp aw) n g = false).
Proof. exact dfpn_on_sound. Qed.
Print Assumptions C06_dfpn_on_sound.

(* 13d. a whole sequence of calls on one solver with a configured attacker (what gencorpus -analysis dfpn does): every
   `disproven` is sound - the statement the finding refuted for the unrepaired solver *)
Theorem C06_dfpn_seq_sound :
  forall (basis : list N) (aw : bool) (Sp : position -> Prop),
    (forall p m q, Sp p -> terminal aw p = None -> In m (all_moves p) -> dmv basis p m = Ok q -> Sp q) ->
    (forall p, Sp p -> size p <= 8) ->
    (forall p q, Sp p -> Sp q -> hash_of p = hash_of q ->
       (forall n, wn position (succs basis) (terminal aw) (attp aw) n p = wn position (succs basis) (terminal aw) (attp aw) n q) /\
       to_move_white p = to_move_white q /\ terminal aw p = terminal aw q) ->
    (forall p, Sp p -> hash_of p <> 0) ->
    (forall p, Sp p -> terminal aw p = None -> all_moves p <> []) ->
    (forall p, Sp p -> terminal aw p = None -> solve p <> None -> attp aw p = false ->
       exists q, In q (succs basis p) /\ terminal aw q = Some false) ->
    forall lfuel dfuel cfg_attacker, cfg_attacker = att_of aw ->
    forall gs sv, Forall Sp gs -> sv_okL basis aw Sp sv ->
      Forall2 (fun g (out : dstate * dentry * N * N) => snd out = 2 -> forall n, wn position (succs basis) (terminal aw) (attp aw) n g = false)
              gs (prove_seq basis lfuel dfuel cfg_attacker sv gs).
Proof. exact dfpn_seq_sound. Qed.
Print Assumptions C06_dfpn_seq_sound.

(* 13e. a fresh dsolver satisfies sv_okL *)
Theorem C06_sv0_okL : forall (basis : list N) (aw : bool) (Sp : position -> Prop),
  (forall p, Sp p -> hash_of p <> 0) -> forall entries, sv_okL basis aw Sp (dsolver0 entries).
Proof. exact sv0_okL. Qed.
Print Assumptions C06_sv0_okL.

(* 13f. kept from the analysis of the unrepaired solver (still true): a call that takes no bound from the table is sound whatever
   the table holds (prove_on form), and a call on a table of facts that meets no repetition is sound and leaves a table of facts *)
Theorem C06_dfpn_disproven_sound_nohit_on :
  forall (basis : list N) (Sp : position -> Prop) (cfg_attacker : N) (sv sv' : dsolver) (g : position) lfuel dfuel s e w r,
    let aw := match cfg_attacker with 1 => true | 2 => false | _ => to_move_white g end in
    (forall p m q, Sp p -> terminal aw p = None -> In m (all_moves p) -> dmv basis p m = Ok q -> Sp q) ->
    (forall p, Sp p -> size p <= 8) ->
    (forall p q, Sp p -> Sp q -> hash_of p = hash_of q ->
       forall n, wn position (succs basis) (terminal aw) (attp aw) n p = wn position (succs basis) (terminal aw) (attp aw) n q) ->
    (forall p, Sp p -> terminal aw p = None -> all_moves p <> []) ->
    (forall p, Sp p -> terminal aw p = None -> solve p <> None -> attp aw p = false ->
       exists q, In q (succs basis p) /\ terminal aw q = Some false) ->
    Sp g -> prove_on basis lfuel dfuel cfg_attacker sv g = (sv', (s, e, w, r)) -> ds_hits (dst s) = 0 -> r = 2 ->
    forall n, wn position (succs basis) (terminal aw) (attp aw) n g = false.
Proof. exact dfpn_disproven_sound_nohit_on. Qed.
Print Assumptions C06_dfpn_disproven_sound_nohit_on.

(* ================================================================================================================================
   14. (third wave, worker prove3-cong)  (a) THE MOVE DFPN RETURNS WITH `proven`.  ProofResult.Move is entry.pv of the root entry;
   mid sets current.pv to the move of the child it descends into, each time it descends, and the root entry starts with the zero
   Move.  So a returned move of type <> 0 is the move of the last child the root loop descended into (DfpnMove.v):
     attacker to move at the root: the loop goes on only while no child has delta = 0, so the child that closes the proof is the
       one last descended into - the returned move is a generated legal move after which the attacker still has a forced win;
     attacker NOT to move at the root (configured Attacker = the other player): `proven` means every reply of the defender is won;
       the returned move is a generated legal move OF THE DEFENDER (the reply examined last) and the attacker has a forced win
       after it as well.
   Both cases are one statement.  The zero Move comes with `proven` when the root is solved while its children are generated or
   the game is over at the root: no claim then (the known quirk).  Hypotheses on Sp as in block 5 (proven side).
   The C06 oracle judges this move on every `proven` of fresh and reused solvers (class proven-move-loses; c06.go judge() is
   called for every call of a solver sequence).
   (b) The PN-squared twins of block 12's corollaries: blocks 10's two `_partial` statements without the congruence hypothesis
   for roots inside PnCong3.cinv and for every replay from tak.New (PnCong6.v).
   ================================================================================================================================ *)
Require Import DfpnMove PnCong6.

Theorem C06_dfpn_proven_move :
  forall (basis : list N) (aw : bool) (Sp : position -> Prop),
    (forall p m q, Sp p -> terminal aw p = None -> In m (all_moves p) -> dmv basis p m = Ok q -> Sp q) ->
    (forall p, Sp p -> size p <= 8) ->
    (forall p q, Sp p -> Sp q -> hash_of p = hash_of q ->
       (W basis aw p <-> W basis aw q) /\ to_move_white p = to_move_white q /\ terminal aw p = terminal aw q) ->
    (forall p, Sp p -> hash_of p <> 0) ->
    (forall p, Sp p -> terminal aw p = None -> all_moves p <> []) ->
    (forall p, Sp p -> terminal aw p = None -> solve p <> None -> attp aw p = true -> W basis aw p) ->
    forall lfuel dfuel entries g s e w,
      Sp g -> prove basis aw lfuel dfuel entries g = (s, e, w) -> result_of aw g e = 1 -> mT (d_pv e) <> 0 ->
      exists q, In (d_pv e) (all_moves g) /\ dmv basis g (d_pv e) = Ok q /\
                exists n, wn position (succs basis) (terminal aw) (attp aw) n q = true.
Proof. exact dfpn_proven_move. Qed.
Print Assumptions C06_dfpn_proven_move.

(* 14b. from any solver state whose table holds sound entries *)
Theorem C06_dfpn_proven_move_from :
  forall (basis : list N) (aw : bool) (Sp : position -> Prop),
    (forall p m q, Sp p -> terminal aw p = None -> In m (all_moves p) -> dmv basis p m = Ok q -> Sp q) ->
    (forall p, Sp p -> size p <= 8) ->
    (forall p q, Sp p -> Sp q -> hash_of p = hash_of q ->
       (W basis aw p <-> W basis aw q) /\ to_move_white p = to_move_white q /\ terminal aw p = terminal aw q) ->
    (forall p, Sp p -> hash_of p <> 0) ->
    (forall p, Sp p -> terminal aw p = None -> all_moves p <> []) ->
    (forall p, Sp p -> terminal aw p = None -> solve p <> None -> attp aw p = true -> W basis aw p) ->
    forall lfuel dfuel s0 g s e w,
      table_ok basis aw Sp s0 -> Sp g -> prove_from basis aw lfuel dfuel s0 g = (s, e, w) -> result_of aw g e = 1 -> mT (d_pv e) <> 0 ->
      exists q, In (d_pv e) (all_moves g) /\ dmv basis g (d_pv e) = Ok q /\
                exists n, wn position (succs basis) (terminal aw) (attp aw) n q = true.
Proof. exact dfpn_proven_move_from. Qed.
Print Assumptions C06_dfpn_proven_move_from.

(* 14c. one call of a reused solver: `proven` and its move (sv_ok: if the solver was last used for this attacker its table holds
   sound entries; a fresh dsolver does) *)
Theorem C06_dfpn_on_proven :
  forall (basis : list N) (aw : bool) (Sp : position -> Prop),
    (forall p m q, Sp p -> terminal aw p = None -> In m (all_moves p) -> dmv basis p m = Ok q -> Sp q) ->
    (forall p, Sp p -> size p <= 8) ->
    (forall p q, Sp p -> Sp q -> hash_of p = hash_of q ->
       (W basis aw p <-> W basis aw q) /\ to_move_white p = to_move_white q /\ terminal aw p = terminal aw q) ->
    (forall p, Sp p -> hash_of p <> 0) ->
    (forall p, Sp p -> terminal aw p = None -> all_moves p <> []) ->
    (forall p, Sp p -> terminal aw p = None -> solve p <> None -> attp aw p = true -> W basis aw p) ->
    forall lfuel dfuel cfg_attacker sv g sv' s e w r,
      aw = match cfg_attacker with 1 => true | 2 => false | _ => to_move_white g end ->
      Sp g -> sv_ok basis aw Sp sv -> prove_on basis lfuel dfuel cfg_attacker sv g = (sv', (s, e, w, r)) ->
      sv_ok basis aw Sp sv' /\
      (r = 1 -> W basis aw g /\
                (mT (d_pv e) <> 0 -> exists q, In (d_pv e) (all_moves g) /\ dmv basis g (d_pv e) = Ok q /\ W basis aw q)).
Proof. exact dfpn_on_proven. Qed.
Print Assumptions C06_dfpn_on_proven.

(* 14d. PN-squared against the attractor, roots that are positions of a game / of real games *)
Theorem C06_pn2_proven_rules : forall c b iters dfuel k2 dfuel2 maxnodes preserve maxdepth pn2 (p : position) root s mv why,
  cinv c b p ->
  pn2_run iters dfuel k2 dfuel2 maxnodes preserve maxdepth pn2 p = (root, s, 1, mv, why) ->
  exists k, Wb position pos_equal (succs gen_basis) (terminal (to_move_white p)) (attp (to_move_white p)) k [] p.
Proof. exact pn2_run_proven_rules. Qed.
Print Assumptions C06_pn2_proven_rules.

Theorem C06_pn2_disproven_attractor : forall c b iters dfuel k2 dfuel2 maxnodes preserve maxdepth pn2 (p : position) root s mv why,
  cinv c b p -> (0 <= maxdepth)%Z ->
  pn2_run iters dfuel k2 dfuel2 maxnodes preserve maxdepth pn2 p = (root, s, 2, mv, why) ->
  wn position (succs gen_basis) (terminal (to_move_white p)) (attp (to_move_white p)) (Z.to_nat (eff_maxdepth maxdepth)) p = false.
Proof. exact pn2_run_disproven_attractor. Qed.
Print Assumptions C06_pn2_disproven_attractor.

Theorem C06_pn2_proven_rules_reachable :
  forall sz bwt stones caps ms iters dfuel k2 dfuel2 maxnodes preserve maxdepth pn2 (p : position) root s mv why,
  3 <= sz <= 8 -> 2 * (stones + caps) <= 64 -> replay (new_pos sz bwt stones caps) ms = Ok p ->
  pn2_run iters dfuel k2 dfuel2 maxnodes preserve maxdepth pn2 p = (root, s, 1, mv, why) ->
  exists k, Wb position pos_equal (succs gen_basis) (terminal (to_move_white p)) (attp (to_move_white p)) k [] p.
Proof. exact pn2_run_proven_rules_reachable. Qed.
Print Assumptions C06_pn2_proven_rules_reachable.

Theorem C06_pn2_disproven_attractor_reachable :
  forall sz bwt stones caps ms iters dfuel k2 dfuel2 maxnodes preserve maxdepth pn2 (p : position) root s mv why,
  3 <= sz <= 8 -> 2 * (stones + caps) <= 64 -> replay (new_pos sz bwt stones caps) ms = Ok p -> (0 <= maxdepth)%Z ->
  pn2_run iters dfuel k2 dfuel2 maxnodes preserve maxdepth pn2 p = (root, s, 2, mv, why) ->
  wn position (succs gen_basis) (terminal (to_move_white p)) (attp (to_move_white p)) (Z.to_nat (eff_maxdepth maxdepth)) p = false.
Proof. exact pn2_run_disproven_attractor_reachable. Qed.
Print Assumptions C06_pn2_disproven_attractor_reachable.

(* the general forms over prove_pn2 (any pcfg, any threshold): PnCong6.pn2_proven_rules_cinv / pn2_disproven_attractor_cinv *)

