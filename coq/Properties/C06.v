(* C06 — proof-number solver verdicts agree with the game-theoretic truth.
   Only statements, `exact`, and Print Assumptions live here. *)
From Coq Require Import NArith ZArith List Bool.
Require Import AndOr.
Import ListNotations.

(* The notion of truth.  For any game (positions with decidable equality, legal successors, finished positions
   marked won/not won for the attacker, side to move): the attacker has a forced win under the rule that the third
   occurrence of a position on the line of play is not a win (Wh, with the history of the line) from the empty history
   iff the position is won within some number of plies in the history-free game (wn) - i.e. iff it lies in the
   attractor that the retrograde oracle of the check computes. *)
Theorem C06_truth_equiv :
  forall (pos : Type) (pos_dec : forall a b : pos, {a = b} + {a <> b}) (moves : pos -> list pos)
         (terminal : pos -> option bool) (att : pos -> bool) (p : pos),
    Wh pos pos_dec moves terminal att [] p <-> exists n, wn pos moves terminal att n p = true.
Proof. exact truth_equiv. Qed.
Print Assumptions C06_truth_equiv.
