From Coq Require Import ZArith List Bool Lia.
Import ListNotations.
Open Scope Z_scope.

Inductive tree := T (ev : Z) (over : bool) (kids : list tree).

Definition ev_of t := match t with T e _ _ => e end.
Definition over_of t := match t with T _ o _ => o end.
Definition kids_of t := match t with T _ _ k => k end.

(* maximum of -(f k) over kids, starting from acc *)
Fixpoint maxneg (f : tree -> Z) (acc : Z) (ks : list tree) : Z :=
  match ks with [] => acc | k :: r => maxneg f (Z.max acc (- f k)) r end.

Fixpoint negamax (d : nat) (t : tree) : Z :=
  match d with
  | O => ev_of t
  | S d' => if over_of t then ev_of t else
            match kids_of t with
            | [] => ev_of t                                   (* not reached on well-formed game trees *)
            | k :: r => maxneg (negamax d') (- negamax d' k) r
            end
  end.

(* zero-window loop: returns true iff some kid has -(zw kid (-a-1)) > a *)
Fixpoint zw_loop (zw : tree -> Z -> Z) (a : Z) (ks : list tree) : bool :=
  match ks with [] => false | k :: r => if (a <? - zw k (-a-1)) then true else zw_loop zw a r end.

Fixpoint zw (d : nat) (t : tree) (a : Z) : Z :=
  match d with
  | O => ev_of t
  | S d' => if over_of t then ev_of t else
            if zw_loop (zw d') a (kids_of t) then a + 1 else a
  end.

(* pv loop: first = is this the first child *)
Fixpoint pv_loop (pv : tree -> Z -> Z -> Z) (zw : tree -> Z -> Z) (first : bool) (a b : Z) (ks : list tree) : Z :=
  match ks with
  | [] => a
  | k :: r =>
    let v :=
      if first then - pv k (-b) (-a)
      else let v0 := - zw k (-a-1) in
           if (a <? v0) && (v0 <? b) then - pv k (-b) (-a) else v0 in
    if a <? v then (if b <=? v then v else pv_loop pv zw false v b r)
    else pv_loop pv zw false a b r
  end.

Fixpoint pv (d : nat) (t : tree) (a b : Z) : Z :=
  match d with
  | O => ev_of t
  | S d' => if over_of t then ev_of t else pv_loop (pv d') (zw d') true a b (kids_of t)
  end.

(* well-formed: a live node has a child *)
Fixpoint wft (d : nat) (t : tree) : Prop :=
  match d with
  | O => True
  | S d' => over_of t = false -> kids_of t <> [] /\ Forall (wft d') (kids_of t)
  end.

Definition zw_ok (d : nat) := forall t a, wft d t ->
  let nm := negamax d t in let r := zw d t a in
  (nm <= a -> nm <= r <= a) /\ (a < nm -> a < r <= nm).

Definition pv_ok (d : nat) := forall t a b, wft d t -> a < b ->
  let nm := negamax d t in let r := pv d t a b in
  (nm <= a -> nm <= r <= a) /\ (a < nm < b -> r = nm) /\ (b <= nm -> b <= r <= nm).

Lemma maxneg_ge f acc ks : acc <= maxneg f acc ks.
Proof. revert acc; induction ks as [|k r IH]; simpl; intros; [lia|]. specialize (IH (Z.max acc (- f k))). lia. Qed.

Lemma maxneg_mono f a1 a2 ks : a1 <= a2 -> maxneg f a1 ks <= maxneg f a2 ks.
Proof. revert a1 a2; induction ks as [|k r IH]; simpl; intros; [lia|]. apply IH. lia. Qed.

(* characterise maxneg as: M >= acc, M >= each -f k, and M is attained *)
Lemma maxneg_spec f acc ks :
  let M := maxneg f acc ks in
  acc <= M /\ Forall (fun k => - f k <= M) ks /\ (M = acc \/ Exists (fun k => M = - f k) ks).
Proof.
  revert acc; induction ks as [|k r IH]; simpl; intros acc.
  - split; [lia|split; [constructor|left; reflexivity]].
  - destruct (IH (Z.max acc (- f k))) as (H1 & H2 & H3). split; [|split].
    + lia.
    + constructor; [lia|assumption].
    + destruct H3 as [H3|H3].
      * destruct (Z.max_spec acc (- f k)) as [[? E]|[? E]]; [right; constructor; congruence|left; congruence].
      * right. now constructor 2.
Qed.

Lemma zw_loop_spec d' a ks :
  zw_ok d' -> Forall (wft d') ks ->
  zw_loop (zw d') a ks = true <-> Exists (fun k => a < - negamax d' k) ks.
Proof.
  intros Hz Hw. induction ks as [|k r IH]; simpl.
  - split; [discriminate|inversion 1].
  - inversion Hw as [|? ? Hk Hr]; subst. specialize (IH Hr).
    destruct (Hz k (-a-1) Hk) as [Z1 Z2]. cbv zeta in Z1, Z2.
    destruct (Z.ltb_spec a (- zw d' k (-a-1))) as [L|L].
    + split; [intros _|reflexivity]. constructor. lia.
    + rewrite IH. split; [now constructor 2|]. inversion 1; subst; [lia|assumption].
Qed.

Lemma zw_step d' : zw_ok d' -> zw_ok (S d').
Proof.
  intros Hz t a Hw. simpl in *. destruct t as [e o ks]; simpl in *.
  destruct o; [lia|]. destruct (Hw eq_refl) as [Hne Hks].
  assert (Hl := zw_loop_spec d' a ks Hz Hks).
  destruct ks as [|k r]; [congruence|]. clear Hne.
  destruct (maxneg_spec (negamax d') (- negamax d' k) r) as (M1 & M2 & M3). cbv zeta in *.
  set (M := maxneg (negamax d') (- negamax d' k) r) in *.
  assert (HE : Exists (fun k0 => a < - negamax d' k0) (k :: r) <-> a < M).
  { split.
    - inversion 1; subst; [lia|]. rewrite Exists_exists in H1. destruct H1 as (x & Hx & Hx').
      rewrite Forall_forall in M2. specialize (M2 _ Hx). lia.
    - intros HM. destruct M3 as [M3|M3].
      + constructor. lia.
      + constructor 2. rewrite Exists_exists in *. destruct M3 as (x & Hx & Hx'). exists x. split; [assumption|lia]. }
  destruct (zw_loop (zw d') a (k :: r)) eqn:E.
  - assert (a < M) by (apply HE, Hl; reflexivity). lia.
  - assert (~ a < M) by (intros HM; apply HE, Hl in HM; congruence). lia.
Qed.

Lemma pv_loop_spec d' : pv_ok d' -> zw_ok d' -> forall ks first a b,
  Forall (wft d') ks -> a < b ->
  let M := maxneg (negamax d') a ks in
  let r := pv_loop (pv d') (zw d') first a b ks in
  (M < b -> r = M) /\ (b <= M -> b <= r <= M).
Proof.
  intros Hp Hz. induction ks as [|k rest IH]; intros first a b Hw Hab; simpl.
  - lia.
  - inversion Hw as [|? ? Hk Hr]; subst.
    set (x := - negamax d' k).
    (* the value v computed for this child obeys the trichotomy around (a,b) *)
    remember (if first then - pv d' k (- b) (- a)
              else if (a <? - zw d' k (- a - 1)) && (- zw d' k (- a - 1) <? b)
                   then - pv d' k (- b) (- a) else - zw d' k (- a - 1)) as v eqn:Ev.
    assert (Hv : (x <= a -> x <= v <= a) /\ (a < x < b -> v = x) /\ (b <= x -> b <= v <= x)).
    { destruct (Hp k (-b) (-a) Hk ltac:(lia)) as (P1 & P2 & P3). cbv zeta in P1, P2, P3.
      destruct (Hz k (-a-1) Hk) as (Z1 & Z2). cbv zeta in Z1, Z2.
      subst v. unfold x. destruct first.
      - repeat split; intros; try lia.
      - destruct (Z.ltb_spec a (- zw d' k (- a - 1))), (Z.ltb_spec (- zw d' k (- a - 1)) b); simpl;
          repeat split; intros; lia. }
    clear Ev. destruct Hv as (V1 & V2 & V3). fold x.
    assert (Hmax : Z.max a x = a \/ Z.max a x = x) by lia.
    destruct (Z.ltb_spec a v) as [Lav|Lav].
    + destruct (Z.leb_spec b v) as [Lbv|Lbv].
      * (* cutoff *)
        assert (b <= x) by lia. assert (Hx : x <= maxneg (negamax d') (Z.max a x) rest).
        { etransitivity; [|apply maxneg_ge]. lia. }
        lia.
      * assert (a < x < b) by lia. assert (v = x) by lia. subst v.
        replace (Z.max a x) with x by lia.
        apply IH; auto; lia.
    + assert (x <= a) by lia.
      replace (Z.max a x) with a by lia.
      apply IH; auto.
Qed.

Lemma maxneg_max f r : forall a x, maxneg f (Z.max a x) r = Z.max a (maxneg f x r).
Proof.
  induction r as [|q r IH]; intros; simpl; [reflexivity|].
  rewrite <- IH. f_equal. lia.
Qed.

Lemma pv_step d' : pv_ok d' -> zw_ok d' -> pv_ok (S d').
Proof.
  intros Hp Hz t a b Hw Hab. simpl in *. destruct t as [e o ks]; simpl in *.
  destruct o; [lia|]. destruct (Hw eq_refl) as [Hne Hks].
  destruct (pv_loop_spec d' Hp Hz ks true a b Hks Hab) as [L1 L2]. cbv zeta in L1, L2.
  destruct ks as [|k r]; [congruence|]. clear Hne.
  (* relate maxneg from a with maxneg from the first child's value *)
  assert (E : maxneg (negamax d') a (k :: r) = Z.max a (maxneg (negamax d') (- negamax d' k) r)).
  { simpl. apply maxneg_max. }
  rewrite E in L1, L2. lia.
Qed.

Theorem pvs_correct : forall d, zw_ok d /\ pv_ok d.
Proof.
  induction d as [|d [IHz IHp]].
  - split; unfold zw_ok, pv_ok; intros; cbn; lia.
  - split; [now apply zw_step|now apply pv_step].
Qed.
Print Assumptions pvs_correct.
