(* SearchLegal3.v: C04 for the executed engine model: SearchLegal2.analyze_legal with its hypotheses about the rules engine and the
   evaluator discharged (instantiated model, both evaluators of the check), for EVERY configuration: any table, null move, slide
   reduction, multi-cut, sorting, any cancellation point, any engine state reachable by earlier calls (SJ is established by
   new_state and preserved by every call). *)
From Coq Require Import NArith ZArith List Bool Lia.
Require Import Board Stack Rules Move GameOver Refine RefinePlace RefinePlace2 Slide2 Slide3 Slide6 MoveRefines Preserve1 Preserve5 Preserve6.
Require Import Eval EvalSpec EvalInst Search NegamaxSpec SearchGen SearchExact SearchInst SearchNeg2 SearchNeg3 SearchNeg4 SearchNeg5 SearchLegal1 SearchLegal2.
Require Import Generated.Consts.
Import ListNotations.

(* ---- the null move ---- *)
Lemma pos_ok_pass p : pos_ok p -> pos_ok (pass_move p).
Proof. intros [A B C D]. constructor; assumption. Qed.

Lemma base_ok_pass p : base_ok p -> base_ok (pass_move p).
Proof.
  intros (Hp & Ht & Hm & Hs). split; [apply pos_ok_pass; exact Hp|]. split; [exact Ht|]. unfold supply. cbn [pass_move move whiteStones blackStones].
  split; [lia|]. intros H2. split; [apply Hs; lia|intros; lia].
Qed.

(* the tree of depth d below p, null moves included, stays inside the representation limit of C01 *)
Fixpoint withinP (d : nat) (p : position) : Prop :=
  match d with
  | O => True
  | S d' => is_over p = false ->
            (forall m q, Refine.mv p m = Ok q -> heights64 q /\ withinP d' q) /\
            withinP d' (pass_move p)
  end.

Lemma withinP_le d : forall p, withinP (S d) p -> withinP d p.
Proof.
  induction d; intros p H; [exact I|]. intros EO. destruct (H EO) as (K & N). split.
  - intros m q E. destruct (K m q E) as (H64 & W). split; [exact H64|]. apply IHd. exact W.
  - apply IHd. exact N.
Qed.
Lemma withinP_mono d p : withinP d p -> forall d', (d' <= d)%nat -> withinP d' p.
Proof. intros H d' L. induction L; [exact H|]. apply IHL. apply withinP_le. exact H. Qed.

Lemma withinP_within d : forall p, withinP d p -> within d p.
Proof.
  induction d; intros p H; [exact I|]. intros EO. destruct (H EO) as (K & _).
  intros m q E. destruct (K m q E) as (H64 & W). split; [exact H64|apply IHd; exact W].
Qed.

Theorem withinP_total64 : forall d p, pos_ok p -> (total p <= 64)%N -> withinP d p.
Proof.
  induction d; intros p Hp Ht; [exact I|]. intros _. split.
  - intros m q E.
    destruct (move_preserves_small p m q Hp Ht (mv_not_pass p m q E) E) as (_ & Hq & ST).
    split; [apply total_heights64; rewrite (st_total _ _ ST); exact Ht|].
    apply IHd; [exact Hq|rewrite (st_total _ _ ST); exact Ht].
  - apply IHd; [apply pos_ok_pass; exact Hp|exact Ht].
Qed.

Theorem withinP_small : forall d p, pos_ok p -> (size p <= 5)%N -> (total p <= 51)%N -> withinP d p.
Proof. intros d p Hp _ Ht. apply withinP_total64; [exact Hp|lia]. Qed.

(* ---- the position family ---- *)
Open Scope Z_scope.
Definition PosL (d : nat) (p : position) : Prop := base_ok p /\ withinP d p /\ move p + Z.of_nat d <= max_terminal_ply.

Lemma PosL_anti d p : PosL (S d) p -> PosL d p.
Proof. intros (A & B & C). split; [exact A|]. split; [apply withinP_le; exact B|lia]. Qed.

Lemma PosL_step d p m q : PosL (S d) p -> is_over p = false -> okm m -> try_move gen_basis p m = Some q -> PosL d q.
Proof.
  intros (A & B & C) EO Hm T. apply (try_move_mv p m q Hm) in T. destruct (B EO) as (K & _). destruct (K m q T) as (H64 & W).
  destruct (base_ok_step p m q A T H64) as (A' & Em & _). split; [exact A'|]. split; [exact W|lia].
Qed.

Lemma PosL_pass d p : PosL (S d) p -> is_over p = false -> PosL d (pass_move p).
Proof.
  intros (A & B & C) EO. destruct (B EO) as (_ & N). split; [apply base_ok_pass; exact A|]. split; [exact N|].
  cbn [pass_move move]. lia.
Qed.

Lemma PosL_live d p : PosL (S d) p -> is_over p = false -> exists m q, In m (all_moves p) /\ try_move gen_basis p m = Some q.
Proof.
  intros (A & _) EO. pose proof (base_ok_live p A EO) as NE. destruct (children gen_basis p) as [|q r] eqn:EC; [contradiction|].
  assert (Hq : In q (children gen_basis p)) by (rewrite EC; left; reflexivity).
  apply in_children_mv in Hq. destruct Hq as (m & Hm & E). exists m, q. split; [exact Hm|].
  apply (try_move_mv p m q (all_moves_okm p m Hm)). exact E.
Qed.

Lemma PosL_bound cfg : builtin_eval cfg -> forall d p, PosL d p -> okv (c_eval cfg p).
Proof.
  intros [E|E] d p ((Hp & _ & Hm & _) & _ & C); rewrite E; unfold okv.
  - apply evaluate_winner_bounded.
  - apply default_eval_bounded; [exact Hp|lia].
Qed.

(* ---- C04, executed model ---- *)
(* the head of a line is a move that the engine's MovePreallocated (Refine.mv, the repaired code) accepts at p *)
Definition head_legal (p : position) (pv : list rmove) : Prop := exists m rest q, pv = m :: rest /\ Refine.mv p m = Ok q.

Lemma head_ok_legal p pv : head_ok gen_basis p pv -> head_legal p pv.
Proof. intros (m & rest & q & E & Hm & T). exists m, rest, q. split; [exact E|]. apply (try_move_mv p m q Hm). exact T. Qed.

Theorem analyze_first_move_legal : forall cfg, builtin_eval cfg ->
  forall k s p sk pv v d acc c,
  SJ s -> base_ok p -> is_over p = false -> withinP (Z.to_nat (c_depth cfg)) p -> move p + c_depth cfg <= max_terminal_ply ->
  analyze_cancel gen_basis cfg k s p = (sk, (pv, v, d, acc, c)) ->
  let '(base, ms0, v0) := az_root false (az_start s) p in
  SJ sk /\ ((d = base /\ pv = ms0) \/ (base < d /\ head_legal p pv)) /\ (c = false -> base < c_depth cfg -> base < d).
Proof.
  intros cfg HE k s p sk pv v d acc c HS Hb HO HW Hm H.
  pose proof (analyze_legal gen_basis cfg k PosL PosL_anti PosL_step PosL_pass PosL_live (PosL_bound cfg HE)
                s p sk pv v d acc c HS) as R.
  assert (HP : forall d0, Z.of_nat d0 <= c_depth cfg -> PosL d0 p).
  { intros d0 L. split; [exact Hb|]. split; [apply (withinP_mono _ p HW); lia|lia]. }
  specialize (R HP HO H). destruct (az_root false (az_start s) p) as [[base ms0] v0].
  destruct R as (A & _ & [C|(C1 & C2)] & E); (split; [exact A|]); (split; [|exact E]); [left; exact C|right; split; [exact C1|apply head_ok_legal; exact C2]].
Qed.

(* the seed of Analyze: the move of an exact table entry found under the root's hash is never validated when no iteration runs.
   NoCollision at the root, stated on the table: such an entry stores a move that is legal at the root. *)
Definition seed_legal (s : sstate) (p : position) : Prop :=
  forall i, tt_get (az_start s) (phash p) = Some i -> (e_bound (nth i (table (az_start s)) entry0) =? 1)%N = true ->
  exists q, Refine.mv p (e_m (nth i (table (az_start s)) entry0)) = Ok q.

(* every reported line starts with a legal move; a call that is not reported as cancelled and was configured with a positive depth reports a line *)
Theorem analyze_first_move_legal_seed : forall cfg, builtin_eval cfg ->
  forall k s p sk pv v d acc c,
  SJ s -> base_ok p -> is_over p = false -> withinP (Z.to_nat (c_depth cfg)) p -> move p + c_depth cfg <= max_terminal_ply ->
  seed_legal s p ->
  analyze_cancel gen_basis cfg k s p = (sk, (pv, v, d, acc, c)) ->
  SJ sk /\ (pv = [] \/ head_legal p pv) /\ (c = false -> 0 < c_depth cfg -> head_legal p pv).
Proof.
  intros cfg HE k s p sk pv v d acc c HS Hb HO HW Hm HSEED H.
  pose proof (analyze_first_move_legal cfg HE k s p sk pv v d acc c HS Hb HO HW Hm H) as R.
  assert (SEED : let '(base, ms0, v0) := az_root false (az_start s) p in (ms0 = [] /\ base = 0) \/ head_legal p ms0).
  { unfold az_root. destruct (tt_get (az_start s) (phash p)) as [i|] eqn:ET; [|left; split; reflexivity].
    destruct (e_bound (nth i (table (az_start s)) entry0) =? 1)%N eqn:EB; [|left; split; reflexivity].
    right. destruct (HSEED i ET EB) as (q & E). eexists _, [], q. split; [reflexivity|exact E]. }
  destruct (az_root false (az_start s) p) as [[base ms0] v0].
  destruct R as (A & [(C1 & C2)|(C1 & C2)] & E); (split; [exact A|]).
  - subst. destruct SEED as [(S1 & S2)|S1].
    + split; [left; exact S1|]. intros F L. specialize (E F ltac:(lia)). lia.
    + split; [right; exact S1|]. intros _ _. exact S1.
  - split; [right; exact C2|]. intros _ _. exact C2.
Qed.

(* without a table (a fresh engine created without one, or after any history of calls on it): no seed *)
Corollary analyze_first_move_legal_notable : forall cfg, builtin_eval cfg ->
  forall k s p sk pv v d acc c,
  SI s -> base_ok p -> is_over p = false -> withinP (Z.to_nat (c_depth cfg)) p -> move p + c_depth cfg <= max_terminal_ply ->
  analyze_cancel gen_basis cfg k s p = (sk, (pv, v, d, acc, c)) ->
  (pv = [] \/ head_legal p pv) /\ (c = false -> 0 < c_depth cfg -> head_legal p pv).
Proof.
  intros cfg HE k s p sk pv v d acc c HS Hb HO HW Hm H.
  pose proof (analyze_first_move_legal cfg HE k s p sk pv v d acc c (SI_SJ s HS) Hb HO HW Hm H) as R.
  assert (ER : az_root false (az_start s) p = (0, [], 0)).
  { unfold az_root, tt_get. rewrite (proj1 (SI_az_start s HS)). reflexivity. }
  rewrite ER in R. destruct R as (_ & [(C1 & C2)|(C1 & C2)] & E).
  - split; [left; exact C2|]. intros F L. specialize (E F L). lia.
  - split; [right; exact C2|]. intros _ _. exact C2.
Qed.
