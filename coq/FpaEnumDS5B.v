(* C20: complete enumeration (one VM evaluation at Qed: vm_cast_no_check) of the scripted opening with the repairs switched on: DoubleStack, size 5, bot Black.
   The expected tallies are those the Go driver measured on the repaired implementation. GENERATED once, then kept. *)
From Coq Require Import NArith ZArith List Bool.
Require Import Board Move GameOver Tps Symmetry Fpa.
Import ListNotations.

Lemma enum_ds_5_b : run [] repaired DoubleStack 5 false = {| nodes := 8466; scripted := 3920; illegal := 0; selfrej := 0; crash := 0 |}%N.
Proof. vm_cast_no_check (eq_refl ({| nodes := 8466; scripted := 3920; illegal := 0; selfrej := 0; crash := 0 |}%N)). Qed.
