(* C01/C08 strengthening, part 2: the slide branch of move_prealloc as a decision list ending in
   `drops` started from `lifted` (mv_slide_char).  Needs only board_ok of the source position. *)
From Coq Require Import NArith ZArith Arith List Bool Lia ZifyN ZifyBool ZifyNat.
Require Import Board Stack Rules Move Refine RefinePlace RefinePlace2 RefinePlace3 Slide1 Slide2 Slide3 Slide4 Slide5 Slide6 Slide7 Slide8 MoveRefines HashInv GameOver Preserve1.
Import ListNotations.
Ltac Zify.zify_post_hook ::= Z.div_mod_to_equations.

(* the position the slide branch builds from the final board state r *)
Definition slid (p : position) (r : bstate) : position :=
  {| size := size p; Move.black_wins_ties := Move.black_wins_ties p;
     whiteStones := whiteStones p; whiteCaps := whiteCaps p; blackStones := blackStones p; blackCaps := blackCaps p;
     move := (move p + 1)%Z; White := bw r; Move.Black := bb r; Standing := bs r; Caps := bc r;
     Height := bhs r; Stacks := bst r; hash := bh r |}.

Definition slide_ds (m : rmove) : list N := Rules.nibbles 8 (mS m).
Definition slide_ct (m : rmove) : N := sumN (slide_ds m).

Lemma mv_slide_char p m d : (3 <= size p <= 8)%N -> board_ok (size p) (bview p) -> mT m = dir_code d ->
  mv p m =
  if off_board p m then Err else
  if (move p <? 2)%Z then Err else
  if existsb (N.eqb 0) (slide_ds m) then Err else
  if (size p <? slide_ct m)%N || (slide_ct m <? 1)%N then Err else
  let i := sq_index p (mX m) (mY m) in
  if (nthN (Height p) i <? slide_ct m)%N then Err else
  if to_move_white p && negb (has (White p) i) then Err else
  if negb (to_move_white p) && negb (has (Move.Black p) i) then Err else
  match drops hsq p (top_kind (bview p) i) (stack_word (bview p) i) (fst (delta d)) (snd (delta d))
              (mX m) (mY m) (slide_ct m) (slide_ds m) (lifted (bview p) i (slide_ct m)) with
  | Ok r => Ok (slid p r) | Err => Err | Panic => Panic
  end.
Proof.
  intros Hsz Hok Hd.
  assert (Hok' := Hok). destruct Hok' as [LH LS SQ]. cbn [bview bhs bst] in LH, LS.
  assert (Hkd : exists dx dy, delta d = (dx, dy) /\
     (match mT m with
      | 1 => Err | 2 => Ok (inl KFlat) | 3 => Ok (inl KStanding) | 4 => Ok (inl KCap)
      | 5 => Ok (inr (-1, 0)%Z) | 6 => Ok (inr (1, 0)%Z) | 7 => Ok (inr (0, 1)%Z) | 8 => Ok (inr (0, -1)%Z)
      | _ => Err end)%N = (Ok (inr (dx, dy)) : res (pkind + Z * Z))).
  { rewrite Hd. destruct d; cbn; eauto. }
  destruct Hkd as (dx & dy & Edel & Ekd).
  unfold mv, move_prealloc, off_board, slide_ct, slide_ds. rewrite Ekd, Edel. cbn [bind fst snd].
  assert (Hnp : negb (mT m =? 1)%N = true) by (rewrite Hd; destruct d; reflexivity).
  rewrite Hnp, andb_true_r. cbn [andb].
  destruct ((mX m <? 0)%Z || (Z.of_N (size p) <=? mX m)%Z || (mY m <? 0)%Z || (Z.of_N (size p) <=? mY m)%Z) eqn:Hb; [reflexivity|].
  assert (Hx : (0 <= mX m < Z.of_N (size p))%Z) by lia.
  assert (Hy : (0 <= mY m < Z.of_N (size p))%Z) by lia.
  destruct (move p <? 2)%Z eqn:Hop; [reflexivity|]. cbn [bind].
  rewrite nibbles_same. set (ds := Rules.nibbles 8 (mS m)).
  destruct (existsb (N.eqb 0) ds) eqn:Hz; [reflexivity|].
  rewrite fold_add_sumN. set (ct := sumN ds).
  destruct (sq_index_on_board p (mX m) (mY m) Hsz Hx Hy) as [Ei Li].
  set (i := sq_index p (mX m) (mY m)) in *.
  assert (Li64 : (i < 64)%N) by nia.
  assert (Hil : (N.to_nat i < nsq (size p))%nat) by (unfold nsq; nia).
  destruct ((size p <? ct)%N || (ct <? 1)%N) eqn:Hc1; [reflexivity|].
  rewrite (idx_ok (Height p) i 0%N) by lia. cbn [bind]. change (nth (N.to_nat i) (Height p) 0%N) with (nthN (Height p) i).
  set (h := nthN (Height p) i) in *.
  destruct (h <? ct)%N eqn:Hc2; [reflexivity|].
  assert (Hsq := SQ i Li). destruct Hsq as [Hh Hocc Hex Htop Hsc]. cbn [bview bhs bw bb bs bc] in *. fold h in Hh, Hocc, Htop.
  assert (Hne : h <> 0%N) by lia.
  assert (Hone : has (White p) i = negb (has (Move.Black p) i)).
  { destruct (has (White p) i) eqn:A, (has (Move.Black p) i) eqn:B; cbn in Hex; try discriminate; auto.
    exfalso. apply Hne, Hocc. auto. }
  rewrite Hone.
  destruct (to_move_white p) eqn:Hw, (has (Move.Black p) i) eqn:HB; cbn [negb andb]; try reflexivity.
  all: rewrite (idx_ok (Stacks p) i 0%N) by lia; cbn [bind]; change (nth (N.to_nat i) (Stacks p) 0%N) with (nthN (Stacks p) i).
  all: assert (Etop : top_at p (mX m) (mY m) = (Some (has (Move.Black p) i), top_kind (bview p) i))
        by (unfold top_at, top_kind; cbn [bview bs bc];
            replace (uint_of_int (mX m + mY m * Z.of_N (size p))) with i by (rewrite Ei; apply eq_sym, uint_of_int_id; nia);
            rewrite Hone, HB; cbn [negb]; destruct (has (Standing p) i), (has (Caps p) i); reflexivity).
  all: rewrite Etop, HB.
  all: assert (Elift : lifted (bview p) i ct =
         let sw := N.lor (shl64 (nthN (Stacks p) i) 1) (b2n (has (Move.Black p) i)) in
         let wb := if (h =? ct)%N then (clrb (White p) i, clrb (Move.Black p) i)
                   else if (N.land sw (bit ct) =? 0)%N then (setb (White p) i, clrb (Move.Black p) i) else (clrb (White p) i, setb (Move.Black p) i) in
         {| bw := fst wb; bb := snd wb; bs := clrb (Standing p) i; bc := clrb (Caps p) i;
            bhs := updN (Height p) (N.to_nat i) (u8 (h + 256 - ct));
            bst := updN (Stacks p) (N.to_nat i) (shr64 (nthN (Stacks p) i) ct);
            bh := N.lxor (N.lxor (hash p) (hash_at hsq (Height p) (Stacks p) i))
                    (hash_at hsq (updN (Height p) (N.to_nat i) (u8 (h + 256 - ct)))
                       (updN (Stacks p) (N.to_nat i) (shr64 (nthN (Stacks p) i) ct)) i) |}) by reflexivity.
  all: rewrite HB in Elift; cbn [b2n] in Elift.
  all: unfold stack_word; cbn [bview bst bb]; rewrite HB; cbn [b2n].
  all: destruct (h =? ct)%N eqn:Ehc; [|destruct (N.land (N.lor (shl64 (nthN (Stacks p) i) 1) _) (bit ct) =? 0)%N eqn:Eld];
       cbn [fst snd] in Elift; cbv zeta in Elift; rewrite <- Elift.
  all: destruct (drops hsq p (top_kind (bview p) i) _ dx dy (mX m) (mY m) ct ds (lifted (bview p) i ct)) as [r| |];
       cbn [bind]; reflexivity.
Qed.
Print Assumptions mv_slide_char.
