(* Instantiation of the refined ownership model (Alloc2.v) with the hash constants regenerated from /repo: what the
   C09 driver extracts. *)
From Coq Require Import NArith ZArith List Bool.
Require Import Board Move GameOver Refine Alloc Alloc2.
Import ListNotations.

Definition a2_step := step2 Refine.hsq.
Definition a2_op_ok := op_ok2.
Definition a2_zstep := zstep.
