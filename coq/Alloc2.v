(* Tak/Alloc2.v: ownership model of tak/alloc.go, second level of detail.

   Alloc.v treats Position.Height and Position.Stacks as part of the position VALUE and models only the two road-group
   slices as heap references.  Here every slice field of a Position is a slice HEADER (array id, offset, length) into
   a heap of arrays, as in the Go code:

     positionN struct { Position; alloc struct { Height [n*n]uint8; Stacks [n*n]uint64; Groups [2n]uint64 } }

   An object is: the scalar fields of Position (cfg, reserves, ply, the four bitboards, hash: `o2_sc`, a `position`
   record whose Height/Stacks fields are not used and always []), the ids of the three arrays the struct embeds
   (`o2_H`, `o2_S`, `o2_G`) and the four headers Height, Stacks, analysis.WhiteGroups, analysis.BlackGroups.
   The heap is one list of arrays (uint8 and uint64 cells are both N; a uint8 cell only ever receives `u8 _`);
   array 0 is the empty array that nil slices point at.

   Transcribed from the code, statement by statement:
     alloc(tpl)            three fresh zeroed arrays; Height = own[:], Stacks = own[:], WhiteGroups = Groups[:0]; BlackGroups is
                           the template's header (struct copy); copy(a.Height, tpl.Height); copy(a.Stacks, tpl.Stacks)
                           (copy = min of the two lengths); panics for a size outside 3..8
     copyPosition(p, out)  scalars and BlackGroups header from p; Height/Stacks headers of out are KEPT, WhiteGroups = g[:0];
                           the two copies; whatever lies behind the copied prefix in out's arrays stays
     analyze()             as in Alloc.v (FloodGroups appending behind WhiteGroups[:0], the black groups behind the white
                           ones, Go's append growing into a new array)
     MovePreallocated      after alloc/copyPosition: every read `p.Height[i]`, `p.Stacks[i]` goes through the SOURCE's headers,
                           every read and write `next.Height[i]`, `next.Stacks[i]`, `next.hashAt(i)` goes through the
                           DESTINATION's headers, cell by cell and in place, in the order of the code; a move that fails
                           after the origin square was rewritten leaves the cells written so far
     New, Alloc, FromSquares (New + filling the own arrays in place + analyze), Clone (alloc + analyze), Move, Pass.

   What a handle shows = the value READ THROUGH ITS HEADERS (`view`), the two group slices read through theirs, and
   GameOver computed from them.

   No proofs here (Alloc2Facts*.v). *)
From Coq Require Import NArith ZArith List Bool Lia.
Require Import Board Move GameOver Alloc.
Import ListNotations.

Definition heap := list (list N).

Record obj2 := { o2_sc : position;
                 o2_H : nat; o2_S : nat; o2_G : nat;
                 o2_hh : sref; o2_sh : sref; o2_wg : sref; o2_bg : sref }.
Record store2 := { s2_objs : list obj2; s2_arrs : heap }.
Definition empty_store2 : store2 := {| s2_objs := []; s2_arrs := [[]] |}.

(* a position value with other Height/Stacks *)
Definition with_hs (p : position) (hs st : list N) : position :=
  {| size := size p; black_wins_ties := black_wins_ties p; whiteStones := whiteStones p; whiteCaps := whiteCaps p;
     blackStones := blackStones p; blackCaps := blackCaps p; move := move p;
     White := White p; Black := Black p; Standing := Standing p; Caps := Caps p;
     Height := hs; Stacks := st; hash := hash p |}.
Definition scal (p : position) : position := with_hs p [] [].

(* ---- cells ---- *)
(* s[i] with Go's bounds check against len(s) *)
Definition rd (arrs : heap) (r : sref) (i : N) : res N :=
  if (i <? N.of_nat (r_len r))%N then Ok (nth (r_off r + N.to_nat i) (get_arr arrs (r_arr r)) 0%N) else Panic.
(* s[i] = v (always behind a read of s[i], which has done the bounds check) *)
Definition wr (arrs : heap) (r : sref) (i : nat) (v : N) : heap :=
  set_nth arrs (r_arr r) (set_nth (get_arr arrs (r_arr r)) (r_off r + i) v).
(* the cells off.. of array a are overwritten by vs *)
Definition write_list (arrs : heap) (a off : nat) (vs : list N) : heap :=
  let arr := get_arr arrs a in
  set_nth arrs a (firstn off arr ++ vs ++ skipn (off + length vs) arr).
(* copy(dst, src): min(len(dst), len(src)) cells, memmove semantics *)
Definition copy_hdr (arrs : heap) (dst src : sref) : heap :=
  write_list arrs (r_arr dst) (r_off dst) (firstn (r_len dst) (read_ref arrs src)).
(* filling a slice from a literal list (FromSquares writes Height[i], Stacks[i] for the squares of the board) *)
Definition fill_hdr (arrs : heap) (dst : sref) (vs : list N) : heap :=
  write_list arrs (r_arr dst) (r_off dst) (firstn (r_len dst) vs).

Definition view (arrs : heap) (o : obj2) : position :=
  with_hs (o2_sc o) (read_ref arrs (o2_hh o)) (read_ref arrs (o2_sh o)).

Definition set_obj2 (objs : list obj2) (i : nat) (o : obj2) : list obj2 := set_nth objs i o.

(* ---- alloc(tpl): the template is given by its scalars and its three copied headers ---- *)
Definition size_ok (sz : N) : bool := ((3 <=? sz) && (sz <=? 8))%N.
Definition nsq2 (sz : N) : nat := N.to_nat (sz * sz).

Definition alloc2 (st : store2) (sc : position) (thh tsh tbg : sref) : store2 * res nat :=
  if negb (size_ok (size sc)) then (st, Panic) else         (* default: panic("illegal size") *)
  let id := length (s2_objs st) in
  let a := length (s2_arrs st) in
  let n := nsq2 (size sc) in
  let hh := {| r_arr := a; r_off := 0; r_len := n |} in
  let sh := {| r_arr := S a; r_off := 0; r_len := n |} in
  let arrs0 := s2_arrs st ++ [repeat 0%N n; repeat 0%N n; repeat 0%N (garr_len sc)] in
  let arrs1 := copy_hdr arrs0 hh thh in
  let arrs2 := copy_hdr arrs1 sh tsh in
  ({| s2_objs := s2_objs st ++ [{| o2_sc := sc; o2_H := a; o2_S := S a; o2_G := S (S a);
                                   o2_hh := hh; o2_sh := sh;
                                   o2_wg := {| r_arr := S (S a); r_off := 0; r_len := 0 |}; o2_bg := tbg |}];
      s2_arrs := arrs2 |}, Ok id).

(* copyPosition(p, out) for objects p, out of the store *)
Definition copy_position2 (st : store2) (p out : obj2) (outid : nat) : store2 :=
  let arrs1 := copy_hdr (s2_arrs st) (o2_hh out) (o2_hh p) in
  let arrs2 := copy_hdr arrs1 (o2_sh out) (o2_sh p) in
  {| s2_objs := set_obj2 (s2_objs st) outid
                  {| o2_sc := o2_sc p; o2_H := o2_H out; o2_S := o2_S out; o2_G := o2_G out;
                     o2_hh := o2_hh out; o2_sh := o2_sh out;
                     o2_wg := {| r_arr := r_arr (o2_wg out); r_off := r_off (o2_wg out); r_len := 0 |};
                     o2_bg := o2_bg p |};
     s2_arrs := arrs2 |}.

(* p.analyze() on object i (reads only scalars: White, Black, Standing, cfg) *)
Definition analyze2 (st : store2) (i : nat) : store2 :=
  match nth_error (s2_objs st) i with
  | None => st
  | Some o =>
    let '(wgs, bgs) := analyze_total (o2_sc o) in
    let w0 := {| r_arr := r_arr (o2_wg o); r_off := r_off (o2_wg o); r_len := 0 |} in
    let '(arrs1, w) := append_all (s2_arrs st) w0 wgs in
    let b0 := {| r_arr := r_arr w; r_off := (r_off w + r_len w)%nat; r_len := 0 |} in
    let '(arrs2, b) := append_all arrs1 b0 bgs in
    {| s2_objs := set_obj2 (s2_objs st) i
                    {| o2_sc := o2_sc o; o2_H := o2_H o; o2_S := o2_S o; o2_G := o2_G o;
                       o2_hh := o2_hh o; o2_sh := o2_sh o; o2_wg := w; o2_bg := b |};
       s2_arrs := arrs2 |}
  end.

Definition set_sc2 (st : store2) (i : nat) (sc : position) (arrs : heap) : store2 :=
  match nth_error (s2_objs st) i with
  | Some o => {| s2_objs := set_obj2 (s2_objs st) i
                   {| o2_sc := sc; o2_H := o2_H o; o2_S := o2_S o; o2_G := o2_G o;
                      o2_hh := o2_hh o; o2_sh := o2_sh o; o2_wg := o2_wg o; o2_bg := o2_bg o |};
                 s2_arrs := arrs |}
  | None => {| s2_objs := s2_objs st; s2_arrs := arrs |}
  end.

Definition rbind {A B} (r : res A) (arrs : heap) (f : A -> heap * res B) : heap * res B :=
  match r with Ok a => f a | Err => (arrs, Err) | Panic => (arrs, Panic) end.

Section A2.
Variable hsq : N -> N -> N -> N.

(* the scalar part of the board while the drop loop runs *)
Record bsc := { cw : N; cb : N; cs : N; cc : N; chs : N }.

(* one iteration of the drop loop at target index i: next.Height / next.Stacks through the headers nhh / nsh.
   (The code shifts next.Stacks[i] left by one in place and then stores the final word into the same cell; the
   intermediate store is not modelled separately.) *)
Definition drop_at2 (topk : pkind) (stack : N) (ct cN i : N) (nhh nsh : sref) (arrs : heap) (b : bsc) : heap * res bsc :=
  rbind (if has (cc b) i then Err
         else if has (cs b) i then (if negb (ct =? 1)%N || negb (match topk with KCap => true | _ => false end) then Err else Ok (clrb (cs b) i))
         else Ok (cs b)) arrs (fun s =>
  rbind (rd arrs nhh i) arrs (fun hi =>
  rbind (rd arrs nsh i) arrs (fun sti =>
  let h := N.lxor (chs b) (hash_at hsq (read_ref arrs nhh) (read_ref arrs nsh) i) in
  let sti := if has (cw b) i then shl64 sti 1 else if has (cb b) i then N.lor (shl64 sti 1) 1 else sti in
  let drop := N.land (shr64 stack (ct - (cN - 1))) (u64 (shl64 1 (cN - 1) + (2^64 - 1))) in
  let sti := N.lor (shl64 sti (cN - 1)) drop in
  let arrs1 := wr arrs nsh (N.to_nat i) sti in
  let arrs2 := wr arrs1 nhh (N.to_nat i) (u8 (hi + cN)) in
  let h := N.lxor h (hash_at hsq (read_ref arrs2 nhh) (read_ref arrs2 nsh) i) in
  let blk := negb (N.land stack (bit (ct - cN)) =? 0)%N in
  let bb' := if blk then setb (cb b) i else clrb (cb b) i in
  let bw' := if blk then clrb (cw b) i else setb (cw b) i in
  let '(c, s) := if (ct - cN =? 0)%N then match topk with KCap => (setb (cc b) i, s) | KStanding => (cc b, setb s i) | _ => (cc b, s) end
                 else (cc b, s) in
  (arrs2, Ok {| cw := bw'; cb := bb'; cs := s; cc := c; chs := h |})))).

Fixpoint drops2 (p : position) (topk : pkind) (stack : N) (dx dy : Z) (x y : Z) (ct : N) (ds : list N)
         (nhh nsh : sref) (arrs : heap) (b : bsc) : heap * res bsc :=
  match ds with
  | [] => (arrs, Ok b)
  | cN :: rest =>
    let x := wrap8 (x + dx) in let y := wrap8 (y + dy) in
    if negb (in_board p x y) then (arrs, Err) else
    if (cN <? 1)%N || (ct <? cN)%N then (arrs, Err) else
    let i := sq_index p x y in
    match drop_at2 topk stack ct cN i nhh nsh arrs b with
    | (arrs1, Ok b') => drops2 p topk stack dx dy x y (ct - cN)%N rest nhh nsh arrs1 b'
    | (arrs1, Err) => (arrs1, Err)
    | (arrs1, Panic) => (arrs1, Panic)
    end
  end.

(* Pass: next.move++ *)
Definition bump (p : position) : position :=
  {| size := size p; black_wins_ties := black_wins_ties p; whiteStones := whiteStones p; whiteCaps := whiteCaps p;
     blackStones := blackStones p; blackCaps := blackCaps p; move := (move p + 1)%Z;
     White := White p; Black := Black p; Standing := Standing p; Caps := Caps p;
     Height := Height p; Stacks := Stacks p; hash := hash p |}.

(* The body of MovePreallocated after alloc/copyPosition.  p = the scalars of the source (the destination's are a copy of
   them: `*out = *p`); phh/psh = p.Height/p.Stacks, nhh/nsh = next.Height/next.Stacks.  Returns the heap as written
   so far and, on success, the scalars of next.  Same order of tests as Move.move_prealloc (the repaired function). *)
Definition move_in_place (arrs : heap) (p : position) (phh psh nhh nsh : sref) (m : rmove) : heap * res position :=
  if (mT m =? 1)%N then (arrs, Ok (scal (bump p))) else
  let next_move := (move p + 1)%Z in
  let sz := Z.of_N (size p) in
  if ((mX m <? 0) || (sz <=? mX m) || (mY m <? 0) || (sz <=? mY m))%Z && negb (mT m =? 1)%N then (arrs, Err) else
  let white_to_move := to_move_white p in
  rbind (match mT m with
         | 1 => Err
         | 2 => Ok (inl KFlat) | 3 => Ok (inl KStanding) | 4 => Ok (inl KCap)
         | 5 => Ok (inr (-1, 0)%Z) | 6 => Ok (inr (1, 0)%Z) | 7 => Ok (inr (0, 1)%Z) | 8 => Ok (inr (0, -1)%Z)
         | _ => Err
         end)%N arrs (fun kd =>
  let opening := (move p <? 2)%Z in
  rbind (if opening then match kd with inl KFlat => Ok tt | _ => Err end else Ok tt) arrs (fun _ =>
  let i := sq_index p (mX m) (mY m) in
  match kd with
  | inl k =>
    let place_white := if opening then negb white_to_move else white_to_move in
    if has (N.lor (White p) (Black p)) i then (arrs, Err) else
    let cap_white := white_to_move in
    let '(stones, upd) :=
      match k with
      | KCap => if cap_white then (whiteCaps p, fun (q : position) (v : N) => (whiteStones q, v, blackStones q, blackCaps q))
                else (blackCaps p, fun q v => (whiteStones q, whiteCaps q, blackStones q, v))
      | _ => if place_white then (whiteStones p, fun q v => (v, whiteCaps q, blackStones q, blackCaps q))
             else (blackStones p, fun q v => (whiteStones q, whiteCaps q, v, blackCaps q))
      end in
    if (stones <=? 0)%N then (arrs, Err) else
    let '(ws, wc, bs, bc) := upd p (u8 (stones + 255)) in
    let c := match k with KCap => setb (Caps p) i | _ => Caps p end in
    let s := match k with KStanding => setb (Standing p) i | _ => Standing p end in
    let w := if place_white then setb (White p) i else White p in
    let b := if place_white then Black p else setb (Black p) i in
    rbind (rd arrs nhh i) arrs (fun hi =>                                    (* next.Height[i]++ *)
    (wr arrs nhh (N.to_nat i) (u8 (hi + 1)),
     Ok {| size := size p; black_wins_ties := black_wins_ties p;
           whiteStones := ws; whiteCaps := wc; blackStones := bs; blackCaps := bc; move := next_move;
           White := w; Black := b; Standing := s; Caps := c;
           Height := []; Stacks := []; hash := hash p |}))
  | inr (dx, dy) =>
    let ds := nibbles 8 (mS m) in
    if existsb (N.eqb 0) ds then (arrs, Err) else
    let ct := fold_right N.add 0%N ds in
    if (size p <? ct)%N || (ct <? 1)%N then (arrs, Err) else
    rbind (rd arrs phh i) arrs (fun hi =>                                    (* ct > uint(p.Height[i]) *)
    if (hi <? ct)%N then (arrs, Err) else
    if white_to_move && negb (has (White p) i) then (arrs, Err) else
    if negb white_to_move && negb (has (Black p) i) then (arrs, Err) else
    let '(tcol, tkind) := top_at p (mX m) (mY m) in
    rbind (rd arrs psh i) arrs (fun sti =>                                   (* stack := p.Stacks[i] << 1 *)
    let stack := N.lor (shl64 sti 1) (match tcol with Some true => 1 | _ => 0 end)%N in
    let c := clrb (Caps p) i in let s := clrb (Standing p) i in
    rbind (rd arrs nhh i) arrs (fun nhi =>                                   (* uint(next.Height[i]) == ct *)
    let '(w, b) :=
      if (nhi =? ct)%N then (clrb (White p) i, clrb (Black p) i)
      else if (N.land stack (bit ct) =? 0)%N then (setb (White p) i, clrb (Black p) i)
      else (clrb (White p) i, setb (Black p) i) in
    let h := N.lxor (hash p) (hash_at hsq (read_ref arrs nhh) (read_ref arrs nsh) i) in   (* next.hash ^= next.hashAt(i) *)
    rbind (rd arrs nsh i) arrs (fun nsti =>
    let arrs1 := wr arrs nsh (N.to_nat i) (shr64 nsti ct) in                               (* next.Stacks[i] >>= ct *)
    let arrs2 := wr arrs1 nhh (N.to_nat i) (u8 (nhi + 256 - ct)) in                        (* next.Height[i] -= uint8(ct) *)
    let h := N.lxor h (hash_at hsq (read_ref arrs2 nhh) (read_ref arrs2 nsh) i) in
    match drops2 p tkind stack dx dy (mX m) (mY m) ct ds nhh nsh arrs2 {| cw := w; cb := b; cs := s; cc := c; chs := h |} with
    | (arrs3, Ok r) =>
      (arrs3, Ok {| size := size p; black_wins_ties := black_wins_ties p;
                    whiteStones := whiteStones p; whiteCaps := whiteCaps p; blackStones := blackStones p; blackCaps := blackCaps p;
                    move := next_move; White := cw r; Black := cb r; Standing := cs r; Caps := cc r;
                    Height := []; Stacks := []; hash := chs r |})
    | (arrs3, Err) => (arrs3, Err)
    | (arrs3, Panic) => (arrs3, Panic)
    end))))
  end)).

(* one operation: the new store and Ok id (the handle produced) / Err (the call returned an error, or an operand does
   not exist) / Panic *)
Definition step2 (st : store2) (o : opr) : store2 * res nat :=
  match o with
  | OInit p =>
    (* FromSquares: New (alloc of a template with nil slices), the squares written into the own arrays, analyze *)
    match alloc2 st (scal p) nil_ref nil_ref nil_ref with
    | (st1, Ok id) =>
      match nth_error (s2_objs st1) id with
      | Some o1 =>
        let arrs1 := fill_hdr (s2_arrs st1) (o2_hh o1) (Height p) in
        let arrs2 := fill_hdr arrs1 (o2_sh o1) (Stacks p) in
        (analyze2 {| s2_objs := s2_objs st1; s2_arrs := arrs2 |} id, Ok id)
      | None => (st1, Panic)
      end
    | (st1, r) => (st1, r)
    end
  | ONew sz bwt stones caps => alloc2 st (scal (new_pos sz bwt stones caps)) nil_ref nil_ref nil_ref
  | OAlloc sz => alloc2 st (scal (zero_pos sz)) nil_ref nil_ref nil_ref
  | OMove h m =>
    match nth_error (s2_objs st) h with
    | None => (st, Err)
    | Some src =>
      match alloc2 st (o2_sc src) (o2_hh src) (o2_sh src) (o2_bg src) with
      | (st1, Ok id) =>
        match nth_error (s2_objs st1) id with
        | Some nx =>
          match move_in_place (s2_arrs st1) (o2_sc src) (o2_hh src) (o2_sh src) (o2_hh nx) (o2_sh nx) m with
          | (arrs2, Ok sc') => (analyze2 (set_sc2 st1 id sc' arrs2) id, Ok id)
          | (arrs2, Err) => ({| s2_objs := s2_objs st1; s2_arrs := arrs2 |}, Err)     (* the object is garbage, nobody holds it *)
          | (arrs2, Panic) => ({| s2_objs := s2_objs st1; s2_arrs := arrs2 |}, Panic)
          end
        | None => (st1, Panic)
        end
      | (st1, r) => (st1, r)
      end
    end
  | OMovePre h m buf =>
    match nth_error (s2_objs st) h, nth_error (s2_objs st) buf with
    | Some src, Some b =>
      let st1 := copy_position2 st src b buf in
      match move_in_place (s2_arrs st1) (o2_sc src) (o2_hh src) (o2_sh src) (o2_hh b) (o2_sh b) m with
      | (arrs2, Ok sc') => (analyze2 (set_sc2 st1 buf sc' arrs2) buf, Ok buf)
      | (arrs2, Err) => ({| s2_objs := s2_objs st1; s2_arrs := arrs2 |}, Err)
      | (arrs2, Panic) => ({| s2_objs := s2_objs st1; s2_arrs := arrs2 |}, Panic)
      end
    | _, _ => (st, Err)
    end
  | OClone h =>
    match nth_error (s2_objs st) h with
    | None => (st, Err)
    | Some src =>
      match alloc2 st (o2_sc src) (o2_hh src) (o2_sh src) (o2_bg src) with
      | (st1, Ok id) => (analyze2 st1 id, Ok id)
      | (st1, r) => (st1, r)
      end
    end
  end.

Fixpoint run2_from (st : store2) (ops : list opr) : store2 :=
  match ops with [] => st | o :: t => run2_from (fst (step2 st o)) t end.
Definition run2 (ops : list opr) : store2 := run2_from empty_store2 ops.

(* what a caller sees of handle h, everything read through the headers *)
Definition observe2 (st : store2) (h : nat) : option observation :=
  match nth_error (s2_objs st) h with
  | Some o => let v := view (s2_arrs st) o in
              let wg := read_ref (s2_arrs st) (o2_wg o) in let bg := read_ref (s2_arrs st) (o2_bg o) in
              Some (v, wg, bg, game_over_groups v wg bg)
  | None => None
  end.

(* ---- admissibility: Alloc.op_ok plus the sizes.  zs = for every object id the board size it was allocated for ---- *)
Definition zstep (ps : pstate) (zs : list N) (o : opr) : list N :=
  match o with
  | OInit p => zs ++ [size p]
  | ONew sz _ _ _ | OAlloc sz => zs ++ [sz]
  | OMove h _ | OClone h => match pval ps h with Some v => zs ++ [size v] | None => zs end
  | OMovePre _ _ _ => zs
  end.
Definition op_ok2 (ps : pstate) (zs : list N) (o : opr) : bool :=
  op_ok ps o &&
  match o with
  | OInit p => size_ok (size p) && Nat.eqb (length (Height p)) (nsq2 (size p)) && Nat.eqb (length (Stacks p)) (nsq2 (size p))
  | ONew sz _ _ _ | OAlloc sz => size_ok sz
  | OMovePre h _ buf => match pval ps h with Some v => (nth buf zs 0 =? size v)%N | None => false end
  | OMove _ _ | OClone _ => true
  end.
Fixpoint ops_ok2_from (ps : pstate) (zs : list N) (ops : list opr) : bool :=
  match ops with [] => true | o :: t => op_ok2 ps zs o && ops_ok2_from (pure_step hsq ps o) (zstep ps zs o) t end.
Definition ops_ok2 (ops : list opr) : bool := ops_ok2_from [] [] ops.
End A2.
