(* C01/C08/C10, the IMPORT paths of positions, part 2: ptn.ParseTPS.
   Whatever text ParseTPS accepts, the position it returns is FromSquares of a board of 3..8 rows of as many squares,
   each empty or of the shape Position.At produces (parse_tps_shape: NO hypothesis); the parser does not bound the
   height of a stack, so the C01 invariant needs that no parsed stack is above 64 (low_board) - then pos_ok holds,
   and with the reserve hypothesis counts_fit the position abstracts to exactly the parsed board (parse_tps_wf). *)
From Coq Require Import NArith ZArith Arith List Bool Lia Ascii ZifyN ZifyBool ZifyNat.
Require Import Board Stack Rules Move Refine RefinePlace RefinePlace2 RefinePlace3 Slide1 Slide2 Slide3 Slide4 Slide5 Slide6 Slide7 Slide8
  MoveRefines HashInv GameOver Preserve1 Preserve2 PreserveExt Preserve3 Preserve4 Preserve5 Preserve6 Reach1 HashMove1.
Require Import Alloc Generated.Consts.
Require Import PtnMove Playtak Tps TpsFacts TpsFacts2 TpsFacts3 TpsFacts4 TpsFacts5 TpsFacts6 TpsFacts8 TpsFacts9 Import1.
Import ListNotations.
Local Open Scope N_scope.

Definition shape_cell (sq : list pc) : Prop := sq = [] \/ wf_square sq.

Record shape_board (n : nat) (board : list (list (list pc))) : Prop := {
  sh_size : (3 <= n <= 8)%nat;
  sh_rows : length board = n;
  sh_cols : Forall (fun row => length row = n) board;
  sh_cells : Forall (Forall shape_cell) board }.

Definition low_board (board : list (list (list pc))) : Prop := Forall (Forall (fun sq => (length sq <= 64)%nat)) board.

Lemma Forall2_and {A} (Q R : A -> Prop) l : Forall Q l -> Forall R l -> Forall (fun x => Q x /\ R x) l.
Proof. induction 1; intros H'; inversion H'; subst; constructor; auto. Qed.

Lemma shape_low_fit n board : shape_board n board -> low_board board -> fit_board n board.
Proof.
  intros [A B C D] L. constructor; try assumption. unfold low_board in L.
  rewrite Forall_forall in *. intros row Hrow. specialize (D row Hrow). specialize (L row Hrow).
  rewrite Forall_forall in *. intros sq Hsq. destruct (D sq Hsq) as [->|W]; [now left|right]. split; [exact W|now apply L].
Qed.

Lemma fit_shape n board : fit_board n board -> shape_board n board /\ low_board board.
Proof.
  intros [A B C D]. split; [constructor; try assumption|].
  - eapply Forall_impl; [|exact D]. intros row Hrow. eapply Forall_impl; [|exact Hrow].
    intros sq [->|[W _]]; [now left|now right].
  - eapply Forall_impl; [|exact D]. intros row Hrow. eapply Forall_impl; [|exact Hrow].
    intros sq [->|[_ L]]; [cbn; lia|exact L].
Qed.

(* ---- the stack loop of parseRow ---- *)
Lemma parse_stack_shape : forall s len i acc r, Forall flat_pc acc ->
  parse_stack len i s acc = Ok r -> (s = [] /\ r = acc) \/ wf_square r.
Proof.
  induction s as [|ch s IH]; intros len i acc r Hacc H; cbn [parse_stack] in H.
  - left. split; [reflexivity|]. now injection H as <-.
  - right. destruct (ch =? B "1").
    { apply IH in H; [|constructor; [reflexivity|exact Hacc]].
      destruct H as [[_ ->]|W]; [|exact W]. cbn [wf_square]. split; [now left|exact Hacc]. }
    destruct (ch =? B "2").
    { apply IH in H; [|constructor; [reflexivity|exact Hacc]].
      destruct H as [[_ ->]|W]; [|exact W]. cbn [wf_square]. split; [now left|exact Hacc]. }
    destruct ((ch =? B "C") || (ch =? B "S")); [|discriminate].
    destruct (negb (i =? len - 1)%nat); [discriminate|].
    destruct acc as [|[tb k0] below]; [discriminate|]. injection H as <-.
    inversion Hacc as [|? ? _ Hbelow]; subst. cbn [wf_square]. split; [|exact Hbelow].
    match goal with |- context [if ?c then _ else _] => destruct c end; auto.
Qed.

Lemma Forall_repeat {A} (Q : A -> Prop) a k : Q a -> Forall Q (repeat a k).
Proof. intros H. induction k; cbn [repeat]; constructor; auto. Qed.

Lemma parse_cell_shape it cs : parse_cell it = Ok cs -> Forall shape_cell cs.
Proof.
  unfold parse_cell. destruct it as [|c0 rest]; [discriminate|].
  destruct (c0 =? B "x").
  - intros [= <-]. apply Forall_repeat. now left.
  - destruct (parse_stack (length (c0 :: rest)) 0 (c0 :: rest) []) as [stk| |] eqn:E; try discriminate.
    intros [= <-]. constructor; [|constructor]. right.
    apply parse_stack_shape in E; [|constructor]. destruct E as [[E _]|W]; [discriminate|exact W].
Qed.

Lemma parse_row_items_shape : forall items row, parse_row_items items = Ok row -> Forall shape_cell row.
Proof.
  induction items as [|it items IH]; intros row H; cbn [parse_row_items] in H.
  - injection H as <-. constructor.
  - destruct (parse_cell it) as [cs| |] eqn:Ec; try discriminate.
    destruct (parse_row_items items) as [rest| |] eqn:Er; try discriminate.
    injection H as <-. apply Forall_app. split; [now apply (parse_cell_shape it)|now apply IH].
Qed.

Lemma parse_rows_shape : forall rows acc board, Forall (Forall shape_cell) acc ->
  parse_rows rows acc = Ok board -> Forall (Forall shape_cell) board.
Proof.
  induction rows as [|r rows IH]; intros acc board Hacc H; cbn [parse_rows] in H.
  - now injection H as <-.
  - destruct (parse_row r) as [row| |] eqn:Er; try discriminate.
    apply (IH (row :: acc)); [|exact H]. constructor; [|exact Hacc].
    unfold parse_row in Er. now apply parse_row_items_shape in Er.
Qed.

(* ---- ParseTPS ---- *)
Theorem parse_tps_shape basis s q : parse_tps basis s = Ok q ->
  exists n board mv, q = from_squares basis (N.of_nat n) board mv /\ shape_board n board.
Proof.
  unfold parse_tps. intros H.
  destruct (negb (length (words s) =? 3)%nat); [discriminate|].
  destruct (atoi (nth 1 (words s) [])) as [turn|]; [|discriminate].
  destruct (atoi (nth 2 (words s) [])) as [mvn|]; [|destruct (negb ((turn =? 1)%Z || (turn =? 2)%Z)); discriminate].
  destruct (negb ((turn =? 1)%Z || (turn =? 2)%Z)); [discriminate|].
  cbv zeta in H.
  destruct (parse_rows (split_on (B "/") (nth 0 (words s) []) []) []) as [pieces| |] eqn:Ep; try discriminate.
  destruct ((length pieces <? 3)%nat || (8 <? length pieces)%nat) eqn:En; [discriminate|].
  destruct (forallb (fun r => (length r =? length pieces)%nat) pieces) eqn:Ef; cbn [negb] in H; [|discriminate].
  injection H as <-. eexists _, pieces, _. split; [reflexivity|]. constructor.
  - lia.
  - reflexivity.
  - apply Forall_forall. intros row Hr. rewrite forallb_forall in Ef. apply Nat.eqb_eq. now apply Ef.
  - eapply (parse_rows_shape _ [] pieces); [constructor|exact Ep].
Qed.
Print Assumptions parse_tps_shape.

(* The corollary for TPS import.  The two hypotheses are about the parsed board, which the theorem hands out. *)
Theorem parse_tps_wf s q : parse_tps gen_basis s = Ok q ->
  exists n board mv, q = from_squares gen_basis (N.of_nat n) board mv /\ shape_board n board /\
    size q = N.of_nat n /\ Move.move q = mv /\ Move.black_wins_ties q = false /\
    (low_board board ->
       pos_ok q /\ sq (abs q) = map (map piece_of) (concat board) /\
       (counts_fit n board -> abs q = board_apos n board mv)).
Proof.
  intros H. destruct (parse_tps_shape gen_basis s q H) as (n & board & mv & -> & SB).
  exists n, board, mv. split; [reflexivity|]. split; [exact SB|].
  destruct (from_squares_spec gen_basis (N.of_nat n) board mv) as (E1 & E2 & E3 & _).
  { destruct SB as [_ Hr Hc _]. rewrite flat_map_id_concat, (concat_length_uniform n) by exact Hc. rewrite Hr, Nat2N.id. reflexivity. }
  { destruct SB as [Hn _ _ _]. rewrite Nat2N.id. nia. }
  split; [exact E1|]. split; [exact E2|]. split; [exact E3|].
  intros L. pose proof (shape_low_fit n board SB L) as FB.
  destruct (from_squares_wf n board mv FB) as (A & _ & _ & _ & B & _ & _ & _ & _ & C). auto.
Qed.
Print Assumptions parse_tps_wf.

(* pos_ok alone, in terms of q: the parsed position satisfies the invariant iff ... at least when no parsed stack is above 64 *)
Corollary parse_tps_pos_ok s q : parse_tps gen_basis s = Ok q ->
  (forall n board mv, q = from_squares gen_basis (N.of_nat n) board mv -> shape_board n board -> low_board board) -> pos_ok q.
Proof.
  intros H L. destruct (parse_tps_wf s q H) as (n & board & mv & E & SB & _ & _ & _ & K).
  now apply K, (L n board mv).
Qed.

(* ---- non-vacuity: the canonical string of TpsFacts7 ---- *)
Require Import TpsFacts7.
From Coq Require Import String.
Definition ex_tps5 : list N := bytes_of "x4,2/x5/x2,21S,x2/x,2112212C,x3/1,x2,1C,x 2 7".
Example ex_parse_tps_wf : exists q,
  parse_tps gen_basis ex_tps5 = Ok q /\ pos_ok q /\
  abs q = board_apos 5 ex_board5 13.
Proof.
  eexists. split; [vm_compute; reflexivity|].
  match goal with |- pos_ok ?p /\ _ => assert (E : p = from_squares gen_basis (N.of_nat 5) ex_board5 13) by (vm_compute; reflexivity) end.
  rewrite E. destruct ex_fit as [FB CF].
  destruct (from_squares_wf 5 ex_board5 13 FB) as (A & _ & _ & _ & _ & _ & _ & _ & _ & C). split; [exact A|now apply C].
Qed.

(* the height hypothesis cannot be dropped: a 65-high stack parses, and the position breaks the invariant (Height 65 > 64) *)
Definition tall_text : list N := bytes_of "x3/x3/" ++ repeat 49 65 ++ bytes_of ",x2 1 40".
Example ex_parse_tall : exists q, parse_tps gen_basis tall_text = Ok q /\ nthN (Height q) 0 = 65 /\ ~ pos_ok q.
Proof.
  eexists. split; [vm_compute; reflexivity|]. split; [vm_compute; reflexivity|].
  intros [_ [_ _ SQ] _ _]. specialize (SQ 0 ltac:(vm_compute; reflexivity)). destruct SQ as [Hh _ _ _ _].
  vm_compute in Hh. apply Hh. reflexivity.
Qed.
