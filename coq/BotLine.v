(* BotLine.v: the LINE LAYER of the playtak bot, over byte lists (bytes as N, as in PtnMove.v / Playtak.v).
   Model only; proofs in BotLineFacts*.v.

   1. playtak/client.go: ParseTell / ParseShout / ParseShoutRoom, i.e. what Go's regexp package computes for
        tellRE      = `^Tell <([^> ]+)> (.+)$`
        shoutRE     = `^Shout <([^> ]+)> (.+)$`
        shoutRoomRE = `^ShoutRoom (\S+) <([^> ]+)> (.+)$`
      (FindStringSubmatch; on a failed match the functions return empty strings), written as direct functions.
      Facts about Go regexps used here: leftmost-first matching with greedy `+`; `^`/`$` without the m flag match only at
      the two ends of the text; `.` excludes only "\n"; a negated class such as [^> ] DOES match "\n" (syntax.Perl includes
      ClassNL); `\S` is [^\t\n\f\r ] (ASCII only; \v is not white space); an invalid UTF-8 byte is one character U+FFFD,
      which all three classes accept, and every byte of a multi-byte character is >= 0x80, so on the level of BYTES each
      class is "any byte except the listed ASCII ones", and all group boundaries are next to ASCII literals.
      `re_match` below is the reference semantics (ordered backtracking search, greedy +) for this pattern shape;
      BotLineFacts.v proves that the direct functions compute it.

   2. playtak/bot/bot.go, handleMove: what is done with one received line:
        bits := strings.Split(line, " "); switch bits[0] {GameStr / Tell / Shout / ShoutRoom / default}; switch bits[1] {...}
      with Go's index panics (LBad), strconv.Atoi's value for the two Time fields (errors ignored by the code), and
      ParseServer on strings.Join(bits[1:], " ").  Result: the abstract line of Bot.v (moves = raw wire moves), the chat
      callback made (HandleTell / HandleChat with their arguments) and the parsed clock values. *)
From Coq Require Import NArith ZArith Bool Ascii.
From Coq Require Import String.
From Coq Require Import List.
Local Close Scope string_scope.
Require Import PtnMove Playtak Bot.
Import ListNotations.
Local Open Scope N_scope.

Definition bs (s : String.string) : list N := map N_of_ascii (String.list_ascii_of_string s).

(* strings.HasPrefix + cut *)
Fixpoint strip_prefix (p l : list N) : option (list N) :=
  match p with
  | [] => Some l
  | c :: p' => match l with
               | x :: l' => if x =? c then strip_prefix p' l' else None
               | [] => None
               end
  end.

(* the longest prefix of l whose bytes satisfy f, and the rest *)
Fixpoint span (f : N -> bool) (l : list N) : list N * list N :=
  match l with
  | [] => ([], [])
  | c :: r => if f c then (let '(a, b) := span f r in (c :: a, b)) else ([], l)
  end.

Definition name_char (c : N) : bool := negb (c =? 62) && negb (c =? 32).                                         (* [^> ] *)
Definition dot_char (c : N) : bool := negb (c =? 10).                                                             (* .     *)
Definition nonspace (c : N) : bool := negb ((c =? 9) || (c =? 10) || (c =? 12) || (c =? 13) || (c =? 32)).         (* \S    *)

Definition is_nil (l : list N) : bool := match l with [] => true | _ => false end.

(* `<([^> ]+)> (.+)$` : the name is the whole run of name characters (a shorter one would be followed by a name character,
   not by '>'), then "> ", then a non-empty rest of the text without "\n" *)
Definition who_msg (l : list N) : option (list N * list N) :=
  match l with
  | lt :: r =>
    if lt =? 60 then
      let '(who, r2) := span name_char r in
      if is_nil who then None else
      match r2 with
      | gt :: sp :: msg =>
        if (gt =? 62) && (sp =? 32) && negb (is_nil msg) && forallb dot_char msg then Some (who, msg) else None
      | _ => None
      end
    else None
  | [] => None
  end.

Definition parse_tell (l : list N) : list N * list N :=
  match strip_prefix (bs "Tell ") l with
  | Some r => match who_msg r with Some wm => wm | None => ([], []) end
  | None => ([], [])
  end.

Definition parse_shout (l : list N) : list N * list N :=
  match strip_prefix (bs "Shout ") l with
  | Some r => match who_msg r with Some wm => wm | None => ([], []) end
  | None => ([], [])
  end.

(* the room is the whole run of \S bytes (a shorter one would be followed by an \S byte, not by ' ') *)
Definition parse_shout_room (l : list N) : list N * list N * list N :=
  match strip_prefix (bs "ShoutRoom ") l with
  | Some r =>
    let '(room, r2) := span nonspace r in
    if is_nil room then ([], [], []) else
    match r2 with
    | sp :: r3 =>
      if sp =? 32 then match who_msg r3 with Some (who, msg) => (room, who, msg) | None => ([], [], []) end
      else ([], [], [])
    | [] => ([], [], [])
    end
  | None => ([], [], [])
  end.

(* ---- reference semantics: ordered backtracking search for patterns  ^ item ... item $  where an item is a literal byte
   or a captured greedy  (class+) ; the first successful branch wins, longer repetitions are tried first (Go: leftmost-first,
   greedy).  Returns the captures in order. *)
Inductive item := Lit (c : N) | Cap (f : N -> bool).

Fixpoint re_match (p : list item) : list N -> list (list N) -> option (list (list N)) :=
  match p with
  | [] => fun s caps => match s with [] => Some (rev caps) | _ => None end            (* $ *)
  | Lit c :: p' => fun s caps =>
      match s with x :: s' => if x =? c then re_match p' s' caps else None | [] => None end
  | Cap f :: p' => fun s caps =>
      (fix plus (s : list N) (acc : list N) {struct s} : option (list (list N)) :=
         match s with
         | [] => None
         | x :: s' =>
           if f x then
             match plus s' (x :: acc) with                                            (* greedy: one more first *)
             | Some r => Some r
             | None => re_match p' s' (rev (x :: acc) :: caps)                         (* stop here *)
             end
           else None
         end) s []
  end.

Definition lits (s : String.string) : list item := map Lit (bs s).
Definition tell_re : list item := lits "Tell <" ++ [Cap name_char] ++ lits "> " ++ [Cap dot_char].
Definition shout_re : list item := lits "Shout <" ++ [Cap name_char] ++ lits "> " ++ [Cap dot_char].
Definition shout_room_re : list item :=
  lits "ShoutRoom " ++ [Cap nonspace] ++ lits " <" ++ [Cap name_char] ++ lits "> " ++ [Cap dot_char].

(* FindStringSubmatch + the wrappers of client.go *)
Definition re_tell (l : list N) : list N * list N :=
  match re_match tell_re l [] with Some [a; b] => (a, b) | _ => ([], []) end.
Definition re_shout (l : list N) : list N * list N :=
  match re_match shout_re l [] with Some [a; b] => (a, b) | _ => ([], []) end.
Definition re_shout_room (l : list N) : list N * list N * list N :=
  match re_match shout_room_re l [] with Some [a; b; c] => (a, b, c) | _ => ([], [], []) end.

(* ---- strconv.Atoi(s) as used with its error IGNORED (`w, _ := strconv.Atoi(bits[2])`), 64-bit int:
   syntax error -> 0; range error -> the nearest int64; the digit loop of ParseUint reports the first problem it meets *)
Inductive ures := USyntax | URange | UVal (v : Z).
Fixpoint uint_scan (s : list N) (acc : Z) : ures :=
  match s with
  | [] => UVal acc
  | d :: r =>
    if in_range (B "0") (B "9") d then
      let a := (acc * 10 + Z.of_N (d - B "0"))%Z in
      if (2 ^ 64 <=? a)%Z then URange else uint_scan r a
    else USyntax
  end.

Definition atoi_value (s : list N) : Z :=
  match s with
  | [] => 0%Z
  | c0 :: r =>
    let neg := c0 =? B "-" in
    let body := if (c0 =? B "+") || neg then r else s in
    if is_nil body then 0%Z else
    match uint_scan body 0%Z with
    | USyntax => 0%Z
    | URange => if neg then (- 2 ^ 63)%Z else (2 ^ 63 - 1)%Z
    | UVal u => if neg then (if (2 ^ 63 <? u)%Z then (- 2 ^ 63)%Z else (- u)%Z)
                else (if (2 ^ 63 <=? u)%Z then (2 ^ 63 - 1)%Z else u)
    end
  end.

(* time.Duration(w) * time.Second in int64 *)
Definition wrap64 (z : Z) : Z := ((z + 2 ^ 63) mod 2 ^ 64 - 2 ^ 63)%Z.
Definition seconds (w : Z) : Z := wrap64 (w * 1000000000)%Z.

(* strings.Join(ws, " ") *)
Fixpoint join_sp (ws : list (list N)) : list N :=
  match ws with
  | [] => []
  | [w] => w
  | w :: r => w ++ 32 :: join_sp r
  end.

(* ---- handleMove on one received line ---- *)
Inductive chat :=
| ChatNone
| ChatTell (who msg : list N)               (* g.bot.HandleTell(who, msg) *)
| ChatRoom (room who msg : list N).         (* g.bot.HandleChat(room, who, msg); room = "" for a Shout *)

Record lres := {
  l_ev : line move;                         (* what the loop does next (Bot.v) *)
  l_chat : chat;                            (* the callback made before that *)
  l_times : option (Z * Z) }.               (* Time line: (white, black) as time.Duration values *)

(* switch bits[1] { ... }  with rest = bits[1:] *)
Definition second_switch (rest : list (list N)) : line move * option (Z * Z) :=
  match rest with
  | [] => (LBad _, None)                                                       (* bits[1]: index out of range *)
  | b1 :: args =>
    if bytes_eqb b1 (bs "P") || bytes_eqb b1 (bs "M") then
      (match parse_server (join_sp rest) with Ok m => LMove _ m | _ => LBad _ end, None)       (* panic(err) *)
    else if bytes_eqb b1 (bs "Abandoned.") then (LAbandoned _, None)
    else if bytes_eqb b1 (bs "Over") then
      (match args with [] => LBad _ | _ => LOver _ end, None)                  (* g.Result = bits[2] *)
    else if bytes_eqb b1 (bs "Time") then
      match args with
      | w :: b :: _ => (LTime _, Some (seconds (atoi_value w), seconds (atoi_value b)))
      | _ => (LBad _, None)                                                    (* bits[2] / bits[3] *)
      end
    else if bytes_eqb b1 (bs "RequestUndo") then (LReqUndo _, None)
    else if bytes_eqb b1 (bs "Undo") then (LUndo _, None)
    else (LOther _, None)
  end.

Definition classify (game_str l : list N) : lres :=
  match words l with
  | [] => {| l_ev := LOther _; l_chat := ChatNone; l_times := None |}          (* strings.Split never returns an empty slice *)
  | b0 :: rest =>
    if bytes_eqb b0 game_str then                                              (* case g.GameStr: *)
      let '(e, t) := second_switch rest in {| l_ev := e; l_chat := ChatNone; l_times := t |}
    else if bytes_eqb b0 (bs "Tell") then                                      (* case "Tell": NO continue *)
      let '(who, msg) := parse_tell l in
      let c := if is_nil who then ChatNone else ChatTell who msg in
      let '(e, t) := second_switch rest in {| l_ev := e; l_chat := c; l_times := t |}
    else if bytes_eqb b0 (bs "Shout") then                                     (* ...; continue *)
      let '(who, msg) := parse_shout l in
      {| l_ev := LOther _; l_chat := if is_nil who then ChatNone else ChatRoom [] who msg; l_times := None |}
    else if bytes_eqb b0 (bs "ShoutRoom") then
      let '(room, who, msg) := parse_shout_room l in
      {| l_ev := LOther _; l_chat := if is_nil who then ChatNone else ChatRoom room who msg; l_times := None |}
    else {| l_ev := LOther _; l_chat := ChatNone; l_times := None |}           (* default: continue *)
  end.

(* the Time branch's assignment to g.times: (mine, theirs) *)
Definition set_times (white : bool) (cur : Z * Z) (t : option (Z * Z)) : Z * Z :=
  match t with
  | None => cur
  | Some (w, b) => if white then (w, b) else (b, w)
  end.

(* ---- raw events: what the loop really receives ---- *)
Inductive raw_event :=
| RLine (l : list N) | RClosed | RAnswer (m : move) | RLate (m : move) | RGrace.

Definition ev_of (game_str : list N) (e : raw_event) : event move :=
  match e with
  | RLine l => Line _ (l_ev (classify game_str l))
  | RClosed => Closed _
  | RAnswer m => Answer _ m
  | RLate m => Late _ m
  | RGrace => Grace _
  end.
