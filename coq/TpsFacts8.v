(* C10: FormatTPS as a function of the squares alone (a rendering written from the TPS grammar), and
   ParseTPS-then-FormatTPS on canonical strings. *)
From Coq Require Import NArith ZArith List Bool Lia Ascii ZifyN ZifyBool ZifyNat.
Require Import Board Move GameOver PtnMove Playtak Tps TpsFacts TpsFacts2 TpsFacts3 TpsFacts4 TpsFacts5.
Import ListNotations.
Local Open Scope N_scope.

(* ---- the TPS grammar as a rendering of a board (rows of squares, top piece first) ---- *)
(* a maximal run of k empty squares: nothing, "x", or "x<k>" *)
Definition x_item (k : nat) : list (list N) :=
  match k with O => [] | S O => [[B "x"]] | _ => [B "x" :: fmt_int (Z.of_nat k)] end.

(* one row, left to right; `run` = empty squares seen since the last stack *)
Fixpoint rl_row (row : list (list pc)) (run : nat) : list (list N) :=
  match row with
  | [] => x_item run
  | [] :: r => rl_row r (S run)
  | sq :: r => x_item run ++ tps_square sq :: rl_row r 0
  end.

(* rows are listed bottom row first (index x + y*size) and written top row first *)
Definition render_board (board : list (list (list pc))) : list N :=
  join (B "/") (map (fun row => join (B ",") (rl_row row 0)) (rev board)).

Definition render_tps (board : list (list (list pc))) (mv : Z) : list N :=
  render_board board ++ [B " "] ++ (if Z.even mv then [B "1"] else [B "2"]) ++ [B " "] ++ fmt_int (Z.quot mv 2 + 1).

(* ---- tpsRow computes rl_row ---- *)
Fixpoint lead (row : list (list pc)) : nat := match row with [] :: r => S (lead r) | _ => 0%nat end.

Lemma rl_row_split : forall row run, rl_row row run = x_item (run + lead row) ++ rl_row (skipn (lead row) row) 0.
Proof.
  induction row as [|sq r IH]; intros run.
  - cbn [lead skipn rl_row]. rewrite Nat.add_0_r. cbn [x_item]. now rewrite app_nil_r.
  - destruct sq as [|pp sq].
    + cbn [lead skipn rl_row]. rewrite IH. now replace (S run + lead r)%nat with (run + S (lead r))%nat by lia.
    + cbn [lead skipn]. rewrite Nat.add_0_r. reflexivity.
Qed.

Lemma skipn_seq : forall k x m, skipn k (seq x m) = seq (x + k) (m - k).
Proof.
  induction k as [|k IH]; intros x m.
  - now rewrite Nat.add_0_r, Nat.sub_0_r.
  - destruct m as [|m]; [reflexivity|]. cbn [seq skipn]. rewrite IH. f_equal. lia.
Qed.

Section Row.
Variable p : position.
Variable y : nat.
Local Notation n := (N.to_nat (size p)).
Local Notation g := (fun x' => at_sq p (N.of_nat (x' + y * n))).

Lemma cnt_run_lead : forall k x, (n - x <= k)%nat -> cnt_run p y n k x = lead (map g (seq x (n - x))).
Proof.
  induction k as [|k IH]; intros x Hk.
  - replace (n - x)%nat with 0%nat by lia. reflexivity.
  - cbn [cnt_run]. destruct (Nat.ltb_spec x n) as [Hx|Hx]; cbn [andb].
    + replace (n - x)%nat with (S (n - S x)) by lia. cbn [seq map lead].
      destruct (at_sq p (N.of_nat (x + y * n))); [|reflexivity].
      f_equal. apply IH. lia.
    + replace (n - x)%nat with 0%nat by lia. reflexivity.
Qed.

Lemma tps_row_rl : forall fuel x, (n - x < fuel)%nat -> tps_row fuel p y x = rl_row (map g (seq x (n - x))) 0.
Proof.
  induction fuel as [|f IH]; intros x Hf; [lia|].
  rewrite tps_row_S. cbv zeta.
  destruct (Nat.leb_spec n x) as [Hx|Hx].
  - replace (n - x)%nat with 0%nat by lia. reflexivity.
  - rewrite cnt_run_lead by lia. rewrite (rl_row_split (map g (seq x (n - x))) 0). cbn [plus].
    destruct (lead (map g (seq x (n - x)))) as [|[|r]] eqn:El.
    + (* a stack *)
      cbn [x_item app skipn].
      replace (n - x)%nat with (S (n - S x)) in * by lia. cbn [seq map] in *.
      destruct (at_sq p (N.of_nat (x + y * n))) as [|pp sq] eqn:Esq; [cbn [lead] in El; discriminate|].
      cbn [rl_row x_item app]. f_equal. apply IH. lia.
    + cbn [x_item app]. f_equal. rewrite IH by lia.
      rewrite skipn_map, skipn_seq. do 3 f_equal. lia.
    + cbn [x_item app]. f_equal. rewrite IH by lia.
      rewrite skipn_map, skipn_seq. do 3 f_equal. lia.
Qed.
End Row.

Theorem board_text_render p : board_text p = render_board (board_of p).
Proof.
  unfold board_text, render_board, board_of. cbv zeta. rewrite <- map_rev, map_map. f_equal.
  apply map_ext. intros y. f_equal. rewrite tps_row_rl by lia. unfold row_of. now rewrite Nat.sub_0_r.
Qed.

(* FormatTPS reads a position only through Size, At and the ply counter *)
Theorem format_render p : format_tps p = render_tps (board_of p) (Move.move p).
Proof.
  change (format_tps p) with (board_text p ++ [B " "] ++ (if to_move_white p then [B "1"] else [B "2"]) ++ [B " "]
                               ++ fmt_int (Z.quot (Move.move p) 2 + 1)).
  now rewrite board_text_render.
Qed.

Lemma board_of_ext p q : size q = size p -> same_squares p q -> board_of q = board_of p.
Proof.
  intros Es Hsq. unfold board_of, row_of. rewrite Es. apply map_ext_in. intros y Hy. apply map_ext_in. intros x Hx.
  apply in_seq in Hy. apply in_seq in Hx. apply Hsq. nia.
Qed.

(* FormatTPS o ParseTPS o FormatTPS = FormatTPS *)
Theorem format_parse_format basis p : (3 <= size p <= 8) -> (0 <= Move.move p < 2 ^ 63)%Z -> bytes_ok p ->
  exists q, parse_tps basis (format_tps p) = Ok q /\ format_tps q = format_tps p.
Proof.
  intros Hs Hm Hb. destruct (tps_format_parse basis p Hs Hm Hb) as (q & Hq & Es & Em & _ & _ & Hsq & _).
  exists q. split; [exact Hq|]. rewrite !format_render, Em. now rewrite (board_of_ext p q Es Hsq).
Qed.

(* ---- canonical strings ---- *)
(* a board that TPS can express: 3..8 rows of as many squares, each empty or of the shape At produces, no stack
   taller than a uint8 counts, no black piece deeper than the 64-bit stack word reaches *)
Record valid_board (n : nat) (board : list (list (list pc))) : Prop := {
  vb_size : (3 <= n <= 8)%nat;
  vb_rows : length board = n;
  vb_cols : Forall (fun row => length row = n) board;
  vb_cells : Forall (Forall cell_ok) board }.

Definition canonical_tps (s : list N) : Prop :=
  exists n board mv, valid_board n board /\ (0 <= mv < 2 ^ 63)%Z /\ s = render_tps board mv.

Lemma concat_uniform {A} (d : A) n : forall (board : list (list A)), Forall (fun row => length row = n) board ->
  forall x y, (x < n)%nat -> nth (x + y * n) (concat board) d = nth x (nth y board []) d.
Proof.
  induction board as [|row board IH]; intros Hall x y Hx.
  - cbn [concat]. destruct y; now destruct (x + _)%nat, x.
  - inversion Hall as [|? ? Hrow Hall']; subst. cbn [concat]. destruct y as [|y].
    + cbn [nth]. rewrite Nat.mul_0_l, Nat.add_0_r. now rewrite app_nth1 by lia.
    + cbn [nth]. rewrite app_nth2 by lia. replace (x + S y * length row - length row)%nat with (x + y * length row)%nat by lia.
      now apply IH.
Qed.

Lemma concat_length_uniform {A} n : forall (board : list (list A)), Forall (fun row => length row = n) board ->
  length (concat board) = (length board * n)%nat.
Proof.
  induction 1 as [|row board Hrow _ IH]; [reflexivity|]. cbn [concat length]. rewrite app_length, IH. lia.
Qed.

Lemma flat_map_id_concat {A} (l : list (list A)) : flat_map (fun row => row) l = concat l.
Proof. induction l as [|a l IH]; [reflexivity|]. cbn. now rewrite IH. Qed.

Lemma stk_bits_lt sq : stk_bits sq < 2 ^ 64.
Proof.
  destruct sq as [|top below]; [reflexivity|].
  destruct (N.eq_dec (stk_bits (top :: below)) 0) as [->|NZ]; [reflexivity|].
  apply N.log2_lt_pow2; [lia|]. destruct (N.lt_ge_cases (N.log2 (stk_bits (top :: below))) 64) as [H|H]; [exact H|].
  exfalso. pose proof (N.bit_log2 _ NZ) as Hb. rewrite stk_bits_spec in Hb.
  replace (N.log2 (stk_bits (top :: below)) <? 64) with false in Hb by lia. discriminate.
Qed.

Section Canon.
Variable basis : list N.
Variable n : nat.
Variable board : list (list (list pc)).
Variable mv : Z.
Hypothesis V : valid_board n board.

Local Notation p0 := (from_squares basis (N.of_nat n) board mv).

Lemma canon_facts :
  size p0 = N.of_nat n /\ Move.move p0 = mv /\ bytes_ok p0 /\ board_of p0 = board.
Proof.
  destruct V as [Vn Vr Vc Vok].
  destruct (from_squares_spec basis (N.of_nat n) board mv) as (E1 & E2 & _ & F).
  { rewrite flat_map_id_concat, (concat_length_uniform n) by exact Vc. rewrite Vr, Nat2N.id. reflexivity. }
  { rewrite Nat2N.id. nia. }
  rewrite Nat2N.id, flat_map_id_concat in F.
  assert (Hlen : length (concat board) = (n * n)%nat) by (rewrite (concat_length_uniform n) by exact Vc; now rewrite Vr).
  split; [exact E1|]. split; [exact E2|]. split.
  - intros i Hi. rewrite E1 in Hi. unfold nthN. rewrite (fo_H _ _ _ _ F), (fo_S _ _ _ _ F).
    assert (Hi' : (N.to_nat i < length (concat board))%nat) by (rewrite Hlen; nia).
    rewrite nth_indep with (d' := hgt []) by (now rewrite map_length). rewrite (map_nth hgt).
    rewrite nth_indep with (d' := stk_bits []) by (now rewrite map_length). rewrite (map_nth stk_bits).
    split; [unfold hgt, u8; apply N.mod_upper_bound; lia|apply stk_bits_lt].
  - unfold board_of, row_of. rewrite E1, Nat2N.id.
    apply nth_ext with (d := []) (d' := []); [now rewrite map_length, seq_length, Vr|].
    intros y Hy. rewrite map_length, seq_length in Hy.
    rewrite nth_indep with (d' := (fun y => map (fun x => at_sq p0 (N.of_nat (x + y * n))) (seq 0 n)) 0%nat)
      by (now rewrite map_length, seq_length).
    rewrite (map_nth (fun y => map (fun x => at_sq p0 (N.of_nat (x + y * n))) (seq 0 n))), seq_nth by exact Hy. cbn [plus].
    assert (Hrow : length (nth y board []) = n).
    { rewrite Forall_forall in Vc. apply Vc. apply nth_In. lia. }
    apply nth_ext with (d := []) (d' := []); [now rewrite map_length, seq_length|].
    intros x Hx. rewrite map_length, seq_length in Hx.
    rewrite nth_indep with (d' := (fun x => at_sq p0 (N.of_nat (x + y * n))) 0%nat) by (now rewrite map_length, seq_length).
    rewrite (map_nth (fun x => at_sq p0 (N.of_nat (x + y * n)))), seq_nth by exact Hx. cbn [plus].
    rewrite (at_sq_from_squares basis n (concat board) p0 (x + y * n) F).
    + now apply concat_uniform.
    + rewrite Hlen. nia.
    + rewrite Hlen. nia.
    + rewrite (concat_uniform [] n) by assumption.
      rewrite Forall_forall in Vok. assert (Hr : Forall cell_ok (nth y board [])) by (apply Vok; apply nth_In; lia).
      rewrite Forall_forall in Hr. apply Hr. apply nth_In. lia.
Qed.
End Canon.

(* ParseTPS then FormatTPS reproduces every canonical string *)
Theorem tps_parse_format basis s : canonical_tps s -> exists q, parse_tps basis s = Ok q /\ format_tps q = s.
Proof.
  intros (n & board & mv & V & Hmv & ->).
  destruct (canon_facts basis n board mv V) as (E1 & E2 & Hb & Eb).
  set (p0 := from_squares basis (N.of_nat n) board mv) in *.
  assert (Hs : 3 <= size p0 <= 8) by (rewrite E1; destruct V; lia).
  assert (Hm : (0 <= Move.move p0 < 2 ^ 63)%Z) by (now rewrite E2).
  assert (Ef : format_tps p0 = render_tps board mv) by (now rewrite format_render, Eb, E2).
  destruct (format_parse_format basis p0 Hs Hm Hb) as (q & Hq & Hf).
  exists q. rewrite <- Ef. split; assumption.
Qed.
