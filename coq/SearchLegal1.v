(* SearchLegal1.v: the move generator of ai/moves.go (Search.mg_next, repaired code: the table entry is a snapshot) WITH a table
   entry, in every stage, also after zwSearch has reset it (multi-cut): it yields only moves that MovePreallocated accepted at
   the generator's position, none of them Pass, and when it is exhausted every accepted generated move has been yielded at least once
   since the (re)start.  Nothing is assumed about the rules engine except the bound on |AllMoves| (the fuel of the model). *)
From Coq Require Import NArith ZArith List Bool Lia Permutation.
Require Import Board Move GameOver Eval Search NegamaxSpec SearchGen.
Import ListNotations.
Open Scope Z_scope.

Lemma znth_overflow (l : list rmove) k : Z.of_nat (length l) <= k -> znth l k move0 = move0.
Proof. intros H. unfold znth. apply nth_overflow. lia. Qed.

Section GenT.
Variable basis : list N.
Variable cfg : config.
Variable p : position.

Let len := Z.of_nat (length (all_moves p)).
Let Heq a b := move_equal_try basis p a b.
Let Hnp m := all_moves_okm p m.

(* [seen] = the successors yielded since the generator was (re)started *)
Record GJ (seen : list position) (g : mgen) : Prop := {
  gj_p : g_p g = p;
  gj_tec : forall tm, g_tec g = Some tm -> okm tm;
  gj_tedone : 1 <= g_i g -> forall tm q, g_tec g = Some tm -> try_move basis p tm = Some q -> In q seen;
  gj_pv : Forall okm (g_pv g);
  gj_i0 : 0 <= g_i g;
  gj_pvdone : 2 <= g_i g -> forall m0 rest q, g_pv g = m0 :: rest -> try_move basis p m0 = Some q -> In q seen;
  gj_r : okm (g_r g);
  gj_r0 : g_ply g = 0 -> g_r g = move0;
  gj_rdone : 3 <= g_i g -> forall q, try_move basis p (g_r g) = Some q -> In q seen;
  gj_msperm : forall ms, g_ms g = Some ms -> Permutation ms (all_moves p);
  gj_ms : 4 <= g_i g -> exists ms, g_ms g = Some ms /\
          forall j, 0 <= j < g_i g - 4 -> forall q, try_move basis p (znth ms j move0) = Some q -> In q seen
}.

Lemma GJ_new s te pv ply depth : (forall i, te = Some i -> okm (e_m (nth i (table s) entry0))) -> Forall okm pv ->
  GJ [] (new_gen s te pv ply depth p).
Proof.
  intros Hte Hpv. constructor; cbn [new_gen g_p g_te g_tec g_pv g_i g_r g_ms g_ply option_map]; try reflexivity; try assumption; try lia; try discriminate.
  intros tm E. destruct te as [i|]; [|discriminate E]. cbn in E. inversion E. apply Hte. reflexivity.
Qed.

(* zwSearch restarts the generator (mg.i = 0) and keeps everything else, including the generated list *)
Lemma GJ_reset seen g : GJ seen g -> GJ [] (set_i g 0).
Proof.
  intros G. destruct G. constructor; cbn [set_i g_p g_te g_tec g_pv g_i g_r g_ms g_ply]; auto; try lia.
Qed.

Lemma GJ_more seen g q : GJ seen g -> GJ (q :: seen) g.
Proof.
  intros G. destruct G. constructor; auto.
  - intros H tm q0 E T. right. eauto.
  - intros H m0 rest q0 E T. right. eauto.
  - intros H q0 T. right. eauto.
  - intros H. destruct (gj_ms0 H) as (ms & E & C). exists ms. split; auto. intros j Hj q0 T. right. eauto.
Qed.

Lemma gj_exhausted seen g ms : GJ seen g -> 4 <= g_i g -> g_ms g = Some ms -> Z.of_nat (length ms) <= g_i g - 4 ->
  forall m q, In m (all_moves p) -> try_move basis p m = Some q -> In q seen.
Proof.
  intros G H4 Hms Hl m q Hm Hq. destruct (gj_ms _ _ G H4) as (ms' & E & C). rewrite Hms in E. inversion E; subst ms'.
  pose proof (gj_msperm _ _ G ms Hms) as P.
  assert (Hin : In m ms) by (apply (Permutation_in m (Permutation_sym P)); exact Hm).
  destruct (In_nth ms m move0 Hin) as (n & Hn & En).
  apply (C (Z.of_nat n)); [lia|]. unfold znth. rewrite Nat2Z.id, En. exact Hq.
Qed.

Definition stepj (seen : list position) (g : mgen) (r : mgen * option (rmove * position)) : Prop :=
  match r with
  | (g', Some (m, q)) => okm m /\ try_move basis p m = Some q /\ GJ (q :: seen) g' /\ g_i g < g_i g' /\ g_i g' <= len + 4
  | (g', None) => GJ seen g' /\ forall m q, In m (all_moves p) -> try_move basis p m = Some q -> In q seen
  end.

Lemma stepj_lt seen g g2 r : g_i g <= g_i g2 -> stepj seen g2 r -> stepj seen g r.
Proof. intros L. destruct r as [g' [[m q]|]]; cbn; [|tauto]. intros (A & B & D & E & F). refine (conj A (conj B (conj D (conj _ F)))). lia. Qed.

Lemma stepj_some seen g g' m q : okm m -> try_move basis p m = Some q -> GJ (q :: seen) g' -> g_i g < g_i g' -> g_i g' <= len + 4 ->
  stepj seen g (g', Some (m, q)).
Proof. intros A B D E F. cbn. auto. Qed.

Lemma mg_next_stepj : forall f g seen s, GJ seen g -> Forall okm (map snd (response s)) -> len + 6 - g_i g < Z.of_nat f ->
  stepj seen g (mg_next false basis cfg f s g).
Proof.
  induction f; intros g seen s G HR HF.
  { cbn [mg_next stepj]. pose proof (gj_i0 _ _ G). assert (H4 : 4 <= g_i g) by (cbn in HF; lia).
    destruct (gj_ms _ _ G H4) as (ms & E & C). split; [exact G|]. apply (gj_exhausted seen g ms G H4 E).
    rewrite (Permutation_length (gj_msperm _ _ G ms E)). fold len. cbn in HF. lia. }
  cbn [mg_next]. unfold te_move.
  pose proof (gj_i0 _ _ G) as I0.
  assert (HF' : forall g2, g_i g < g_i g2 -> len + 6 - g_i g2 < Z.of_nat f) by (intros; lia).
  destruct (g_i g =? 0) eqn:E0.
  { (* case 0: the table move *)
    apply Z.eqb_eq in E0.
    assert (G1 : forall seen', (forall tm q, g_tec g = Some tm -> try_move basis p tm = Some q -> In q seen') ->
                 (forall q, In q seen -> In q seen') -> GJ seen' (set_i g 1)).
    { intros seen' Hte Hmono. destruct G. constructor; cbn [set_i g_p g_te g_tec g_pv g_i g_r g_ms g_ply]; auto; try lia. }
    destruct (g_tec g) as [tm|] eqn:ETE.
    - cbn [set_i g_p]. destruct (try_move basis (g_p g) tm) as [q|] eqn:ET; rewrite (gj_p _ _ G) in ET.
      + apply stepj_some; [apply (gj_tec _ _ G); exact ETE|assumption| |cbn; lia|cbn; unfold len; lia].
        apply G1; [|intros; right; assumption]. intros tm0 q0 E T. inversion E; subst. rewrite ET in T. inversion T. left; reflexivity.
      + apply (stepj_lt seen g (set_i g 1)); [cbn; lia|]. apply IHf; [|assumption|apply HF'; cbn; lia].
        apply G1; [|auto]. intros tm0 q0 E T. inversion E; subst. rewrite ET in T. discriminate.
    - apply (stepj_lt seen g (set_i g 1)); [cbn; lia|]. apply IHf; [|assumption|apply HF'; cbn; lia].
      apply G1; [intros; discriminate|auto]. }
  destruct (g_i g =? 1) eqn:E1.
  { (* case 1: pv[0] *)
    apply Z.eqb_eq in E1.
    assert (G2 : forall seen', (forall m0 rest q, g_pv g = m0 :: rest -> try_move basis p m0 = Some q -> In q seen') ->
                 (forall q, In q seen -> In q seen') -> GJ seen' (set_i g 2)).
    { intros seen' Hpv Hmono. destruct G. constructor; cbn [set_i g_p g_te g_tec g_pv g_i g_r g_ms g_ply]; auto; try lia.
      intros _ tm q E T. apply Hmono. apply (gj_tedone0 ltac:(lia) tm q E T). }
    destruct (g_pv g) as [|m rest] eqn:EP.
    - apply (stepj_lt seen g (set_i g 2)); [cbn; lia|]. apply IHf; [|assumption|apply HF'; cbn; lia].
      apply G2; [intros; discriminate|auto].
    - assert (Hm : okm m) by (pose proof (gj_pv _ _ G) as F; rewrite EP in F; inversion F; assumption).
      assert (TRY : stepj seen g (match try_move basis (g_p (set_i g 2)) m with Some q => (set_i g 2, Some (m, q)) | None => mg_next false basis cfg f s (set_i g 2) end)).
      { cbn [set_i g_p]. destruct (try_move basis (g_p g) m) as [q|] eqn:ET; rewrite (gj_p _ _ G) in ET.
        + apply stepj_some; [assumption|assumption| |cbn; lia|cbn; unfold len; lia].
          apply G2; [|intros; right; assumption]. intros m0 rest0 q0 E T. inversion E; subst. rewrite ET in T. inversion T. left; reflexivity.
        + apply (stepj_lt seen g (set_i g 2)); [cbn; lia|]. apply IHf; [|assumption|apply HF'; cbn; lia].
          apply G2; [|auto]. intros m0 rest0 q0 E T. inversion E; subst. rewrite ET in T. discriminate. }
      destruct (g_tec g) as [tm|] eqn:ETE; [|exact TRY].
      destruct (move_equal m tm) eqn:EQ; [|exact TRY].
      apply (stepj_lt seen g (set_i g 2)); [cbn; lia|]. apply IHf; [|assumption|apply HF'; cbn; lia].
      apply G2; [|auto]. intros m0 rest0 q0 E T. inversion E; subst. rewrite (Heq _ _ EQ) in T.
      apply (gj_tedone _ _ G ltac:(lia) tm q0 ETE T). }
  destruct (g_i g =? 2) eqn:E2.
  { (* case 2: the response move *)
    apply Z.eqb_eq in E2.
    assert (G3 : forall seen' r, okm r -> (forall q, try_move basis p r = Some q -> In q seen') -> (forall q, In q seen -> In q seen') ->
                 (g_ply g = 0 -> r = move0) ->
                 GJ seen' {| g_te := g_te g; g_tec := g_tec g; g_pv := g_pv g; g_r := r; g_ms := g_ms g; g_i := 3; g_ply := g_ply g; g_depth := g_depth g; g_p := g_p g |}).
    { intros seen' r Hr Hd Hmono H0. destruct G. constructor; cbn [g_p g_te g_tec g_pv g_i g_r g_ms g_ply]; auto; try lia.
      - intros _ tm q E T. apply Hmono. apply (gj_tedone0 ltac:(lia) tm q E T).
      - intros _ m0 rest q E T. apply Hmono. apply (gj_pvdone0 ltac:(lia) m0 rest q E T). }
    destruct (g_ply g =? 0) eqn:EPLY.
    - apply Z.eqb_eq in EPLY.
      assert (G3' : GJ seen (set_i g 3)).
      { pose proof (gj_r0 _ _ G EPLY) as R0. destruct G. constructor; cbn [set_i g_p g_te g_tec g_pv g_i g_r g_ms g_ply]; auto; try lia.
        - intros _. apply gj_tedone0; lia.
        - intros _. apply gj_pvdone0; lia.
        - intros _ q T. rewrite R0 in T. rewrite (try_move0 basis p) in T. discriminate. }
      apply (stepj_lt seen g (set_i g 3)); [cbn; lia|]. apply IHf; [assumption|assumption|apply HF'; cbn; lia].
    - apply Z.eqb_neq in EPLY.
      destruct (assoc (znth (fm s) (g_ply g - 1) move0) (response s)) as [r|] eqn:ER.
      + assert (Hr : okm r) by (rewrite Forall_forall in HR; apply HR; apply (assoc_in _ _ _ ER)).
        cbn [g_p]. destruct (try_move basis (g_p g) r) as [q|] eqn:ET; rewrite (gj_p _ _ G) in ET.
        * apply stepj_some; [assumption|assumption| |cbn; lia|cbn; unfold len; lia].
          apply G3; [assumption| |intros; right; assumption|intros; contradiction]. intros q0 T. rewrite ET in T. inversion T. left; reflexivity.
        * match goal with |- stepj _ _ (mg_next _ _ _ _ _ ?g3) => apply (stepj_lt seen g g3); [cbn; lia|] end.
          apply IHf; [|assumption|apply HF'; cbn; lia]. apply G3; [assumption| |auto|intros; contradiction]. intros q0 T. rewrite ET in T. discriminate.
      + match goal with |- stepj _ _ (mg_next _ _ _ _ _ ?g3) => apply (stepj_lt seen g g3); [cbn; lia|] end.
        apply IHf; [|assumption|apply HF'; cbn; lia].
        apply G3; [unfold okm, move0; cbn; discriminate| |auto|reflexivity]. intros q0 T. rewrite (try_move0 basis p) in T. discriminate. }
  (* case 3 and the default case *)
  apply Z.eqb_neq in E0. apply Z.eqb_neq in E1. apply Z.eqb_neq in E2.
  match goal with |- context [if g_i g =? 3 then ?G4 else g] => set (g1 := if g_i g =? 3 then G4 else g) end.
  assert (G1 : GJ seen g1 /\ 4 <= g_i g1 /\ g_i g <= g_i g1).
  { subst g1. destruct (g_i g =? 3) eqn:E3.
    - apply Z.eqb_eq in E3. split; [|cbn; lia].
      assert (PERM : Permutation (match g_ms g with Some ms => ms | None => all_moves (g_p g) end) (all_moves p)).
      { destruct (g_ms g) as [ms0|] eqn:EM; [apply (gj_msperm _ _ G ms0 EM)|rewrite (gj_p _ _ G); reflexivity]. }
      destruct G. constructor; cbn [g_p g_te g_tec g_pv g_i g_r g_ms g_ply]; auto; try lia.
      + intros _. apply gj_tedone0; lia.
      + intros _. apply gj_pvdone0; lia.
      + intros _. apply gj_rdone0; lia.
      + intros ms E. inversion E; subst ms.
        destruct ((1 <? g_depth g) && negb (c_nosort cfg)); [rewrite sort_moves_perm|]; exact PERM.
      + intros _. eexists. split; [reflexivity|]. intros; lia.
    - apply Z.eqb_neq in E3. split; [assumption|lia]. }
  clearbody g1. destruct G1 as (G1 & H4 & HLE).
  destruct (gj_ms _ _ G1 H4) as (ms & EMS & COV). rewrite EMS.
  pose proof (gj_msperm _ _ G1 ms EMS) as PERM.
  set (g2 := set_i g1 (g_i g1 + 1)).
  assert (LEN : Z.of_nat (length ms) = len) by (unfold len; rewrite (Permutation_length PERM); reflexivity).
  assert (G2 : forall seen', (forall q, try_move basis p (znth ms (g_i g1 - 4) move0) = Some q -> In q seen') ->
               (forall q, In q seen -> In q seen') -> GJ seen' g2).
  { intros seen' Hd Hmono. subst g2. destruct G1. constructor; cbn [set_i g_p g_te g_tec g_pv g_i g_r g_ms g_ply]; auto; try lia.
    - intros _ tm q E T. apply Hmono. apply (gj_tedone0 ltac:(lia) tm q E T).
    - intros _ m0 rest q E T. apply Hmono. apply (gj_pvdone0 ltac:(lia) m0 rest q E T).
    - intros _ q T. apply Hmono. apply (gj_rdone0 ltac:(lia) q T).
    - intros _. exists ms. split; [assumption|]. intros j Hj.
      destruct (Z.eq_dec j (g_i g1 - 4)) as [->|NE]; [intros q T; apply Hd; exact T|].
      assert (XX : 0 <= j < g_i g1 - 4) by lia. intros q T. apply Hmono. apply (COV j XX q T). }
  destruct (Z.of_nat (length ms) <=? g_i g1 - 4) eqn:EL.
  { apply Z.leb_le in EL. cbn [stepj]. split.
    - apply G2; [|auto]. intros q T. rewrite (znth_overflow ms _ EL), (try_move0 basis p) in T. discriminate.
    - apply (gj_exhausted seen g1 ms G1 H4 EMS EL). }
  apply Z.leb_gt in EL.
  assert (LT2 : g_i g < g_i g2 /\ g_i g2 <= len + 4) by (subst g2; cbn [set_i g_i]; lia).
  set (m := znth ms (g_i g1 - 4) move0) in *.
  assert (Hin : In m ms). { subst m. unfold znth. apply nth_In. lia. }
  assert (Hm : okm m) by (apply Hnp; apply (Permutation_in m PERM Hin)).
  assert (SKIP : (forall q, try_move basis p m = Some q -> In q seen) -> stepj seen g (mg_next false basis cfg f s g2)).
  { intros Hd. apply (stepj_lt seen g g2); [subst g2; cbn; lia|]. apply IHf; [apply G2; auto|assumption|apply HF'; subst g2; cbn; lia]. }
  assert (TE2 : g_tec g2 = g_tec g1) by reflexivity.
  assert (PV2 : g_pv g2 = g_pv g1) by reflexivity. assert (R2 : g_r g2 = g_r g1) by reflexivity. rewrite TE2, PV2, R2.
  assert (TRY : stepj seen g (match try_move basis (g_p g2) m with Some q => (g2, Some (m, q)) | None => mg_next false basis cfg f s g2 end)).
  { assert (P2 : g_p g2 = p) by (apply (gj_p _ _ G1)). rewrite P2. destruct (try_move basis p m) as [q|] eqn:ET.
    - apply stepj_some; [assumption|assumption| |apply LT2|apply LT2].
      apply G2; [|intros; right; assumption]. intros q0 T. inversion T. left; reflexivity.
    - apply SKIP. intros q T. discriminate. }
  destruct (match g_tec g1 with Some tm => move_equal tm m | None => false end) eqn:ETM.
  { destruct (g_tec g1) as [tm|] eqn:ETE; [|discriminate ETM].
    apply SKIP. intros q T. rewrite <- (Heq _ _ ETM) in T. apply (gj_tedone _ _ G1 ltac:(lia) tm q ETE T). }
  destruct (match g_pv g1 with pm :: _ => move_equal pm m | [] => false end) eqn:EPM.
  { destruct (g_pv g1) as [|pm prest] eqn:EPV; [discriminate EPM|].
    apply SKIP. intros q T. rewrite <- (Heq _ _ EPM) in T. apply (gj_pvdone _ _ G1 ltac:(lia) pm prest q EPV T). }
  destruct (move_equal (g_r g1) m) eqn:ER.
  { apply SKIP. intros q T. rewrite <- (Heq _ _ ER) in T. apply (gj_rdone _ _ G1 ltac:(lia) q T). }
  exact TRY.
Qed.
(* the fuel the model gives its loops is always enough *)
Lemma gfuel_okj seen g : GJ seen g -> len + 6 - g_i g < Z.of_nat (gfuel g).
Proof.
  intros G. pose proof (gj_i0 _ _ G) as I0. unfold gfuel. destruct (g_ms g) as [ms|] eqn:E.
  - rewrite (Permutation_length (gj_msperm _ _ G ms E)). unfold len. lia.
  - rewrite (gj_p _ _ G). unfold len. lia.
Qed.
End GenT.
