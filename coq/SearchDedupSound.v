(* SearchDedupSound.v: the soundness half of the table clause for the engine model WITH Cfg.DedupSymmetry (SearchDedup.v): every
   configuration without null move (slide reduction, multi-cut, any table, sort, the option on or off), any cancellation point, any
   history of such calls: a reported value beyond the threshold is a real forced result (SearchTable7.sound_verdict).
   What the de-duplication needs: a skipped successor is won exactly when the successor whose symmetry class put its hash into the
   cache is (sym_w_ok) - because the forced-result classification is invariant under the eight images (cls_image: successors of an
   image are the images of the successors, SearchDedup3.child_image / child_image_inv) and dedup_nocollision.
   SearchTable7's lemmas about zwSearch, multi-cut, pv_child and the stores are reused as they are. *)
From Coq Require Import NArith ZArith List Bool Lia Permutation.
Require Import Board Stack Rules Move GameOver Refine Preserve1 Reach1 Tps Symmetry SymCode1 TpsFacts5 Import3 Import4 Import5 OpeningFacts2.
Require Import Eval EvalSpec Search NegamaxSpec SearchGen SearchExact CancelFacts SearchLegal1 SearchLegal2 SearchInst SearchNeg2 SearchNeg3 SearchNeg4 SearchNeg5.
Require Import SearchTable1 SearchTable3 SearchTable4 SearchTable7 SearchTable8 SearchDedup SearchDedup3 SearchDedup4.
Require Import Generated.Consts.
Import ListNotations.
Open Scope Z_scope.

(* ---------- the search, abstractly ---------- *)
Section TabSD.
Variable basis : list N.
Variable cfg : config.
Variable k : Z.
Variable dedup : bool.
Hypothesis Hnonull : c_nonull cfg = true.
Variable Pos : nat -> position -> Prop.
Hypothesis TF : table_facts basis Pos.
Hypothesis EF : eval_facts cfg Pos.
(* a skipped successor is won when the successor that put its hash into the cache is *)
Hypothesis Hsymw : forall d p q q', Pos (S d) p -> is_over p = false -> move p < max_dedup ->
  In q (children basis p) -> In q' (children basis p) -> In (phash q) (sym_hashes basis q') ->
  SearchTable1.Wany basis q' -> SearchTable1.Wany basis q.

Notation TS := (TS basis (Pos 0%nat)).
Notation Wany := (SearchTable1.Wany basis).
Notation svals := (svals basis).
Let Hanti := proj1 TF.
Let Hhint := proj1 (proj2 (proj2 TF)).
Let NoColl := proj2 (proj2 (proj2 (proj2 TF))).
Let Hbound := proj1 EF.

Lemma Pos_0 d p : Pos d p -> Pos 0%nat p.
Proof. intros H. induction d; [exact H|apply IHd; apply Hanti; exact H]. Qed.

Section Node.
Variable rec : rec_t.
Hypothesis Hrec : ts_ok basis Pos rec.
Variable p : position.
Variable d0 : nat.
Hypothesis Hp : Pos (S d0) p.
Hypothesis Hover : is_over p = false.
Let len := Z.of_nat (length (all_moves p)).

Lemma gen_stepj f g seen s : GJ basis p seen g -> SJ s -> len + 6 - g_i g < Z.of_nat f ->
  stepj basis p seen g (mg_next false basis cfg f s g).
Proof. intros G (_ & R & _) F. exact (mg_next_stepj basis cfg p f g seen s G R F). Qed.
Lemma f700 g seen : GJ basis p seen g -> len + 6 - g_i g < Z.of_nat (gfuel g).
Proof. intros G. exact (gfuel_okj basis p seen g G). Qed.
Lemma gj_new s te pv ply depth : SJ s -> okl pv -> GJ basis p [] (new_gen s te pv ply depth p).
Proof. intros HS Hpv. apply GJ_new; [|exact Hpv]. intros i _. apply (SJ_te s i HS). Qed.

Lemma pv_loop_d_ts ply depth a0 b dd : (dd = true -> move p < max_dedup) -> b <= MaxEval + 1 -> (Z.to_nat (depth - 1) <= d0)%nat ->
  forall n s g i best a improved seen cache,
  TS s -> GJ basis p seen g -> okl best -> len + 6 - g_i g < Z.of_nat n ->
  MinEval - 1 <= a < b -> (seen <> [] -> MinEval <= a) -> (improved = false -> a = a0) ->
  (improved = true -> a0 < a /\ (WinThreshold < a -> Wany p)) ->
  (a < - WinThreshold -> forall q, In q seen -> Wany q) ->
  (forall q, In q seen -> In q (children basis p)) ->
  (forall h, In h cache -> exists q', In q' seen /\ In h (sym_hashes basis q')) ->
  let '(s', best', a', improved', aborted) := pv_loop_d basis cfg k rec n ply depth b dd s g i best a improved cache in
  TS s' /\ okl best' /\
  (aborted = false -> okv a' /\ (improved' = false -> a' = a0) /\ (improved' = true -> a0 < a') /\ svals p a0 b a').
Proof.
  intros Hdd Hb Hd. induction n; intros s g i best a improved seen cache HS G HB HF Hab HSEEN HNI HIV HW HCH HCACHE.
  assert (DONE : (forall m q, In m (all_moves p) -> try_move basis p m = Some q -> In q seen) ->
          okv a /\ (improved = false -> a = a0) /\ (improved = true -> a0 < a) /\ svals p a0 b a).
  { intros ST. assert (MinEval <= a) by (apply HSEEN; apply (seen_nonempty basis Pos TF p d0 Hp Hover seen ST)).
    split; [unfold okv; lia|]. split; [exact HNI|]. split; [intros E; apply (HIV E)|].
    unfold SearchTable7.svals. split; [|intros _; apply (exhausted_s basis Pos TF p d0 Hp Hover seen a ST HW)].
    intros A. destruct improved; [apply (HIV eq_refl)|specialize (HNI eq_refl); lia]. }
  { cbn [pv_loop_d]. pose proof (gen_stepj 0 g seen s G (proj1 HS) HF) as ST. cbn [mg_next stepj] in ST. destruct ST as (_ & ST).
    refine (conj HS (conj HB _)). intros _. apply DONE. exact ST. }
  assert (DONE : (forall m q, In m (all_moves p) -> try_move basis p m = Some q -> In q seen) ->
          okv a /\ (improved = false -> a = a0) /\ (improved = true -> a0 < a) /\ svals p a0 b a).
  { intros ST. assert (MinEval <= a) by (apply HSEEN; apply (seen_nonempty basis Pos TF p d0 Hp Hover seen ST)).
    split; [unfold okv; lia|]. split; [exact HNI|]. split; [intros E; apply (HIV E)|].
    unfold SearchTable7.svals. split; [|intros _; apply (exhausted_s basis Pos TF p d0 Hp Hover seen a ST HW)].
    intros A. destruct improved; [apply (HIV eq_refl)|specialize (HNI eq_refl); lia]. }
  cbn [pv_loop_d].
  pose proof (gen_stepj (gfuel g) g seen s G (proj1 HS) (f700 g seen G)) as ST.
  destruct (mg_next false basis cfg (gfuel g) s g) as [g' [[m q]|]]; cbn [stepj] in ST.
  2:{ destruct ST as (_ & ST). refine (conj HS (conj HB _)). intros _. apply DONE. exact ST. }
  clear DONE. destruct ST as (Hm & HT & G' & HLT & _).
  assert (HF' : len + 6 - g_i g' < Z.of_nat n) by (clear - HF HLT; lia).
  pose proof (Hhint d0 p m q Hp Hover Hm HT) as Hq.
  assert (HCH' : forall q0, In q0 (q :: seen) -> In q0 (children basis p)) by (intros q0 [<-|H0]; [exact Hq|apply HCH; exact H0]).
  assert (NE : q :: seen <> []) by discriminate.
  destruct (dd && in_cache (phash q) cache) eqn:ESK.
  { apply andb_true_iff in ESK. destruct ESK as (Edd & EC). unfold in_cache in EC. apply existsb_exists in EC. destruct EC as (h & Hh & Eh).
    apply N.eqb_eq in Eh. subst h. destruct (HCACHE _ Hh) as (q' & Hq' & Hs).
    assert (SN : seen <> []) by (intros F; rewrite F in Hq'; destruct Hq').
    pose proof (HSEEN SN) as AM.
    refine (IHn s g' i best a improved (q :: seen) cache HS G' HB HF' Hab (fun _ => AM) HNI HIV _ HCH' _).
    - intros A q0 [<-|H0]; [|apply HW; assumption].
      apply (Hsymw d0 p q q' Hp Hover (Hdd Edd) Hq (HCH q' Hq') Hs). apply HW; assumption.
    - intros h Hh'. destruct (HCACHE h Hh') as (q2 & A & B). exists q2. split; [right; exact A|exact B]. }
  set (cache' := if dd then sym_hashes basis q ++ cache else cache).
  assert (HCACHE' : forall h, In h cache' -> exists q', In q' (q :: seen) /\ In h (sym_hashes basis q')).
  { intros h Hh. subst cache'. destruct dd.
    - apply in_app_or in Hh. destruct Hh as [Hh|Hh]; [exists q; split; [left; reflexivity|exact Hh]|].
      destruct (HCACHE h Hh) as (q2 & A & B). exists q2. split; [right; exact A|exact B].
    - destruct (HCACHE h Hh) as (q2 & A & B). exists q2. split; [right; exact A|exact B]. }
  clearbody cache'.
  assert (R : let r := pv_child rec (set_fm s ply m) q ply depth best a b (i + 1) in
              TS (fst r) /\ okl (fst (snd r)) /\ okv (snd (snd r)) /\ child_s basis q a b (snd (snd r))).
  { apply (pv_child_ts basis cfg Hnonull Pos TF EF rec Hrec p d0 Hp Hover) with (m := m); try assumption; try (apply TS_set_fm; exact HS). }
  cbv zeta in R.
  destruct (pv_child rec (set_fm s ply m) q ply depth best a b (i + 1)) as [s1 [ms v]].
  cbn [fst snd] in R. destruct R as (HS1 & Hms & Hv & (C1 & C2)). unfold okv in Hv. destruct minmax as (MM & _).
  assert (A0 : a0 <= a) by (destruct improved; [destruct (HIV eq_refl); lia|specialize (HNI eq_refl); lia]).
  destruct (a <? - v) eqn:EA.
  - apply Z.ltb_lt in EA.
    assert (HB' : okl (m :: ms)) by (constructor; assumption).
    assert (HS2 : TS (set_fpv s1 ply (set_prefix (znth (fpv s1) ply []) (m :: ms)))).
    { apply TS_set_fpv; [assumption|]. apply okl_set_prefix; [apply okl_frameJ; apply HS1|assumption]. }
    assert (NEW : a0 < - v /\ (WinThreshold < - v -> Wany p)).
    { split; [lia|]. intros A. apply (Wany_live basis p q Hover Hq). apply C1; assumption. }
    destruct (b <=? - v) eqn:EB.
    + apply Z.leb_le in EB.
      refine (conj (TS_record_cut _ _ _ m _ _ _ HS2 Hm) (conj HB' _)). intros _.
      split; [unfold okv; lia|]. split; [discriminate|]. split; [intros _; apply NEW|].
      unfold SearchTable7.svals. split; [intros _; apply NEW|intros F; lia].
    + apply Z.leb_gt in EB.
      destruct (cancelled k (set_fpv s1 ply (set_prefix (znth (fpv s1) ply []) (m :: ms)))) eqn:EK.
      * refine (conj HS2 (conj HB' _)). discriminate.
      * assert (Hab' : MinEval - 1 <= - v < b) by lia. assert (AM : MinEval <= - v) by lia.
        refine (IHn _ g' (i + 1) (m :: ms) (- v) true (q :: seen) cache' HS2 G' HB' HF' Hab' (fun _ => AM) _ (fun _ => NEW) _ HCH' HCACHE'); [discriminate|].
        intros A q0 [<-|H0]; [apply C2; assumption|apply HW; [lia|assumption]].
  - apply Z.ltb_ge in EA. destruct (cancelled k s1) eqn:EK.
    + refine (conj HS1 (conj HB _)). discriminate.
    + assert (AM : MinEval <= a) by lia.
      refine (IHn s1 g' (i + 1) best a improved (q :: seen) cache' HS1 G' HB HF' Hab (fun _ => AM) HNI HIV _ HCH' HCACHE').
      intros A q0 [<-|H0]; [apply C2; lia|apply HW; assumption].
Qed.

Lemma pv_node_d_ts s te ply depth pv a b : TS s -> okl pv -> MinEval - 1 <= a < b -> b <= MaxEval + 1 -> (Z.to_nat (depth - 1) <= d0)%nat ->
  let r := pv_node_d basis cfg k dedup rec s te p ply depth pv a b in
  TS (fst r) /\ okl (fst (snd r)) /\ okv (snd (snd r)) /\ svals p a b (snd (snd r)).
Proof.
  intros HS Hpv Hab Hb Hd. unfold pv_node_d.
  set (dd := dedup && (move p <? max_dedup)).
  assert (Hdd : dd = true -> move p < max_dedup) by (subst dd; intros E; apply andb_true_iff in E; destruct E as (_ & E); apply Z.ltb_lt; exact E).
  clearbody dd.
  set (best0 := match pv with [] => firstn 1 (znth (fpv s) ply []) | _ :: _ => pv end).
  assert (HB0 : okl best0) by (subst best0; destruct pv; [apply Forall_firstn; apply okl_frameJ; apply HS|assumption]).
  set (s2 := set_fpv s ply (set_prefix (znth (fpv s) ply []) best0)).
  assert (HS2 : TS s2) by (apply TS_set_fpv; [assumption|apply okl_set_prefix; [apply okl_frameJ; apply HS|assumption]]).
  pose proof (gj_new s te pv ply depth (proj1 HS) Hpv) as G0.
  pose proof (pv_loop_d_ts ply depth a b dd Hdd Hb Hd (gfuel (new_gen s te pv ply depth p)) s2 (new_gen s te pv ply depth p) 0 best0 a false [] [] HS2 G0 HB0 (f700 _ _ G0) Hab
                ltac:(intros F; contradiction) ltac:(reflexivity) ltac:(discriminate) ltac:(intros _ q F; destruct F)
                ltac:(intros q F; destruct F) ltac:(intros h F; destruct F)) as LP.
  destruct (pv_loop_d basis cfg k rec (gfuel (new_gen s te pv ply depth p)) ply depth b dd s2 (new_gen s te pv ply depth p) 0 best0 a false []) as [[[[s3 best] a'] improved] ab].
  destruct LP as (HS3 & HB3 & L2). destruct ab; cbn [fst snd].
  - split; [exact HS3|]. split; [constructor|]. split; [apply okv0|apply svals0].
  - destruct (L2 eq_refl) as (V & H1 & H2 & H3).
    split; [|split; [exact HB3|split; [exact V|exact H3]]].
    apply (TS_pv_store basis (Pos 0%nat) NoColl k s3 p depth best a a' b improved); [exact HS3|apply (Pos_0 _ _ Hp)|exact HB3|exact V|lia|exact H1|exact H2|exact H3].
Qed.
End Node.

Lemma srch_step_d_ts rec : ts_ok basis Pos rec -> ts_ok basis Pos (srch_step_d basis cfg k dedup rec).
Proof.
  intros Hrec zw s p ply depth pv a b cut HS Hp Hpv (Ha & Hw). cbv zeta. unfold srch_step_d.
  destruct ((depth <=? 0) || is_over p) eqn:EL.
  { cbn [fst snd]. split; [apply TS_count_eval; apply TS_bump; exact HS|]. split; [constructor|]. split; [apply (Hbound _ p Hp)|].
    apply (leaf_svals basis cfg Hnonull Pos TF EF _ p _ _ Hp). }
  apply orb_false_iff in EL. destruct EL as (ED & EO). apply Z.leb_gt in ED.
  assert (Hp' : Pos (S (Z.to_nat (depth - 1))) p) by (replace (S (Z.to_nat (depth - 1))) with (Z.to_nat depth) by lia; exact Hp).
  match goal with |- context [tt_probe basis ?s1 p ply depth a ?bb] =>
    assert (HS1 : TS s1) by (apply TS_bump; exact HS);
    pose proof (tt_probe_svals basis (Pos 0%nat) NoColl s1 p ply depth a bb HS1 (Pos_0 _ _ Hp) EO ltac:(destruct zw; lia)) as TP;
    destruct (tt_probe basis s1 p ply depth a bb) as [[s2 te] ret] end.
  destruct TP as (HS2 & TR). destruct ret as [[pv' v]|].
  { cbn [fst snd]. destruct TR as (A & B & D). auto. }
  destruct zw.
  - apply (zw_node_ts basis cfg k Hnonull Pos TF EF rec Hrec p (Z.to_nat (depth - 1)) Hp' EO); [exact HS2|exact Hpv|lia|lia].
  - destruct Hw as (Hab & Hb).
    apply (pv_node_d_ts rec Hrec p (Z.to_nat (depth - 1)) Hp' EO); [exact HS2|exact Hpv|lia|exact Hb|lia].
Qed.

Lemma srch_d_ts : forall f, ts_ok basis Pos (srch_d basis cfg k dedup f).
Proof.
  induction f; [|cbn [srch_d]; apply srch_step_d_ts; exact IHf].
  intros zw s p ply depth pv a b cut HS _ _ _. cbn [srch_d fst snd]. split; [exact HS|]. split; [constructor|]. split; [apply okv0|apply svals0].
Qed.

Lemma az_iter_d_ts p D base : (forall d, Z.of_nat d <= Z.max 0 D -> Pos d p) ->
  forall n i s ms v acc d, TS s -> okl ms -> sound_verdict basis p v ->
  forall sk pv' v' d' acc' c', az_iter_d basis cfg k dedup D base p n i s ms v acc d = (sk, (pv', v', d', acc', c')) ->
  TS sk /\ okl pv' /\ sound_verdict basis p v'.
Proof.
  intros HP. induction n; intros i s ms v acc d HS Hms HV sk pv' v' d' acc' c' H; cbn [az_iter_d] in H.
  { inversion H; subst. auto. }
  destruct (D <? i + base) eqn:ED; [inversion H; subst; auto|]. apply Z.ltb_ge in ED.
  pose proof (srch_d_ts 40 false (reset_st s) p 0 (i + base) ms (MinEval - 1) (MaxEval + 1) true
                (TS_reset_st _ _ _ HS) ltac:(apply HP; lia) Hms ltac:(unfold win_ok; destruct minmax; lia)) as R.
  cbv zeta in R.
  destruct (srch_d basis cfg k dedup 40 false (reset_st s) p 0 (i + base) ms (MinEval - 1) (MaxEval + 1) true) as [s1 [next nv]].
  cbn [fst snd] in R. destruct R as (HS1 & Hnext & (O1 & O2) & (V1 & V2)).
  destruct (cancelled k s1) eqn:EK; [inversion H; subst; auto|].
  destruct next as [|m rest]; [inversion H; subst; auto|].
  assert (NEW : sound_verdict basis p nv) by (split; [intros A; apply V1; lia|intros A; apply V2; lia]).
  destruct ((WinThreshold <? nv) || (nv <? - WinThreshold)).
  - inversion H; subst. auto.
  - apply (IHn (i + 1) s1 (m :: rest) nv _ (i + base) HS1 Hnext NEW _ _ _ _ _ _ H).
Qed.

Theorem analyze_d_ts : forall s p sk pv v d acc c, TS s -> (forall d, Z.of_nat d <= Z.max 0 (c_depth cfg) -> Pos d p) -> is_over p = false ->
  analyze_gen_d basis cfg k dedup s p = (sk, (pv, v, d, acc, c)) -> TS sk /\ sound_verdict basis p v.
Proof.
  intros s p sk pv v d acc c HS HP HO H. unfold analyze_gen_d, analyze_depth_d in H.
  assert (HS0 : TS (az_start s)) by (apply TS_az_start; exact HS).
  assert (P0 : Pos 0%nat p) by (apply HP; lia).
  assert (SEED : forall b m0 vv, az_root false (az_start s) p = (b, m0, vv) -> okl m0 /\ sound_verdict basis p vv).
  { unfold az_root. intros b m0 vv E.
    assert (Z0 : sound_verdict basis p 0) by (unfold sound_verdict, WinThreshold; split; intros F; lia).
    destruct (tt_get (az_start s) (phash p)) as [i|] eqn:EG; [|inversion E; split; [constructor|exact Z0]].
    destruct (e_bound (nth i (table (az_start s)) entry0) =? 1)%N eqn:EB; inversion E; [|split; [constructor|exact Z0]]. subst.
    apply N.eqb_eq in EB.
    split; [constructor; [apply (SJ_te (az_start s) i (proj1 HS0))|constructor]|].
    destruct (tt_get_s basis (Pos 0%nat) (az_start s) p i (proj2 HS0) P0 HO EG) as (E1 & E2).
    unfold lowerb, upperb in *. split; [intros A; apply E1; auto|intros A; apply E2; auto]. }
  destruct (az_root false (az_start s) p) as [[base ms0] v0]. destruct (SEED _ _ _ eq_refl) as (S1 & S2).
  destruct (az_iter_d_ts p (c_depth cfg) base HP 16 1 (az_start s) ms0 v0 stats0 base HS0 S1 S2 _ _ _ _ _ _ H) as (A & _ & B).
  split; assumption.
Qed.
End TabSD.

(* ---------- the classification is invariant under the eight images ---------- *)
Lemma won_image k p : (k < 8)%nat -> G p -> (won (imgk p k) <-> won p).
Proof.
  intros Hk ([Hp RM Hb _] & _). unfold won, mover_wins, imgk.
  destruct (image_gameover_invariant k p Hk Hp RM Hb) as (E & _). cbv zeta in E. rewrite E.
  destruct (image_fields p (csym (N.to_nat (size p)) k) Hp) as (_ & E2 & _). unfold to_move_white. rewrite E2. reflexivity.
Qed.
Lemma lost_image k p : (k < 8)%nat -> G p -> (lost (imgk p k) <-> lost p).
Proof.
  intros Hk ([Hp RM Hb _] & _). unfold lost, mover_wins, imgk.
  destruct (image_gameover_invariant k p Hk Hp RM Hb) as (E & _). cbv zeta in E. rewrite E.
  destruct (image_fields p (csym (N.to_nat (size p)) k) Hp) as (_ & E2 & _). unfold to_move_white. rewrite E2. reflexivity.
Qed.

Theorem cls_image : forall n p k, (k < 8)%nat -> G p ->
  (W gen_basis n (imgk p k) <-> W gen_basis n p) /\ (L gen_basis n (imgk p k) <-> L gen_basis n p).
Proof.
  induction n; intros p k Hk HG; pose proof (is_over_image k p Hk HG) as EO; destruct (is_over p) eqn:EP.
  - rewrite (W_over gen_basis 0 _ EO), (W_over gen_basis 0 p EP), (L_over gen_basis 0 _ EO), (L_over gen_basis 0 p EP).
    split; [apply won_image; assumption|apply lost_image; assumption].
  - split; split; intros F.
    + destruct (W_live0 gen_basis _ EO F).
    + destruct (W_live0 gen_basis p EP F).
    + destruct (L_live0 gen_basis _ EO F).
    + destruct (L_live0 gen_basis p EP F).
  - rewrite (W_over gen_basis (S n) _ EO), (W_over gen_basis (S n) p EP), (L_over gen_basis (S n) _ EO), (L_over gen_basis (S n) p EP).
    split; [apply won_image; assumption|apply lost_image; assumption].
  - rewrite (W_liveS gen_basis n _ EO), (W_liveS gen_basis n p EP), (L_liveS gen_basis n _ EO), (L_liveS gen_basis n p EP).
    split; split.
    + intros (c' & Hc' & HL). destruct (child_image_inv k p c' Hk HG Hc') as (c & Hc & HGc & ->). exists c. split; [exact Hc|].
      apply (proj2 (IHn c k Hk HGc)). exact HL.
    + intros (c & Hc & HL). destruct (child_image k p c Hk HG Hc) as (HGc & Hin). exists (imgk c k). split; [exact Hin|].
      apply (proj2 (IHn c k Hk HGc)). exact HL.
    + intros (NE & HA). split.
      * intros F. apply NE. destruct (children gen_basis (imgk p k)) as [|c' r] eqn:E'; [reflexivity|].
        destruct (child_image_inv k p c' Hk HG ltac:(rewrite E'; left; reflexivity)) as (c & Hc & _). rewrite F in Hc. destruct Hc.
      * intros c Hc. destruct (child_image k p c Hk HG Hc) as (HGc & Hin). apply (proj1 (IHn c k Hk HGc)). apply HA. exact Hin.
    + intros (NE & HA). split.
      * intros F. apply NE. destruct (children gen_basis p) as [|c r] eqn:E'; [reflexivity|].
        destruct (child_image k p c Hk HG ltac:(rewrite E'; left; reflexivity)) as (_ & Hin). rewrite F in Hin. destruct Hin.
      * intros c' Hc'. destruct (child_image_inv k p c' Hk HG Hc') as (c & Hc & HGc & ->). apply (proj1 (IHn c k Hk HGc)). apply HA. exact Hc.
Qed.

(* a skipped successor is won when the cached one is *)
Theorem sym_w_ok (Pos : nat -> position -> Prop) : (forall d p, Pos d p -> G p) -> dedup_nocollision Pos ->
  forall d p q q', Pos (S d) p -> is_over p = false -> move p < max_dedup ->
  In q (children gen_basis p) -> In q' (children gen_basis p) -> In (phash q) (sym_hashes gen_basis q') ->
  Wany gen_basis q' -> Wany gen_basis q.
Proof.
  intros HG NC d p q q' Hp EO Hm Hq Hq' Hin (n & HW).
  destruct (child_image 0 p q' ltac:(lia) (HG _ _ Hp) Hq') as (HGq' & _).
  destruct (cache_hit q' (phash q) HGq' Hin) as (j & Hj & Eh).
  rewrite (NC d p q q' j Hp EO Hm Hq Hq' Hj Eh). exists n. apply (proj1 (cls_image n q' j Hj HGq')). exact HW.
Qed.

(* ---------- instantiated model: histories of calls on the dedup-capable engine ---------- *)
Definition touch_set_d (U : nat -> position -> Prop) : Prop := touch_set U /\ dedup_nocollision (fun d p => PosT U d p /\ G p).

Section InstSD.
Variable U : nat -> position -> Prop.
Hypothesis HU : touch_set_d U.

Definition PosTG (d : nat) (p : position) : Prop := PosT U d p /\ G p.

Lemma table_facts_G : table_facts gen_basis PosTG.
Proof.
  destruct HU as (HT & _). destruct (table_facts_inst U HT) as (T1 & T2 & T3 & T4 & T5). unfold table_facts, PosTG.
  split; [intros d p (A & B); split; [apply T1; exact A|exact B]|].
  split.
  { intros d p m q (A & B) EO Hm T. split; [apply (T2 d p m q A EO Hm T)|].
    apply (child_image 0 p q ltac:(lia) B). apply (T3 d p m q A EO Hm T). }
  split; [intros d p m q (A & _) EO Hm T; apply (T3 d p m q A EO Hm T)|].
  split; [intros d p (A & _) EO; apply (T4 d p A EO)|].
  intros p q (A & _) (B & _) E. apply T5; assumption.
Qed.
Lemma eval_facts_G cfg : builtin_eval cfg -> eval_facts cfg PosTG.
Proof.
  intros HE. destruct (eval_facts_inst cfg U HE) as (E1 & E2 & E3). unfold eval_facts, PosTG.
  split; [intros d p (A & _); apply (E1 d p A)|]. split; [intros d p (A & _) EO; apply (E2 d p A EO)|intros d p (A & _) EO; apply (E3 d p A EO)].
Qed.

Definition ask_sd (cfg : config) (p : position) : Prop := ask_s cfg U p /\ G p.

Inductive engine_sd : sstate -> Prop :=
| engsd_new n : engine_sd (new_state n)
| engsd_call s cfg k dedup p sk r : engine_sd s -> c_nonull cfg = true -> builtin_eval cfg -> ask_sd cfg p ->
    analyze_gen_d gen_basis cfg k dedup s p = (sk, r) -> engine_sd sk.

Lemma call_G cfg p : ask_sd cfg p -> (forall d, Z.of_nat d <= Z.max 0 (c_depth cfg) -> PosTG d p) /\ is_over p = false.
Proof. intros (A & B). destruct (call_s_inst cfg U p A) as (C & D). split; [intros d Hd; split; [apply C; exact Hd|exact B]|exact D]. Qed.

Lemma engine_sd_TS s : engine_sd s -> TS gen_basis (PosTG 0%nat) s.
Proof.
  induction 1 as [n|s cfg k dedup p sk r _ IH HN HE HA HR]; [apply TS_new|].
  destruct r as [[[[pv v] d] acc] c]. destruct (call_G cfg p HA) as (HC & HO).
  exact (proj1 (analyze_d_ts gen_basis cfg k dedup HN PosTG table_facts_G (eval_facts_G cfg HE)
                  (sym_w_ok PosTG (fun d p HP => proj2 HP) (proj2 HU)) s p sk pv v d acc c IH HC HO HR)).
Qed.

(* every configuration without null move, the option on or off, either built-in evaluator, any table, any cancellation point, any history
   of such calls: a reported value beyond the threshold is a real forced result *)
Theorem analyze_d_sound_any_inst : forall s cfg k dedup p sk pv v d acc c, engine_sd s -> c_nonull cfg = true -> builtin_eval cfg -> ask_sd cfg p ->
  analyze_gen_d gen_basis cfg k dedup s p = (sk, (pv, v, d, acc, c)) -> sound_verdict gen_basis p v.
Proof.
  intros s cfg k dedup p sk pv v d acc c HS HN HE HA HR. destruct (call_G cfg p HA) as (HC & HO).
  exact (proj2 (analyze_d_ts gen_basis cfg k dedup HN PosTG table_facts_G (eval_facts_G cfg HE)
                  (sym_w_ok PosTG (fun d p HP => proj2 HP) (proj2 HU)) s p sk pv v d acc c (engine_sd_TS s HS) HC HO HR)).
Qed.

(* C16 for these configurations of the dedup-capable model: the state left by a call cancelled anywhere is an engine state again *)
Theorem cancel_preserves_soundness_d : forall s cfg k dedup p sk r, engine_sd s -> c_nonull cfg = true -> builtin_eval cfg -> ask_sd cfg p ->
  analyze_gen_d gen_basis cfg k dedup s p = (sk, r) ->
  forall cfg' k' dedup' p' sk' pv v d acc c, c_nonull cfg' = true -> builtin_eval cfg' -> ask_sd cfg' p' ->
    analyze_gen_d gen_basis cfg' k' dedup' sk p' = (sk', (pv, v, d, acc, c)) -> sound_verdict gen_basis p' v.
Proof.
  intros s cfg k dedup p sk r HS HN HE HA HR cfg' k' dedup' p' sk' pv v d acc c HN' HE' HA' HR'.
  exact (analyze_d_sound_any_inst sk cfg' k' dedup' p' sk' pv v d acc c (engsd_call s cfg k dedup p sk r HS HN HE HA HR) HN' HE' HA' HR').
Qed.
End InstSD.
