(* C08, "however produced": Equal and Hash depend only on size, squares and side to move for positions produced by ANY mix of
   tak.New + moves, FromSquares / ParseTPS of a fitting board, and symmetry images (produced: an inductive closure), because
   every such position satisfies the C01 invariant (produced_ok) and the invariant makes the representation canonical (Canon8). *)
From Coq Require Import NArith ZArith Arith List Bool Lia ZifyN ZifyBool ZifyNat Permutation.
Require Import Rules Sym SymRules1 SymRules2 SymRules3 SymRules4.
Require Import Board Stack Move Refine RefinePlace RefinePlace2 RefinePlace3 Slide1 Slide2 Slide3 Slide4 Slide5 Slide6 Slide7 Slide8
  MoveRefines HashInv GameOver Preserve1 Preserve2 PreserveExt Preserve3 Preserve4 Preserve5 Preserve6 Reach1 HashMove1 Canon8.
Require Import Alloc Generated.Consts.
Require Import Tps Symmetry SymCode1 Canon2.
Require Import TpsFacts TpsFacts2 TpsFacts3 TpsFacts4 TpsFacts5 TpsFacts6 TpsFacts8 TpsFacts9 Import1 Import2 Import3 Import4.
Import ListNotations.
Close Scope Z_scope. Close Scope N_scope.

(* ---- the ways a position comes into being ---- *)
Inductive produced : position -> Prop :=
| pr_new sz bwt stones caps : (3 <= sz <= 8)%N -> (stones < 256)%N -> (caps < 256)%N ->
    produced (Alloc.new_pos sz bwt stones caps)                                              (* tak.New, any configuration *)
| pr_squares n board mv : fit_board n board ->
    produced (from_squares gen_basis (N.of_nat n) board mv)                            (* tak.FromSquares of a fitting board *)
| pr_tps s q : parse_tps gen_basis s = Ok q ->
    (forall n board mv, q = from_squares gen_basis (N.of_nat n) board mv -> shape_board n board -> low_board board) ->
    produced q                                                                         (* ptn.ParseTPS, no parsed stack above 64 *)
| pr_image p s : produced p -> produced (image gen_basis p s)                          (* symmetry.Symmetries' rebuild, any map s *)
| pr_move p m p' : produced p -> mT m <> 1%N -> mv p m = Ok p' -> heights64 p' ->
    produced p'                                                                        (* Position.Move, result within the 64 limit *)
| pr_pass p m p' : produced p -> mT m = 1%N -> Alloc.amv hsq p m = Ok p' ->
    produced p'.                                                                       (* Position.Move of a Pass (the search's null move): only the ply counter moves *)

(* what a Pass does: nothing but the ply counter changes (Alloc.amv is the executed model of MovePreallocated including Pass) *)
Lemma amv_pass p m p' : mT m = 1%N -> Alloc.amv hsq p m = Ok p' ->
  size p' = size p /\ bview p' = bview p /\ move p' = (move p + 1)%Z /\
  whiteStones p' = whiteStones p /\ whiteCaps p' = whiteCaps p /\ blackStones p' = blackStones p /\ blackCaps p' = blackCaps p.
Proof.
  intros Hm E. unfold Alloc.amv in E. rewrite Hm in E. cbn in E. injection E as <-. cbn. repeat split; reflexivity.
Qed.

Lemma pass_pos_ok p m p' : pos_ok p -> mT m = 1%N -> Alloc.amv hsq p m = Ok p' -> pos_ok p'.
Proof.
  intros [Hs Hb Hr He] Hm E. destruct (amv_pass p m p' Hm E) as (S & B & _ & R1 & R2 & R3 & R4).
  constructor; rewrite ?S, ?B; try assumption.
  unfold reserves_ok in *. rewrite R1, R2, R3, R4. exact Hr.
Qed.

Theorem produced_ok p : produced p -> pos_ok p.
Proof.
  induction 1 as [sz bwt stones caps Hs H1 H2|n board mv FB|s q Hq HL|p s _ IH|p m p' _ IH Hm E H64|p m p' _ IH Hm E].
  - now destruct (new_ok sz bwt stones caps Hs H1 H2).
  - now apply from_squares_pos_ok.
  - now apply (parse_tps_pos_ok s).
  - now apply image_pos_ok.
  - pose proof (move_exact p m IH Hm) as R. rewrite E in R. destruct R as (a & _ & _ & _ & R). now destruct (R H64).
  - exact (pass_pos_ok p m p' IH Hm E).
Qed.

(* replays are produced *)
Lemma produced_replay : forall ms p q, produced p -> no_pass ms ->
  (forall ms1 ms2 r, ms = ms1 ++ ms2 -> replay p ms1 = Ok r -> heights64 r) -> replay p ms = Ok q -> produced q.
Proof.
  induction ms as [|m ms IH]; intros p q Hp Hnp H64 Hr; cbn [replay] in Hr.
  - now injection Hr as <-.
  - inversion Hnp as [|? ? Hm Hnp']; subst. destruct (mv p m) as [p1| |] eqn:E; try discriminate.
    apply (IH p1 q); try assumption.
    + apply (pr_move p m p1 Hp Hm E). apply (H64 [m] ms p1 eq_refl). cbn [replay]. now rewrite E.
    + intros ms1 ms2 r -> Hr1. apply (H64 (m :: ms1) ms2 r eq_refl). cbn [replay]. now rewrite E.
Qed.

Lemma produced_reachable sz bwt stones caps ms p : (3 <= sz <= 8)%N -> (2 * (stones + caps) <= 64)%N -> no_pass ms ->
  replay (Alloc.new_pos sz bwt stones caps) ms = Ok p -> produced p.
Proof.
  intros Hs Hc Hnp Hr. apply (produced_replay ms (Alloc.new_pos sz bwt stones caps) p); try assumption.
  - apply pr_new; lia.
  - intros ms1 ms2 r -> Hr1. apply Forall_app in Hnp as [Hnp1 _].
    destruct (reachable_ok sz bwt stones caps ms1 r Hs Hc Hnp1 Hr1) as (A & T & _). apply total_heights64. lia.
Qed.

(* ---- "the same stacks on every square", as Position.At shows them ---- *)
Definition same_at (p q : position) : Prop := forall i, (i < size p * size p)%N -> at_sq p i = at_sq q i.

Lemma same_at_abs p q : pos_ok p -> pos_ok q -> size p = size q -> (same_at p q <-> sq (abs p) = sq (abs q)).
Proof.
  intros Hp Hq Es. rewrite <- (cells_abs p Hp), <- (cells_abs q Hq). unfold cells_of. cbv zeta. rewrite <- Es.
  pose proof (po_size _ Hp) as Hs. split.
  - intros H. f_equal. apply map_ext_in. intros i Hi. apply in_seq in Hi. apply H. nia.
  - intros H i Hi.
    assert (E : forall r, pos_ok r -> size r = size p -> at_sq r i = map pc_of (map piece_of (at_sq r i))).
    { intros r Hr Er. rewrite (at_sq_abs r i); [now rewrite map_piece_pc|nia|].
      apply (ro_sq _ _ (pos_ok_rep_ok r Hr)). rewrite Er. exact Hi. }
    rewrite (E p Hp eq_refl), (E q Hq (eq_sym Es)). f_equal.
    apply (f_equal (fun l => nth (N.to_nat i) l [])) in H.
    rewrite !map_map in H.
    rewrite !(nth_map_seq (fun x => map piece_of (at_sq _ (N.of_nat x)))) in H by nia.
    now rewrite N2Nat.id in H.
Qed.

(* ---- C08 for produced positions ---- *)
Theorem equal_hash_however_produced p q : produced p -> produced q ->
  size p = size q -> same_at p q -> same_side p q ->
  equal p q = true /\ hash_of p = hash_of q /\ hash p = hash q.
Proof.
  intros Pp Pq Es Ea Et. pose proof (produced_ok p Pp) as Hp. pose proof (produced_ok q Pq) as Hq.
  apply (same_at_abs p q Hp Hq Es) in Ea.
  destruct (equal_complete p q Hp Hq Es Ea Et) as [A B].
  destruct (representation_canonical p q Hp Hq Es Ea) as (_ & _ & _ & _ & _ & _ & C). auto.
Qed.
Print Assumptions equal_hash_however_produced.

(* and positions that differ in a piece, in size or in the side to move compare unequal *)
Theorem equal_sound_produced p q : produced p -> produced q -> equal p q = true ->
  size p = size q /\ same_at p q /\ same_side p q.
Proof.
  intros Pp Pq E. pose proof (produced_ok p Pp) as Hp. pose proof (produced_ok q Pq) as Hq.
  destruct (equal_sound p q Hp Hq E) as (A & B & C & _). split; [exact A|]. split; [|exact C].
  now apply (same_at_abs p q Hp Hq A).
Qed.

(* ---- a symmetry image undone by the inverse symmetry is the position itself, field for field ---- *)
Theorem image_image_inv k p : k < 8 -> pos_ok p -> reserves_match_board p -> Move.black_wins_ties p = false ->
  let n := N.to_nat (size p) in
  image gen_basis (image gen_basis p (csym n k)) (csym n (Sym.inv k)) = p.
Proof.
  intros Hk Hp RM Hb n. subst n. set (q := image gen_basis p (csym (N.to_nat (size p)) k)).
  destruct (image_fields p (csym (N.to_nat (size p)) k) Hp) as (E1 & _ & E3). fold q in E1, E3.
  assert (Hq : pos_ok q) by now apply image_pos_ok.
  assert (RMq : reserves_match_board q) by now apply image_reserves_match.
  rewrite <- E1. apply pos_ok_eq; [now apply image_pos_ok|exact Hp|].
  rewrite (image_abs (Sym.inv k) q (inv_lt k Hk) Hq RMq E3). unfold q. rewrite (image_abs k p Hk Hp RM Hb).
  apply img_inv; [exact Hk|]. apply abs_well_shaped. apply (po_size _ Hp).
Qed.
Print Assumptions image_image_inv.

(* ---- non-vacuity: the 14-ply position reached by replay, the same board imported from TPS text, and the position rotated and
   rotated back are Equal with the same Hash; its rotation is not Equal ---- *)
Require Import PreserveEx TpsFacts7.
From Coq Require Import String.
Definition tps_p14 : list N := bytes_of "2,x3,1/x4,1C/x4,2S/x4,22221/2,x4 1 8".
Example ex_however_produced : exists q r,
  format_tps p14 = tps_p14 /\ parse_tps gen_basis tps_p14 = Ok q /\
  r = image gen_basis (image gen_basis p14 (csym 5 6)) (csym 5 7) /\
  produced p14 /\ produced q /\ produced r /\
  equal p14 q = true /\ hash_of p14 = hash_of q /\ equal q r = true /\ hash_of q = hash_of r /\
  equal p14 (image gen_basis p14 (csym 5 6)) = false.
Proof.
  destruct p14_hyps as (A & B & C & S).
  assert (P14 : produced p14) by (apply (produced_reachable 5 false 21 1 ms14); [lia|lia|exact no_pass_ms14|exact replay_ms14]).
  eexists. exists (image gen_basis (image gen_basis p14 (csym 5 6)) (csym 5 7)).
  split; [vm_compute; reflexivity|]. split; [vm_compute; reflexivity|]. split; [reflexivity|]. split; [exact P14|].
  match goal with |- produced ?x /\ _ => set (q := x) end.
  assert (Eq : q = from_squares gen_basis (N.of_nat 5)
     [ [[P true 1]; []; []; []; []]; [[]; []; []; []; [P false 1; P true 1; P true 1; P true 1; P true 1]];
       [[]; []; []; []; [P true 2]]; [[]; []; []; []; [P false 3]]; [[P true 1]; []; []; []; [P false 1]] ] 14)
    by (vm_compute; reflexivity).
  assert (Pq : produced q) by (rewrite Eq; apply pr_squares; apply fit_boardb_ok; vm_compute; reflexivity).
  split; [exact Pq|].
  assert (Pr : produced (image gen_basis (image gen_basis p14 (csym 5 6)) (csym 5 7))) by (do 2 apply pr_image; exact P14).
  split; [exact Pr|].
  assert (Er : image gen_basis (image gen_basis p14 (csym 5 6)) (csym 5 7) = p14).
  { pose proof (image_image_inv 6 p14 ltac:(lia) A B C) as H. cbv zeta in H. rewrite S in H. exact H. }
  rewrite Er.
  assert (Sq : size p14 = size q) by (rewrite S, Eq; reflexivity).
  assert (At : same_at p14 q).
  { apply (same_at_abs p14 q A (produced_ok q Pq) Sq). rewrite Eq. vm_compute. reflexivity. }
  assert (Sd : same_side p14 q) by (rewrite Eq; vm_compute; reflexivity).
  destruct (equal_hash_however_produced p14 q P14 Pq Sq At Sd) as (E1 & E2 & _).
  split; [exact E1|]. split; [exact E2|].
  assert (At' : same_at q p14) by (intros i Hi; symmetry; apply At; now rewrite Sq).
  destruct (equal_hash_however_produced q p14 Pq P14 (eq_sym Sq) At' (eq_sym Sd)) as (E3 & E4 & _).
  split; [exact E3|]. split; [exact E4|]. vm_compute. reflexivity.
Qed.

(* ---- Pass (the search's null move): the position after it is the same board with the other side to move ---- *)
Lemma pass_same_at p m p' : mT m = 1%N -> Alloc.amv hsq p m = Ok p' -> same_at p' p /\ size p' = size p /\ same_side p' p -> False.
Proof.
  intros Hm E (_ & _ & T). destruct (amv_pass p m p' Hm E) as (_ & _ & M & _).
  unfold same_side, to_move_white in T. rewrite M in T. rewrite Z.even_add in T. cbn in T.
  destruct (Z.even (move p)); discriminate.
Qed.

Lemma at_sq_bview p q : bview p = bview q -> forall i, at_sq p i = at_sq q i.
Proof.
  intros B i. unfold bview in B. injection B as B1 B2 B3 B4 B5 B6 _. unfold at_sq. now rewrite B1, B2, B3, B4, B5, B6.
Qed.

(* a position reached through a Pass equals, and hashes like, the same board with that side to move produced in any other way;
   and it is not Equal to the position it was derived from *)
Theorem pass_equal_hash p m p' q : produced p -> mT m = 1%N -> Alloc.amv hsq p m = Ok p' -> produced q ->
  size p = size q -> same_at p q -> same_side p' q ->
  equal p' q = true /\ hash_of p' = hash_of q /\ equal p' p = false.
Proof.
  intros Pp Hm E Pq Es Ea Et. pose proof (pr_pass p m p' Pp Hm E) as Pp'.
  destruct (amv_pass p m p' Hm E) as (S & B & M & _).
  assert (Ea' : same_at p' q).
  { intros i Hi. rewrite S in Hi. rewrite (at_sq_bview p' p B i). now apply Ea. }
  destruct (equal_hash_however_produced p' q Pp' Pq (eq_trans S Es) Ea' Et) as (A1 & A2 & _).
  refine (conj A1 (conj A2 _)).
  destruct (equal p' p) eqn:Q; [|reflexivity]. exfalso.
  destruct (equal_sound_produced p' p Pp' Pp Q) as (Q1 & Q2 & Q3).
  exact (pass_same_at p m p' Hm E (conj Q2 (conj Q1 Q3))).
Qed.
Print Assumptions pass_equal_hash.
