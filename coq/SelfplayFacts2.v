(* SelfplayFacts2.v: the game loop of Selfplay.v against two engine models.  Parametric in an invariant [inv] of the positions of a
   game (what C10's round trip needs, kept by legal moves, with a total GameOver); SelfplayFacts3.v instantiates it. *)
From Coq Require Import NArith ZArith List Bool Lia ZifyN ZifyBool ZifyNat.
Require Import Board Move GameOver PtnMove Playtak Tps TeiBudget Tei TeiSpec TeiFacts TeiClient TeiClientFacts TeiClientFacts2 TeiClientFacts3.
Require Import Selfplay SelfplayFacts PnFacts Refine Reach1 Preserve1 TpsFacts5.
Require Import Generated.Consts.
Import ListNotations.
Local Open Scope Z_scope.

Lemma wrap64_id z : - 2 ^ 63 <= z < 2 ^ 63 -> wrap64 z = z.
Proof. intros H. unfold wrap64. rewrite Z.mod_small; lia. Qed.

Section Loop.
Variable SS1 : Type. Variable mk1 : Z -> SS1. Variable search1 : SS1 -> option Z -> position -> SS1 * (list rmove * Z * Z * Z).
Variable SS2 : Type. Variable mk2 : Z -> SS2. Variable search2 : SS2 -> option Z -> position -> SS2 * (list rmove * Z * Z * Z).
Notation eng1 := (tei_proc gen_basis SS1 mk1 search1).
Notation eng2 := (tei_proc gen_basis SS2 mk2 search2).
Variable cf : config.
Hypothesis Hs1 : searcher_ok_wire SS1 search1.
Hypothesis Hs2 : searcher_ok_wire SS2 search2.

Variable inv : position -> Prop.
Hypothesis inv_good : forall p, inv p -> good p.
Hypothesis inv_step : forall p m q, inv p -> tmove gen_basis p m = Move.Ok q -> inv q.
Hypothesis inv_over : forall p, inv p -> game_over p <> None.

Variable dur : nat -> Z.
Variable left : nat -> Z.
Hypothesis Hdur : forall k, 0 <= dur k < 2 ^ 63.
Hypothesis Hleft : cf_limit cf <> 0 -> forall k, 1000000 <= left k < 2 ^ 63.
Hypothesis Hinc : cf_increment cf = 0 \/ 1000000 <= cf_increment cf < 2 ^ 63.

Notation wst := (wstate (proc SS1) (proc SS2)).
Definition wready (w : wst) (g1 g2 sz : Z) : Prop := ready SS1 (w_c1 w) g1 sz /\ ready SS2 (w_c2 w) g2 sz.

(* the clocks during a game with [fuel] calls to go: both at least 1 ms, increments as configured, no overflow ahead *)
Definition tc_inv (fuel : nat) (tc : option tctl) : Prop :=
  match tc with
  | None => True
  | Some t => tc_winc t = cf_increment cf /\ tc_binc t = cf_increment cf /\
              1000000 <= tc_white t /\ tc_white t + Z.of_nat fuel * cf_increment cf < 2 ^ 63 /\
              1000000 <= tc_black t /\ tc_black t + Z.of_nat fuel * cf_increment cf < 2 ^ 63
  end.

Lemma tc_inv_sayable fuel tc dl : tc_inv fuel tc -> (forall d, dl = Some d -> 1000000 <= d < 2 ^ 63) ->
  (forall d, dl = Some d -> int64 d) /\ (forall t, tc = Some t -> tc_int64 t) /\ go_words dl tc <> None.
Proof.
  intros Ht Hd. assert (Hf : 0 <= Z.of_nat fuel * cf_increment cf) by (apply Z.mul_nonneg_nonneg; lia).
  split; [intros d E; specialize (Hd d E); unfold int64; lia|]. split.
  - intros t ->. destruct Ht as (A & B & C & D & E & F). unfold tc_int64, int64. rewrite A, B. lia.
  - intros H. apply go_words_none in H. destruct H as [(d & E & Hlt)|(t & -> & Hn)].
    + specialize (Hd d E). lia.
    + apply Hn. destruct Ht as (A & B & C & D & E & F). unfold sayable. rewrite A, B. lia.
Qed.

Section Game.
Variable opening : position.
Variable p1white : bool.
Variable g1 g2 : Z.
Notation loop := (game_loop (proc SS1) (proc SS2) eng1 eng2 gen_basis cf dur left opening p1white g1 g2).

Lemma ask_ok (w : wst) p dl tc fuel :
  wready w g1 g2 (Z.of_N (Move.size p)) -> inv p -> live p -> 0 <= Move.move p < 2 ^ 63 ->
  (forall d, dl = Some d -> 1000000 <= d < 2 ^ 63) -> tc_inv fuel tc ->
  exists w' m, ask (proc SS1) (proc SS2) eng1 eng2 w p1white g1 g2 p dl tc = (w', ROk m) /\
    legal gen_basis p (to_rmove m) /\ wready w' g1 g2 (Z.of_N (Move.size p)).
Proof.
  intros [R1 R2] Hi Hl Hm Hd Ht. destruct (tc_inv_sayable fuel tc dl Ht Hd) as (I1 & I2 & I3). unfold ask.
  assert (A1 : searcher_ok_wire_at SS1 search1 p) by (intros s lim; exact (Hs1 s lim p Hl)).
  assert (A2 : searcher_ok_wire_at SS2 search2 p) by (intros s lim; exact (Hs2 s lim p Hl)).
  destruct (Bool.eqb (to_move_white p) p1white).
  - destruct (tei_get_move_ok SS1 mk1 search1 (w_c1 w) g1 p dl tc A1 R1 (inv_good p Hi) Hm I1 I2 I3)
      as (c2 & m & E & L & R & _).
    rewrite E. exists {| w_c1 := c2; w_c2 := w_c2 w |}, m. split; [reflexivity|]. split; [exact L|]. split; assumption.
  - destruct (tei_get_move_ok SS2 mk2 search2 (w_c2 w) g2 p dl tc A2 R2 (inv_good p Hi) Hm I1 I2 I3)
      as (c2 & m & E & L & R & _).
    rewrite E. exists {| w_c1 := w_c1 w; w_c2 := c2 |}, m. split; [reflexivity|]. split; [exact L|]. split; assumption.
Qed.

(* settle without overflow: the mover's clock less the duration; out of time at 1 ms or less; otherwise the increment is added *)
Lemma settle_spec (white : bool) k t fuel : tc_inv (S fuel) (Some t) ->
  let tm := if white then tc_white t else tc_black t in
  if tm - dur k <=? 1000000 then settle white (dur k) t = None
  else exists t', settle white (dur k) t = Some t' /\ tc_inv fuel (Some t') /\
         (if white then tc_white t' = tm - dur k + cf_increment cf /\ tc_black t' = tc_black t
          else tc_black t' = tm - dur k + cf_increment cf /\ tc_white t' = tc_white t).
Proof.
  intros (A & B & C & D & E & F). pose proof (Hdur k) as Hk. cbv zeta. unfold settle.
  assert (Hn : Z.of_nat (S fuel) = Z.of_nat fuel + 1) by lia. rewrite Hn in D, F.
  assert (Hi : 0 <= cf_increment cf) by lia.
  assert (Hf : 0 <= Z.of_nat fuel * cf_increment cf) by (apply Z.mul_nonneg_nonneg; lia).
  destruct white.
  - rewrite (wrap64_id (tc_white t - dur k)) by lia.
    destruct (Z.leb_spec (tc_white t - dur k) 1000000); [reflexivity|].
    rewrite A. rewrite (wrap64_id (tc_white t - dur k + cf_increment cf)) by lia.
    eexists. split; [reflexivity|]. split; [|split; reflexivity].
    cbn [tc_inv tc_white tc_black tc_winc tc_binc]. repeat split; try assumption; lia.
  - rewrite (wrap64_id (tc_black t - dur k)) by lia.
    destruct (Z.leb_spec (tc_black t - dur k) 1000000); [reflexivity|].
    rewrite B. rewrite (wrap64_id (tc_black t - dur k + cf_increment cf)) by lia.
    eexists. split; [reflexivity|]. split; [|split; reflexivity].
    cbn [tc_inv tc_white tc_black tc_winc tc_binc]. repeat split; try assumption; lia.
Qed.

(* how a game can end *)
Definition ending (fuel : nat) (tc : option tctl) (n : nat) (r : result) : Prop :=
  game_over (r_position r) = Some (true, r_winner r) \/
  (live (r_position r) /\ tc <> None /\ r_winner r = flip_mover (to_move_white (r_position r))) \/
  (live (r_position r) /\ r_winner r = GNone /\ n = fuel).

Theorem game_loop_ok : forall fuel k (w : wst) p tc ms,
  wready w g1 g2 (Z.of_N (Move.size p)) -> inv p -> live p -> 0 <= Move.move p -> Move.move p + Z.of_nat fuel < 2 ^ 63 -> tc_inv fuel tc ->
  exists w' r, loop fuel k w p tc ms = (w', GDone r) /\ wready w' g1 g2 (Z.of_N (Move.size p)) /\ r_initial r = opening /\
    exists ms', r_moves r = ms ++ ms' /\ replay p (map to_rmove ms') = Move.Ok (r_position r) /\ inv (r_position r) /\
                (List.length ms' <= fuel)%nat /\ ending fuel tc (List.length ms') r.
Proof.
  induction fuel as [|f IH]; intros k w p tc ms Hw Hi Hl Hm0 Hm Ht.
  - cbn [game_loop]. eexists _, _. split; [reflexivity|]. split; [exact Hw|]. split; [reflexivity|].
    exists []. cbn [r_moves r_position r_winner map replay List.length]. rewrite app_nil_r.
    repeat split; auto. right. right. auto.
  - cbn [game_loop].
    set (dl := if cf_limit cf =? 0 then None else Some (left k)).
    assert (Hd : forall d, dl = Some d -> 1000000 <= d < 2 ^ 63).
    { subst dl. destruct (Z.eqb_spec (cf_limit cf) 0); [discriminate|]. intros d E. injection E as <-. now apply Hleft. }
    destruct (ask_ok w p dl tc (S f) Hw Hi Hl ltac:(lia) Hd Ht) as (w1 & m & Ea & [q Hq] & Hw1). rewrite Ea.
    (* the clock *)
    assert (Hclock :
      (match tc with Some t => (match settle (to_move_white p) (dur k) t with Some t' => Some (Some t') | None => None end) | None => Some None end) = None /\ tc <> None
      \/ exists tc1, (match tc with Some t => (match settle (to_move_white p) (dur k) t with Some t' => Some (Some t') | None => None end) | None => Some None end) = Some tc1
                     /\ tc_inv f tc1 /\ (tc1 <> None -> tc <> None)).
    { destruct tc as [t|]; [|right; exists None; split; [reflexivity|split; [exact I|auto]]].
      pose proof (settle_spec (to_move_white p) k t f Ht) as S. cbv zeta in S.
      destruct ((if to_move_white p then tc_white t else tc_black t) - dur k <=? 1000000).
      - left. rewrite S. split; [reflexivity|discriminate].
      - destruct S as (t' & -> & Ti & _). right. exists (Some t'). split; [reflexivity|]. split; [exact Ti|discriminate]. }
    destruct Hclock as [[-> Htc]|(tc1 & -> & Ht1 & Htc)].
    + (* out of time: the position stands *)
      eexists _, _. split; [reflexivity|]. split; [exact Hw1|]. split; [reflexivity|].
      exists []. cbn [r_moves r_position r_winner map replay List.length]. rewrite app_nil_r.
      repeat split; auto; try lia. right. left. auto.
    + unfold tmove in Hq. rewrite Hq.
      pose proof (inv_step p (to_rmove m) q Hi Hq) as Hiq.
      destruct (mv_fields _ _ _ _ _ Hq) as [Eply Esz].
      destruct (game_over q) as [[[|] c]|] eqn:Go; [| |exfalso; exact (inv_over q Hiq Go)].
      * eexists _, _. split; [reflexivity|]. split; [exact Hw1|]. split; [reflexivity|].
        exists [m]. cbn [r_moves r_position r_winner map replay List.length].
        change (mv p (to_rmove m)) with (move_prealloc (hash_sq gen_basis) true p (to_rmove m)). rewrite Hq.
        repeat split; auto; try lia. left. exact Go.
      * assert (Hlq : live q) by (exists c; exact Go).
        rewrite <- Esz in Hw1.
        destruct (IH (S k) w1 q tc1 (ms ++ [m]) Hw1 Hiq Hlq ltac:(lia) ltac:(lia) Ht1)
          as (w' & r & El & Hw' & Hini & ms' & Em & Er & Hir & Hlen & Hend).
        exists w', r. split; [exact El|]. split; [rewrite <- Esz; exact Hw'|]. split; [exact Hini|].
        exists (m :: ms'). split; [rewrite Em, <- app_assoc; reflexivity|].
        cbn [map replay List.length].
        change (mv p (to_rmove m)) with (move_prealloc (hash_sq gen_basis) true p (to_rmove m)). rewrite Hq.
        split; [exact Er|]. split; [exact Hir|]. split; [lia|].
        destruct Hend as [E|[(A & B & C)|(A & B & C)]]; [left; exact E|right; left; auto|right; right; repeat split; auto].
Qed.
End Game.
End Loop.
