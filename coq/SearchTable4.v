(* SearchTable4.v: the TABLE CLAUSE of C05, part 4 - the hypotheses of SearchTable3 discharged for the instantiated model (hash basis
   regenerated from /repo) and the two evaluators of the check, from the proved properties of the rules model (C01/C02/C03/C04: SearchNeg2)
   and of the evaluator (C18: EvalFacts5).  What stays a hypothesis is the set U of positions the calls may touch:
     touch_set U :  U (S d) p -> U d p;   a legal successor of a live U (S d) position is a U d position;
                    NoCollision: two positions of U 0 with the same Position.Hash have the same forced-result classification
   (the form DfpnFacts.S_hash uses; it follows e.g. from "equal hash => equal position value", which is how the example discharges it). *)
From Coq Require Import NArith ZArith List Bool Lia.
Require Import Board Stack Rules Move GameOver Refine Preserve1 Preserve5 Preserve6.
Require Import GameOverFacts1 Eval EvalSpec EvalInst EvalFacts5.
Require Import Search NegamaxSpec SearchGen SearchExact SearchInst SearchLegal2 SearchNeg1 SearchNeg2 SearchNeg3 SearchNeg4 SearchNeg5.
Require Import SearchTable1 SearchTable2 SearchTable3.
Require Import Generated.Consts.
Import ListNotations.
Open Scope Z_scope.

Definition touch_set (U : nat -> position -> Prop) : Prop :=
  (forall d p, U (S d) p -> U d p) /\
  (forall d p q, U (S d) p -> is_over p = false -> In q (children gen_basis p) -> U d q) /\
  (forall p q, U 0%nat p -> U 0%nat q -> phash p = phash q -> cls_eq gen_basis p q).

(* searchable to depth d: C01's invariant, the tree of depth d below p inside the 64-stone stack limit, plies up to C18's limit, in U d *)
Definition PosT (U : nat -> position -> Prop) (d : nat) (p : position) : Prop := PosD d p /\ U d p.

Lemma PosD_anti d p : PosD (S d) p -> PosD d p.
Proof. intros ((Hb & HW) & Hm). split; [split; [exact Hb|apply within_le; exact HW]|lia]. Qed.

Lemma table_facts_inst U : touch_set U -> table_facts gen_basis (PosT U).
Proof.
  intros (U1 & U2 & U3). unfold table_facts, PosT.
  split; [intros d p (A & B); split; [apply PosD_anti; exact A|apply U1; exact B]|].
  split.
  { intros d p m q (A & B) EO Hm T. pose proof (base_ok_hint p m q (proj1 (proj1 A)) Hm T) as Hq.
    split; [apply (PosD_closed d p q A EO Hq)|apply (U2 d p q B EO Hq)]. }
  split; [intros d p m q (A & _) EO Hm T; apply (base_ok_hint p m q (proj1 (proj1 A)) Hm T)|].
  split; [intros d p (A & _) EO; apply (base_ok_live p (proj1 (proj1 A)) EO)|].
  intros p q (_ & A) (_ & B) E. apply U3; assumption.
Qed.

(* ---- the evaluators ---- *)
Lemma over_game p : is_over p = true -> exists w, game_over p = Some (true, w).
Proof. unfold is_over. destruct (game_over p) as [[[] w]|]; try discriminate. intros _. exists w. reflexivity. Qed.

Lemma won_iff p w : game_over p = Some (true, w) -> (won p <-> mover_wins p w = true).
Proof.
  intros G. split; [intros (w' & G' & M); rewrite G in G'; inversion G'; subst; exact M|intros M; exists w; split; assumption].
Qed.
Lemma lost_iff p w : game_over p = Some (true, w) -> (lost p <-> w <> GNone /\ mover_wins p w = false).
Proof.
  intros G. split; [intros (w' & G' & M); rewrite G in G'; inversion G'; subst; exact M|intros M; exists w; split; assumption].
Qed.

Lemma winbase_val : Eval.WinBase = 805306368 /\ WinThreshold = 536870912.
Proof. split; reflexivity. Qed.

Lemma ew_over p : is_over p = true ->
  (WinThreshold < evaluate_winner p <-> won p) /\ (evaluate_winner p < - WinThreshold <-> lost p).
Proof.
  intros EO. destruct (over_game p EO) as (w & G). rewrite (won_iff p w G), (lost_iff p w G).
  unfold evaluate_winner. rewrite G. destruct winbase_val as (-> & ->). unfold mover_wins.
  destruct w; destruct (to_move_white p); cbn [negb]; split; split; intros H; try lia; try reflexivity; try discriminate;
    try (split; [discriminate|reflexivity]); try (destruct H as (H1 & H2); try discriminate H2; try (exfalso; apply H1; reflexivity)).
Qed.
Lemma ew_live p c : game_over p = Some (false, c) -> evaluate_winner p = 0.
Proof. intros G. unfold evaluate_winner. rewrite G. reflexivity. Qed.

Lemma wt_gen : gen_WinThreshold = WinThreshold /\ gen_MaxEval = MaxEval.
Proof. split; reflexivity. Qed.

Lemma de_over p : pos_ok p -> 0 <= move p <= max_terminal_ply -> is_over p = true ->
  (WinThreshold < default_eval p <-> won p) /\ (default_eval p < - WinThreshold <-> lost p).
Proof.
  intros Hp Hm EO. destruct (over_game p EO) as (w & G). rewrite (won_iff p w G), (lost_iff p w G).
  pose proof (pos_ok_shape p Hp) as Hs. pose proof Hs as (Hsz & _).
  pose proof (terminal_outside _ (default_weights_in (size p) Hsz) p w Hs G Hm) as T.
  rewrite default_eval_eq, eval_default_eq. destruct wt_gen as (WG & _). rewrite WG in T. destruct winbase_val as (_ & WT).
  assert (DEC : forall (mw : bool) v, WinThreshold < Z.abs v <= gen_MaxEval -> (0 < v <-> mw = true) -> forall c : gcolor, c <> GNone ->
            (WinThreshold < v <-> mw = true) /\ (v < - WinThreshold <-> c <> GNone /\ mw = false)).
  { intros mw v B S c Hc. destruct mw.
    - assert (0 < v) by (apply S; reflexivity). split; split; intros H0; try lia; try reflexivity; try (destruct H0 as (_ & F); discriminate F).
    - assert (~ 0 < v) by (intros X; apply S in X; discriminate X). split; split; intros H0; try lia; try discriminate H0; try (split; [exact Hc|reflexivity]). }
  destruct w.
  - destruct T as (v & -> & B & S). apply DEC; [exact B|exact S|discriminate].
  - destruct T as (v & -> & B & S). apply DEC; [exact B|exact S|discriminate].
  - rewrite T. cbn [mover_wins]. split; split; intros H; try lia; try discriminate. destruct H as (H & _). exfalso. apply H. reflexivity.
Qed.
Lemma de_live p c : pos_ok p -> game_over p = Some (false, c) -> - WinThreshold <= default_eval p <= WinThreshold.
Proof.
  intros Hp G. rewrite default_eval_eq. destruct (eval_default p) as [v| |] eqn:E; try (unfold WinThreshold; lia).
  pose proof (heuristic_in_range p c v (pos_ok_shape p Hp) G E) as B. destruct wt_gen as (WG & _). rewrite WG in B. lia.
Qed.

Lemma eval_facts_inst cfg U : builtin_eval cfg -> eval_facts cfg (PosT U).
Proof.
  intros HE. unfold eval_facts, PosT.
  assert (MV : forall d p, PosD d p -> pos_ok p /\ 0 <= move p <= max_terminal_ply).
  { intros d p (((Hp & _ & M0 & _) & _) & Hm). split; [exact Hp|lia]. }
  destruct HE as [HE|HE]; rewrite HE.
  - split; [intros d p _; apply evaluate_winner_bounded|]. split; [intros d p _ EO; apply ew_over; exact EO|].
    intros d p (((Hb & _) & _) & _) EO. destruct (not_over_live p Hb EO) as (c & G). rewrite (ew_live p c G). unfold WinThreshold. lia.
  - split; [intros d p (A & _); destruct (MV d p A); apply default_eval_bounded; assumption|].
    split; [intros d p (A & _) EO; destruct (MV d p A); apply de_over; assumption|].
    intros d p (A & _) EO. destruct (MV d p A) as (Hp & _). destruct A as ((Hb & _) & _).
    destruct (not_over_live p Hb EO) as (c & G). apply (de_live p c Hp G).
Qed.

(* the positions a call may be asked about, in checkable form *)
Definition ask_ok (cfg : config) (U : nat -> position -> Prop) (p : position) : Prop :=
  base_ok p /\ (total p <= 64)%N /\ move p + Z.max 0 (c_depth cfg) <= max_terminal_ply /\ is_over p = false /\ c_depth cfg < 40 /\
  (forall d, Z.of_nat d <= Z.max 0 (c_depth cfg) -> U d p).

Lemma call_ok_inst cfg U p : ask_ok cfg U p -> call_ok cfg (PosT U) p.
Proof.
  intros (Hb & Ht & Hm & HO & HD & HU). unfold call_ok, PosT. split; [|split; assumption].
  intros d Hd. split; [|apply HU; exact Hd]. split; [split; [exact Hb|apply within_total64; [apply Hb|exact Ht]]|lia].
Qed.

Section Inst.
Variable U : nat -> position -> Prop.
Hypothesis HU : touch_set U.

(* the states of one engine: fresh (any table size) or left by any call - completed or cancelled anywhere - on an engine state *)
Inductive engine_inst : sstate -> Prop :=
| engi_new n : engine_inst (new_state n)
| engi_call s cfg k p sk r : engine_inst s -> precise cfg -> builtin_eval cfg -> ask_ok cfg U p ->
    analyze_cancel gen_basis cfg k s p = (sk, r) -> engine_inst sk.

Lemma engine_inst_engine s : engine_inst s -> engine gen_basis (PosT U) s.
Proof.
  induction 1 as [n|s cfg k p sk r _ IH HP HE HA HR]; [apply eng_new|].
  apply (eng_call gen_basis (PosT U) s cfg k p sk r IH HP (eval_facts_inst cfg U HE) (call_ok_inst cfg U p HA) HR).
Qed.

Theorem analyze_table_verdict_inst : forall s cfg k p sk pv v d acc c, engine_inst s -> precise cfg -> builtin_eval cfg -> ask_ok cfg U p ->
  analyze_cancel gen_basis cfg k s p = (sk, (pv, v, d, acc, c)) -> 0 < d -> verdict_ok gen_basis p v d.
Proof.
  intros s cfg k p sk pv v d acc c HS HP HE HA HR Hd.
  exact (analyze_table_verdict gen_basis (PosT U) (table_facts_inst U HU) s cfg k p sk pv v d acc c (engine_inst_engine s HS) HP
           (eval_facts_inst cfg U HE) (call_ok_inst cfg U p HA) HR Hd).
Qed.

Theorem cancel_preserves_engine_inst : forall s cfg k p sk r, engine_inst s -> precise cfg -> builtin_eval cfg -> ask_ok cfg U p ->
  analyze_cancel gen_basis cfg k s p = (sk, r) ->
  engine_inst sk /\ SJ sk /\ tt_valid gen_basis (PosT U 0%nat) sk /\
  forall cfg' k' p' sk' pv v d acc c, precise cfg' -> builtin_eval cfg' -> ask_ok cfg' U p' ->
    analyze_cancel gen_basis cfg' k' sk p' = (sk', (pv, v, d, acc, c)) -> 0 < d -> verdict_ok gen_basis p' v d.
Proof.
  intros s cfg k p sk r HS HP HE HA HR.
  assert (E' : engine_inst sk) by (exact (engi_call s cfg k p sk r HS HP HE HA HR)).
  split; [exact E'|].
  destruct (engine_TJ gen_basis (PosT U) (table_facts_inst U HU) sk (engine_inst_engine sk E')) as (A & B).
  split; [exact A|]. split; [exact B|].
  intros cfg' k' p' sk' pv v d acc c HP' HE' HA' HR' Hd.
  exact (analyze_table_verdict_inst sk cfg' k' p' sk' pv v d acc c E' HP' HE' HA' HR' Hd).
Qed.
End Inst.
