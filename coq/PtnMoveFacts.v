(* C11: round trips of the three move notations, for every legal-shaped move, by complete enumeration
   (the domain is finite: 64 squares x (3 placements + 4 directions x 255 drop compositions)), lifted to
   a universally quantified statement. *)
From Coq Require Import NArith ZArith List Bool Lia ZifyN ZifyBool ZifyNat.
Require Import PtnMove Playtak.
Import ListNotations.
Local Open Scope N_scope.

Definition sumN (l : list N) : N := fold_right N.add 0 l.
Definition goodN (h : N) (ds : list N) : Prop := ds <> [] /\ Forall (fun d => 1 <= d) ds /\ sumN ds <= h.

Lemma comps_completeN : forall f h ds, (N.to_nat h <= f)%nat -> goodN h ds -> In ds (comps f h).
Proof.
  induction f as [|f IH]; intros h ds Hf (Hne & Hpos & Hsum).
  - destruct ds as [|d ds]; [congruence|]. inversion Hpos; subst. cbn [sumN fold_right] in Hsum. lia.
  - destruct ds as [|d ds]; [congruence|]. inversion Hpos as [|? ? Hd Hpos']; subst.
    cbn [sumN fold_right] in Hsum. fold (sumN ds) in Hsum.
    cbn [comps]. apply in_flat_map. exists d. split.
    + apply in_map_iff. exists (N.to_nat d). split; [lia|apply in_seq; lia].
    + destruct ds as [|e ds]; [now left|]. right. apply in_map. apply IH; [lia|].
      split; [discriminate|split; [assumption|lia]].
Qed.

(* a move value that is a placement on the 8x8 grid, or a slide from a square of the grid whose drops are
   all >= 1 with carry <= 8.  Every legal move of every board size 3..8 has this shape. *)
Definition legal_shape (m : move) : Prop :=
  (0 <= mX m < 8)%Z /\ (0 <= mY m < 8)%Z /\
  (((mT m = PlaceFlat \/ mT m = PlaceStanding \/ mT m = PlaceCapstone) /\ mS m = 0) \/
   ((mT m = SlideLeft \/ mT m = SlideRight \/ mT m = SlideUp \/ mT m = SlideDown) /\
    exists ds, goodN 8 ds /\ mS m = mk_slides ds)).

Lemma in_coords z : (0 <= z < 8)%Z -> In z coords.
Proof. intros H. unfold coords. assert (z = 0 \/ z = 1 \/ z = 2 \/ z = 3 \/ z = 4 \/ z = 5 \/ z = 6 \/ z = 7)%Z by lia. cbn. intuition. Qed.

Lemma legal_in m : legal_shape m -> In (mX m) coords /\ In (mY m) coords /\ In m (moves_at (mX m) (mY m)).
Proof.
  intros (Hx & Hy & Hk). split; [now apply in_coords|split; [now apply in_coords|]].
  unfold moves_at. apply in_or_app. destruct m as [x y t s]; cbv [mX mY mT mS] in *.
  destruct Hk as [[Ht ->]|[Ht (ds & Hg & ->)]].
  - left. destruct Ht as [->|[->| ->]]; [left|right; left|right; right; left]; reflexivity.
  - right. apply in_flat_map. exists t. split; [cbn; intuition|].
    apply in_map_iff. exists ds. split; [reflexivity|]. apply comps_completeN; [change (N.to_nat 8) with 8%nat; lia|assumption].
Qed.

Lemma move_eqb_eq a b : move_eqb a b = true -> a = b.
Proof.
  unfold move_eqb. intros H. repeat (apply andb_prop in H as [H ?]).
  destruct a as [ax ay at_ as_], b as [bx by_ bt bs]; cbv [mX mY mT mS] in *. f_equal; lia.
Qed.

Lemma all_ok_long : all_ok true = true.
Proof. vm_compute. reflexivity. Qed.

Theorem ptn_roundtrip (long : bool) m : legal_shape m -> parse_move (format_move long m) = Ok m.
Proof.
  intros H. destruct (legal_in m H) as (Hx & Hy & Hin).
  assert (A : all_ok long = true) by (destruct long; [exact all_ok_long|exact short_rt]).
  unfold all_ok in A. rewrite forallb_forall in A. specialize (A _ Hx). rewrite forallb_forall in A. specialize (A _ Hy).
  rewrite forallb_forall in A. specialize (A _ Hin). unfold rt_ok in A.
  destruct (parse_move (format_move long m)) as [m'| |]; try discriminate. apply move_eqb_eq in A. now subst.
Qed.

(* the playtak wire spelling: additionally the slide must end on the 8x8 grid *)
Definition end_on_grid (m : move) : bool :=
  let l := Z.of_nat (length (nibbles 8 (mS m))) in
  if (mT m =? SlideLeft)%N then (0 <=? mX m - l)%Z
  else if (mT m =? SlideRight)%N then (mX m + l <? 8)%Z
  else if (mT m =? SlideDown)%N then (0 <=? mY m - l)%Z
  else if (mT m =? SlideUp)%N then (mY m + l <? 8)%Z else true.
Definition srv_ok (m : move) : bool :=
  negb (end_on_grid m) || match parse_server (format_server m) with Ok m' => move_eqb m m' | _ => false end.
Definition all_srv_ok : bool := forallb (fun x => forallb (fun y => forallb srv_ok (moves_at x y)) coords) coords.
Lemma server_all : all_srv_ok = true.
Proof. vm_compute. reflexivity. Qed.

Lemma srv_ok_of_all : all_srv_ok = true -> forall x y m, In x coords -> In y coords -> In m (moves_at x y) -> srv_ok m = true.
Proof.
  unfold all_srv_ok. intros A x y m Hx Hy Hm. rewrite forallb_forall in A. specialize (A _ Hx).
  rewrite forallb_forall in A. specialize (A _ Hy). rewrite forallb_forall in A. exact (A _ Hm).
Qed.

Theorem server_roundtrip m : legal_shape m -> end_on_grid m = true -> parse_server (format_server m) = Ok m.
Proof.
  intros H He. destruct (legal_in m H) as (Hx & Hy & Hin).
  assert (A := srv_ok_of_all server_all _ _ _ Hx Hy Hin).
  unfold srv_ok in A. apply orb_prop in A as [A|A]; [rewrite He in A; discriminate|].
  destruct (parse_server (format_server m)) as [m'| |]; try discriminate. apply move_eqb_eq in A. now subst.
Qed.

(* the three notations denote the identical move *)
Corollary notations_agree m : legal_shape m -> end_on_grid m = true ->
  parse_move (format_move false m) = parse_move (format_move true m) /\
  parse_move (format_move false m) = parse_server (format_server m).
Proof. intros H He. rewrite !ptn_roundtrip, server_roundtrip by assumption. split; reflexivity. Qed.

(* non-vacuity: a 3-drop slide from c3 on the grid *)
Example legal_shape_example : legal_shape {| mX := 2; mY := 2; mT := SlideRight; mS := mk_slides [2; 1; 3] |}
                              /\ end_on_grid {| mX := 2; mY := 2; mT := SlideRight; mS := mk_slides [2; 1; 3] |} = true.
Proof.
  split; [|reflexivity]. unfold legal_shape; cbv [mX mY mT mS]. repeat split; try lia.
  right. split; [auto|]. exists [2; 1; 3]. split; [|reflexivity].
  split; [discriminate|split; [repeat constructor; lia|cbn; lia]].
Qed.
