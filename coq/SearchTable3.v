(* SearchTable3.v: the TABLE CLAUSE of C05, part 3 - Analyze (iterative deepening with the exact-root-entry seed of 8daa71e) and
   histories of calls on one engine.  Whatever Analyze reports with a depth d > 0 - the result of a completed iteration, the
   deepest iteration completed before a cancellation, or the seed taken from an exact root entry of the table when no iteration
   ran - is right about forced results (verdict_ok), and the state it leaves (completed or cancelled at ANY point) satisfies the
   table invariant again, so the same holds for every later call on that engine (C16: cancel_preserves_engine). *)
From Coq Require Import NArith ZArith List Bool Lia.
Require Import Board Move GameOver Eval EvalSpec Search NegamaxSpec SearchGen SearchExact CancelFacts SearchLegal1 SearchLegal2.
Require Import SearchTable1 SearchTable2.
Import ListNotations.
Open Scope Z_scope.

(* what a reported (value, depth) must satisfy: C05's win_sound (first two) and win_complete (last two, contrapositive) *)
Definition verdict_ok (basis : list N) (p : position) (v d : Z) : Prop :=
  (WinThreshold < v -> exists n, W basis n p) /\
  (v < - WinThreshold -> exists n, L basis n p) /\
  (W basis (Z.to_nat d) p -> WinThreshold < v) /\
  (L basis (Z.to_nat d) p -> v < - WinThreshold).

(* the facts about the rules engine on the depth-indexed position sets, and NoCollision on the whole set Pos 0 *)
Definition table_facts (basis : list N) (Pos : nat -> position -> Prop) : Prop :=
  (forall d p, Pos (S d) p -> Pos d p) /\
  (forall d p m q, Pos (S d) p -> is_over p = false -> okm m -> try_move basis p m = Some q -> Pos d q) /\
  (forall d p m q, Pos (S d) p -> is_over p = false -> okm m -> try_move basis p m = Some q -> In q (children basis p)) /\
  (forall d p, Pos (S d) p -> is_over p = false -> children basis p <> []) /\
  (forall p q, Pos 0%nat p -> Pos 0%nat q -> phash p = phash q -> cls_eq basis p q).
(* the facts about the evaluation function: inside the root window; beyond the threshold exactly on decided games, with the
   winner's sign *)
Definition eval_facts (cfg : config) (Pos : nat -> position -> Prop) : Prop :=
  (forall d p, Pos d p -> okv (c_eval cfg p)) /\
  (forall d p, Pos d p -> is_over p = true -> (WinThreshold < c_eval cfg p <-> won p) /\ (c_eval cfg p < - WinThreshold <-> lost p)) /\
  (forall d p, Pos d p -> is_over p = false -> - WinThreshold <= c_eval cfg p <= WinThreshold).
(* the positions one call may be asked about: searchable to every depth the configuration allows; the model's recursion fuel (40)
   covers the configured depth (ai.maxDepth is 15) *)
Definition call_ok (cfg : config) (Pos : nat -> position -> Prop) (p : position) : Prop :=
  (forall d, Z.of_nat d <= Z.max 0 (c_depth cfg) -> Pos d p) /\ is_over p = false /\ c_depth cfg < 40.

Section Az.
Variable basis : list N.
Variable Pos : nat -> position -> Prop.
Hypothesis TF : table_facts basis Pos.

Notation TJ := (SearchTable1.TJ basis (Pos 0%nat)).

Section Call.
Variable cfg : config.
Variable k : Z.
Hypothesis Hprecise : precise cfg.
Hypothesis EF : eval_facts cfg Pos.

Lemma srch_tv' : forall f d, (d < f)%nat -> tv_ok basis k Pos d (srch false basis cfg k f).
Proof.
  destruct Hprecise as (P1 & P2 & P3). destruct TF as (T1 & T2 & T3 & T4 & T5). destruct EF as (E1 & E2 & E3).
  exact (srch_tv basis cfg k P1 P2 P3 Pos T1 T2 T3 T4 E1 E2 E3 T5).
Qed.

Lemma vals_verdict p depth v : okv v -> vals_ok basis p depth (MinEval - 1) (MaxEval + 1) v -> verdict_ok basis p v depth.
Proof.
  intros (O1 & O2) (V1 & V2 & V3 & V4). unfold verdict_ok.
  split; [intros A; apply V1; lia|]. split; [intros A; apply V2; lia|].
  split; [intros HW; destruct (Z_lt_le_dec WinThreshold v) as [X|X]; [exact X|exfalso; apply V3; [lia|exact X|exact HW]]|].
  intros HL. destruct (Z_lt_le_dec v (- WinThreshold)) as [X|X]; [exact X|exfalso; apply V4; [lia|exact X|exact HL]].
Qed.

Lemma az_iter_tv p D base : (forall d, Z.of_nat d <= Z.max 0 D -> Pos d p) -> D < 40 ->
  forall n i s ms v acc d, TJ s -> okl ms -> (0 < d -> verdict_ok basis p v d) ->
  forall sk pv' v' d' acc' c', az_iter false basis cfg k D base p n i s ms v acc d = (sk, (pv', v', d', acc', c')) ->
  TJ sk /\ okl pv' /\ (0 < d' -> verdict_ok basis p v' d').
Proof.
  intros HP HD. induction n; intros i s ms v acc d HS Hms HV sk pv' v' d' acc' c' H; cbn [az_iter] in H.
  { inversion H; subst. auto. }
  destruct (D <? i + base) eqn:ED; [inversion H; subst; auto|]. apply Z.ltb_ge in ED.
  pose proof (srch_tv' 40 39 ltac:(lia) false (reset_st s) p 0 (i + base) ms (MinEval - 1) (MaxEval + 1) true ltac:(lia)
                (TJ_reset_st _ _ _ HS) ltac:(apply HP; lia) Hms ltac:(unfold win_ok; destruct minmax; lia)) as R.
  cbv zeta in R.
  destruct (srch false basis cfg k 40 false (reset_st s) p 0 (i + base) ms (MinEval - 1) (MaxEval + 1) true) as [s1 [next nv]].
  cbn [fst snd] in R. destruct R as (HS1 & Hnext & Hnv & HVN).
  destruct (cancelled k s1) eqn:EK; [inversion H; subst; auto|].
  destruct next as [|m rest]; [inversion H; subst; auto|].
  assert (NEW : 0 < i + base -> verdict_ok basis p nv (i + base)) by (intros _; apply vals_verdict; [exact Hnv|apply HVN; reflexivity]).
  destruct ((WinThreshold <? nv) || (nv <? - WinThreshold)).
  - inversion H; subst. auto.
  - apply (IHn (i + 1) s1 (m :: rest) nv _ (i + base) HS1 Hnext NEW _ _ _ _ _ _ H).
Qed.

(* one Analyze call, cancelled inside its k-th leaf evaluation or never, on an engine state satisfying the invariant *)
Theorem analyze_tv : forall s p sk pv v d acc c, TJ s -> call_ok cfg Pos p ->
  analyze_gen false basis cfg k s p = (sk, (pv, v, d, acc, c)) ->
  TJ sk /\ (0 < d -> verdict_ok basis p v d).
Proof.
  intros s p sk pv v d acc c HS (HP & HO & HD) H. unfold analyze_gen, analyze_depth in H.
  assert (HS0 : TJ (az_start s)) by (apply TJ_az_start; exact HS).
  assert (P0 : Pos 0%nat p) by (apply HP; lia).
  assert (SEED : forall b m0 vv, az_root false (az_start s) p = (b, m0, vv) -> okl m0 /\ (0 < b -> verdict_ok basis p vv b)).
  { unfold az_root. intros b m0 vv E. destruct (tt_get (az_start s) (phash p)) as [i|] eqn:EG; [|inversion E; split; [constructor|lia]].
    destruct (e_bound (nth i (table (az_start s)) entry0) =? 1)%N eqn:EB; inversion E; [|split; [constructor|lia]]. subst.
    apply N.eqb_eq in EB.
    split; [constructor; [apply (SJ_te (az_start s) i (proj1 HS0))|constructor]|]. intros _.
    destruct (tt_get_ok basis (Pos 0%nat) (az_start s) p i (proj2 HS0) P0 HO EG) as (E1 & E2 & E3 & E4).
    unfold lowerb, upperb in *. unfold verdict_ok.
    split; [intros A; apply E1; auto|]. split; [intros A; apply E2; auto|].
    split; [intros HW; match goal with |- ?x < ?y => destruct (Z_lt_le_dec x y) as [X|X]; [exact X|exfalso; apply E3; auto] end|].
    intros HL. match goal with |- ?x < ?y => destruct (Z_lt_le_dec x y) as [X|X]; [exact X|exfalso; apply E4; auto] end. }
  destruct (az_root false (az_start s) p) as [[base ms0] v0]. destruct (SEED _ _ _ eq_refl) as (S1 & S2).
  destruct (az_iter_tv p (c_depth cfg) base HP HD 16 1 (az_start s) ms0 v0 stats0 base HS0 S1 S2 _ _ _ _ _ _ H) as (A & _ & B).
  split; assumption.
Qed.
End Call.

(* ---- one engine, any history of calls ---- *)
(* the states an engine can be in: fresh (any table size), or left by an Analyze call - completed or cancelled at any point k, with
   any precise configuration whose evaluator obeys eval_facts, on any live position of the set - on such a state *)
Inductive engine : sstate -> Prop :=
| eng_new n : engine (new_state n)
| eng_call s cfg k p sk r : engine s -> precise cfg -> eval_facts cfg Pos -> call_ok cfg Pos p ->
    analyze_cancel basis cfg k s p = (sk, r) -> engine sk.

Lemma engine_TJ s : engine s -> TJ s.
Proof.
  induction 1 as [n|s cfg k p sk r _ IH HPc HE HC HA]; [apply TJ_new|].
  destruct r as [[[[pv v] d] acc] c]. exact (proj1 (analyze_tv cfg k HPc HE s p sk pv v d acc c IH HC HA)).
Qed.

(* C05, table clause: on a fresh engine or after any history of earlier analyses (including of the same position, including
   cancelled ones), what Analyze reports is right about forced wins and losses *)
Theorem analyze_table_verdict : forall s cfg k p sk pv v d acc c, engine s -> precise cfg -> eval_facts cfg Pos -> call_ok cfg Pos p ->
  analyze_cancel basis cfg k s p = (sk, (pv, v, d, acc, c)) -> 0 < d -> verdict_ok basis p v d.
Proof.
  intros s cfg k p sk pv v d acc c HE HPc HEv HC HA Hd.
  exact (proj2 (analyze_tv cfg k HPc HEv s p sk pv v d acc c (engine_TJ s HE) HC HA) Hd).
Qed.

(* C16: the state left by a call cancelled at ANY point is an engine state again: table invariant and SJ hold, and every later
   call on it (cancelled or not) reports right verdicts *)
Theorem cancel_preserves_engine : forall s cfg k p sk r, engine s -> precise cfg -> eval_facts cfg Pos -> call_ok cfg Pos p ->
  analyze_cancel basis cfg k s p = (sk, r) ->
  engine sk /\ SJ sk /\ tt_valid basis (Pos 0%nat) sk /\
  forall cfg' k' p' sk' pv v d acc c, precise cfg' -> eval_facts cfg' Pos -> call_ok cfg' Pos p' ->
    analyze_cancel basis cfg' k' sk p' = (sk', (pv, v, d, acc, c)) -> 0 < d -> verdict_ok basis p' v d.
Proof.
  intros s cfg k p sk r HE HPc HEv HC HA.
  assert (E' : engine sk) by (exact (eng_call s cfg k p sk r HE HPc HEv HC HA)).
  split; [exact E'|]. destruct (engine_TJ sk E') as (A & B). split; [exact A|]. split; [exact B|].
  intros cfg' k' p' sk' pv v d acc c HPc' HEv' HC' HA' Hd.
  exact (analyze_table_verdict sk cfg' k' p' sk' pv v d acc c E' HPc' HEv' HC' HA' Hd).
Qed.
End Az.
