(* Prove/AndOr.v (draft): game-theoretic truth with "threefold repetition counts against the attacker" *)
From Coq Require Import List Bool Arith Lia.
Import ListNotations.

Section AndOr.
Variable pos : Type.
Variable pos_dec : forall a b : pos, {a = b} + {a <> b}.
Variable moves : pos -> list pos.                 (* legal successors *)
Variable terminal : pos -> option bool.            (* Some true: attacker has won; Some false: finished otherwise (loss or draw) *)
Variable att : pos -> bool.                        (* attacker to move *)

(* history-free truth: win within n plies *)
Fixpoint wn (n : nat) (p : pos) : bool :=
  match terminal p with
  | Some b => b
  | None => match n with
            | O => false
            | S k => if att p then existsb (wn k) (moves p) else forallb (wn k) (moves p)
            end
  end.

Lemma wn_mono n p : wn n p = true -> wn (S n) p = true.
Proof.
  revert p; induction n as [|n IH]; intros p; cbn [wn]; destruct (terminal p); auto; try discriminate.
  destruct (att p).
  - rewrite !existsb_exists. intros (c & Hc & H). exists c. split; [assumption|]. now apply IH.
  - rewrite !forallb_forall. intros H c Hc. apply IH. now apply H.
Qed.

Lemma wn_le n m p : n <= m -> wn n p = true -> wn m p = true.
Proof. induction 1; auto using wn_mono. Qed.

(* truth under the rules: the third occurrence of a position on the line is not a win *)
Definition rep_ok (h : list pos) (p : pos) : Prop := count_occ pos_dec h p < 2.

Inductive Wh : list pos -> pos -> Prop :=
| Wh_term h p : terminal p = Some true -> Wh h p
| Wh_or h p c : rep_ok h p -> terminal p = None -> att p = true -> In c (moves p) -> Wh (p :: h) c -> Wh h p
| Wh_and h p : rep_ok h p -> terminal p = None -> att p = false -> (forall c, In c (moves p) -> Wh (p :: h) c) -> Wh h p.

(* A: a win under the rules is a win of the history-free game *)
Lemma Wh_wn h p : Wh h p -> exists n, wn n p = true.
Proof.
  induction 1 as [h p Ht | h p c _ Ht Ha Hc _ [n IH] | h p _ Ht Ha _ IH].
  - exists 0. cbn. now rewrite Ht.
  - exists (S n). cbn. rewrite Ht, Ha. apply existsb_exists. eauto.
  - (* finitely many children: take the maximum of their bounds *)
    assert (exists n, forall c, In c (moves p) -> wn n c = true) as [n Hn].
    { induction (moves p) as [|c l IHl]; [exists 0; intros ? []|].
      destruct (IH c (or_introl eq_refl)) as [n1 H1].
      destruct IHl as [n2 H2]; [intros; apply IH; now right|].
      exists (max n1 n2). intros c' [<-|Hc'].
      - eapply wn_le; [|eassumption]. lia.
      - eapply wn_le; [|apply H2, Hc']. lia. }
    exists (S n). cbn. rewrite Ht, Ha. apply forallb_forall. assumption.
Qed.

(* least bound *)
Lemma least n p : wn n p = true -> exists m, m <= n /\ wn m p = true /\ forall k, k < m -> wn k p = false.
Proof.
  induction n as [|n IH]; intros H.
  - exists 0. repeat split; auto. intros; lia.
  - destruct (wn n p) eqn:E.
    + destruct (IH eq_refl) as (m & ? & ? & ?). exists m. repeat split; auto.
    + exists (S n). repeat split; auto. intros k Hk.
      destruct (wn k p) eqn:Ek; [|reflexivity]. rewrite (wn_le k n p) in E by (auto; lia). discriminate.
Qed.

(* B: a history-free win is a win under the rules from any history made of positions that are not (yet) won that fast *)
Lemma wn_Wh : forall n p, wn n p = true -> (forall k, k < n -> wn k p = false) ->
  forall h, (forall q, In q h -> wn n q = false) -> Wh h p.
Proof.
  induction n as [n IHn] using lt_wf_ind. intros p Hw Hmin h Hh.
  assert (Hrep : rep_ok h p).
  { unfold rep_ok. destruct (in_dec pos_dec p h) as [Hin|Hnin].
    - rewrite (Hh _ Hin) in Hw. discriminate.
    - apply (count_occ_not_In pos_dec) in Hnin. lia. }
  destruct (terminal p) as [b|] eqn:Ht.
  - apply Wh_term. destruct n; cbn in Hw; rewrite Ht in Hw; now subst.
  - destruct n as [|n]; [cbn in Hw; rewrite Ht in Hw; discriminate|].
    cbn in Hw. rewrite Ht in Hw.
    assert (Hq : forall m q, m <= n -> In q (p :: h) -> wn m q = false).
    { intros m q Hm [<-|Hin].
      - apply Hmin. lia.
      - destruct (wn m q) eqn:E; [|reflexivity].
        specialize (Hh q Hin). rewrite (wn_le m (S n) q) in Hh by (auto; lia). discriminate. }
    destruct (att p) eqn:Ha.
    + apply existsb_exists in Hw as (c & Hc & Hcw).
      destruct (least _ _ Hcw) as (m & Hm & Hmw & Hml).
      eapply Wh_or; eauto. apply (IHn m); auto; try lia.
    + rewrite forallb_forall in Hw. apply Wh_and; auto. intros c Hc.
      destruct (least _ _ (Hw c Hc)) as (m & Hm & Hmw & Hml).
      apply (IHn m); auto; try lia.
Qed.

Theorem truth_equiv p : Wh [] p <-> exists n, wn n p = true.
Proof.
  split; [apply Wh_wn|]. intros [n H]. destruct (least _ _ H) as (m & _ & Hm & Hl).
  apply (wn_Wh m); auto. intros q [].
Qed.
End AndOr.
Print Assumptions truth_equiv.
