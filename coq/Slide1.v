From Coq Require Import NArith ZArith Arith List Bool Lia ZifyN ZifyBool ZifyNat.
Require Import Board Stack Rules Move Refine RefinePlace RefinePlace2.
Import ListNotations.
Ltac Zify.zify_post_hook ::= Z.div_mod_to_equations.

(* ---- reading bits through the uint64 wrappers ---- *)
Lemma bits_ext k x y : (forall i, (i < k)%nat -> N.testbit x (N.of_nat i) = N.testbit y (N.of_nat i)) -> bits k x = bits k y.
Proof.
  intros H. unfold bits. apply map_ext_in. intros i Hi. apply in_seq in Hi. apply H. lia.
Qed.

Lemma bits_u64 k x : (k <= 64)%nat -> bits k (u64 x) = bits k x.
Proof. intros Hk. apply bits_ext. intros i Hi. rewrite u64_bit. replace (N.of_nat i <? 64)%N with true by lia. apply andb_true_r. Qed.

Lemma bits_shl64 k x s : (k <= 64)%nat -> bits k (shl64 x s) = bits k (N.shiftl x s).
Proof.
  intros Hk. unfold shl64. destruct (N.ltb_spec s 64).
  - now apply bits_u64.
  - apply bits_ext. intros i Hi. rewrite N.bits_0. symmetry. apply N.shiftl_spec_low. lia.
Qed.

(* (1 << (c-1)) - 1 computed modulo 2^64 is the mask of c-1 ones *)
Lemma ones_mask c : (1 <= c <= 64)%N -> u64 (shl64 1 (c - 1) + (2 ^ 64 - 1)) = N.ones (c - 1).
Proof.
  intros Hc. unfold shl64. replace (c - 1 <? 64)%N with true by lia.
  assert (E : u64 (N.shiftl 1 (c - 1)) = 2 ^ (c - 1)).
  { unfold u64, m64. rewrite N.land_ones, N.shiftl_1_l. apply N.mod_small. apply N.pow_lt_mono_r; lia. }
  rewrite E. unfold u64, m64. rewrite N.land_ones, N.ones_equiv.
  assert (0 < 2 ^ (c - 1))%N by (apply N.neq_0_lt_0, N.pow_nonzero; lia).
  assert (2 ^ (c - 1) < 2 ^ 64)%N by (apply N.pow_lt_mono_r; lia).
  replace (2 ^ (c - 1) + (2 ^ 64 - 1))%N with (N.pred (2 ^ (c - 1)) + 1 * 2 ^ 64)%N by lia.
  rewrite N.mod_add by lia. apply N.mod_small. lia.
Qed.

(* the model's drop word is Stack.drop_mask *)
Lemma drop_word stack ct c : (1 <= c <= ct)%nat -> (ct <= 64)%nat ->
  N.land (shr64 stack (N.of_nat ct - (N.of_nat c - 1))) (u64 (shl64 1 (N.of_nat c - 1) + (2 ^ 64 - 1)))
  = drop_mask stack ct c.
Proof.
  intros Hc Hct. unfold drop_mask, shr64. rewrite ones_mask by lia. f_equal; f_equal; lia.
Qed.
Print Assumptions drop_word.
