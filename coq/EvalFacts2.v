(* Proofs for C18, part 2: bounds of the components of evaluate. *)
From Coq Require Import NArith ZArith List Bool Lia ZifyN ZifyBool ZifyNat.
Require Import Board Move GameOver Masks Eval EvalSpec EvalFacts1.
Import ListNotations.
Open Scope N_scope.

(* FloodGroups appends at most one group per iteration and has fuel 65 *)
Lemma flood_groups_len fuel c bits seen out r :
  flood_groups fuel c bits seen out = Some r -> (length r + 1 <= length out + fuel)%nat.
Proof.
  revert bits seen out. induction fuel as [|f IH]; intros bits seen out H; cbn [flood_groups] in H; [discriminate|].
  destruct (bits =? 0). { inversion H; subst. lia. }
  destruct (N.land seen (N.ldiff bits (N.land bits (bits - 1))) =? 0).
  - destruct (flood 65 c bits (N.ldiff bits (N.land bits (bits - 1)))) as [g|]; [|discriminate].
    apply IH in H. destruct (g =? N.ldiff bits (N.land bits (bits - 1))); [lia|]. rewrite app_length in H. cbn in H. lia.
  - apply IH in H. lia.
Qed.
Lemma groups_len c bits gs : groups c bits = Some gs -> (length gs <= 64)%nat.
Proof. unfold groups. intro H. apply flood_groups_len in H. cbn in H. lia. Qed.
Lemma analyze_len p wg bg : analyze p = Some (wg, bg) -> (length wg <= 64 /\ length bg <= 64)%nat.
Proof.
  unfold analyze. destruct (groups _ (N.ldiff (White p) _)) eqn:A; [|discriminate].
  destruct (groups _ (N.ldiff (Black p) _)) eqn:B; [|discriminate].
  intro H; inversion H; subst. split; eapply groups_len; eassumption.
Qed.

(* the constants of a supported size fit 64 bits *)
Lemma consts_hi0 s : 3 <= s <= 8 -> hi0 64 (cMask (precompute s)) /\ Size (precompute s) = s.
Proof.
  intro H. destruct (masks_high s (in_sizes s H)) as [A B]. split; [|assumption]. now apply lt_hi0.
Qed.

Open Scope Z_scope.

(* ---- scoreGroups ---- *)
Lemma wt_idx_bound w f a : wt_idx w f = Ok a -> Z.abs a <= maxabs w.
Proof. unfold wt_idx, wt. destruct (f <? MaxFeature)%nat; [|discriminate]. intro H; inversion H. apply nth_maxabs. Qed.

Definition sg_step (c : consts) (w : weights) (acc : res (Z * N)) (g : N) : res (Z * N) :=
    match acc with
    | Ok (sc, allg) =>
      match dimensions c g with
      | None => Panic
      | Some (wd, ht) =>
        match wt_idx w (Groups + wd), wt_idx w (Groups + ht) with
        | Ok a, Ok b => Ok ((sc + a + b)%Z, N.lor allg g)
        | _, _ => Panic
        end
      end
    | e => e
    end.
Lemma sg_fold_notok c w gs a : (forall x, a <> Ok x) -> forall x, fold_left (sg_step c w) gs a <> Ok x.
Proof.
  revert a. induction gs as [|g gs IH]; intros a H; cbn [fold_left]; [assumption|].
  apply IH. destruct a as [x| |]; [exfalso; now apply (H x)| |]; cbn; discriminate.
Qed.
Lemma sg_fold_bound c w gs s0 a0 sc allg :
  fold_left (sg_step c w) gs (Ok (s0, a0)) = Ok (sc, allg) -> Z.abs (sc - s0) <= Z.of_nat (length gs) * (2 * maxabs w).
Proof.
  revert s0 a0. induction gs as [|g gs IH]; intros s0 a0 H; cbn [fold_left length] in *.
  - inversion H; subst. pose proof (maxabs_nonneg w). lia.
  - unfold sg_step at 2 in H. destruct (dimensions c g) as [[wd ht]|].
    2:{ exfalso. eapply sg_fold_notok; [|exact H]. discriminate. }
    destruct (wt_idx w (Groups + wd)) as [a| |] eqn:Ea.
    2,3:exfalso; (eapply sg_fold_notok; [|exact H]); discriminate.
    destruct (wt_idx w (Groups + ht)) as [b| |] eqn:Eb.
    2,3:exfalso; (eapply sg_fold_notok; [|exact H]); discriminate.
    apply IH in H. apply wt_idx_bound in Ea, Eb. lia.
Qed.

Lemma score_groups_bound c w gs other v : hi0 64 other -> (length gs <= 64)%nat ->
  score_groups c gs w other = Ok v -> Z.abs v <= bound_groups w.
Proof.
  intros Ho Hl. unfold score_groups. fold (sg_step c w).
  destruct (fold_left (sg_step c w) gs (Ok (0, 0%N))) as [[sc allg]| |] eqn:F; try discriminate.
  apply sg_fold_bound in F. unfold bound_groups. pose proof (maxabs_nonneg w).
  assert (Z.abs sc <= 64 * (2 * maxabs w)) by nia.
  destruct (wt w GroupLiberties =? 0) eqn:E; intro HH; inversion HH; subst; unfold aw. { lia. }
  assert (P : 0 <= pc (andnot (grow c (compl64 other) allg) allg) <= 64).
  { apply pc64, hi0_andnot, hi0_grow, hi0_compl64, Ho. }
  pose proof (mulb (wt w GroupLiberties) _ 64 (conj (ltac:(lia)) (proj2 P))). lia.
Qed.
