(* Proofs for C18, part 2: bounds of the components of evaluate. *)
From Coq Require Import NArith ZArith List Bool Lia ZifyN ZifyBool ZifyNat.
Require Import Board Move GameOver Masks Eval EvalSpec EvalFacts1.
Import ListNotations.
Open Scope N_scope.

(* FloodGroups appends at most one group per iteration and has fuel 65 *)
Lemma flood_groups_len fuel c bits seen out r :
  flood_groups fuel c bits seen out = Some r -> (length r + 1 <= length out + fuel)%nat.
Proof.
  revert bits seen out. induction fuel as [|f IH]; intros bits seen out H; cbn [flood_groups] in H; [discriminate|].
  destruct (bits =? 0). { inversion H; subst. lia. }
  destruct (N.land seen (N.ldiff bits (N.land bits (bits - 1))) =? 0).
  - destruct (flood 65 c bits (N.ldiff bits (N.land bits (bits - 1)))) as [g|]; [|discriminate].
    apply IH in H. destruct (g =? N.ldiff bits (N.land bits (bits - 1))); [lia|]. rewrite app_length in H. cbn in H. lia.
  - apply IH in H. lia.
Qed.
Lemma groups_len c bits gs : groups c bits = Some gs -> (length gs <= 64)%nat.
Proof. unfold groups. intro H. apply flood_groups_len in H. cbn in H. lia. Qed.
Lemma analyze_len p wg bg : analyze p = Some (wg, bg) -> (length wg <= 64 /\ length bg <= 64)%nat.
Proof.
  unfold analyze. destruct (groups _ (N.ldiff (White p) _)) eqn:A; [|discriminate].
  destruct (groups _ (N.ldiff (Black p) _)) eqn:B; [|discriminate].
  intro H; inversion H; subst. split; eapply groups_len; eassumption.
Qed.

(* the constants of a supported size fit 64 bits *)
Lemma consts_hi0 s : 3 <= s <= 8 -> hi0 64 (cMask (precompute s)) /\ Size (precompute s) = s.
Proof.
  intro H. destruct (masks_high s (in_sizes s H)) as [A B]. split; [|assumption]. now apply lt_hi0.
Qed.

Open Scope Z_scope.

(* ---- scoreGroups ---- *)
Lemma wt_idx_bound w f a : wt_idx w f = Ok a -> Z.abs a <= maxabs w.
Proof. unfold wt_idx, wt. destruct (f <? MaxFeature)%nat; [|discriminate]. intro H; inversion H. apply nth_maxabs. Qed.

Definition sg_step (c : consts) (w : weights) (acc : res (Z * N)) (g : N) : res (Z * N) :=
    match acc with
    | Ok (sc, allg) =>
      match dimensions c g with
      | None => Panic
      | Some (wd, ht) =>
        match wt_idx w (Groups + wd), wt_idx w (Groups + ht) with
        | Ok a, Ok b => Ok ((sc + a + b)%Z, N.lor allg g)
        | _, _ => Panic
        end
      end
    | e => e
    end.
Lemma sg_fold_notok c w gs a : (forall x, a <> Ok x) -> forall x, fold_left (sg_step c w) gs a <> Ok x.
Proof.
  revert a. induction gs as [|g gs IH]; intros a H; cbn [fold_left]; [assumption|].
  apply IH. destruct a as [x| |]; [exfalso; now apply (H x)| |]; cbn; discriminate.
Qed.
Lemma sg_fold_bound c w gs s0 a0 sc allg :
  fold_left (sg_step c w) gs (Ok (s0, a0)) = Ok (sc, allg) -> Z.abs (sc - s0) <= Z.of_nat (length gs) * (2 * maxabs w).
Proof.
  revert s0 a0. induction gs as [|g gs IH]; intros s0 a0 H; cbn [fold_left length] in *.
  - inversion H; subst. pose proof (maxabs_nonneg w). lia.
  - unfold sg_step at 2 in H. destruct (dimensions c g) as [[wd ht]|].
    2:{ exfalso. eapply sg_fold_notok; [|exact H]. discriminate. }
    destruct (wt_idx w (Groups + wd)) as [a| |] eqn:Ea.
    2,3:exfalso; (eapply sg_fold_notok; [|exact H]); discriminate.
    destruct (wt_idx w (Groups + ht)) as [b| |] eqn:Eb.
    2,3:exfalso; (eapply sg_fold_notok; [|exact H]); discriminate.
    apply IH in H. apply wt_idx_bound in Ea, Eb. lia.
Qed.

Lemma score_groups_bound c w gs other v : hi0 64 other -> (length gs <= 64)%nat ->
  score_groups c gs w other = Ok v -> Z.abs v <= bound_groups w.
Proof.
  intros Ho Hl. unfold score_groups. fold (sg_step c w).
  destruct (fold_left (sg_step c w) gs (Ok (0, 0%N))) as [[sc allg]| |] eqn:F; try discriminate.
  apply sg_fold_bound in F. unfold bound_groups. pose proof (maxabs_nonneg w).
  assert (Z.abs sc <= 64 * (2 * maxabs w)) by nia.
  destruct (wt w GroupLiberties =? 0) eqn:E; intro HH; inversion HH; subst; unfold aw. { lia. }
  assert (P : 0 <= pc (andnot (grow c (compl64 other) allg) allg) <= 64).
  { apply pc64, hi0_andnot, hi0_grow, hi0_compl64, Ho. }
  pose proof (mulb (wt w GroupLiberties) (pc (andnot (grow c (compl64 other) allg) allg)) 64 ltac:(lia)). lia.
Qed.

(* ---- mobility ---- *)
Lemma ray_hi0 fuel e stop step m : hi0 64 e -> hi0 64 m -> (forall x, hi0 64 x -> hi0 64 (step x)) -> hi0 64 (ray fuel e stop step m).
Proof.
  revert e m. induction fuel as [|f IH]; intros e m He Hm Hs; cbn [ray]; [assumption|].
  destruct (N.land e stop =? 0)%N; [|assumption]. apply IH; auto. now apply hi0_lor.
Qed.
Lemma mobility_hi0 c p b h : hi0 64 b -> hi0 64 (mobility c p b h).
Proof.
  intro Hb. unfold mobility.
  apply ray_hi0; [now apply hi0_shiftr| |intros; now apply hi0_shiftr].
  apply ray_hi0; [apply hi0_u64| |intros; apply hi0_u64].
  apply ray_hi0; [now apply hi0_shiftr| |intros; now apply hi0_shiftr].
  apply ray_hi0; [apply hi0_u64|assumption|intros; apply hi0_u64].
Qed.

(* the captive mask (1 << size) - 1 keeps at most 8 bits *)
Lemma stackmask_hi0 s : (3 <= s <= 8)%N -> hi0 8 (u64 (shl64 1 s + (2 ^ 64 - 1))).
Proof.
  intro H. apply lt_hi0.
  assert (C : s = 3%N \/ s = 4%N \/ s = 5%N \/ s = 6%N \/ s = 7%N \/ s = 8%N) by lia.
  destruct C as [->|[->|[->|[->|[->| ->]]]]]; vm_compute; reflexivity.
Qed.

(* ---- the per-square term ---- *)
Lemma square_score_bound s w p i h : (3 <= s <= 8)%N -> (h < 256)%N -> hi0 64 (White p) -> hi0 64 (Black p) ->
  Z.abs (square_score (precompute s) w p i h) <= bound_square w.
Proof.
  intros Hs Hh HW HB. unfold square_score, bound_square.
  pose proof (aw_nonneg w HardTopCap). pose proof (aw_nonneg w CapMobility). pose proof (aw_nonneg w ThrowMine).
  pose proof (aw_nonneg w ThrowTheirs). pose proof (aw_nonneg w ThrowEmpty). pose proof (aw_nonneg w FlatCaptives_Soft).
  pose proof (aw_nonneg w FlatCaptives_Hard). pose proof (aw_nonneg w StandingCaptives_Soft). pose proof (aw_nonneg w StandingCaptives_Hard).
  pose proof (aw_nonneg w CapstoneCaptives_Soft). pose proof (aw_nonneg w CapstoneCaptives_Hard).
  destruct (N.leb_spec h 1); [lia|].
  destruct (consts_hi0 s Hs) as [_ ->].
  set (st := N.land (N.land _ _) (u64 (shl64 1 s + (2 ^ 64 - 1)))).
  assert (Ps : 0 <= pc st <= 8). { apply (pc_bounds 8). apply hi0_land_r. now apply stackmask_hi0. }
  set (b0 := bit (N.of_nat i)).
  assert (Hb0 : hi0 64 b0) by apply hi0_bit.
  set (white := negb (N.land (White p) b0 =? 0)%N).
  assert (HF : exists hf sf sign, (if white then (Z.of_N h - pc st - 1, pc st, 1) else (pc st, Z.of_N h - pc st - 1, -1)) = (hf, sf, sign)
               /\ -254 <= hf <= 254 /\ -254 <= sf <= 254 /\ (sign = 1 \/ sign = -1)).
  { destruct white; eexists _, _, _; (split; [reflexivity|]); lia. }
  destruct HF as (hf & sf & sign & -> & Hhf & Hsf & Hsign).
  set (cap := negb (N.land (Caps p) b0 =? 0)%N).
  (* capstone part *)
  set (mob := pc (mobility (precompute s) p b0 (N.to_nat h))).
  assert (Pm : 0 <= mob <= 64) by (apply pc64, mobility_hi0, Hb0).
  set (sc1 := if cap then _ else 0).
  assert (B1 : Z.abs sc1 <= aw w HardTopCap + 64 * aw w CapMobility).
  { subst sc1. destruct cap; [|lia].
    pose proof (mulb (wt w CapMobility) mob 64 ltac:(lia)). unfold aw.
    destruct (Bool.eqb _ _); destruct Hsign as [-> | ->]; lia. }
  clearbody sc1.
  (* throw part *)
  set (sc2 := if 0 <? hf then _ else sc1).
  assert (B2 : Z.abs (sc2 - sc1) <= 64 * (aw w ThrowMine + aw w ThrowTheirs + aw w ThrowEmpty)).
  { subst sc2. destruct (0 <? hf); [|lia].
    set (throw := mobility (precompute s) p b0 (Z.to_nat hf)).
    assert (Ht : hi0 64 throw) by (apply mobility_hi0, Hb0).
    assert (P1 : 0 <= pc (N.land throw (White p)) <= 64) by (apply pc64, hi0_land_l, Ht).
    assert (P2 : 0 <= pc (N.land throw (Black p)) <= 64) by (apply pc64, hi0_land_l, Ht).
    assert (P3 : 0 <= pc (andnot throw (N.lor (White p) (Black p))) <= 64) by (apply pc64, hi0_andnot, Ht).
    pose proof (mulb (wt w ThrowMine) (pc (N.land throw (White p))) 64 ltac:(lia)).
    pose proof (mulb (wt w ThrowMine) (pc (N.land throw (Black p))) 64 ltac:(lia)).
    pose proof (mulb (wt w ThrowTheirs) (pc (N.land throw (White p))) 64 ltac:(lia)).
    pose proof (mulb (wt w ThrowTheirs) (pc (N.land throw (Black p))) 64 ltac:(lia)).
    pose proof (mulb (wt w ThrowEmpty) (pc (andnot throw (N.lor (White p) (Black p)))) 64 ltac:(lia)).
    unfold aw. destruct white; lia. }
  clearbody sc2.
  (* captives *)
  assert (B3 : forall wh wsf, Z.abs (sign * (hf * wh + sf * wsf)) <= 254 * (Z.abs wh + Z.abs wsf)).
  { intros wh wsf. pose proof (mulb wh hf 254 ltac:(lia)). pose proof (mulb wsf sf 254 ltac:(lia)). destruct Hsign as [-> | ->]; lia. }
  pose proof (B3 (wt w StandingCaptives_Hard) (wt w StandingCaptives_Soft)).
  pose proof (B3 (wt w CapstoneCaptives_Hard) (wt w CapstoneCaptives_Soft)).
  pose proof (B3 (wt w FlatCaptives_Hard) (wt w FlatCaptives_Soft)).
  unfold aw in *. clearbody cap white mob b0 st.
  repeat match goal with |- context [Z.abs (wt ?ww ?f)] => let a := fresh "a" in set (a := Z.abs (wt ww f)) in *; clearbody a end.
  destruct (negb (N.land (Standing p) b0 =? 0)%N); [lia|]. destruct cap; lia.
Qed.

