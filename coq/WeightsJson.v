(* WeightsJson.v: the Go-specific part of ai/json.go (encoding/json itself is trusted): what UnmarshalJSON does AFTER
   json.Unmarshal(bs, &h) filled h : map[string]int64, and what MarshalJSON does BEFORE json.Marshal(h).  Model only.
     for k, v := range h { f, ok := featureNames[k]; if !ok { return error }; ws[f] = v }
   ws is the array [MaxFeature]int64: an index >= MaxFeature is a Go run-time panic (Panic).  Go's map iteration order is
   unspecified: the pairs are taken in the order GIVEN; WeightsJsonFacts.v shows that with a table whose indices are all in
   range the outcome class does not depend on that order. *)
From Coq Require Import NArith ZArith List Bool.
Require Import PtnMove Playtak.
Require Import Generated.Consts.
Import ListNotations.
Local Open Scope N_scope.

(* featureNames[k] *)
Fixpoint lookup (names : list (list N * N)) (k : list N) : option N :=
  match names with
  | [] => None
  | (n, f) :: r => if bytes_eqb n k then Some f else lookup r k
  end.

(* ws[i] = v on a list; the caller has checked the bound *)
Fixpoint set_nth (i : nat) (v : Z) (ws : list Z) : list Z :=
  match ws, i with
  | [], _ => []
  | _ :: r, O => v :: r
  | x :: r, S j => x :: set_nth j v r
  end.

Fixpoint unmarshal_post (names : list (list N * N)) (maxf : N) (pairs : list (list N * Z)) (ws : list Z) : res (list Z) :=
  match pairs with
  | [] => Ok ws
  | (k, v) :: r =>
    match lookup names k with
    | None => Err                                            (* Unknown feature *)
    | Some f => if f <? maxf then unmarshal_post names maxf r (set_nth (N.to_nat f) v ws)
                else Panic                                   (* ws[f]: index out of range [f] with length MaxFeature *)
    end
  end.

(* for i, v := range ws { if v != 0 { h[Feature(i).String()] = v } }   (strings = Feature(i).String() for i < MaxFeature) *)
Fixpoint marshal_from (strings : list (list N)) (ws : list Z) : list (list N * Z) :=
  match strings, ws with
  | s :: sr, v :: wr => if (v =? 0)%Z then marshal_from sr wr else (s, v) :: marshal_from sr wr
  | _, _ => []
  end.
Definition marshal_pre (strings : list (list N)) (ws : list Z) : list (list N * Z) := marshal_from strings ws.

Definition zeros (n : N) : list Z := repeat 0%Z (N.to_nat n).

Definition res_class {A} (r : res A) : N := match r with Ok _ => 0 | Err => 1 | Panic => 2 end.

(* the instance run against the code: the name table and MaxFeature as regenerated from the linked package *)
Definition gen_maxf : N := N.of_nat gen_MaxFeature.
Definition gen_names : list (list N * N) := gen_featureNames.
