(* Facts about results and moves of the PTN notation that are established by complete enumeration
   (25 result strings; the 65 472 move shapes of PtnMove.moves_at). *)
From Coq Require Import NArith ZArith List Bool Lia Ascii.
Require Import Board Move GameOver PtnMove Playtak Tps PtnFile PtnFileFacts.
Import ListNotations.
Local Open Scope char_scope.
Local Open Scope N_scope.

(* ---------- results: the 25 strings of resultRE ---------- *)
Lemma bytes_eqb_eq a : forall b, bytes_eqb a b = true -> a = b.
Proof.
  induction a as [|x a IH]; intros [|y b] H; cbn in H; try discriminate; [reflexivity|].
  apply andb_true_iff in H. destruct H as [H1 H2]. apply N.eqb_eq in H1. subst. f_equal. apply IH. exact H2.
Qed.

Definition sides : list (list N) := [[70]; [82]; [49; 47; 50]; [49]; [48]].
Definition all_results : list (list N) := flat_map (fun a => map (fun b => a ++ 45 :: b) sides) sides.

Lemma side_in s : side s = true -> In s sides.
Proof.
  unfold side. bn. intros H. repeat (apply orb_true_iff in H; destruct H as [H|H]); apply bytes_eqb_eq in H; subst; cbn; auto 10.
Qed.

Lemma nth_error_skipn {A} (l : list A) : forall k c, nth_error l k = Some c -> skipn k l = c :: skipn (S k) l.
Proof.
  induction l as [|x l IH]; intros [|k] c H; cbn in H; try discriminate.
  - inversion H; subst. reflexivity.
  - cbn [skipn]. apply IH. exact H.
Qed.

Lemma is_result_in r : is_result r = true -> In r all_results.
Proof.
  unfold is_result. intros H. apply existsb_exists in H. destruct H as (k & _ & H).
  apply andb_true_iff in H. destruct H as [H H3]. apply andb_true_iff in H. destruct H as [H1 H2].
  destruct (nth_error r k) as [c|] eqn:E; [|discriminate]. bn. apply N.eqb_eq in H2. subst c.
  rewrite <- (firstn_skipn k r). rewrite (nth_error_skipn _ _ _ E).
  unfold all_results. apply in_flat_map. exists (firstn k r). split; [apply side_in; exact H1|].
  apply in_map_iff. exists (skipn (S k) r). split; [reflexivity|]. apply side_in. exact H3.
Qed.

Definition nospaceb (l : list N) : bool := forallb (fun b => negb (is_space b)) l.
Lemma nospaceb_ok l : nospaceb l = true -> nospace l.
Proof. unfold nospaceb. rewrite forallb_forall. intros H b Hb. apply negb_true_iff. apply H. exact Hb. Qed.

Definition res_ok (r : list N) : bool :=
  match r with c :: _ => negb (c =? 123) && negb (c =? 91) | [] => false end && nospaceb r && negb (last r 0 =? 46).
Lemma all_results_ok : forallb res_ok all_results = true.
Proof. vm_compute. reflexivity. Qed.

Lemma result_facts r : is_result r = true ->
  exists h tl, r = h :: tl /\ is_space h = false /\ h <> 91 /\ h <> 123 /\ nospace r /\ last r 0 <> 46.
Proof.
  intros H. pose proof (is_result_in r H) as I. pose proof all_results_ok as A. rewrite forallb_forall in A. specialize (A r I).
  unfold res_ok in A. destruct r as [|h tl]; [discriminate|].
  apply andb_true_iff in A. destruct A as [A A3]. apply andb_true_iff in A. destruct A as [A1 A2].
  apply andb_true_iff in A1. destruct A1 as [A0 A1]. apply negb_true_iff in A0, A1, A3. apply N.eqb_neq in A0, A1, A3.
  exists h, tl. split; [reflexivity|]. pose proof (nospaceb_ok _ A2) as NS. split; [apply NS; left; reflexivity|]. auto.
Qed.

Lemma side_head c rest : side (c :: rest) = true -> c = 70 \/ c = 82 \/ c = 49 \/ c = 48.
Proof. intros H. apply side_in in H. cbn in H. repeat (destruct H as [H|H]; [inversion H; auto|]). contradiction. Qed.

Lemma is_result_head c tl : is_result (c :: tl) = true -> c = 70 \/ c = 82 \/ c = 49 \/ c = 48.
Proof.
  unfold is_result. intros H. apply existsb_exists in H. destruct H as (k & Hk & H).
  apply andb_true_iff in H. destruct H as [H _]. apply andb_true_iff in H. destruct H as [H1 _].
  cbn in Hk. destruct Hk as [Hk|[Hk|[Hk|[]]]]; subst k; cbn [firstn] in H1; eapply side_head; eauto.
Qed.

(* ---------- moves: the complete enumeration of move shapes of PtnMove.v ---------- *)
Definition legal_shape (m : PtnMove.move) : Prop := exists x y, In x coords /\ In y coords /\ In m (moves_at x y).

Definition fm_ok (m : PtnMove.move) : bool :=
  let fm := format_move false m in
  rt_ok false m &&
  match fm with c :: _ => negb (existsb (N.eqb c) [123; 91; 70; 82; 49; 48]) | [] => false end &&
  nospaceb fm && negb (existsb (N.eqb (last fm 0)) [63; 33; 39; 46]).
(* stated without an intermediate constant: the kernel must never be asked to convert this to anything else *)
Lemma all_fm_ok_true : forallb (fun x => forallb (fun y => forallb fm_ok (moves_at x y)) coords) coords = true.
Proof. vm_compute. reflexivity. Qed.

Lemma legal_fm_ok m : legal_shape m -> fm_ok m = true.
Proof.
  intros (x & y & Hx & Hy & Hm).
  pose proof (proj1 (forallb_forall _ _) all_fm_ok_true x Hx) as A1. cbv beta in A1.
  pose proof (proj1 (forallb_forall _ _) A1 y Hy) as A2. cbv beta in A2.
  exact (proj1 (forallb_forall _ _) A2 m Hm).
Qed.

Lemma move_eqb_eq a b : move_eqb a b = true -> a = b.
Proof.
  unfold move_eqb. intros H. repeat (apply andb_true_iff in H; destruct H as [H ?]).
  apply Z.eqb_eq in H. apply Z.eqb_eq in H2. apply N.eqb_eq in H1, H0. destruct a, b; cbn in *; subst; reflexivity.
Qed.

Lemma move_facts m : legal_shape m ->
  parse_move (format_move false m) = PtnMove.Ok m /\
  exists h tl, format_move false m = h :: tl /\ is_space h = false /\ h <> 91 /\ h <> 123 /\
               (h <> 70 /\ h <> 82 /\ h <> 49 /\ h <> 48) /\ nospace (format_move false m) /\
               (let l := last (format_move false m) 0 in l <> 63 /\ l <> 33 /\ l <> 39 /\ l <> 46).
Proof.
  intros L. pose proof (legal_fm_ok m L) as A. unfold fm_ok in A.
  apply andb_true_iff in A. destruct A as [A A4]. apply andb_true_iff in A. destruct A as [A A3].
  apply andb_true_iff in A. destruct A as [A1 A2].
  split.
  - unfold rt_ok in A1. destruct (parse_move (format_move false m)) as [m'| |]; try discriminate.
    apply move_eqb_eq in A1. subst. reflexivity.
  - destruct (format_move false m) as [|h tl] eqn:E; [discriminate|]. exists h, tl. split; [reflexivity|].
    pose proof (nospaceb_ok _ A3) as NS. split; [apply NS; left; reflexivity|].
    apply negb_true_iff in A2, A4. cbn [existsb] in A2, A4.
    repeat (apply orb_false_iff in A2; destruct A2 as [? A2]). repeat (apply orb_false_iff in A4; destruct A4 as [? A4]).
    repeat match goal with H : (_ =? _) = false |- _ => apply N.eqb_neq in H end.
    repeat split; auto.
Qed.
