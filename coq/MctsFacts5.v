(* C04, Monte-Carlo player, part 5: the invariant of MctsFacts4.v instantiated with C01's position invariant.
   G0 p: pos_ok p (C01), at most 64 pieces in the game (then no stack can outgrow the 64-bit stack words: every standard game
   on 3x3..6x6), ply >= 0, and in the opening plies the stones that are about to be placed exist. *)
From Coq Require Import NArith ZArith List Bool Lia.
Require Import Board Stack Rules Move GameOver Refine Alloc RefinePlace RefinePlace2 Slide2 Slide6 MoveRefines LegalMoveLive PtnFileSafe
               Preserve1 Preserve5 Preserve6 PreserveEx Eval EvalInst Mcts MctsFacts MctsFacts2 MctsFacts3 MctsFacts4.
Import ListNotations.

Definition G0 (p : position) : Prop :=
  pos_ok p /\ (total p <= 64)%N /\ (0 <= move p)%Z /\
  ((move p < 2)%Z -> (0 < whiteStones p)%N /\ ((move p < 1)%Z -> (0 < blackStones p)%N)).

Lemma pos_ok_safe p : pos_ok p -> safe p.
Proof.
  intros [Hs Hb Hr He]. destruct Hb as [LH LS _]. destruct He as [_ _ _ [Mw [Mb _]] _].
  cbn [bview bhs bst bw bb] in *. unfold nsq in *.
  constructor; try assumption; try lia.
  - intros i Hi. destruct (N.lt_ge_cases i (size p * size p)) as [L|L]; [exact L|]. rewrite (Mw i L) in Hi. discriminate.
  - intros i Hi. destruct (N.lt_ge_cases i (size p * size p)) as [L|L]; [exact L|]. rewrite (Mb i L) in Hi. discriminate.
Qed.

Lemma pos_ok_in_mask p : pos_ok p -> in_mask p.
Proof.
  intros [Hs _ _ He]. destruct He as [_ _ _ [Mw [Mb _]] _]. cbn [bview bw bb] in *.
  intros i Hi. rewrite N.lor_spec, (Mw i Hi), (Mb i Hi). reflexivity.
Qed.

Lemma mv_not_pass p m q : mv p m = Ok q -> mT m <> 1%N.
Proof.
  intros H E. unfold mv, move_prealloc in H. rewrite E in H. rewrite andb_false_r in H. cbn [bind] in H. discriminate.
Qed.

(* the first ply (White to move) places a black stone: White's reserve is untouched *)
Lemma rules_move_first_ply P m P' : rules_move P m = Some P' -> ply P = 0%Z -> wstones P' = wstones P.
Proof.
  unfold rules_move. destruct (decode m) as [[k x y|d x y drops]|]; [| |discriminate]; intros H E.
  - unfold place in H. destruct (negb (on_board P x y)); [discriminate|]. destruct (stack_at P x y); [|discriminate].
    rewrite E in H. change (0 <? 2)%Z with true in H. unfold to_move in H. rewrite E in H. change (Z.even 0) with true in H.
    cbn [andb flip] in H. destruct k; try discriminate.
    destruct (N.eqb (bstones P) 0); [discriminate|]. injection H as <-. reflexivity.
  - unfold slide in H. rewrite E in H. change (0 <? 2)%Z with true in H. discriminate.
Qed.

Lemma G0_step p m q : G0 p -> mv p m = Ok q -> G0 q.
Proof.
  intros (Hp & Ht & Hm & Hsup) E.
  destruct (move_preserves_small p m q Hp Ht (mv_not_pass p m q E) E) as (R1 & R2 & R3).
  assert (Em := st_move _ _ R3).
  split; [exact R2|]. split; [rewrite (st_total _ _ R3); exact Ht|]. split; [lia|].
  intros H2. assert (E0 : move p = 0%Z) by lia. split; [|lia].
  assert (W := rules_move_first_ply _ _ _ R1 E0). cbn [abs wstones] in W. rewrite W. apply Hsup; lia.
Qed.

Lemma G0_live p c : G0 p -> game_over p = Some (false, c) -> exists m q, In m (all_moves p) /\ mv p m = Ok q.
Proof.
  intros (Hp & _ & Hm & Hsup) Hl. apply (live_has_legal_move p c); [apply pos_ok_wf; exact Hp|apply pos_ok_in_mask; exact Hp| |exact Hl].
  intros H2. specialize (Hsup H2). unfold to_move_white.
  assert (move p = 0 \/ move p = 1)%Z as [E|E] by lia; rewrite E; cbn; [apply Hsup; lia|apply Hsup].
Qed.

(* GetMove does not panic on a live position of the invariant, provided the built-in evaluator is total on the invariant
   (NOT proved: C18 bounds the evaluator's values, totality needs the geometry of bitboard.Dimensions). *)
Theorem getmove_no_panic_partial :
  (forall p, G0 p -> eval_default p <> Panic) ->
  forall (F : Type) (f_neg_inf f_m100 f_p100 f_p10 : F) (f_score : Z -> Z -> Z -> F) (f_gt f_eq : F -> F -> bool)
         cfg fuel perm p c rs,
  G0 p -> game_over p = Some (false, c) ->
  get_move F f_neg_inf f_m100 f_p100 f_p10 f_score f_gt f_eq cfg (S fuel) perm p rs <> Panic.
Proof.
  intros Hev F f1 f2 f3 f4 fs fg fe cfg fuel perm p c rs Hg Hl.
  destruct (force_corners cfg && (move p <? 2)%Z) eqn:Hc.
  - unfold get_move. rewrite Hc. apply andb_prop in Hc as [_ Hc]. apply Z.ltb_lt in Hc.
    destruct Hg as (Hp & _ & Hm & Hsup).
    assert (OS : opening_supply p).
    { intros H2. specialize (Hsup H2). unfold to_move_white.
      assert (move p = 0 \/ move p = 1)%Z as [E|E] by lia; rewrite E; cbn; [apply Hsup; lia|apply Hsup]. }
    assert (H := corner_move_legal p rs (pos_ok_wf p Hp) Hc OS). intros E. rewrite E in H. exact H.
  - apply (getmove_search_no_panic G0 (fun p H => pos_ok_safe p (proj1 H)) G0_step G0_live Hev F f1 f2 f3 f4 fs fg fe cfg fuel perm p c rs Hg Hl Hc).
Qed.

(* GetMove on a live position of the invariant returns only legal moves: the searched answer (MctsFacts.v) and the forced corner *)
Theorem getmove_legal :
  forall (F : Type) (f_neg_inf f_m100 f_p100 f_p10 : F) (f_score : Z -> Z -> Z -> F) (f_gt f_eq : F -> F -> bool)
         cfg fuel perm p rs m rs',
  (force_corners cfg && (move p <? 2)%Z = true -> wf p /\ opening_supply p) ->
  get_move F f_neg_inf f_m100 f_p100 f_p10 f_score f_gt f_eq cfg fuel perm p rs = Ok (m, rs') ->
  exists q, mv p m = Ok q.
Proof.
  intros F f1 f2 f3 f4 fs fg fe cfg fuel perm p rs m rs' Hcor H.
  destruct (force_corners cfg && (move p <? 2)%Z) eqn:Hc.
  - destruct (Hcor eq_refl) as [W OS]. unfold get_move in H. rewrite Hc in H. apply andb_prop in Hc as [_ Hc]. apply Z.ltb_lt in Hc.
    assert (L := corner_move_legal p rs W Hc OS). rewrite H in L. exact L.
  - eapply getmove_searched_move_legal; eassumption.
Qed.

(* non-vacuity: the 14-ply 5x5 position of PreserveEx.v satisfies the invariant and is live *)
Example G0_p14 : G0 p14 /\ game_over p14 = Some (false, GNone).
Proof.
  destruct ex_reachable as (A & B & _). split; [|vm_compute; reflexivity].
  split; [exact A|]. split; [rewrite B; lia|]. split; [vm_compute; discriminate|]. intros H. exfalso. revert H. vm_compute. discriminate.
Qed.
(* ... and the start position (corner forcing applies there) *)
Example G0_start5 : G0 start5 /\ game_over start5 = Some (false, GNone) /\ wf start5 /\ opening_supply start5 /\ at_most_one_occupied start5.
Proof.
  assert (A : pos_ok start5 /\ total start5 = 44%N).
  { destruct (Reach1.new_ok 5 false 21 1 ltac:(lia) ltac:(lia) ltac:(lia)) as (A & B & _). split; [exact A|]. vm_compute. reflexivity. }
  destruct A as [A B].
  assert (Gs : G0 start5).
  { split; [exact A|]. split; [rewrite B; lia|]. split; [vm_compute; discriminate|]. intros _. split; [|intros _]; vm_compute; reflexivity. }
  split; [exact Gs|]. split; [vm_compute; reflexivity|]. split; [apply pos_ok_wf; exact A|].
  split; [intros _; vm_compute; reflexivity|].
  intros i j Hi. exfalso. revert Hi. unfold start5, Alloc.new_pos. cbn [White Move.Black]. unfold has. cbn. discriminate.
Qed.
(* non-vacuity of the legality theorems: the model does return moves.  3x3 start position, scores that always tie, a stream of
   zeros (every tie draw picks the newer child): three passes visit the last child twice; sort.Sort moves it to the front. *)
Definition ex_p3 : position := Alloc.new_pos 3 false 10 0.
Definition ex_search : res (rmove * rstream) :=
  get_move unit tt tt tt tt (fun _ _ _ => tt) (fun _ _ => false) (fun _ _ => true)
    {| place_win := true; max_rollout := 2; eval_threshold := 2000; force_corners := false |}
    3 [8; 0; 1; 2; 3; 4; 5; 6; 7]%nat ex_p3 (repeat 0%N 40).
Example ex_getmove_search : ex_search = Ok ({| mX := 2; mY := 2; mT := 2; mS := 0 |}, repeat 0%N 8).
Proof. vm_compute. reflexivity. Qed.
Definition ex_corner : res (rmove * rstream) :=
  get_move unit tt tt tt tt (fun _ _ _ => tt) (fun _ _ => false) (fun _ _ => true)
    {| place_win := false; max_rollout := 2; eval_threshold := 2000; force_corners := true |} 3 [] ex_p3 [1; 0]%N.
Example ex_getmove_corner : ex_corner = Ok ({| mX := 2; mY := 0; mT := 2; mS := 0 |}, []).
Proof. vm_compute. reflexivity. Qed.
Print Assumptions getmove_no_panic_partial.
Print Assumptions getmove_legal.
