From Coq Require Import NArith ZArith List Bool Lia ZifyN ZifyBool ZifyNat.
Require Import Board Flood Masks LowBit Conn Move GameOver Groups1.
Import ListNotations.
Open Scope N_scope.

Section G2.
Variable s : N.
Hypothesis Hs : 3 <= s <= 8.
Let c := precompute s.
Variable B : N.
Hypothesis HB : forall i, N.testbit B i = true -> i < s * s.
Notation conn := (conn s B).

Record Inv (bits seen : N) (out : list N) : Prop := {
  ia : sub bits B;
  ia2 : forall i j, N.testbit B i = true -> N.testbit bits i = false -> N.testbit bits j = true -> i < j;
  ib : forall g, In g out -> exists a, N.testbit B a = true /\ (forall i, N.testbit g i = true <-> conn a i) /\ exists i, i <> a /\ conn a i;
  ic : forall a, N.testbit B a = true -> N.testbit bits a = false -> forall i, conn a i -> N.testbit seen i = true;
  id : forall i, N.testbit seen i = true -> exists a, N.testbit B a = true /\ N.testbit bits a = false /\ conn a i;
  ie : forall a, N.testbit B a = true -> N.testbit bits a = false -> (exists i, i <> a /\ conn a i) ->
       exists g, In g out /\ forall i, N.testbit g i = true <-> conn a i }.

Lemma land_bit1_zero seen L : (N.land seen (bit1 L) =? 0) = negb (N.testbit seen L).
Proof.
  destruct (N.testbit seen L) eqn:E; cbn [negb].
  - apply N.eqb_neq. intros Z. assert (H : N.testbit (N.land seen (bit1 L)) L = true) by (now rewrite N.land_spec, E, testbit_bit1, N.eqb_refl).
    rewrite Z, N.bits_0 in H. discriminate.
  - apply N.eqb_eq. apply N.bits_inj. intros i. rewrite N.land_spec, N.bits_0, testbit_bit1.
    destruct (N.eqb_spec i L) as [->|]; [now rewrite E|apply andb_false_r].
Qed.

Lemma conn_sym' a b : conn a b -> conn b a.
Proof. apply conn_sym; assumption. Qed.
Lemma conn_both a b : conn a b -> N.testbit B a = true /\ N.testbit B b = true.
Proof. apply conn_in_B; assumption. Qed.

Lemma step_seen bits seen out : bits <> 0 -> Inv bits seen out -> N.testbit seen (ctz bits) = true ->
  Inv (N.land bits (bits - 1)) seen out.
Proof.
  intros Hne [A A2 Bo C D E] HL. set (L := ctz bits) in *.
  assert (HLb : N.testbit bits L = true) by (apply ctz_set; assumption).
  assert (Hnext : forall i, N.testbit (N.land bits (bits - 1)) i = N.testbit bits i && negb (i =? L)) by (intros; now apply clear_lowest).
  (* L was seen: it is connected to an already processed bit a' *)
  destruct (D L HL) as (a' & Ha'B & Ha'b & Ha'L).
  constructor.
  - intros i Hi. rewrite Hnext in Hi. apply andb_prop in Hi as [Hi _]. now apply A.
  - intros i j HiB Hi Hj. rewrite Hnext in Hi, Hj. apply andb_prop in Hj as [Hj HjL].
    destruct (N.testbit bits i) eqn:Ebi.
    + cbn in Hi. apply negb_false_iff, N.eqb_eq in Hi. subst i.
      assert (L <= j) by (apply ctz_lowest; assumption). apply negb_true_iff, N.eqb_neq in HjL. lia.
    + eapply A2; eauto.
  - exact Bo.
  - intros a HaB Ha i Hc. rewrite Hnext in Ha. destruct (N.testbit bits a) eqn:Eba.
    + cbn in Ha. apply negb_false_iff, N.eqb_eq in Ha. subst a.
      apply (C a' Ha'B Ha'b). eapply conn_trans; eauto.
    + eapply C; eauto.
  - intros i Hi. destruct (D i Hi) as (a & HaB & Hab & Hai). exists a. repeat split; auto.
    rewrite Hnext, Hab. reflexivity.
  - intros a HaB Ha Hbig. rewrite Hnext in Ha. destruct (N.testbit bits a) eqn:Eba.
    + cbn in Ha. apply negb_false_iff, N.eqb_eq in Ha. subst a.
      destruct Hbig as (i & Hi & Hci).
      assert (Hbig' : exists i0, i0 <> a' /\ conn a' i0).
      { destruct (N.eq_dec i a') as [->|Hn].
        - exists L. split; [|assumption]. intros E'. subst a'. rewrite HLb in Ha'b. discriminate.
        - exists i. split; [assumption|]. eapply conn_trans; eauto. }
      destruct (E a' Ha'B Ha'b Hbig') as (g & Hg & Hgi). exists g. split; [assumption|].
      intros k. rewrite Hgi. split; intros Hk.
      * eapply conn_trans; [apply conn_sym'; exact Ha'L|exact Hk].
      * eapply conn_trans; eauto.
    + eapply E; eauto.
Qed.

Lemma step_unseen bits seen out g : bits <> 0 -> Inv bits seen out -> N.testbit seen (ctz bits) = false ->
  (forall i, N.testbit g i = true <-> conn (ctz bits) i) ->
  Inv (N.land bits (bits - 1)) (N.lor seen g) (if g =? bit1 (ctz bits) then out else out ++ [g]).
Proof.
  intros Hne [A A2 Bo C D E] HL Hg. set (L := ctz bits) in *.
  assert (HLb : N.testbit bits L = true) by (apply ctz_set; assumption).
  assert (HLB : N.testbit B L = true) by (now apply A).
  assert (Hnext : forall i, N.testbit (N.land bits (bits - 1)) i = N.testbit bits i && negb (i =? L)) by (intros; now apply clear_lowest).
  assert (HgL : N.testbit g L = true) by (apply Hg, conn_refl; assumption).
  assert (Hbig : g <> bit1 L -> exists i, i <> L /\ conn L i).
  { intros Hn. destruct (N.eq_dec (N.lxor g (bit1 L)) 0) as [Z|Z]; [apply N.lxor_eq in Z; contradiction|].
    assert (Hb := N.bit_log2 _ Z). set (k := N.log2 (N.lxor g (bit1 L))) in *.
    rewrite N.lxor_spec, testbit_bit1 in Hb. exists k.
    destruct (N.eqb_spec k L) as [Ek|Hk]; [rewrite Ek, HgL in Hb; discriminate|].
    split; [assumption|]. apply Hg. destruct (N.testbit g k); [reflexivity|discriminate]. }
  constructor.
  - intros i Hi. rewrite Hnext in Hi. apply andb_prop in Hi as [Hi _]. now apply A.
  - intros i j HiB Hi Hj. rewrite Hnext in Hi, Hj. apply andb_prop in Hj as [Hj HjL].
    destruct (N.testbit bits i) eqn:Ebi.
    + cbn in Hi. apply negb_false_iff, N.eqb_eq in Hi. subst i.
      assert (L <= j) by (apply ctz_lowest; assumption). apply negb_true_iff, N.eqb_neq in HjL. lia.
    + eapply A2; eauto.
  - intros g' Hin. destruct (N.eqb_spec g (bit1 L)) as [Eg|Eg]; [now apply Bo|].
    apply in_app_or in Hin as [Hin|[<-|[]]]; [now apply Bo|].
    exists L. split; [assumption|]. split; [exact Hg|]. now apply Hbig.
  - intros a HaB Ha i Hc. rewrite N.lor_spec. rewrite Hnext in Ha. destruct (N.testbit bits a) eqn:Eba.
    + cbn in Ha. apply negb_false_iff, N.eqb_eq in Ha. subst a.
      apply Hg in Hc. rewrite Hc. apply orb_true_r.
    + rewrite (C a HaB Eba i Hc). reflexivity.
  - intros i Hi. rewrite N.lor_spec in Hi. apply orb_prop in Hi as [Hi|Hi].
    + destruct (D i Hi) as (a & HaB & Hab & Hai). exists a. repeat split; auto. rewrite Hnext, Hab. reflexivity.
    + exists L. repeat split; auto; [rewrite Hnext, N.eqb_refl; apply andb_false_r|now apply Hg].
  - intros a HaB Ha Hbig'. rewrite Hnext in Ha. destruct (N.testbit bits a) eqn:Eba.
    + cbn in Ha. apply negb_false_iff, N.eqb_eq in Ha. subst a.
      destruct (N.eqb_spec g (bit1 L)) as [Eg|Eg].
      * exfalso. destruct Hbig' as (i & Hi & Hci). apply Hg in Hci. rewrite Eg, testbit_bit1 in Hci.
        apply N.eqb_eq in Hci. contradiction.
      * exists g. split; [apply in_or_app; right; now left|exact Hg].
    + destruct (E a HaB Eba Hbig') as (g' & Hin & Hgi). exists g'. split; [|exact Hgi].
      destruct (g =? bit1 L); [assumption|apply in_or_app; now left].
Qed.

(* unseen lowest bit: its whole component is still inside bits *)
Lemma comp_inside bits seen out : bits <> 0 -> Inv bits seen out -> N.testbit seen (ctz bits) = false ->
  forall i, conn (ctz bits) i -> N.testbit bits i = true.
Proof.
  intros Hne [A A2 Bo C D E] HL i Hc. destruct (N.testbit bits i) eqn:Ebi; [reflexivity|exfalso].
  destruct (conn_both _ _ Hc) as [_ HiB].
  assert (Hs' := C i HiB Ebi (ctz bits) (conn_sym' _ _ Hc)). congruence.
Qed.
End G2.
Print Assumptions step_unseen.
