(* Sym/SymmetryCfg.v: symmetry.Symmetries with the configuration the Go code passes (canonical.go:135):
     ps[i].P, e = tak.FromSquares(p.Config(), b, p.MoveNumber())
   p.Config() is *p.cfg as tak.New left it: Size, Pieces and Capstones (defaults filled in), BlackWinsTies.  The model's position
   record carries Size and BlackWinsTies; Pieces and Capstones of the configuration are not fields of it, so they are the
   parameters `stones caps` here (the drivers take them from Position.Config() of the implementation).
   Symmetry.image / Symmetry.symmetries (FromSquares at Config{Size}) are the instances at the zero / default configuration for
   positions whose tie-break flag is false (image_zero, image_default, symmetries_zero, symmetries_default).
   symmetry.Canonical takes a board SIZE, not a position: it starts from tak.New(tak.Config{Size: size}), the zero configuration,
   whatever configuration the game was played under; Symmetry.canonical models exactly that (new_pos_zero). *)
From Coq Require Import NArith ZArith List Bool Lia.
Require Import Board Move GameOver Tps TpsCfg Symmetry.
Import ListNotations.
Open Scope Z_scope.

Section S.
Variable basis : list N.

(* the board Symmetries fills for the coordinate map s: boards[i][ry][rx] = p.At(x, y) where (rx, ry) = s(x, y), rebuilt
   by FromSquares under p's own configuration *)
Definition image_cfg (stones caps : N) (p : position) (s : symfn) : position :=
  let n := N.to_nat (size p) in
  let cell (rx ry : nat) : list pc :=      (* the square whose image is (rx,ry) *)
    match find (fun xy => let '(ix, iy) := s (Z.of_nat (fst xy)) (Z.of_nat (snd xy)) in (ix =? Z.of_nat rx) && (iy =? Z.of_nat ry))
               (flat_map (fun x => map (fun y => (x, y)) (seq 0 n)) (seq 0 n)) with
    | Some (x, y) => at_sq p (N.of_nat (x + y * n))
    | None => []
    end in
  from_squares_cfg basis (size p) stones caps (black_wins_ties p)
    (map (fun ry => map (fun rx => cell rx ry) (seq 0 n)) (seq 0 n)) (move p).

(* Symmetries(p): the eight rebuilt boards, de-duplicated by Hash(), first occurrence kept *)
Definition symmetries_cfg (stones caps : N) (p : position) : list (position * nat) :=
  let all := map (fun i => (image_cfg stones caps p (nth i (syms (Z.of_N (size p))) (fun x y => (x, y))), i)) (seq 0 8) in
  rev (fold_left (fun (acc : list (position * nat)) (pi : position * nat) =>
         if existsb (fun q => (hash_of (fst q) =? hash_of (fst pi))%N) acc then acc else pi :: acc) all []).

(* ---- the old models are the default-configuration instances ---- *)
Lemma image_zero p s : black_wins_ties p = false -> image basis p s = image_cfg 0 0 p s.
Proof. intros H. unfold image, image_cfg. rewrite H. apply from_squares_zero. Qed.

Lemma image_default p s : black_wins_ties p = false ->
  image basis p s = image_cfg (nth (N.to_nat (size p)) default_pieces 0%N) (nth (N.to_nat (size p)) default_caps 0%N) p s.
Proof. intros H. unfold image, image_cfg. rewrite H. apply from_squares_default. Qed.

Lemma symmetries_zero p : black_wins_ties p = false -> symmetries basis p = symmetries_cfg 0 0 p.
Proof.
  intros H. unfold symmetries, symmetries_cfg. cbv zeta. do 2 f_equal.
  apply map_ext. intros i. now rewrite image_zero.
Qed.

Lemma symmetries_default p : black_wins_ties p = false ->
  symmetries basis p = symmetries_cfg (nth (N.to_nat (size p)) default_pieces 0%N) (nth (N.to_nat (size p)) default_caps 0%N) p.
Proof.
  intros H. unfold symmetries, symmetries_cfg. cbv zeta. do 2 f_equal.
  apply map_ext. intros i. now rewrite image_default.
Qed.

(* Canonical's start position: tak.New(tak.Config{Size: size}) *)
Lemma new_pos_zero sz :
  new_pos basis sz = from_squares_cfg basis sz 0 0 false (repeat (repeat [] (N.to_nat sz)) (N.to_nat sz)) 0.
Proof. unfold new_pos. apply from_squares_zero. Qed.
End S.
