(* SelfplayFacts3.v: whole games and series of games of the selfplay worker against two engine models; the invariant of
   SelfplayFacts2.v instantiated with "reachable from the start position of a 3x3..6x6 board with the default piece counts". *)
From Coq Require Import NArith ZArith List Bool Lia ZifyN ZifyBool ZifyNat.
Require Import Board Move GameOver PtnMove Playtak Tps TeiBudget Tei TeiSpec TeiFacts TeiClient TeiClientFacts TeiClientFacts2 TeiClientFacts3.
Require Import Selfplay SelfplayFacts SelfplayFacts2 PnFacts Refine Alloc Reach1 Preserve1 TpsFacts5 TpsFacts9 GameOverFacts1 GameOverFacts2 GameOverFacts4.
Require Import Generated.Consts.
Import ListNotations.
Local Open Scope Z_scope.

(* ---- Position.Move keeps the tie-break flag and never accepts a pass (in the model) ---- *)
Lemma mv_bwt : forall hsq bc p m q, move_prealloc hsq bc p m = Move.Ok q -> Move.black_wins_ties q = Move.black_wins_ties p.
Proof.
  intros hsq bc p m q H. unfold move_prealloc in H.
  repeat (match type of H with
  | (if ?b then _ else _) = Move.Ok _ => destruct b; try discriminate H
  | (match ?x with _ => _ end) = Move.Ok _ => destruct x eqn:?; try discriminate H
  | bind ?r _ = Move.Ok _ => destruct r eqn:?; cbn [bind] in H; try discriminate H
  | (let '(_, _) := ?x in _) = Move.Ok _ => destruct x eqn:?
  end).
  all: injection H as <-; reflexivity.
Qed.

Lemma mv_not_pass hsq p m q : move_prealloc hsq true p m = Move.Ok q -> Move.mT m <> 1%N.
Proof.
  intros H E. unfold move_prealloc in H. rewrite E in H. change (negb (1 =? 1)%N) with false in H.
  rewrite andb_false_r in H. cbn [bind] in H. discriminate H.
Qed.

(* ---- the invariant: reachable on a small board ---- *)
Definition reach (p : position) : Prop :=
  exists sz ms, (3 <= sz <= 6)%N /\ no_pass ms /\
    replay (new_pos sz false (nth (N.to_nat sz) default_pieces 0%N) (nth (N.to_nat sz) default_caps 0%N)) ms = Move.Ok p.

Lemma small_counts sz : (3 <= sz <= 6)%N ->
  (2 * (nth (N.to_nat sz) default_pieces 0 + nth (N.to_nat sz) default_caps 0) <= 64)%N.
Proof. intros H. assert (sz = 3 \/ sz = 4 \/ sz = 5 \/ sz = 6)%N as [->|[->|[->| ->]]] by lia; vm_compute; discriminate. Qed.

Lemma reach_bwt : forall ms p0 p, replay p0 ms = Move.Ok p -> Move.black_wins_ties p = Move.black_wins_ties p0.
Proof.
  induction ms as [|m ms IH]; intros p0 p H; cbn [replay] in H; [injection H as <-; reflexivity|].
  destruct (mv p0 m) as [q| |] eqn:E; try discriminate H. rewrite (IH _ _ H). exact (mv_bwt _ _ _ _ _ E).
Qed.

Lemma reach_good p : reach p -> good p /\ Move.move p >= 0.
Proof.
  intros (sz & ms & Hsz & Hnp & Hr).
  assert (Hsz8 : (3 <= sz <= 8)%N) by lia.
  destruct (reachable_ok sz false _ _ ms p Hsz8 (small_counts sz Hsz) Hnp Hr) as (A & _).
  destruct (reachable_round_trip_hyps_small sz false ms p Hsz Hnp Hr) as (_ & _ & R & M).
  split; [|lia]. split; [exact A|]. split; [exact R|]. rewrite (reach_bwt _ _ _ Hr). reflexivity.
Qed.

Lemma reach_step p m q : reach p -> tmove gen_basis p m = Move.Ok q -> reach q.
Proof.
  intros (sz & ms & Hsz & Hnp & Hr) H. exists sz, (ms ++ [m]). split; [exact Hsz|]. split.
  - apply Forall_app. split; [exact Hnp|]. constructor; [|constructor]. exact (mv_not_pass _ _ _ _ H).
  - rewrite replay_app, Hr. cbn [replay]. change (mv p m) with (tmove gen_basis p m). rewrite H. reflexivity.
Qed.

Lemma good_inv p : good p -> inv p.
Proof.
  intros (Hp & RM & _). destruct Hp as [Hs Hb Hr [_ _ _ (Mw & Mb & _ & _) _]].
  assert (Hbelow : forall x, hi_clear (Move.size p) x -> below (Move.size p * Move.size p) x).
  { intros x H i Hi. destruct (N.lt_ge_cases i (Move.size p * Move.size p)) as [L|G]; [exact L|]. rewrite (H i G) in Hi. discriminate. }
  destruct RM as (A1 & A2 & A3 & A4 & A5 & A6 & A7 & A8). unfold dflt_pieces, dflt_caps in *.
  assert (Hd : (nth (N.to_nat (Move.size p)) default_pieces 0 <= 50)%N /\ (nth (N.to_nat (Move.size p)) default_caps 0 <= 2)%N).
  { assert (Move.size p = 3 \/ Move.size p = 4 \/ Move.size p = 5 \/ Move.size p = 6 \/ Move.size p = 7 \/ Move.size p = 8)%N as [E|[E|[E|[E|[E|E]]]]] by lia;
      rewrite E; vm_compute; split; discriminate. }
  destruct Hd as [D1 D2].
  constructor; try assumption; try (apply Hbelow; assumption); lia.
Qed.

Lemma good_over p : good p -> game_over p <> None.
Proof. intros H. destruct (game_over_correct p (good_inv p H)) as (o & _ & _ & E & _). rewrite E. discriminate. Qed.

Section Games.
Variable SS1 : Type. Variable mk1 : Z -> SS1. Variable search1 : SS1 -> option Z -> position -> SS1 * (list rmove * Z * Z * Z).
Variable SS2 : Type. Variable mk2 : Z -> SS2. Variable search2 : SS2 -> option Z -> position -> SS2 * (list rmove * Z * Z * Z).
Notation eng1 := (tei_proc gen_basis SS1 mk1 search1).
Notation eng2 := (tei_proc gen_basis SS2 mk2 search2).
Variable cf : config.
Hypothesis Hs1 : searcher_ok_wire SS1 search1.
Hypothesis Hs2 : searcher_ok_wire SS2 search2.
Hypothesis Hinc : cf_increment cf = 0 \/ 1000000 <= cf_increment cf < 2 ^ 63.
(* no clock, or a game time of at least 1 ms that cannot overflow with the increments of a whole game *)
Hypothesis Hgt : cf_gametime cf = 0 \/ (1000000 <= cf_gametime cf /\ cf_gametime cf + Z.of_nat (cf_cutoff cf) * cf_increment cf < 2 ^ 63).

Notation wst := (wstate (proc SS1) (proc SS2)).
Definition wsync (w : wst) : Prop := in_sync SS1 (w_c1 w) /\ in_sync SS2 (w_c2 w).

(* an opening the theorem covers: reachable on a 3x3..6x6 board, not finished, and room for Cutoff more plies *)
Definition opening_ok (p : position) : Prop := reach p /\ live p /\ Move.move p + Z.of_nat (cf_cutoff cf) < 2 ^ 63.

(* what is promised of one game's result *)
Definition result_ok (g : spec) (r : result) : Prop :=
  r_initial r = sp_opening g /\
  replay (sp_opening g) (map to_rmove (r_moves r)) = Move.Ok (r_position r) /\
  (List.length (r_moves r) <= cf_cutoff cf)%nat /\
  (game_over (r_position r) = Some (true, r_winner r) \/
   (live (r_position r) /\ cf_gametime cf <> 0 /\ r_winner r = flip_mover (to_move_white (r_position r))) \/
   (live (r_position r) /\ r_winner r = GNone /\ List.length (r_moves r) = cf_cutoff cf)).

Lemma result_ok_iff g r : result_ok g r <->
  (r_initial r = sp_opening g /\
   replay (sp_opening g) (map to_rmove (r_moves r)) = Move.Ok (r_position r) /\
   (List.length (r_moves r) <= cf_cutoff cf)%nat /\
   (game_over (r_position r) = Some (true, r_winner r) \/
    (live (r_position r) /\ cf_gametime cf <> 0 /\ r_winner r = flip_mover (to_move_white (r_position r))) \/
    (live (r_position r) /\ r_winner r = GNone /\ List.length (r_moves r) = cf_cutoff cf))).
Proof. reflexivity. Qed.

Theorem play_game_ok dur left (w : wst) (g : spec) :
  (forall k, 0 <= dur k < 2 ^ 63) -> (cf_limit cf <> 0 -> forall k, 1000000 <= left k < 2 ^ 63) ->
  wsync w -> opening_ok (sp_opening g) ->
  exists w' r, play_game (proc SS1) (proc SS2) eng1 eng2 gen_basis cf dur left w g = (w', GDone r) /\ wsync w' /\ result_ok g r.
Proof.
  intros Hdur Hleft [S1 S2] (Hre & Hl & Hm). destruct (reach_good _ Hre) as [Hg Hm0].
  pose proof (po_size _ (proj1 Hg)) as Hsz. unfold play_game.
  destruct (new_game_ok SS1 mk1 search1 (w_c1 w) (Z.of_N (Move.size (sp_opening g))) S1 ltac:(lia)) as (c1 & E1 & R1). rewrite E1.
  destruct (new_game_ok SS2 mk2 search2 (w_c2 w) (Z.of_N (Move.size (sp_opening g))) S2 ltac:(lia)) as (c2 & E2 & R2). rewrite E2.
  set (tc := if cf_gametime cf =? 0 then None else Some _).
  assert (Ht : tc_inv cf (cf_cutoff cf) tc).
  { subst tc. destruct (Z.eqb_spec (cf_gametime cf) 0) as [E|E]; [exact I|]. destruct Hgt as [?|[G1 G2]]; [contradiction|].
    cbn. repeat split; auto. }
  destruct (game_loop_ok SS1 mk1 search1 SS2 mk2 search2 cf Hs1 Hs2 reach (fun p H => proj1 (reach_good p H)) reach_step
              (fun p H => good_over p (proj1 (reach_good p H))) dur left Hdur Hleft Hinc (sp_opening g) (sp_p1white g) _ _
              (cf_cutoff cf) 0%nat {| w_c1 := c1; w_c2 := c2 |} (sp_opening g) tc [] (conj R1 R2) Hre Hl ltac:(lia) Hm Ht)
    as (w' & r & El & [R1' R2'] & Hini & ms' & Em & Er & _ & Hlen & Hend).
  exists w', r. split; [exact El|]. split; [split; [apply R1'|apply R2']|].
  cbn [app] in Em. rewrite <- Em in *. split; [exact Hini|]. split; [exact Er|]. split; [exact Hlen|].
  destruct Hend as [E|[(A & B & C)|(A & B & C)]]; [left; exact E| |right; right; auto].
  right. left. split; [exact A|]. split; [|exact C]. intros E0. apply B. subst tc. rewrite E0. reflexivity.
Qed.

(* several games in a row on the same two clients: every one of them is played to a result *)
Theorem play_games_ok dur left : forall (gs : list spec) j (w : wst),
  (forall j k, 0 <= dur j k < 2 ^ 63) -> (cf_limit cf <> 0 -> forall j k, 1000000 <= left j k < 2 ^ 63) ->
  wsync w -> Forall (fun g => opening_ok (sp_opening g)) gs ->
  exists w' rs, play_games (proc SS1) (proc SS2) eng1 eng2 gen_basis cf dur left j w gs = (w', rs, None) /\ wsync w' /\
                Forall2 result_ok gs rs.
Proof.
  induction gs as [|g gs IH]; intros j w Hdur Hleft Hw Hall; cbn [play_games].
  - exists w, []. split; [reflexivity|]. split; [exact Hw|constructor].
  - inversion Hall as [|? ? Hg Hrest]; subst.
    destruct (play_game_ok (dur j) (left j) w g (Hdur j) (fun H => Hleft H j) Hw Hg) as (w1 & r & E & Hw1 & Hr). rewrite E.
    destruct (IH (S j) w1 Hdur Hleft Hw1 Hrest) as (w2 & rs & E2 & Hw2 & Hrs). rewrite E2.
    exists w2, (r :: rs). split; [reflexivity|]. split; [exact Hw2|]. constructor; assumption.
Qed.
End Games.
