(* C10, FromSquares: what tak.FromSquares builds from a list of squares, field by field. *)
From Coq Require Import NArith ZArith List Bool Lia Ascii ZifyN ZifyBool ZifyNat.
Require Import Board Move GameOver PtnMove Playtak Tps TpsFacts RefinePlace.
Import ListNotations.
Local Open Scope N_scope.

(* ---- FromSquares' loop body, named ---- *)
Definition rstep (r : N * N * N * N) (pp : pc) : N * N * N * N :=
  let '(ws, wc, bs, bc) := r in
  match pp with
  | P false 3 => (ws, u8 (wc + 255), bs, bc) | P true 3 => (ws, wc, bs, u8 (bc + 255))
  | P false _ => (u8 (ws + 255), wc, bs, bc) | P true _ => (ws, wc, u8 (bs + 255), bc)
  end.

Definition sstep (a : N * nat) (pp : pc) : N * nat :=
  let '(v, j) := a in
  match pp with P true _ => (if (j =? 0)%nat then v else N.lor v (shl64 1 (N.of_nat (j - 1))), S j) | _ => (v, S j) end.

Definition acc11 := (N * N * N * N * N * N * N * N * list N * list N * N)%type.

Definition fs_step (basis : list N) (acc : acc11) (ic : nat * list pc) : acc11 :=
    let '(w, b, s, c, ws, wc, bs, bc, hs, st, h) := acc in
    let '(i, sq) := ic in
    match sq with
    | [] => acc
    | P tb tk :: _ =>
      let bi := bit (N.of_nat i) in
      let w := if tb then w else N.lor w bi in
      let b := if tb then N.lor b bi else b in
      let c := if tk =? 3 then N.lor c bi else c in
      let s := if tk =? 2 then N.lor s bi else s in
      let '(ws, wc, bs, bc) := fold_left rstep sq (ws, wc, bs, bc) in
      let stk := fold_left sstep sq (0, 0%nat) in
      let hs := updN hs i (u8 (N.of_nat (length sq))) in
      let st := updN st i (fst stk) in
      (w, b, s, c, ws, wc, bs, bc, hs, st, N.lxor h (hash_at (hash_sq basis) hs st (N.of_nat i)))
    end.

Definition fs_init (n : nat) : acc11 :=
  let dp := nth n default_pieces 0 in let dc := nth n default_caps 0 in
  (0, 0, 0, 0, dp, dc, dp, dc, repeat 0 (n * n), repeat 0 (n * n), fnvBasis).

Lemma from_squares_unfold basis sz board mv :
  from_squares basis sz board mv =
  let n := N.to_nat sz in
  let '(w, b, s, c, ws, wc, bs, bc, hs, st, h) :=
      fold_left (fs_step basis) (combine (seq 0 (n * n)) (flat_map (fun row => row) board)) (fs_init n) in
  {| size := sz; black_wins_ties := false; whiteStones := ws; whiteCaps := wc; blackStones := bs; blackCaps := bc;
     Move.move := mv; White := w; Black := b; Standing := s; Caps := c; Height := hs; Stacks := st; hash := h |}.
Proof. reflexivity. Qed.

(* ---- per-square quantities ---- *)
Definition is_black (pp : pc) : bool := match pp with P b _ => b end.
Definition top_white (sq : list pc) : bool := match sq with P false _ :: _ => true | _ => false end.
Definition top_black (sq : list pc) : bool := match sq with P true _ :: _ => true | _ => false end.
Definition top_cap (sq : list pc) : bool := match sq with P _ k :: _ => k =? 3 | _ => false end.
Definition top_stand (sq : list pc) : bool := match sq with P _ k :: _ => k =? 2 | _ => false end.
Definition hgt (sq : list pc) : N := u8 (N.of_nat (length sq)).
Definition stk_bits (sq : list pc) : N := fst (fold_left sstep sq (0, 0%nat)).

Lemma fs_step_nil basis acc i : fs_step basis acc (i, []) = acc.
Proof. unfold fs_step. now destruct acc as [[[[[[[[[[w b] s] c] ws] wc] bs] bc] hs] st] h]. Qed.

Lemma fs_step_cons basis w b s c ws wc bs bc hs st h i sq : sq <> [] ->
  fs_step basis (w, b, s, c, ws, wc, bs, bc, hs, st, h) (i, sq) =
  let r := fold_left rstep sq (ws, wc, bs, bc) in
  let hs' := updN hs i (hgt sq) in let st' := updN st i (stk_bits sq) in
  (if top_white sq then N.lor w (bit (N.of_nat i)) else w,
   if top_black sq then N.lor b (bit (N.of_nat i)) else b,
   if top_stand sq then N.lor s (bit (N.of_nat i)) else s,
   if top_cap sq then N.lor c (bit (N.of_nat i)) else c,
   fst (fst (fst r)), snd (fst (fst r)), snd (fst r), snd r, hs', st',
   N.lxor h (hash_at (hash_sq basis) hs' st' (N.of_nat i))).
Proof.
  intros Hne. destruct sq as [|[tb tk] rest]; [congruence|].
  unfold fs_step. cbv zeta.
  destruct (fold_left rstep (P tb tk :: rest) (ws, wc, bs, bc)) as [[[ws' wc'] bs'] bc'].
  cbn [fst snd top_white top_black top_stand top_cap]. unfold hgt, stk_bits.
  destruct tb; reflexivity.
Qed.

(* ---- list helpers ---- *)
Lemma combine_app {A B} : forall (l1 l2 : list A) (r1 r2 : list B), length l1 = length r1 ->
  combine (l1 ++ l2) (r1 ++ r2) = combine l1 r1 ++ combine l2 r2.
Proof.
  induction l1 as [|a l1 IH]; intros l2 [|b r1] r2 H; cbn in H; try discriminate; [reflexivity|].
  cbn [app combine]. f_equal. apply IH. lia.
Qed.

Lemma firstn_S_nth {A} (d : A) : forall (l : list A) k, (k < length l)%nat -> firstn (S k) l = firstn k l ++ [nth k l d].
Proof.
  induction l as [|a l IH]; intros k H; cbn in H; [lia|].
  destruct k as [|k]; [reflexivity|]. cbn [firstn nth app]. f_equal. apply IH. lia.
Qed.

Lemma updN_len l : forall i v, length (updN l i v) = length l.
Proof. induction l as [|a l IH]; intros [|i] v; cbn; auto. Qed.

Lemma nth_updN l : forall i j v, (i < length l)%nat -> nth j (updN l i v) 0 = if (j =? i)%nat then v else nth j l 0.
Proof.
  induction l as [|a l IH]; intros i j v H; cbn in H; [lia|].
  destruct i as [|i], j as [|j]; cbn [updN nth Nat.eqb]; auto. apply IH. lia.
Qed.

Lemma fold_left_ext_in {A B} (f g : A -> B -> A) : forall (l : list B) a,
  (forall a b, In b l -> f a b = g a b) -> fold_left f l a = fold_left g l a.
Proof.
  induction l as [|b l IH]; intros a H; [reflexivity|]. cbn [fold_left].
  rewrite H by (now left). apply IH. intros a' b' Hb. apply H. now right.
Qed.

Lemma nth_repeat0 m : forall j, nth j (repeat 0 m) 0 = 0.
Proof. induction m as [|m IH]; intros [|j]; cbn; auto. Qed.

(* ---- the loop invariant ---- *)
Section Inv.
Variable basis : list N.
Variable cells : list (list pc).
Variable n : nat.                      (* board size; default reserves are those of size n *)
Local Notation m := (length cells).
Local Notation dp := (nth n default_pieces 0).
Local Notation dc := (nth n default_caps 0).
Local Notation cell j := (nth j cells []).

Record fs_inv (k : nat) (w b s c ws wc bs bc : N) (hs st : list N) (h : N) : Prop := {
  iw : forall j, N.testbit w j = (j <? N.of_nat k) && top_white (cell (N.to_nat j));
  ib : forall j, N.testbit b j = (j <? N.of_nat k) && top_black (cell (N.to_nat j));
  is_ : forall j, N.testbit s j = (j <? N.of_nat k) && top_stand (cell (N.to_nat j));
  ic : forall j, N.testbit c j = (j <? N.of_nat k) && top_cap (cell (N.to_nat j));
  ires : (ws, wc, bs, bc) = fold_left rstep (concat (firstn k cells)) (dp, dc, dp, dc);
  ihl : length hs = m;
  isl : length st = m;
  ihs : forall j, nth j hs 0 = if (j <? k)%nat then hgt (cell j) else 0;
  ist : forall j, nth j st 0 = if (j <? k)%nat then stk_bits (cell j) else 0;
  ih : h = fold_left (fun a i => N.lxor a (hash_at (hash_sq basis) hs st (N.of_nat i))) (seq 0 k) fnvBasis }.

Definition inv_t (k : nat) (acc : acc11) : Prop :=
  let '(w, b, s, c, ws, wc, bs, bc, hs, st, h) := acc in fs_inv k w b s c ws wc bs bc hs st h.

Lemma inv_init : inv_t 0 (0, 0, 0, 0, dp, dc, dp, dc, repeat 0 m, repeat 0 m, fnvBasis).
Proof.
  unfold inv_t. constructor; try (intros j; rewrite N.bits_0; now replace (j <? N.of_nat 0) with false by lia).
  - reflexivity.
  - apply repeat_length.
  - apply repeat_length.
  - intros j. apply nth_repeat0.
  - intros j. apply nth_repeat0.
  - reflexivity.
Qed.

Lemma bit_step (f : list pc -> bool) k w j : (k < 64)%nat ->
  N.testbit w j = (j <? N.of_nat k) && f (cell (N.to_nat j)) ->
  N.testbit (if f (cell k) then N.lor w (bit (N.of_nat k)) else w) j = (j <? N.of_nat (S k)) && f (cell (N.to_nat j)).
Proof.
  intros Hk Hw.
  assert (E : N.testbit (if f (cell k) then N.lor w (bit (N.of_nat k)) else w) j
              = N.testbit w j || ((j =? N.of_nat k) && f (cell k))).
  { destruct (f (cell k)).
    - rewrite N.lor_spec, testbit_bit by lia. now rewrite andb_true_r.
    - now rewrite andb_false_r, orb_false_r. }
  rewrite E, Hw. destruct (N.eqb_spec j (N.of_nat k)) as [->|Hne].
  - rewrite Nat2N.id. replace (N.of_nat k <? N.of_nat k) with false by lia.
    replace (N.of_nat k <? N.of_nat (S k)) with true by lia. reflexivity.
  - replace (j <? N.of_nat (S k)) with (j <? N.of_nat k) by lia. cbn [andb]. now rewrite orb_false_r.
Qed.

Lemma bit_keep (f : list pc -> bool) k w j :
  f (cell k) = false ->
  N.testbit w j = (j <? N.of_nat k) && f (cell (N.to_nat j)) ->
  N.testbit w j = (j <? N.of_nat (S k)) && f (cell (N.to_nat j)).
Proof.
  intros Hf Hw. rewrite Hw. destruct (N.eqb_spec j (N.of_nat k)) as [->|Hne].
  - rewrite Nat2N.id, Hf. now rewrite !andb_false_r.
  - now replace (j <? N.of_nat (S k)) with (j <? N.of_nat k) by lia.
Qed.

Lemma hash_at_nil hs st k : nth k hs 0 = 0 -> hash_at (hash_sq basis) hs st (N.of_nat k) = 0.
Proof. intros H. unfold hash_at, nthN. rewrite Nat2N.id, H. reflexivity. Qed.

Lemma inv_step k acc : (k < m)%nat -> (m <= 64)%nat -> inv_t k acc -> inv_t (S k) (fs_step basis acc (k, cell k)).
Proof.
  intros Hk Hm. destruct acc as [[[[[[[[[[w b] s] c] ws] wc] bs] bc] hs] st] h]. intros I.
  unfold inv_t in I. destruct I as [Iw Ib Is Ic Ires Ihl Isl Ihs Ist Ih].
  assert (Hf : firstn (S k) cells = firstn k cells ++ [cell k]) by (apply firstn_S_nth; exact Hk).
  destruct (cell k) as [|pp rest] eqn:Ecell.
  - (* empty square: nothing changes *)
    rewrite fs_step_nil. unfold inv_t. constructor.
    + intros j. apply (bit_keep top_white); [now rewrite Ecell|apply Iw].
    + intros j. apply (bit_keep top_black); [now rewrite Ecell|apply Ib].
    + intros j. apply (bit_keep top_stand); [now rewrite Ecell|apply Is].
    + intros j. apply (bit_keep top_cap); [now rewrite Ecell|apply Ic].
    + rewrite Hf, concat_app. cbn [concat app]. now rewrite app_nil_r.
    + exact Ihl.
    + exact Isl.
    + intros j. rewrite Ihs. destruct (Nat.eqb_spec j k) as [->|Hne].
      * replace (k <? k)%nat with false by lia. replace (k <? S k)%nat with true by lia. now rewrite Ecell.
      * now replace (j <? S k)%nat with (j <? k)%nat by lia.
    + intros j. rewrite Ist. destruct (Nat.eqb_spec j k) as [->|Hne].
      * replace (k <? k)%nat with false by lia. replace (k <? S k)%nat with true by lia. now rewrite Ecell.
      * now replace (j <? S k)%nat with (j <? k)%nat by lia.
    + rewrite seq_S, fold_left_app. cbn [fold_left plus]. rewrite <- Ih.
      rewrite hash_at_nil; [now rewrite N.lxor_0_r|]. rewrite Ihs. now replace (k <? k)%nat with false by lia.
  - (* a stack *)
    rewrite fs_step_cons by discriminate. cbv zeta. rewrite <- Ecell. rewrite <- Ecell in Hf. unfold inv_t. constructor.
    + intros j. apply (bit_step top_white); [lia|apply Iw].
    + intros j. apply (bit_step top_black); [lia|apply Ib].
    + intros j. apply (bit_step top_stand); [lia|apply Is].
    + intros j. apply (bit_step top_cap); [lia|apply Ic].
    + rewrite Hf, concat_app, fold_left_app. cbn [concat]. rewrite app_nil_r, <- Ires.
      now destruct (fold_left rstep (cell k) (ws, wc, bs, bc)) as [[[? ?] ?] ?].
    + now rewrite updN_len.
    + now rewrite updN_len.
    + intros j. rewrite nth_updN by lia. rewrite Ihs. destruct (Nat.eqb_spec j k) as [->|Hne].
      * now replace (k <? S k)%nat with true by lia.
      * now replace (j <? S k)%nat with (j <? k)%nat by lia.
    + intros j. rewrite nth_updN by lia. rewrite Ist. destruct (Nat.eqb_spec j k) as [->|Hne].
      * now replace (k <? S k)%nat with true by lia.
      * now replace (j <? S k)%nat with (j <? k)%nat by lia.
    + rewrite seq_S, fold_left_app. cbn [fold_left plus]. f_equal. rewrite Ih.
      apply fold_left_ext_in. intros a i Hi. apply in_seq in Hi. f_equal.
      unfold hash_at, nthN. rewrite Nat2N.id. rewrite !nth_updN by lia.
      now replace (i =? k)%nat with false by lia.
Qed.

Lemma inv_fold : (m <= 64)%nat -> forall k, (k <= m)%nat ->
  inv_t k (fold_left (fs_step basis) (combine (seq 0 k) (firstn k cells))
                     (0, 0, 0, 0, dp, dc, dp, dc, repeat 0 m, repeat 0 m, fnvBasis)).
Proof.
  intros Hm. induction k as [|k IH]; intros Hk.
  - cbn [seq firstn combine fold_left]. apply inv_init.
  - rewrite seq_S, (firstn_S_nth []) by lia. rewrite combine_app by (rewrite seq_length, firstn_length; lia).
    rewrite fold_left_app. cbn [combine fold_left plus]. apply inv_step; [lia|exact Hm|]. apply IH. lia.
Qed.
End Inv.

(* ---- what FromSquares returns ---- *)
Record fs_ok (basis : list N) (n : nat) (cells : list (list pc)) (q : position) : Prop := {
  fo_w : forall j, N.testbit (White q) j = (j <? N.of_nat (length cells)) && top_white (nth (N.to_nat j) cells []);
  fo_b : forall j, N.testbit (Black q) j = (j <? N.of_nat (length cells)) && top_black (nth (N.to_nat j) cells []);
  fo_s : forall j, N.testbit (Standing q) j = (j <? N.of_nat (length cells)) && top_stand (nth (N.to_nat j) cells []);
  fo_c : forall j, N.testbit (Caps q) j = (j <? N.of_nat (length cells)) && top_cap (nth (N.to_nat j) cells []);
  fo_H : Height q = map hgt cells;
  fo_S : Stacks q = map stk_bits cells;
  fo_res : (whiteStones q, whiteCaps q, blackStones q, blackCaps q)
           = fold_left rstep (concat cells) (nth n default_pieces 0, nth n default_caps 0, nth n default_pieces 0, nth n default_caps 0);
  fo_hash : hash q = scratch_hash basis q }.

Lemma list_eq_map {A} (f : list pc -> A) (d : A) (l : list A) (cells : list (list pc)) :
  length l = length cells -> (forall j, nth j l d = if (j <? length cells)%nat then f (nth j cells []) else d) -> l = map f cells.
Proof.
  intros Hl H. apply nth_ext with (d := d) (d' := f []).
  - now rewrite map_length.
  - intros j Hj. rewrite H. replace (j <? length cells)%nat with true by lia.
    now rewrite (map_nth f cells [] j).
Qed.

Theorem from_squares_spec basis sz board mv :
  let n := N.to_nat sz in let cells := flat_map (fun row => row) board in
  length cells = (n * n)%nat -> (n * n <= 64)%nat ->
  let q := from_squares basis sz board mv in
  size q = sz /\ Move.move q = mv /\ black_wins_ties q = false /\ fs_ok basis n cells q.
Proof.
  intros n cells Hlen Hm q. subst q. rewrite from_squares_unfold. fold n. fold cells. cbv zeta.
  pose proof (inv_fold basis cells n ltac:(lia) (length cells) ltac:(lia)) as I.
  rewrite firstn_all in I. unfold fs_init. rewrite <- Hlen.
  destruct (fold_left (fs_step basis) (combine (seq 0 (length cells)) cells) _) as [[[[[[[[[[w b] s] c] ws] wc] bs] bc] hs] st] h].
  unfold inv_t in I. destruct I as [Iw Ib Is Ic Ires Ihl Isl Ihs Ist Ih].
  cbn [size Move.move black_wins_ties]. repeat split; cbn [White Black Standing Caps Height Stacks hash whiteStones whiteCaps blackStones blackCaps]; auto.
  - apply (list_eq_map hgt 0); assumption.
  - apply (list_eq_map stk_bits 0); assumption.
  - rewrite firstn_all in Ires. exact Ires.
  - unfold scratch_hash. cbn [Height Stacks]. rewrite Ihl. exact Ih.
Qed.

(* ---- the stack word FromSquares writes ---- *)
Lemma testbit_shl64_1 k t : N.testbit (shl64 1 k) t = (t =? k) && (k <? 64).
Proof.
  unfold shl64. destruct (N.ltb_spec k 64) as [Hk|Hk].
  - rewrite u64_bit. rewrite <- (bit_lt k Hk), testbit_bit by assumption.
    destruct (N.eqb_spec t k) as [->|]; [|reflexivity]. replace (k <? 64) with true by lia. reflexivity.
  - rewrite N.bits_0. now rewrite andb_false_r.
Qed.

Lemma sstep_fold : forall l v j t, (1 <= j)%nat ->
  N.testbit (fst (fold_left sstep l (v, j))) t =
  N.testbit v t || ((N.of_nat j <=? t + 1) && (t + 1 <? N.of_nat (j + length l)) && (t <? 64)
                    && is_black (nth (N.to_nat (t + 1) - j) l (P false 1))).
Proof.
  induction l as [|pp l IH]; intros v j t Hj.
  - cbn [fold_left fst length]. replace ((N.of_nat j <=? t + 1) && (t + 1 <? N.of_nat (j + 0))) with false by lia.
    cbn [andb]. now rewrite orb_false_r.
  - cbn [fold_left].
    assert (E : sstep (v, j) pp = (if is_black pp then N.lor v (shl64 1 (N.of_nat (j - 1))) else v, S j)).
    { unfold sstep. destruct pp as [[] k]; cbn [is_black]; [|reflexivity]. now replace (j =? 0)%nat with false by lia. }
    rewrite E, IH by lia. cbn [length].
    assert (E1 : N.testbit (if is_black pp then N.lor v (shl64 1 (N.of_nat (j - 1))) else v) t
                 = N.testbit v t || (is_black pp && (t =? N.of_nat (j - 1)) && (t <? 64))).
    { destruct (is_black pp); cbn [andb]; [|now rewrite orb_false_r].
      rewrite N.lor_spec, testbit_shl64_1. f_equal.
      destruct (N.eqb_spec t (N.of_nat (j - 1))) as [->|]; reflexivity. }
    rewrite E1. rewrite <- orb_assoc. f_equal.
    destruct (N.ltb_spec t 64) as [Ht|Ht]; [|now rewrite !andb_false_r].
    rewrite !andb_true_r.
    destruct (N.eqb_spec t (N.of_nat (j - 1))) as [Et|Et].
    + (* this piece *)
      replace (N.to_nat (t + 1) - j)%nat with 0%nat by lia. cbn [nth].
      replace ((N.of_nat j <=? t + 1) && (t + 1 <? N.of_nat (j + S (length l)))) with true by lia.
      replace ((N.of_nat (S j) <=? t + 1) && (t + 1 <? N.of_nat (S j + length l))) with false by lia.
      cbn [andb]. now rewrite andb_true_r, orb_false_r.
    + rewrite andb_false_r. cbn [orb].
      destruct (N.leb_spec (N.of_nat (S j)) (t + 1)) as [Hle|Hle].
      * replace (N.of_nat j <=? t + 1) with true by lia.
        replace (t + 1 <? N.of_nat (j + S (length l))) with (t + 1 <? N.of_nat (S j + length l)) by lia.
        replace (N.to_nat (t + 1) - j)%nat with (S (N.to_nat (t + 1) - S j)) by lia. reflexivity.
      * replace (N.of_nat j <=? t + 1) with false by lia. reflexivity.
Qed.

Lemma stk_bits_spec top below t :
  N.testbit (stk_bits (top :: below)) t = (t <? 64) && (t <? N.of_nat (length below)) && is_black (nth (N.to_nat t) below (P false 1)).
Proof.
  unfold stk_bits. cbn [fold_left].
  assert (E : sstep (0, 0%nat) top = (0, 1%nat)) by (destruct top as [[] k]; reflexivity).
  rewrite E, sstep_fold by lia. rewrite N.bits_0. cbn [orb].
  replace (N.of_nat 1 <=? t + 1) with true by lia. cbn [andb].
  replace (t + 1 <? N.of_nat (1 + length below)) with (t <? N.of_nat (length below)) by lia.
  replace (N.to_nat (t + 1) - 1)%nat with (N.to_nat t) by lia.
  now rewrite (andb_comm (t <? N.of_nat (length below)) (t <? 64)).
Qed.

(* ---- Position.At of the result ---- *)
(* what a square must satisfy to survive FromSquares o At: the shape At produces (flats below a top of kind 1..3),
   a height that fits the uint8, and no black piece deeper than the 64 bits of the stack word *)
Definition cell_ok (sq : list pc) : Prop :=
  sq = [] \/ (wf_square sq /\ (length sq < 256)%nat /\ forall j, (64 <= j)%nat -> is_black (nth (S j) sq (P false 1)) = false).

Lemma flats_eq_map (f : nat -> bool) : forall below s, Forall flat_pc below ->
  (forall j, (j < length below)%nat -> is_black (nth j below (P false 1)) = f (s + j)%nat) ->
  below = map (fun j => P (f j) 1) (seq s (length below)).
Proof.
  induction below as [|[b k] below IH]; intros s Hfl H; [reflexivity|].
  inversion Hfl as [|? ? Hk Hfl']; subst. cbn in Hk. subst k. cbn [length seq map]. f_equal.
  - specialize (H 0%nat ltac:(cbn; lia)). cbn in H. rewrite Nat.add_0_r in H. now rewrite H.
  - apply IH; [assumption|]. intros j Hj. specialize (H (S j) ltac:(cbn; lia)). cbn [nth] in H.
    now replace (S s + j)%nat with (s + S j)%nat by lia.
Qed.

Theorem at_sq_from_squares basis n cells q i : fs_ok basis n cells q -> (length cells <= 64)%nat -> (i < length cells)%nat ->
  cell_ok (nth i cells []) -> at_sq q (N.of_nat i) = nth i cells [].
Proof.
  intros F Hm Hi Hok. destruct F as [Fw Fb Fs Fc FH FS _ _].
  assert (Hi64 : N.of_nat i < 64) by lia.
  assert (Hlt : (N.of_nat i <? N.of_nat (length cells)) = true) by lia.
  unfold at_sq.
  assert (Eocc : (N.land (N.lor (White q) (Black q)) (bit (N.of_nat i)) =? 0)
                 = negb (top_white (nth i cells []) || top_black (nth i cells []))).
  { assert (Hh : has (N.lor (White q) (Black q)) (N.of_nat i) = top_white (nth i cells []) || top_black (nth i cells [])).
    { rewrite has_lor, !has_spec by assumption. now rewrite Fw, Fb, Hlt, Nat2N.id. }
    unfold has in Hh. apply (f_equal negb) in Hh. now rewrite negb_involutive in Hh. }
  rewrite Eocc.
  destruct Hok as [E|(W & Hlen & Hdeep)]; [now rewrite E|].
  destruct (nth i cells []) as [|[tb k] below] eqn:Ecell; [destruct W|].
  destruct W as [Hk Hfl].
  replace (top_white (P tb k :: below) || top_black (P tb k :: below)) with true by (now destruct tb).
  cbn [negb]. unfold nthN. rewrite Nat2N.id, FH, FS.
  rewrite nth_indep with (d' := hgt []) by (rewrite map_length; exact Hi). rewrite (map_nth hgt cells [] i), Ecell.
  rewrite nth_indep with (d' := stk_bits []) by (rewrite map_length; exact Hi). rewrite (map_nth stk_bits cells [] i), Ecell.
  unfold hgt, u8. rewrite N.mod_small by lia. rewrite Nat2N.id. cbn [length].
  rewrite !has_spec by assumption. rewrite Fw, Fs, Fc, Hlt, Nat2N.id, Ecell. cbn [andb top_white top_stand top_cap].
  f_equal.
  - f_equal.
    + now destruct tb.
    + destruct Hk as [->|[->| ->]]; reflexivity.
  - symmetry. apply flats_eq_map; [exact Hfl|]. intros j Hj. cbn [plus].
    rewrite stk_bits_spec. rewrite Nat2N.id. replace (N.of_nat j <? N.of_nat (length below)) with true by lia.
    rewrite andb_true_r. destruct (N.ltb_spec (N.of_nat j) 64) as [Hj64|Hj64]; [reflexivity|].
    cbn [andb]. apply (Hdeep j). lia.
Qed.
