(* C08 (and C01/C10), custom configurations, part 6: "however produced" with FromSquares and symmetry images under ANY configuration.
   produced_cfg: the closure of Import6.produced under tak.FromSquares(cfg, fitting board) for an arbitrary configuration, the images
   symmetry.Symmetries rebuilds with p.Config() (SymmetryCfg.image_cfg), moves within the 64 limit and Pass.  Every such position satisfies
   the C01 invariant (produced_cfg_ok), hence Equal and Hash depend only on size, squares and side to move (equal_hash_however_produced_cfg),
   and Equal is sound (equal_sound_produced_cfg): two positions of different configurations (piece counts, tie-break flag) showing the same
   board with the same side to move are Equal and have the same Hash - Equal and Hash do not look at the configuration. *)
From Coq Require Import NArith ZArith Arith List Bool Lia ZifyN ZifyBool ZifyNat.
Require Import Rules Sym SymRules1 SymRules2.
Require Import Board Stack Move Refine Slide2 MoveRefines HashInv GameOver Preserve1 Preserve5 Preserve6 Reach1 HashMove1 Canon8.
Require Import Alloc Generated.Consts.
Require Import Tps TpsCfg Symmetry SymmetryCfg SymCode1.
Require Import TpsFacts5 Import1 Import2 Import3 Import4 Import6 ImportCfg1 ImportCfg2 ImportCfg3.
Import ListNotations.
Close Scope Z_scope. Close Scope N_scope.

Inductive produced_cfg : position -> Prop :=
| pc_produced p : produced p -> produced_cfg p                                   (* tak.New (any configuration), FromSquares / ParseTPS at Config{Size}, ... *)
| pc_squares n stones caps bwt board mv : fit_board n board ->
    produced_cfg (from_squares_cfg gen_basis (N.of_nat n) stones caps bwt board mv)   (* tak.FromSquares under ANY configuration *)
| pc_image stones caps p s : produced_cfg p ->
    produced_cfg (image_cfg gen_basis stones caps p s)                          (* Symmetries' rebuild with p.Config(), any map s *)
| pc_image0 p s : produced_cfg p -> produced_cfg (image gen_basis p s)          (* ... and at Config{Size} *)
| pc_move p m p' : produced_cfg p -> mT m <> 1%N -> mv p m = Ok p' -> heights64 p' -> produced_cfg p'
| pc_pass p m p' : produced_cfg p -> mT m = 1%N -> Alloc.amv hsq p m = Ok p' -> produced_cfg p'.

Theorem produced_cfg_ok p : produced_cfg p -> pos_ok p.
Proof.
  induction 1 as [p Hp|n stones caps bwt board mv FB|stones caps p s _ IH|p s _ IH|p m p' _ IH Hm E H64|p m p' _ IH Hm E].
  - now apply produced_ok.
  - now apply from_squares_cfg_pos_ok.
  - now apply image_cfg_pos_ok.
  - now apply image_pos_ok.
  - pose proof (move_exact p m IH Hm) as R. rewrite E in R. destruct R as (a & _ & _ & _ & R). now destruct (R H64).
  - exact (pass_pos_ok p m p' IH Hm E).
Qed.

Theorem equal_hash_however_produced_cfg p q : produced_cfg p -> produced_cfg q ->
  size p = size q -> same_at p q -> same_side p q ->
  equal p q = true /\ hash_of p = hash_of q /\ hash p = hash q.
Proof.
  intros Pp Pq Es Ea Et. pose proof (produced_cfg_ok p Pp) as Hp. pose proof (produced_cfg_ok q Pq) as Hq.
  apply (same_at_abs p q Hp Hq Es) in Ea.
  destruct (equal_complete p q Hp Hq Es Ea Et) as [A B].
  destruct (representation_canonical p q Hp Hq Es Ea) as (_ & _ & _ & _ & _ & _ & C). auto.
Qed.
Print Assumptions equal_hash_however_produced_cfg.

Theorem equal_sound_produced_cfg p q : produced_cfg p -> produced_cfg q -> equal p q = true ->
  size p = size q /\ same_at p q /\ same_side p q.
Proof.
  intros Pp Pq E. pose proof (produced_cfg_ok p Pp) as Hp. pose proof (produced_cfg_ok q Pq) as Hq.
  destruct (equal_sound p q Hp Hq E) as (A & B & C & _). split; [exact A|]. split; [|exact C].
  now apply (same_at_abs p q Hp Hq A).
Qed.
Print Assumptions equal_sound_produced_cfg.

(* non-vacuity: the 5x5 board of Import1.v built under the default configuration and under 7 stones / 3 capstones with BlackWinsTies are
   different records (reserves, flag) that are Equal and hash alike; an image under the configuration is produced too *)
Example ex_however_produced_cfg :
  let q0 := from_squares gen_basis 5 ex_board5 13 in
  let q1 := from_squares_cfg gen_basis 5 7 3 true ex_board5 13 in
  produced_cfg q0 /\ produced_cfg q1 /\ produced_cfg (image_cfg gen_basis 7 3 q1 (csym 5 6)) /\ q0 <> q1 /\
  equal q0 q1 = true /\ hash_of q0 = hash_of q1.
Proof.
  intros q0 q1. destruct ex_fit as [FB _].
  assert (P0 : produced_cfg q0) by (apply pc_produced; exact (pr_squares 5 ex_board5 13 FB)).
  assert (P1 : produced_cfg q1) by (exact (pc_squares 5 7 3 true ex_board5 13 FB)).
  split; [exact P0|]. split; [exact P1|]. split; [now apply pc_image|].
  split; [intros E; apply (f_equal Move.black_wins_ties) in E; vm_compute in E; discriminate|].
  assert (Es : size q0 = size q1) by reflexivity.
  assert (At : same_at q0 q1).
  { apply (same_at_abs q0 q1 (produced_cfg_ok _ P0) (produced_cfg_ok _ P1) Es).
    pose proof (from_squares_cfg_abs_sq 5 7 3 true ex_board5 13 FB) as A1. pose proof (from_squares_abs_sq 5 ex_board5 13 FB) as A0.
    change (N.of_nat 5) with 5%N in A0, A1. fold q0 in A0. fold q1 in A1. now rewrite A0, A1. }
  assert (Sd : same_side q0 q1) by reflexivity.
  destruct (equal_hash_however_produced_cfg q0 q1 P0 P1 Es At Sd) as (E1 & E2 & _). auto.
Qed.
