(* What a conditional bound (DfpnRep1.CL) stored in the table can get wrong: CL A p is a plain fact as soon as no ancestor in A
   is won, and if p IS won within n plies then some ancestor in A is won within n plies too.  So a stored `disproven` of a won
   position p always stems from a stack on which an attacker-won position at least as fast as p was still open - the search
   was exploring a bad attacker move below a won position and came back to it through a cycle.  (This is the situation of the
   refuting runs in notes/prove3_cong_report.txt: the ancestor is proven later, the entry of the side position p stays.) *)
From Coq Require Import NArith List Bool.
Require Import Board Move GameOver AndOr Pn PnFacts Dfpn DfpnRep1.
Import ListNotations.

Section CLFacts.
Variable basis : list N.
Variable aw : bool.
Notation wnp := (wn position (PnFacts.succs basis) (PnFacts.terminal aw) (PnFacts.attp aw)).

Lemma CL_fact A p : CL basis aw A p -> (forall a, In a A -> forall n, wnp n a = false) -> forall n, wnp n p = false.
Proof. intros H HA n. apply H. intros a Ha. now apply HA. Qed.

Lemma CL_won A p n : CL basis aw A p -> wnp n p = true -> exists a, In a A /\ wnp n a = true.
Proof.
  intros H Hw. destruct (existsb (wnp n) A) eqn:E.
  - apply existsb_exists in E. exact E.
  - rewrite H in Hw; [discriminate|]. intros a Ha.
    destruct (wnp n a) eqn:Ea; [|reflexivity].
    assert (existsb (wnp n) A = true) by (apply existsb_exists; eauto). congruence.
Qed.

(* cut: a conditional bound can be re-based on the ancestors of an ancestor that was itself bounded *)
Lemma CL_cut A a p : CL basis aw A a -> CL basis aw (a :: A) p -> CL basis aw A p.
Proof. intros Ha Hp n HA. apply Hp. intros b [<-|Hb]; [now apply Ha|now apply HA]. Qed.
End CLFacts.
Print Assumptions CL_won.
