(* Opening.v: code-shaped model of ai/opening.go (BuildOpeningBook, OpeningBook.GetMove, OpeningPlayer.GetMove).

   The book.  Go keeps `map[uint64]*openingPosition` keyed by Position.Hash(); the map is only ever looked up by key and
   assigned by key (never ranged over), so the model is an association list in INSERTION order with at most one entry per
   hash: [book_get] is the lookup, [book_bump] the in-place update through the stored pointer.  An entry keeps the
   position that CREATED it (`sym.P` of the first image with that hash) and the children in append order.

   BuildOpeningBook(size, lines).  A line is a byte list; `strings.Split(line, " ")` is [split_sp] (a line without a
   space is one word, two adjacent spaces give an empty word, which ParseMove rejects).  For every word, in this order:
   ptn.ParseMove (model: PtnMove.parse_move; error exit 1), symmetry.Symmetries(p) (model: Symmetry.symmetries, the eight
   rebuilt boards de-duplicated by hash; its only error is FromSquares' "bad stone", which cannot arise from squares read
   back with Position.At and is not representable in the model's piece type: error exit 2 is unreachable and absent), the
   update of the book for every kept image (entry looked up / created BEFORE TransformMove is called, child found with
   Move.Equal or appended with weight 0, then weight++), and only then p.Move(m) (error exit 3).  Note the order: an
   illegal move is entered into the book before the error is returned - the caller gets (nil, error), so no book with
   an illegal move escapes.  `tak.New(tak.Config{Size: size})` is evaluated once per line (panics for sizes outside
   3..8 as in Tei.new_pos; with no line at all nothing is ever built and every size is accepted).  The two loops are
   folds whose error states absorb (a `return` leaves both loops); written as Fixpoints over the huge bodies of
   move_prealloc / from_squares the guard checker did not terminate.

   OpeningBook.GetMove(p, r).  The random source is an oracle [rnd i n] = the result of the i-th call r.Int31n(n) (math/rand
   panics for n <= 0: kept).  The reservoir loop is transcribed literally: `sum += ch.weight` in Go int (wrap64),
   `r.Int31n(int32(sum)) < int32(ch.weight)` with both conversions (wrap32).  The result carries the index of the next
   unused draw so that successive calls on one OpeningPlayer can be chained.

   OpeningPlayer.GetMove: the book's answer when it has one, else the inner player (an oracle function). *)
From Coq Require Import NArith ZArith List Bool.
Require Import Board Move GameOver PtnMove Playtak Tps Symmetry.
Import ListNotations.
Local Open Scope N_scope.

Notation res := Move.res.
Notation Ok := Move.Ok. Notation Err := Move.Err. Notation Panic := Move.Panic.

Definition to_rmove (m : PtnMove.move) : rmove :=
  {| Move.mX := PtnMove.mX m; Move.mY := PtnMove.mY m; Move.mT := PtnMove.mT m; Move.mS := PtnMove.mS m |}.

Definition wrap32 (z : Z) : Z := ((z + 2147483648) mod 4294967296 - 2147483648)%Z.                       (* int32(x) *)
Definition wrap64 (z : Z) : Z := ((z + 9223372036854775808) mod 18446744073709551616 - 9223372036854775808)%Z.   (* Go int *)

(* tak.Move.Equal *)
Definition move_equal (a b : rmove) : bool :=
  (Move.mX a =? Move.mX b)%Z && (Move.mY a =? Move.mY b)%Z && (Move.mT a =? Move.mT b) &&
  (if 5 <=? Move.mT a then Move.mS a =? Move.mS b else true).

Record child := { ch_move : rmove; ch_weight : Z }.
Record bentry := { be_hash : N; be_pos : position; be_moves : list child }.
Definition book := list bentry.

Fixpoint book_get (b : book) (h : N) : option bentry :=
  match b with
  | [] => None
  | e :: r => if be_hash e =? h then Some e else book_get r h
  end.

(* the child loop of BuildOpeningBook: first child Equal to sm gets weight++; none: append {sm, 0}, then weight++ *)
Fixpoint bump (ms : list child) (sm : rmove) : list child :=
  match ms with
  | [] => [ {| ch_move := sm; ch_weight := wrap64 (0 + 1) |} ]
  | c :: r => if move_equal (ch_move c) sm then {| ch_move := ch_move c; ch_weight := wrap64 (ch_weight c + 1) |} :: r
              else c :: bump r sm
  end.

(* pos.moves = ... through the pointer stored under hash h *)
Fixpoint book_bump (b : book) (h : N) (sm : rmove) : book :=
  match b with
  | [] => []
  | e :: r => if be_hash e =? h then {| be_hash := be_hash e; be_pos := be_pos e; be_moves := bump (be_moves e) sm |} :: r
              else e :: book_bump r h sm
  end.

(* strings.Split(line, " ") *)
Fixpoint split_sp (s : list N) (cur : list N) : list (list N) :=
  match s with
  | [] => [rev cur]
  | c :: r => if c =? 32 then rev cur :: split_sp r [] else split_sp r (c :: cur)
  end.

(* result of BuildOpeningBook: the book, an error (kind 1 = ParseMove, 3 = Position.Move; line number and the word, as in
   the message "line %d: move `%s`: %v"), or a panic *)
Inductive bres := BOk (b : book) | BErr (kind : N) (lno : nat) (word : list N) | BPanic.

Section B.
Variable basis : list N.

Definition bmove := move_prealloc (hash_sq basis) true.          (* Position.Move *)

(* tak.New(tak.Config{Size: size}) *)
Definition new_pos (sz : Z) : res position :=
  if ((sz <? 0) || (8 <? sz))%Z then Panic                       (* defaultPieces[size] *)
  else if (sz <? 3)%Z then Panic                                  (* alloc: panic("illegal size") *)
  else Ok (from_squares basis (Z.to_N sz) (repeat (repeat [] (Z.to_nat sz)) (Z.to_nat sz)) 0).

(* the body of `for _, sym := range rs` for one kept image (sym.P, index of sym.S among symmetries(size)) *)
Definition add_sym (sz : Z) (m : rmove) (acc : res book) (qk : position * nat) : res book :=
  match acc with
  | Ok b =>
    let h := hash_of (fst qk) in
    let b1 := match book_get b h with
              | Some _ => b
              | None => b ++ [ {| be_hash := h; be_pos := fst qk; be_moves := [] |} ]
              end in
    match transform_move (nth (snd qk) (syms sz) (fun x y => (x, y))) m with
    | Ok sm => Ok (book_bump b1 h sm)
    | Err => Err
    | Panic => Panic                                              (* "symmetry is not sane" *)
    end
  | e => e
  end.

(* `for _, b := range bits`: one word.  The loops are folds with an absorbing error state (a return leaves both loops). *)
Inductive lstate := LOk (b : book) (p : position) | LErr (kind : N) (word : list N) | LPanic.

Definition line_step (acc : lstate) (w : list N) : lstate :=
  match acc with
  | LOk b p =>
    match parse_move w with
    | PtnMove.Ok m0 =>
      let m := to_rmove m0 in
      match fold_left (add_sym (Z.of_N (size p)) m) (symmetries basis p) (Ok b) with
      | Ok b' =>
        match bmove p m with
        | Ok p' => LOk b' p'
        | Err => LErr 3 w
        | Panic => LPanic
        end
      | _ => LPanic
      end
    | PtnMove.Err => LErr 1 w
    | PtnMove.Panic => LPanic
    end
  | e => e
  end.

(* `for lno, line := range lines`: the state is (book so far, lno) *)
Definition build_step (sz : Z) (acc : bres * nat) (line : list N) : bres * nat :=
  match acc with
  | (BOk b, lno) =>
    match new_pos sz with
    | Ok p => match fold_left line_step (split_sp line []) (LOk b p) with
              | LOk b' _ => (BOk b', S lno)
              | LErr k w => (BErr k lno w, lno)
              | LPanic => (BPanic, lno)
              end
    | _ => (BPanic, lno)
    end
  | e => e
  end.

Definition build_book (sz : Z) (lines : list (list N)) : bres := fst (fold_left (build_step sz) lines (BOk [], 0%nat)).
End B.

(* ---- OpeningBook.GetMove ---- *)
Definition zero_move : rmove := {| Move.mX := 0; Move.mY := 0; Move.mT := 0; Move.mS := 0 |}.

Fixpoint pick (rnd : nat -> Z -> Z) (i : nat) (ms : list child) (sum : Z) (out : rmove) : res (rmove * nat) :=
  match ms with
  | [] => Ok (out, i)
  | c :: r =>
    let sum := wrap64 (sum + ch_weight c) in
    let n := wrap32 sum in
    if (n <=? 0)%Z then Panic                                     (* Int31n: "invalid argument to Int31n" *)
    else pick rnd (S i) r sum (if (rnd i n <? wrap32 (ch_weight c))%Z then ch_move c else out)
  end.

(* (move, ok, index of the next draw) *)
Definition book_get_move (b : book) (p : position) (rnd : nat -> Z -> Z) (i : nat) : res (rmove * bool * nat) :=
  match book_get b (hash_of p) with
  | None => Ok (zero_move, false, i)
  | Some e => match pick rnd i (be_moves e) 0 zero_move with
              | Ok (m, j) => Ok (m, true, j)
              | Err => Err
              | Panic => Panic
              end
  end.

(* ---- OpeningPlayer.GetMove ---- *)
Definition opening_player_get_move (b : book) (inner : position -> res rmove) (p : position) (rnd : nat -> Z -> Z) (i : nat)
  : res (rmove * nat) :=
  match book_get_move b p rnd i with
  | Ok (m, true, j) => Ok (m, j)
  | Ok (_, false, j) => match inner p with Ok m => Ok (m, j) | Err => Err | Panic => Panic end
  | Err => Err
  | Panic => Panic
  end.
