(* SearchGen.v: the move generator of ai/moves.go (Search.mg_next) without a table entry: whatever the engine state does between
   two calls of Next, the generator yields only legal successors, and when it is exhausted every legal successor has been
   yielded at least once (the hint moves pv[0] and the response move are tried first and skipped later; a hint that is
   illegal is skipped both times). *)
From Coq Require Import NArith ZArith List Bool Lia Permutation.
Require Import Board Move GameOver Eval Search NegamaxSpec.
Import ListNotations.
Open Scope Z_scope.

Definition okm (m : rmove) : Prop := mT m <> 1%N.          (* not the Pass move *)

(* ---- the stable stand-in for sort.Sort permutes ---- *)
Lemma insert_sorted_perm h l : Permutation (insert_sorted h l) (h :: l).
Proof.
  induction l as [|x r IH]; simpl; [reflexivity|].
  destruct (snd x <? snd h); [reflexivity|]. rewrite IH. apply perm_swap.
Qed.
Lemma sort_moves_perm s ms : Permutation (sort_moves s ms) ms.
Proof.
  unfold sort_moves.
  set (key := fun m : rmove => (m, match assoc m (history s) with Some v => v | None => 0 end)).
  induction ms as [|m r IH]; simpl; [reflexivity|].
  rewrite (Permutation_map fst (insert_sorted_perm (key m) (fold_right insert_sorted [] (map key r)))).
  simpl. constructor. exact IH.
Qed.

Lemma assoc_in {V} k (l : list (rmove * V)) v : assoc k l = Some v -> In v (map snd l).
Proof.
  induction l as [|[k' v'] r IH]; simpl; [discriminate|].
  destruct (rmove_eqb k k'); [intros E; inversion E; left; reflexivity|intros E; right; apply IH; exact E].
Qed.

(* ---- two facts about the rules model that the generator relies on ---- *)
(* AllMoves never generates the Pass move *)
Lemma all_moves_types p m : In m (all_moves p) -> (2 <= mT m <= 8)%N.
Proof.
  unfold all_moves. intros H.
  apply in_flat_map in H. destruct H as (x & _ & H).
  apply in_flat_map in H. destruct H as (y & _ & H).
  repeat match type of H with
  | In _ (if ?c then _ else _) => destruct c
  | In _ (_ :: _) => destruct H as [<-|H]; [cbn; lia|]
  | In _ [] => destruct H
  end.
  apply in_flat_map in H. destruct H as ([t dc] & Ht & H).
  apply in_flat_map in H. destruct H as (sl & _ & H).
  destruct (N.land sl _ =? 0)%N; [|destruct H]. destruct H as [<-|[]]. cbn [mT fst].
  cbn in Ht. destruct Ht as [E|[E|[E|[E|[]]]]]; inversion E; subst; lia.
Qed.

Lemma all_moves_okm p m : In m (all_moves p) -> okm m.
Proof. intros H. apply all_moves_types in H. unfold okm. lia. Qed.

Lemma move_equal_try basis p a b : move_equal a b = true -> try_move basis p a = try_move basis p b.
Proof.
  unfold move_equal. intros H. destruct a as [ax ay at_ as_], b as [bx by_ bt bs]. cbn [mX mY mT mS] in H.
  apply andb_true_iff in H. destruct H as [H HS]. apply andb_true_iff in H. destruct H as [H HT].
  apply andb_true_iff in H. destruct H as [HX HY]. apply Z.eqb_eq in HX. apply Z.eqb_eq in HY. apply N.eqb_eq in HT. subst.
  destruct (5 <=? bt)%N eqn:E5; [apply N.eqb_eq in HS; subst; reflexivity|].
  apply N.leb_gt in E5.
  unfold try_move, mvp, move_prealloc. cbn [mX mY mT mS].
  destruct bt as [|[[[|[]|]|[[]|[]|]|]|[[]|[]|]|]]; try lia; try reflexivity.
Qed.

Section Gen.
Variable pinned : bool.
Variable basis : list N.
Variable cfg : config.
Variable p : position.

(* facts about the rules engine at p (C03 territory), assumed here: an accepted move is (up to Move.Equal) a generated one; a bound on AllMoves *)
Hypothesis Hhint : forall m q, okm m -> try_move basis p m = Some q -> In q (children basis p).
Let Heq a b := move_equal_try basis p a b.
Let Hnp m := all_moves_okm p m.

Let len := Z.of_nat (length (all_moves p)).

Lemma try_move0 : try_move basis p move0 = None.
Proof.
  unfold try_move, mvp, move_prealloc. cbn [mT move0 N.eqb].
  match goal with |- context [if ?c then Err else _] => destruct c end; reflexivity.
Qed.

Lemma try_ok m : okm m -> try_move basis p m = match mvp basis p m with Ok q => Some q | _ => None end.
Proof. unfold okm, try_move. intros H. destruct (mT m =? 1)%N eqn:E; [apply N.eqb_eq in E; contradiction|reflexivity]. Qed.

(* the generator invariant: [seen] = the successors yielded so far *)
Record GI (seen : list position) (g : mgen) : Prop := {
  gi_p : g_p g = p;
  gi_te : g_te g = None;
  gi_tec : g_tec g = None;
  gi_pv : Forall okm (g_pv g);
  gi_i0 : 0 <= g_i g;
  gi_pvdone : 2 <= g_i g -> forall m0 rest q, g_pv g = m0 :: rest -> try_move basis p m0 = Some q -> In q seen;
  gi_r : okm (g_r g);
  gi_rpre : g_i g <= 2 -> g_r g = move0;
  gi_rdone : 3 <= g_i g -> forall q, try_move basis p (g_r g) = Some q -> In q seen;
  gi_ms_none : g_i g <= 3 -> g_ms g = None;
  gi_ms : 4 <= g_i g -> exists ms, g_ms g = Some ms /\ Permutation ms (all_moves p) /\
          forall j, 0 <= j < g_i g - 4 -> forall q, try_move basis p (znth ms j move0) = Some q -> In q seen
}.

Lemma GI_new s pv ply depth : Forall okm pv -> GI [] (new_gen s None pv ply depth p).
Proof.
  clear Hhint. intros Hpv. constructor; cbn [new_gen g_p g_te g_tec g_pv g_i g_r g_ms option_map]; try reflexivity; try assumption; try lia.
  - unfold okm, move0; cbn. discriminate.
Qed.

Lemma GI_seti0 seen g : GI seen g -> g_i g = 0 -> GI seen (set_i g 0).
Proof. intros G E. destruct g; cbn in *; subst. exact G. Qed.

Lemma te_move_none s seen g : GI seen g -> te_move pinned s g = None.
Proof. intros G. unfold te_move. rewrite (gi_te _ _ G), (gi_tec _ _ G). destruct pinned; reflexivity. Qed.

Lemma gi_exhausted seen g ms : GI seen g -> 4 <= g_i g -> g_ms g = Some ms -> Z.of_nat (length ms) <= g_i g - 4 ->
  forall q, In q (children basis p) -> In q seen.
Proof.
  intros G H4 Hms Hl q Hq. destruct (gi_ms _ _ G H4) as (ms' & E & P & C). rewrite Hms in E. inversion E; subst ms'.
  apply in_children in Hq. destruct Hq as (m & Hm & Hq).
  assert (Hin : In m ms) by (apply (Permutation_in m (Permutation_sym P)); exact Hm).
  destruct (In_nth ms m move0 Hin) as (n & Hn & En).
  apply (C (Z.of_nat n)); [lia|]. unfold znth. rewrite Nat2Z.id, En. rewrite (try_ok m (Hnp m Hm)), Hq. reflexivity.
Qed.

Lemma In_cons_mono {A} (x : A) l y : In y l -> In y (x :: l).
Proof. intros; right; assumption. Qed.

(* weaken: more has been seen *)
Lemma GI_more seen g q : GI seen g -> GI (q :: seen) g.
Proof.
  intros G. destruct G. constructor; auto.
  - intros H m0 rest q0 E T. right. eauto.
  - intros H q0 T. right. eauto.
  - intros H. destruct (gi_ms0 H) as (ms & E & P & C). exists ms. repeat split; auto. intros j Hj q0 T. right. eauto.
Qed.

Definition step_ok (seen : list position) (g : mgen) (r : mgen * option (rmove * position)) : Prop :=
  match r with
  | (g', Some (m, q)) => okm m /\ try_move basis p m = Some q /\ In q (children basis p) /\ GI (q :: seen) g' /\ g_i g < g_i g' /\ g_i g' <= len + 4
  | (g', None) => forall q, In q (children basis p) -> In q seen
  end.

Lemma step_ok_lt seen g g2 r : g_i g <= g_i g2 -> step_ok seen g2 r -> step_ok seen g r.
Proof. intros L. destruct r as [g' [[m q]|]]; cbn; [|tauto]. intros (A & B & C & D & E & F). refine (conj A (conj B (conj C (conj D (conj _ F))))). lia. Qed.

Lemma step_some seen g g' m q : okm m -> try_move basis p m = Some q -> GI (q :: seen) g' -> g_i g < g_i g' -> g_i g' <= len + 4 ->
  step_ok seen g (g', Some (m, q)).
Proof. intros A B D E F. cbn. refine (conj A (conj B (conj (Hhint m q A B) (conj D (conj E F))))). Qed.

Lemma mg_next_step : forall f g seen s, GI seen g -> Forall okm (map snd (response s)) -> len + 6 - g_i g < Z.of_nat f ->
  step_ok seen g (mg_next pinned basis cfg f s g).
Proof.
  induction f; intros g seen s G HR HF.
  { (* no fuel: the generator is already past the end *)
    cbn [mg_next step_ok]. pose proof (gi_i0 _ _ G). assert (H4 : 4 <= g_i g) by (cbn in HF; lia).
    destruct (gi_ms _ _ G H4) as (ms & E & P & C). apply (gi_exhausted seen g ms G H4 E).
    rewrite (Permutation_length P). fold len. cbn in HF. lia. }
  cbn [mg_next]. rewrite (te_move_none s seen g G).
  pose proof (gi_i0 _ _ G) as I0.
  assert (HF' : forall g2, g_i g < g_i g2 -> len + 6 - g_i g2 < Z.of_nat f) by (intros; lia).
  destruct (g_i g =? 0) eqn:E0.
  { (* case 0: no table entry *)
    apply Z.eqb_eq in E0. apply (step_ok_lt seen g (set_i g 1)); [cbn; lia|].
    apply IHf; [|assumption|apply HF'; cbn; lia].
    destruct G. constructor; cbn [set_i g_p g_te g_tec g_pv g_i g_r g_ms]; auto; try lia. intros _. apply gi_rpre0; lia. intros _. apply gi_ms_none0; lia. }
  destruct (g_i g =? 1) eqn:E1.
  { (* case 1: pv[0] *)
    apply Z.eqb_eq in E1.
    assert (G2 : forall seen', (forall m0 rest q, g_pv g = m0 :: rest -> try_move basis p m0 = Some q -> In q seen') ->
                 (forall q, In q seen -> In q seen') -> GI seen' (set_i g 2)).
    { intros seen' Hpv Hmono. destruct G. constructor; cbn [set_i g_p g_te g_tec g_pv g_i g_r g_ms]; auto; try lia.
      - intros _. apply gi_rpre0; lia. - intros _. apply gi_ms_none0; lia. }
    destruct (g_pv g) as [|m rest] eqn:EP.
    - apply (step_ok_lt seen g (set_i g 2)); [cbn; lia|]. apply IHf; [|assumption|apply HF'; cbn; lia].
      apply G2; [intros; discriminate|auto].
    - cbn [set_i g_p]. destruct (try_move basis (g_p g) m) as [q|] eqn:ET; rewrite (gi_p _ _ G) in ET.
      + assert (Hm : okm m) by (pose proof (gi_pv _ _ G) as F; rewrite EP in F; inversion F; assumption).
        apply step_some; [assumption|assumption| |cbn; lia|cbn; unfold len; lia].
        apply G2; [|intros; right; assumption]. intros m0 rest0 q0 E T. inversion E; subst. rewrite ET in T. inversion T. left; reflexivity.
      + apply (step_ok_lt seen g (set_i g 2)); [cbn; lia|]. apply IHf; [|assumption|apply HF'; cbn; lia].
        apply G2; [|auto]. intros m0 rest0 q0 E T. inversion E; subst. rewrite ET in T. discriminate. }
  destruct (g_i g =? 2) eqn:E2.
  { (* case 2: the response move *)
    apply Z.eqb_eq in E2.
    assert (G3 : forall seen' r, okm r -> (forall q, try_move basis p r = Some q -> In q seen') -> (forall q, In q seen -> In q seen') ->
                 GI seen' {| g_te := g_te g; g_tec := g_tec g; g_pv := g_pv g; g_r := r; g_ms := g_ms g; g_i := 3; g_ply := g_ply g; g_depth := g_depth g; g_p := g_p g |}).
    { intros seen' r Hr Hd Hmono. destruct G. constructor; cbn [g_p g_te g_tec g_pv g_i g_r g_ms]; auto; try lia.
      - intros _ m0 rest q E T. apply Hmono. apply (gi_pvdone0 ltac:(lia) m0 rest q E T).
      - intros _. apply gi_ms_none0; lia. }
    assert (G3' : GI seen (set_i g 3)).
    { destruct G. constructor; cbn [set_i g_p g_te g_tec g_pv g_i g_r g_ms]; auto; try lia.
      - intros _. apply gi_pvdone0; lia.
      - intros _ q T. rewrite (gi_rpre0 ltac:(lia)) in T. rewrite try_move0 in T. discriminate.
      - intros _. apply gi_ms_none0; lia. }
    destruct (g_ply g =? 0).
    - apply (step_ok_lt seen g (set_i g 3)); [cbn; lia|]. apply IHf; [assumption|assumption|apply HF'; cbn; lia].
    - destruct (assoc (znth (fm s) (g_ply g - 1) move0) (response s)) as [r|] eqn:ER.
      + assert (Hr : okm r) by (rewrite Forall_forall in HR; apply HR; apply (assoc_in _ _ _ ER)).
        cbn [g_p]. destruct (try_move basis (g_p g) r) as [q|] eqn:ET; rewrite (gi_p _ _ G) in ET.
        * apply step_some; [assumption|assumption| |cbn; lia|cbn; unfold len; lia].
          apply G3; [assumption| |intros; right; assumption]. intros q0 T. rewrite ET in T. inversion T. left; reflexivity.
        * match goal with |- step_ok _ _ (mg_next _ _ _ _ _ ?g3) => apply (step_ok_lt seen g g3); [cbn; lia|] end.
          apply IHf; [|assumption|apply HF'; cbn; lia]. apply G3; [assumption| |auto]. intros q0 T. rewrite ET in T. discriminate.
      + match goal with |- step_ok _ _ (mg_next _ _ _ _ _ ?g3) => apply (step_ok_lt seen g g3); [cbn; lia|] end.
        apply IHf; [|assumption|apply HF'; cbn; lia].
        apply G3; [unfold okm, move0; cbn; discriminate| |auto]. intros q0 T. rewrite try_move0 in T. discriminate. }
  (* case 3 and the default case *)
  apply Z.eqb_neq in E0. apply Z.eqb_neq in E1. apply Z.eqb_neq in E2.
  match goal with |- context [if g_i g =? 3 then ?G4 else g] => set (g1 := if g_i g =? 3 then G4 else g) end.
  assert (G1 : GI seen g1 /\ 4 <= g_i g1 /\ g_i g <= g_i g1).
  { subst g1. destruct (g_i g =? 3) eqn:E3.
    - apply Z.eqb_eq in E3. split; [|cbn; lia].
      rewrite (gi_ms_none _ _ G ltac:(lia)).
      destruct G. constructor; cbn [g_p g_te g_tec g_pv g_i g_r g_ms]; auto; try lia.
      + intros _. apply gi_pvdone0; lia.
      + intros _. apply gi_rdone0; lia.
      + intros _. eexists. split; [reflexivity|]. split; [|intros; lia].
        rewrite gi_p0. destruct ((1 <? g_depth g) && negb (c_nosort cfg)); [apply sort_moves_perm|reflexivity].
    - apply Z.eqb_neq in E3. split; [assumption|lia]. }
  clearbody g1. destruct G1 as (G1 & H4 & HLE).
  destruct (gi_ms _ _ G1 H4) as (ms & EMS & PERM & COV). rewrite EMS.
  set (g2 := set_i g1 (g_i g1 + 1)).
  assert (LEN : Z.of_nat (length ms) = len) by (unfold len; rewrite (Permutation_length PERM); reflexivity).
  destruct (Z.of_nat (length ms) <=? g_i g1 - 4) eqn:EL.
  { apply Z.leb_le in EL. cbn [step_ok]. apply (gi_exhausted seen g1 ms G1 H4 EMS EL). }
  apply Z.leb_gt in EL.
  assert (LT2 : g_i g < g_i g2 /\ g_i g2 <= len + 4) by (subst g2; cbn [set_i g_i]; lia).
  set (m := znth ms (g_i g1 - 4) move0).
  assert (Hin : In m ms). { subst m. unfold znth. apply nth_In. lia. }
  assert (Hm : okm m) by (apply Hnp; apply (Permutation_in m PERM Hin)).
  (* the generator state after this index, given that the successor through m (if any) has been seen *)
  assert (G2 : forall seen', (forall q, try_move basis p m = Some q -> In q seen') -> (forall q, In q seen -> In q seen') -> GI seen' g2).
  { intros seen' Hd Hmono. subst g2. destruct G1. constructor; cbn [set_i g_p g_te g_tec g_pv g_i g_r g_ms]; auto; try lia.
    - intros _ m0 rest q E T. apply Hmono. apply (gi_pvdone0 ltac:(lia) m0 rest q E T).
    - intros _ q T. apply Hmono. apply (gi_rdone0 ltac:(lia) q T).
    - intros _. exists ms. split; [assumption|]. split; [assumption|]. intros j Hj.
      destruct (Z.eq_dec j (g_i g1 - 4)) as [->|NE]; [intros q T; apply Hd; exact T|].
      assert (XX : 0 <= j < g_i g1 - 4) by lia. intros q T. apply Hmono. apply (COV j XX q T). }
  assert (SKIP : (forall q, try_move basis p m = Some q -> In q seen) -> step_ok seen g (mg_next pinned basis cfg f s g2)).
  { intros Hd. apply (step_ok_lt seen g g2); [subst g2; cbn; lia|]. apply IHf; [apply G2; auto|assumption|apply HF'; subst g2; cbn; lia]. }
  assert (TE2 : te_move pinned s g2 = None).
  { unfold te_move. subst g2. cbn [set_i g_te g_tec]. rewrite (gi_te _ _ G1), (gi_tec _ _ G1). destruct pinned; reflexivity. }
  rewrite TE2.
  assert (PV2 : g_pv g2 = g_pv g1) by reflexivity. assert (R2 : g_r g2 = g_r g1) by reflexivity. rewrite PV2, R2.
  destruct (g_pv g1) as [|pm prest] eqn:EPV.
  - destruct (move_equal (g_r g1) m) eqn:ER.
    + apply SKIP. intros q T. rewrite <- (Heq _ _ ER) in T. apply (gi_rdone _ _ G1 ltac:(lia) q T).
    + assert (P2 : g_p g2 = p) by (apply (gi_p _ _ G1)). rewrite P2. destruct (try_move basis p m) as [q|] eqn:ET.
      * apply step_some; [assumption|assumption| |apply LT2|apply LT2].
        apply G2; [|intros; right; assumption]. intros q0 T. inversion T. left; reflexivity.
      * apply SKIP. intros q T. discriminate.
  - destruct (move_equal pm m) eqn:EPM.
    + apply SKIP. intros q T. rewrite <- (Heq _ _ EPM) in T. apply (gi_pvdone _ _ G1 ltac:(lia) pm prest q EPV T).
    + destruct (move_equal (g_r g1) m) eqn:ER.
      * apply SKIP. intros q T. rewrite <- (Heq _ _ ER) in T. apply (gi_rdone _ _ G1 ltac:(lia) q T).
      * assert (P2 : g_p g2 = p) by (apply (gi_p _ _ G1)). rewrite P2. destruct (try_move basis p m) as [q|] eqn:ET.
        -- apply step_some; [assumption|assumption| |apply LT2|apply LT2].
           apply G2; [|intros; right; assumption]. intros q0 T. inversion T. left; reflexivity.
        -- apply SKIP. intros q T. discriminate.
Qed.

(* the fuel the model gives its loops is always enough *)
Lemma gfuel_ok seen g : GI seen g -> len + 6 - g_i g < Z.of_nat (gfuel g).
Proof.
  clear Hhint. intros G. pose proof (gi_i0 _ _ G) as I0. unfold gfuel.
  destruct (Z_le_gt_dec 4 (g_i g)) as [H4|H4].
  - destruct (gi_ms _ _ G H4) as (ms & E & P & _). rewrite E. rewrite (Permutation_length P). unfold len. lia.
  - rewrite (gi_ms_none _ _ G ltac:(lia)), (gi_p _ _ G). unfold len. lia.
Qed.
End Gen.
