(* connectivity on the s x s board as seen by Grow/Flood: symmetry, transitivity *)
From Coq Require Import NArith ZArith List Bool Lia ZifyN ZifyBool ZifyNat.
Require Import Board Flood Masks.
Import ListNotations.
Open Scope N_scope.
Ltac Zify.zify_post_hook ::= Z.div_mod_to_equations.

Definition bit1 (a : N) : N := N.shiftl 1 a.

Lemma testbit_bit1 a i : N.testbit (bit1 a) i = (i =? a).
Proof.
  unfold bit1. destruct (N.eqb_spec i a) as [->|Hn].
  - rewrite N.shiftl_spec_high' by lia. now rewrite N.sub_diag.
  - destruct (N.lt_ge_cases i a); [now rewrite N.shiftl_spec_low|].
    rewrite N.shiftl_spec_high' by lia. apply N.bits_above_log2. cbn. lia.
Qed.

Section Conn.
Variable s : N.
Hypothesis Hs : 3 <= s <= 8.
Let c := precompute s.

Lemma size_c : Size c = s.
Proof. subst c. assert (H := in_sizes s Hs). repeat (destruct H as [<-|H]; [reflexivity|]). destruct H. Qed.

Lemma maskR i : i < s * s -> N.testbit (cR c) i = (i mod s =? 0).
Proof. intros H. destruct (precompute_masks s i Hs ltac:(nia)) as (E & _). fold c in E. rewrite E. replace (i <? s * s) with true by lia. reflexivity. Qed.
Lemma maskL i : i < s * s -> N.testbit (cL c) i = (i mod s =? s - 1).
Proof. intros H. destruct (precompute_masks s i Hs ltac:(nia)) as (_ & E & _). fold c in E. rewrite E. replace (i <? s * s) with true by lia. reflexivity. Qed.

Ltac sizes := assert (s = 3 \/ s = 4 \/ s = 5 \/ s = 6 \/ s = 7 \/ s = 8) as Hcase by lia;
              destruct Hcase as [->|[->|[->|[->|[->| ->]]]]].

(* the neighbourhood relation of Grow is symmetric on the board *)
Lemma nb_sym i j : i < s * s -> j < s * s -> nb c j i -> nb c i j.
Proof.
  intros Hi Hj H. unfold nb in *. rewrite size_c in *.
  rewrite (maskR i Hi), (maskL i Hi) in H. rewrite (maskR j Hj), (maskL j Hj).
  clear c. sizes; lia.
Qed.

Variable B : N.
Hypothesis HB : forall i, N.testbit B i = true -> i < s * s.

Definition conn (a b : N) : Prop := reach c B (bit1 a) b.

Lemma reach_in_B seed i : reach c B seed i -> N.testbit B i = true.
Proof. destruct 1; assumption. Qed.

Lemma conn_refl a : N.testbit B a = true -> conn a a.
Proof. intros H. apply reach_seed; [now rewrite testbit_bit1, N.eqb_refl|assumption]. Qed.

Lemma conn_trans a b d : conn a b -> conn b d -> conn a d.
Proof.
  intros Hab Hbd. unfold conn in *. induction Hbd as [i Hi Hw|j i Hr IH Hn Hw].
  - rewrite testbit_bit1 in Hi. apply N.eqb_eq in Hi. now subst.
  - eapply reach_step; eauto.
Qed.

Lemma conn_step j i : N.testbit B j = true -> N.testbit B i = true -> nb c j i -> conn j i.
Proof. intros Hj Hi Hn. eapply reach_step; [apply conn_refl; assumption|assumption|assumption]. Qed.

Lemma conn_sym a b : conn a b -> conn b a.
Proof.
  intros H. unfold conn in H. induction H as [i Hi Hw|j i Hr IH Hn Hw].
  - rewrite testbit_bit1 in Hi. apply N.eqb_eq in Hi. subst. now apply conn_refl.
  - assert (Hj := reach_in_B _ _ Hr).
    eapply conn_trans; [|exact IH]. apply conn_step; auto. apply nb_sym; auto.
Qed.

Lemma conn_in_B a b : conn a b -> N.testbit B a = true /\ N.testbit B b = true.
Proof.
  intros H. split; [|exact (reach_in_B _ _ H)]. apply conn_sym in H. exact (reach_in_B _ _ H).
Qed.
End Conn.
Print Assumptions conn_sym.
