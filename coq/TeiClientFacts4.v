(* TeiClientFacts4.v: the budget clause of C17 seen from the client.  The thinking time the engine allots for the client's go line
   (Tei.go_limit = calcBudget of what parse_go read) is strictly less than the CLIENT's clock of the side to move and never more than
   the time left until the CLIENT's deadline - for EVERY deadline since the repair of the client (a deadline less than 1 ms ahead is
   refused: client_deadline_below_1ms_refused).  The code before the repair sent such a deadline as `movetime 0`, which is no cap:
   client_deadline_uncapped_pinned. *)
From Coq Require Import NArith ZArith List Bool Lia.
Require Import Board Move GameOver PtnMove Playtak Tps TeiBudget Tei TeiSpec TeiFacts TeiClient TeiClientFacts TeiClientFacts2.
Import ListNotations.
Local Open Scope Z_scope.

Lemma ms_round_range d : int64 d -> 0 <= ms_round d < 2 ^ 63.
Proof.
  intros H. destruct (ms_round_spec d) as [S0 S1]. unfold int64 in H. destruct (Z_lt_le_dec d 0) as [Hn|Hp].
  - rewrite S0 by lia. lia.
  - destruct (S1 Hp) as [R _]. destruct (Z_lt_le_dec d 1000000) as [Hs|Hb]; [rewrite S0 by lia; lia|lia].
Qed.

Lemma ms_round_pos d : 1000000 <= d -> 0 < ms_round d <= d.
Proof.
  intros H. destruct (ms_round_spec d) as [_ S1]. destruct (S1 ltac:(lia)) as [R M].
  split; [|lia]. destruct (Z.eq_dec (ms_round d) 0) as [E|E]; [lia|]. lia.
Qed.

Theorem client_budget_within_clock dl tc ws (white : bool) :
  (forall d, dl = Some d -> int64 d) -> (forall t, tc = Some t -> tc_int64 t) -> go_words dl tc = Some ws ->
  exists a, parse_go (tl ws) targs0 = Some a /\
    forall b, go_limit white a = Some b ->
      (forall t, tc = Some t -> let tm := if white then tc_white t else tc_black t in 0 < tm -> b < tm) /\
      (forall d, dl = Some d -> b <= d).
Proof.
  intros Hd Ht Hg. destruct (client_go_line dl tc ws Hd Ht Hg) as (args & -> & _ & Hp). cbn [tl]. eexists. split; [exact Hp|].
  destruct (go_words_some _ _ _ Hg) as (_ & Hbig & Hsay).
  intros b Hb. unfold go_limit in Hb. cbn [movetime wtime btime winc binc] in Hb.
  set (mt := match dl with Some d => ms_round d | None => 0 end) in *.
  assert (Rmt : 0 <= mt < 2 ^ 63) by (subst mt; destruct dl as [d|]; [apply ms_round_range; now apply Hd|lia]).
  destruct tc as [t|].
  - destruct (Ht t eq_refl) as (I1 & I2 & I3 & I4). destruct (Hsay t eq_refl) as (S1 & S2 & S3 & S4).
    pose proof (ms_round_range _ I1) as R1. pose proof (ms_round_range _ I2) as R2.
    pose proof (ms_round_range _ I3) as R3. pose proof (ms_round_range _ I4) as R4.
    destruct white.
    + destruct ((0 <? mt) || (0 <? ms_round (tc_white t))) eqn:E; [|discriminate Hb]. injection Hb as <-.
      destruct (budget_bounds_fixed mt (ms_round (tc_white t)) (ms_round (tc_winc t)) Rmt R1 R3) as [B1 B2]. split.
      * intros t' Et Htm. injection Et as <-. unfold sayable in S1.
        destruct (ms_round_pos (tc_white t) ltac:(lia)) as [P1 P2]. specialize (B1 P1). lia.
      * intros d Ed. pose proof (Hbig d Ed) as Hb1. subst mt. rewrite Ed in *. destruct (ms_round_pos d Hb1) as [P1 P2]. specialize (B2 P1). lia.
    + destruct ((0 <? mt) || (0 <? ms_round (tc_black t))) eqn:E; [|discriminate Hb]. injection Hb as <-.
      destruct (budget_bounds_fixed mt (ms_round (tc_black t)) (ms_round (tc_binc t)) Rmt R2 R4) as [B1 B2]. split.
      * intros t' Et Htm. injection Et as <-. unfold sayable in S2.
        destruct (ms_round_pos (tc_black t) ltac:(lia)) as [P1 P2]. specialize (B1 P1). lia.
      * intros d Ed. pose proof (Hbig d Ed) as Hb1. subst mt. rewrite Ed in *. destruct (ms_round_pos d Hb1) as [P1 P2]. specialize (B2 P1). lia.
  - assert (Hb' : (if (0 <? mt) || (0 <? 0) then Some (calc_budget_fixed mt 0 0) else None) = Some b) by (destruct white; exact Hb).
    destruct ((0 <? mt) || (0 <? 0)) eqn:E; [|discriminate Hb']. injection Hb' as <-.
    destruct (budget_bounds_fixed mt 0 0 Rmt ltac:(lia) ltac:(lia)) as [_ B2]. split; [discriminate|].
    intros d Ed. pose proof (Hbig d Ed) as Hb1. subst mt. rewrite Ed in *. destruct (ms_round_pos d Hb1) as [P1 P2]. specialize (B2 P1). lia.
Qed.

(* ... and a context with a deadline always caps the search: the engine gets a limit, and it is at most the time left *)
Theorem client_deadline_always_capped d tc ws (white : bool) :
  int64 d -> (forall t, tc = Some t -> tc_int64 t) -> go_words (Some d) tc = Some ws ->
  exists a b, parse_go (tl ws) targs0 = Some a /\ go_limit white a = Some b /\ b <= d.
Proof.
  intros Hi Ht Hg.
  assert (Hd : forall d0, Some d = Some d0 -> int64 d0) by (intros d0 E; injection E as <-; exact Hi).
  destruct (client_budget_within_clock (Some d) tc ws white Hd Ht Hg) as (a & Hp & Hlim).
  destruct (go_words_some _ _ _ Hg) as (_ & Hbig & _). specialize (Hbig d eq_refl).
  destruct (client_go_line (Some d) tc ws Hd Ht Hg) as (args & E & _ & Hp2). subst ws. cbn [tl] in Hp. rewrite Hp2 in Hp. injection Hp as <-.
  destruct (ms_round_pos d Hbig) as [P1 _].
  destruct (go_limit white _) as [b|] eqn:G.
  - eexists _, b. split; [exact Hp2|]. split; [exact G|]. first [exact (proj2 (Hlim b G) d eq_refl)|exact (proj2 (Hlim b eq_refl) d eq_refl)].
  - exfalso. unfold go_limit in G. cbn [movetime wtime btime winc binc] in G.
    replace (0 <? ms_round d) with true in G by lia. destruct white; cbn [orb] in G; discriminate G.
Qed.

(* the repair: a deadline less than 1 ms ahead (or already passed) is refused, whatever the clocks *)
Theorem client_deadline_below_1ms_refused d tc : d < 1000000 -> go_words (Some d) tc = None.
Proof. intros H. apply go_words_none. left. exists d. auto. Qed.

(* the code before the repair: such a deadline put NO cap on the engine - with no clocks, no limit at all *)
Theorem client_deadline_uncapped_pinned : exists d, int64 d /\ d < 1000000 /\
  exists ws a, go_words_pinned (Some d) None = Some ws /\ parse_go (tl ws) targs0 = Some a /\ movetime a = 0 /\
               go_limit true a = None /\ go_limit false a = None.
Proof.
  exists 999999. split; [unfold int64; lia|]. split; [lia|]. exists [s_go; s_movetime; [48%N]], targs0.
  split; [vm_compute; reflexivity|]. split; [vm_compute; reflexivity|]. repeat split.
Qed.
