(* Prove/PN.v: prove/pn.go without PN^2 — the pointer tree as a functional tree; one iteration of the search loop
   re-descends from the root, which visits the same path as resuming from the node where updateAncestors stopped.
   Fuel: `iters` bounds the iterations of the search loop, `dfuel` the depth of one descent; running out of either is the
   verdict `unknown` with fuel_out = true (the driver gives far more fuel than any generated case needs). *)
From Coq Require Import NArith ZArith List Bool Lia.
Require Import Board Move GameOver.
Import ListNotations.
Open Scope N_scope.

Definition pmove0 : rmove := {| mX := 0; mY := 0; mT := 0; mS := 0 |}.       (* tak.Move{} *)
(* Move.Dest for slides (the only case expand uses it for): origin + number of drops in the direction *)
Definition slide_dest (m : rmove) : Z * Z :=
  let len := wrap8 (Z.of_nat (length (nibbles 8 (mS m)))) in
  match mT m with
  | 5 => (wrap8 (mX m - len)%Z, mY m)
  | 6 => (wrap8 (mX m + len)%Z, mY m)
  | 7 => (mX m, wrap8 (mY m + len)%Z)
  | 8 => (mX m, wrap8 (mY m - len)%Z)
  | _ => (mX m, mY m)
  end.

Definition MaxU32 : N := 2 ^ 32 - 1.
Definition sat_add (l r : N) : N := if MaxU32 <? l + r then MaxU32 else l + r.

Inductive pn := PN (move : rmove) (phi delta : N) (value : N (* 0 unknown 1 true 2 false *))
                    (irrev and_node expanded : bool) (pdepth : N) (kids : list pn).
Definition n_move t := match t with PN a _ _ _ _ _ _ _ _ => a end.
Definition n_phi t := match t with PN _ a _ _ _ _ _ _ _ => a end.
Definition n_delta t := match t with PN _ _ a _ _ _ _ _ _ => a end.
Definition n_value t := match t with PN _ _ _ a _ _ _ _ _ => a end.
Definition n_irrev t := match t with PN _ _ _ _ a _ _ _ _ => a end.
Definition n_and t := match t with PN _ _ _ _ _ a _ _ _ => a end.
Definition n_expanded t := match t with PN _ _ _ _ _ _ a _ _ => a end.
Definition n_pdepth t := match t with PN _ _ _ _ _ _ _ a _ => a end.
Definition n_kids t := match t with PN _ _ _ _ _ _ _ _ a => a end.
Record pstats := { p_nodes : N; p_proved : N; p_disproved : N; p_dropped : N; p_expanded : N; p_maxdepth : N }.
(* uint64 arithmetic: the subtraction wraps when the three counters together exceed Nodes (they can: a node solved twice is counted twice) *)
Definition live (s : pstats) : N := (p_nodes s + 2 ^ 64 - (p_proved s + p_disproved s + p_dropped s) mod 2 ^ 64) mod 2 ^ 64.
Record pcfg := { pc_maxnodes : N; pc_preserve : bool; pc_maxdepth : Z }.

Section P.
Variable basis : list N.
Variable cfg : pcfg.
Variable attacker_white : bool.
Definition pmv := move_prealloc (hash_sq basis) true.

Definition pos_equal (a b : position) : bool :=           (* Position.Equal *)
  (size a =? size b) && (hash a =? hash b) && (White a =? White b) && (Black a =? Black b) && (Standing a =? Standing b) &&
  (Caps a =? Caps b) && Bool.eqb (to_move_white a) (to_move_white b) &&
  forallb (fun ab => (fst ab =? snd ab)) (combine (Height a) (Height b)) && forallb (fun ab => (fst ab =? snd ab)) (combine (Stacks a) (Stacks b)).

(* path: (position, irreversible flag of the node), newest first; the head is the node itself *)
Definition check_repetition (irrev : bool) (path : list (position * bool)) : bool :=
  if irrev then false else
  match path with
  | [] => false
  | (cur, _) :: ancestors =>
    (fix go (l : list (position * bool)) (count : nat) : bool :=
       match l with
       | [] => Nat.eqb count 3
       | (q, ir) :: r => if ir || Nat.eqb count 3 then Nat.eqb count 3 else go r (if pos_equal q cur then S count else count)
       end) ancestors 1%nat
  end.

Definition evaluate_node (irrev : bool) (path : list (position * bool)) : N :=
  let depth := (Z.of_nat (length path) - 1)%Z in
  if (pc_maxdepth cfg <? depth)%Z then 2 else
  match path with
  | (p, _) :: _ =>
    match game_over p with
    | Some (true, who) => if (match who with GWhite => attacker_white | GBlack => negb attacker_white | GNone => false end) then 1 else 2
    | _ => if check_repetition irrev path then 2 else 0
    end
  | [] => 0
  end.

Definition leaf_numbers (and_node : bool) (value : N) (p : position) : N * N :=
  if value =? 0 then (1, N.of_nat (length (all_moves p)) mod 2 ^ 32)
  else if Bool.eqb and_node (value =? 1) then (MaxU32, 0) else (0, MaxU32).

Definition kid_numbers (kids : list pn) : N * N :=
  fold_left (fun (acc : N * N) c => (N.min (fst acc) (n_delta c), sat_add (snd acc) (n_phi c))) kids (MaxU32, 0).

Definition with_numbers (t : pn) (phi delta : N) (pd : N) (kids : list pn) : pn :=
  (PN (n_move t) (phi) (delta) (n_value t) (n_irrev t) (n_and t) (n_expanded t) (pd) (kids)).

(* the body of updateAncestors for one (expanded) node *)
Definition update_node (is_root : bool) (t : pn) (st : pstats) : pn * pstats :=
  let '(phi, delta) := kid_numbers (n_kids t) in
  if (phi =? 0) || (delta =? 0) then
    let pd := if delta =? 0
              then (fold_left (fun d c => N.max d (n_pdepth c)) (n_kids t) 0 + 1) mod 2 ^ 16
              else (fold_left (fun d c => if n_delta c =? 0 then N.min d (n_pdepth c) else d) (n_kids t) (2 ^ 15) + 1) mod 2 ^ 16 in
    let proof := if n_and t then delta else phi in
    let st := {| p_nodes := p_nodes st; p_proved := if proof =? 0 then p_proved st + 1 else p_proved st;
                 p_disproved := if proof =? 0 then p_disproved st else p_disproved st + 1;
                 p_dropped := if phi =? 0 then p_dropped st + N.of_nat (length (n_kids t)) else p_dropped st;
                 p_expanded := p_expanded st; p_maxdepth := p_maxdepth st |} in
    (with_numbers t phi delta pd (if negb is_root && negb (pc_preserve cfg) then [] else n_kids t), st)
  else (with_numbers t phi delta (n_pdepth t) (n_kids t), st).

(* expand: children in REVERSE creation order (each new child becomes firstChild); stops after a child with delta = 0 *)
Definition new_child (and_parent : bool) (cur : position) (path : list (position * bool)) (m : rmove) (q : position) : pn :=
  let reversible := (5 <=? mT m) &&
                    (let '(dx, dy) := slide_dest m in
                     let i := uint_of_int (dx + dy * Z.of_N (size cur)) in negb (has (Standing cur) i && (has (White cur) i || has (Black cur) i))) in
  let irrev := negb reversible in
  let and_node := negb and_parent in
  let value := evaluate_node irrev ((q, irrev) :: path) in
  let '(phi, delta) := leaf_numbers and_node value q in
  PN (m) (phi) (delta) (value) (irrev) (and_node) (false) (0) ([]).

Definition bump_nodes (st : pstats) : pstats :=
  {| p_nodes := p_nodes st + 1; p_proved := p_proved st; p_disproved := p_disproved st; p_dropped := p_dropped st;
     p_expanded := p_expanded st; p_maxdepth := p_maxdepth st |}.

Fixpoint gen_kids (and_parent : bool) (cur : position) (path : list (position * bool)) (ms : list rmove) (kids : list pn) (st : pstats)
  : list pn * pstats :=
  match ms with
  | [] => (kids, st)
  | m :: r =>
    match pmv cur m with
    | Ok q =>
      let st := bump_nodes st in
      let child := new_child and_parent cur path m q in
      if n_delta child =? 0 then (child :: kids, st) else gen_kids and_parent cur path r (child :: kids) st
    | _ => gen_kids and_parent cur path r kids st
    end
  end.

Definition expand_node (t : pn) (path : list (position * bool)) (st : pstats) : pn * pstats :=
  match path with
  | [] => (t, st)
  | (cur, _) :: _ =>
    let '(kids, st) := gen_kids (n_and t) cur path (all_moves cur) [] st in
    let d := N.of_nat (length path) in             (* p.depth() + 1 *)
    ((PN (n_move t) (n_phi t) (n_delta t) (n_value t) (n_irrev t) (n_and t) (true) (n_pdepth t) (kids)),
     {| p_nodes := p_nodes st; p_proved := p_proved st; p_disproved := p_disproved st; p_dropped := p_dropped st;
        p_expanded := p_expanded st + 1; p_maxdepth := N.max (p_maxdepth st) d |})
  end.

(* one iteration.  Stop 0: the node limit was hit at the selected leaf (the Go loop breaks); Stop 1: a Go panic
   ("consistency error" / "failed to descend"); Stop 2: the model ran out of descent fuel; Stop 3: see pick_kid *)
Inductive ires := Step (t : pn) (st : pstats) | Stop (why : N).

Definition set_kids (t : pn) (kids : list pn) : pn :=
  PN (n_move t) (n_phi t) (n_delta t) (n_value t) (n_irrev t) (n_and t) (true) (n_pdepth t) (kids).

(* selectMostProving at one node: the first child with delta = phi; `descend` is the rest of the iteration below that child *)
Fixpoint pick_kid (descend : pn -> list (position * bool) -> pstats -> ires) (is_root : bool) (t : pn)
         (path : list (position * bool)) (st : pstats) (before l : list pn) : ires :=
  match l with
  | [] => Stop 1                                   (* "consistency error" *)
  | c :: r =>
    if n_delta c =? n_phi t then
      (* a solved child can only be selected when a disproof sum has saturated at 2^32-1 (more than 4*10^9
         pending leaves): the Go code would go on and expand a finished leaf or panic on a dropped subtree; the
         model gives up (Stop 3), which the driver reports - it has never happened *)
      if (n_phi c =? 0) || (n_delta c =? 0) then Stop 3 else
      match path with
      | (cur, _) :: _ =>
        match pmv cur (n_move c) with
        | Ok q => match descend c ((q, n_irrev c) :: path) st with
                  | Step c' st' =>
                    let '(t2, st2) := update_node is_root (set_kids t (rev before ++ c' :: r)) st' in Step t2 st2
                  | Stop w => Stop w end
        | _ => Stop 1                               (* "failed to descend" *)
        end
      | [] => Stop 1
      end
    else pick_kid descend is_root t path st (c :: before) r
  end.

Fixpoint iterate (fuel : nat) (is_root : bool) (t : pn) (path : list (position * bool)) (st : pstats) : ires :=
  match fuel with O => Stop 2 | S f =>
    if n_expanded t then pick_kid (iterate f false) is_root t path st [] (n_kids t)
    else
      if (0 <? pc_maxnodes cfg) && (pc_maxnodes cfg <? live st) then Stop 0 else
      let '(t1, st1) := expand_node t path st in
      let '(t2, st2) := update_node is_root t1 st1 in Step t2 st2
  end.

Definition root_node (p0 : position) : pn :=
  let v0 := evaluate_node false [(p0, false)] in
  let '(phi0, delta0) := leaf_numbers false v0 p0 in
  PN (pmove0) (phi0) (delta0) (v0) (false) (false) (false) (0) ([]).
Definition stats0 : pstats := {| p_nodes := 1; p_proved := 0; p_disproved := 0; p_dropped := 0; p_expanded := 0; p_maxdepth := 0 |}.

(* the loop of search(): (tree, counters, why it stopped: 0 root solved or node limit, 1 panic, 2 out of fuel) *)
Fixpoint search_loop (k dfuel : nat) (p0 : position) (t : pn) (st : pstats) : pn * pstats * N :=
  match k with O => (t, st, if (n_phi t =? 0) || (n_delta t =? 0) then 0 else 2) | S k' =>
    if (n_phi t =? 0) || (n_delta t =? 0) then (t, st, 0) else
    match iterate dfuel true t [(p0, false)] st with
    | Step t' st' => search_loop k' dfuel p0 t' st'
    | Stop w => (t, st, w)
    end
  end.

(* Prove(): 1 proven / 2 disproven / 0 unknown, and the move *)
Definition verdict (root : pn) : N * rmove :=
  if n_phi root =? 0 then (1, fold_left (fun acc c => if n_delta c =? 0 then n_move c else acc) (n_kids root) pmove0)
  else if n_delta root =? 0 then
    (2, match fold_left (fun (acc : option pn) c => match acc with None => Some c | Some b => if n_pdepth b <? n_pdepth c then Some c else acc end) (n_kids root) None with
        | Some b => n_move b | None => pmove0 end)
  else (n_value root, pmove0).

Definition prove_pn (iters dfuel : nat) (p0 : position) : pn * pstats * N * rmove * N :=
  let '(root, st, why) := search_loop iters dfuel p0 (root_node p0) stats0 in
  let '(result, pv) := verdict root in
  (root, st, result, pv, why).
End P.
