(* TeiClientFmt.v: ptn.FormatMove's text of every legal-shaped move (C11's domain) is one word of visible ASCII bytes - by complete
   enumeration of the 65 472 move values, as the round trips of PtnMoveFacts.v. *)
From Coq Require Import NArith ZArith List Bool Lia.
Require Import PtnMove Playtak PtnMoveFacts Tei TeiClientFacts.
Import ListNotations.
Local Open Scope N_scope.

Definition visb (c : N) : bool := (33 <=? c) && (c <=? 126).
Definition fmt_ok (m : PtnMove.move) : bool := match format_move false m with [] => false | l => forallb visb l end.
(* the same enumeration as PtnMove.moves_at (stated unfolded: the kernel must never convert the closed boolean lazily) *)
Definition place (x y : Z) (t : N) : PtnMove.move := {| mX := x; mY := y; mT := t; mS := 0 |}.
Lemma all_fmt_ok_true :
  forallb (fun x => forallb (fun y =>
     forallb fmt_ok [place x y PlaceFlat; place x y PlaceStanding; place x y PlaceCapstone] &&
     forallb (fun t => forallb (fun ds => fmt_ok {| mX := x; mY := y; mT := t; mS := mk_slides ds |}) (comps 9 8)) [SlideLeft; SlideRight; SlideUp; SlideDown])
   coords) coords = true.
Proof. vm_cast_no_check (eq_refl true). Qed.

Lemma fmt_ok_of_all x y m : In x coords -> In y coords -> In m (moves_at x y) -> fmt_ok m = true.
Proof.
  intros Hx Hy Hin. pose proof all_fmt_ok_true as A.
  rewrite forallb_forall in A. specialize (A _ Hx). rewrite forallb_forall in A. specialize (A _ Hy).
  apply andb_prop in A as [A1 A2]. unfold moves_at in Hin. apply in_app_or in Hin as [Hin|Hin].
  - rewrite forallb_forall in A1. apply A1. exact Hin.
  - apply in_flat_map in Hin as (t & Ht & Hin). apply in_map_iff in Hin as (ds & <- & Hds).
    rewrite forallb_forall in A2. specialize (A2 _ Ht). rewrite forallb_forall in A2. exact (A2 _ Hds).
Qed.

Lemma format_move_word m : legal_shape m -> word (format_move false m).
Proof.
  intros H. destruct (legal_in m H) as (Hx & Hy & Hin). pose proof (fmt_ok_of_all _ _ _ Hx Hy Hin) as A. unfold fmt_ok in A.
  destruct (format_move false m) as [|c l] eqn:E; [discriminate A|]. split; [discriminate|].
  apply Forall_forall. intros x Hx'. rewrite forallb_forall in A. specialize (A x Hx'). unfold visb in A. unfold vis. lia.
Qed.
