(* NegamaxSpec.v: the specification side of C05 — exhaustive depth-limited negamax over the positions of the rules model,
   as an instance of the abstract game tree of Pvs.v. *)
From Coq Require Import NArith ZArith List Bool Lia.
Require Import Board Move GameOver Eval Search Pvs.
Import ListNotations.
Open Scope Z_scope.

Section Spec.
Variable basis : list N.
Variable eval : position -> Z.

(* the legal successors: every generated move that MovePreallocated accepts *)
Definition children (p : position) : list position :=
  flat_map (fun m => match mvp basis p m with Ok q => [q] | _ => [] end) (all_moves p).

Lemma in_children p q : In q (children p) <-> exists m, In m (all_moves p) /\ mvp basis p m = Ok q.
Proof.
  unfold children. rewrite in_flat_map. split; intros (m & Hm & H); exists m; (split; [assumption|]).
  - destruct (mvp basis p m); simpl in H; try contradiction. destruct H; [congruence|contradiction].
  - rewrite H. left; reflexivity.
Qed.

(* the game tree below p, cut at depth d; a finished game has no successors that matter (negamax stops at [over]) *)
Fixpoint tree_of (d : nat) (p : position) : tree :=
  T (eval p) (is_over p) (match d with O => [] | S d' => map (tree_of d') (children p) end).

(* exhaustive negamax to depth d under the evaluation function eval *)
Definition nmx (d : nat) (p : position) : Z := negamax d (tree_of d p).

Lemma nmx_0 p : nmx 0 p = eval p.
Proof. reflexivity. Qed.
Lemma nmx_over d p : is_over p = true -> nmx d p = eval p.
Proof. intros H. unfold nmx. destruct d; simpl; [reflexivity|]. rewrite H. reflexivity. Qed.

Lemma nmx_S d p : is_over p = false ->
  nmx (S d) p = match children p with [] => eval p | q :: r => maxneg (negamax d) (- nmx d q) (map (tree_of d) r) end.
Proof. intros H. unfold nmx. simpl. rewrite H. destruct (children p); reflexivity. Qed.

Lemma nmx_ge d p q : is_over p = false -> In q (children p) -> - nmx d q <= nmx (S d) p.
Proof.
  intros H Hq. rewrite (nmx_S d p H). destruct (children p) as [|q0 r]; [contradiction|].
  destruct (maxneg_spec (negamax d) (- nmx d q0) (map (tree_of d) r)) as (M1 & M2 & _). cbv zeta in *.
  destruct Hq as [->|Hq]; [assumption|].
  rewrite Forall_forall in M2. apply (M2 (tree_of d q)). apply in_map. assumption.
Qed.

Lemma nmx_attained d p : is_over p = false -> children p <> [] -> exists q, In q (children p) /\ nmx (S d) p = - nmx d q.
Proof.
  intros H Hne. rewrite (nmx_S d p H). destruct (children p) as [|q0 r]; [congruence|].
  destruct (maxneg_spec (negamax d) (- nmx d q0) (map (tree_of d) r)) as (_ & _ & [M3|M3]). 
  - exists q0. split; [left; reflexivity|assumption].
  - rewrite Exists_exists in M3. destruct M3 as (t & Ht & E). rewrite in_map_iff in Ht. destruct Ht as (q & <- & Hq).
    exists q. split; [right; assumption|exact E].
Qed.
End Spec.
