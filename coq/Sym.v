From Coq Require Import ZArith List Lia Bool.
Import ListNotations.
Open Scope Z_scope.

(* the eight maps of symmetry/canonical.go, on an n x n board, as functions of (x,y); f = flip *)
Section S.
Variable n : Z.
Definition f (i : Z) := n - 1 - i.
Definition sym (k : nat) (xy : Z * Z) : Z * Z :=
  let '(x, y) := xy in
  match k with
  | 0%nat => (x, y) | 1%nat => (f x, y) | 2%nat => (x, f y) | 3%nat => (y, x)
  | 4%nat => (f y, f x) | 5%nat => (f x, f y) | 6%nat => (y, f x) | _ => (f y, x)
  end.

(* composition table: sym a after sym b = sym (comp a b) *)
Definition comp_table : list (list nat) :=
  [[0;1;2;3;4;5;6;7]; [1;0;5;7;6;2;4;3]; [2;5;0;6;7;1;3;4]; [3;6;7;0;5;4;1;2];
   [4;7;6;5;0;3;2;1]; [5;2;1;4;3;0;7;6]; [6;3;4;2;1;7;5;0]; [7;4;3;1;2;6;0;5]]%nat.
Definition comp (a b : nat) : nat := nth b (nth a comp_table []) 0%nat.

Lemma comp_ok : forall a b, (a < 8)%nat -> (b < 8)%nat -> forall xy, sym a (sym b xy) = sym (comp a b) xy.
Proof.
  intros a b Ha Hb [x y].
  do 8 (destruct a as [|a]; [do 8 (destruct b as [|b]; [cbn; unfold f; f_equal; lia|]); lia|]); lia.
Qed.

Definition inv (a : nat) : nat := nth a [0;1;2;3;4;5;7;6]%nat 0%nat.
Lemma inv_ok : forall a, (a < 8)%nat -> forall xy, sym (inv a) (sym a xy) = xy.
Proof. intros a Ha [x y]. do 8 (destruct a as [|a]; [cbn; unfold f; f_equal; lia|]); lia. Qed.

Lemma sym_on_board a x y : (a < 8)%nat -> 0 <= x < n -> 0 <= y < n ->
  0 <= fst (sym a (x, y)) < n /\ 0 <= snd (sym a (x, y)) < n.
Proof. intros Ha Hx Hy. do 8 (destruct a as [|a]; [cbn; unfold f; lia|]); lia. Qed.

(* adjacency is preserved: the basis of Road invariance and of slide-direction transport *)
Lemma sym_adjacent a p q : (a < 8)%nat ->
  Z.abs (fst p - fst q) + Z.abs (snd p - snd q) = 1 ->
  Z.abs (fst (sym a p) - fst (sym a q)) + Z.abs (snd (sym a p) - snd (sym a q)) = 1.
Proof. intros Ha. destruct p, q. do 8 (destruct a as [|a]; [cbn; unfold f; lia|]); lia. Qed.
End S.
Print Assumptions comp_ok.
