(* BotLineFacts.v: the three chat-line parsers of BotLine.v (playtak/client.go).
   - exact language of each pattern and uniqueness of the split (tell_line / shout_line / room_line);
   - the direct functions compute exactly that split, and ([], []) / ([], [], []) outside the language;
   - the direct functions equal the reference semantics re_match (ordered backtracking search, greedy +) on the
     three patterns, for every byte list. *)
From Coq Require Import NArith ZArith Bool Ascii Lia.
From Coq Require Import String.
From Coq Require Import List.
Local Close Scope string_scope.
Require Import PtnMove Playtak Bot BotLine.
Import ListNotations.
Local Open Scope N_scope.

(* ---------- generic list lemmas ---------- *)
Lemma strip_prefix_spec : forall p l r, strip_prefix p l = Some r <-> l = p ++ r.
Proof.
  induction p as [|c p IH]; intros l r; cbn [strip_prefix app].
  - split; intros H; [now inversion H | now subst].
  - destruct l as [|x l]; [split; intros H; discriminate|].
    destruct (x =? c) eqn:E.
    + apply N.eqb_eq in E. subst x. rewrite IH. split; intros H; [now subst | now inversion H].
    + apply N.eqb_neq in E. split; intros H; [discriminate | inversion H; congruence].
Qed.

Lemma strip_prefix_app p r : strip_prefix p (p ++ r) = Some r.
Proof. now apply strip_prefix_spec. Qed.

Definition stops (f : N -> bool) (b : list N) : Prop := match b with [] => True | c :: _ => f c = false end.

Lemma span_spec f : forall l a b, span f l = (a, b) -> l = a ++ b /\ forallb f a = true /\ stops f b.
Proof.
  induction l as [|c r IH]; intros a b H; cbn [span] in H.
  - inversion H. now repeat split.
  - destruct (f c) eqn:E.
    + destruct (span f r) as [a' b'] eqn:S. inversion H; subst. destruct (IH a' b eq_refl) as (H1 & H2 & H3).
      subst r. cbn [app forallb]. rewrite E, H2. now repeat split.
    + inversion H; subst. cbn. now repeat split.
Qed.

Lemma span_app f : forall a b, forallb f a = true -> stops f b -> span f (a ++ b) = (a, b).
Proof.
  induction a as [|c a IH]; intros b Ha Hb; cbn [app].
  - destruct b as [|x b]; cbn [span]; [reflexivity|]. cbn in Hb. now rewrite Hb.
  - cbn [forallb] in Ha. apply andb_prop in Ha as [H1 H2]. cbn [span]. rewrite H1, (IH b H2 Hb). reflexivity.
Qed.

Lemma is_nil_false (l : list N) : l <> [] -> is_nil l = false.
Proof. destruct l; [congruence | reflexivity]. Qed.
Lemma is_nil_true (l : list N) : is_nil l = true -> l = [].
Proof. destruct l; [reflexivity | discriminate]. Qed.

(* ---------- the character classes, in words ---------- *)
Lemma name_chars_iff w : forallb name_char w = true <-> (forall c, In c w -> c <> 62 /\ c <> 32).
Proof.
  rewrite forallb_forall. unfold name_char. split; intros H c Hc; specialize (H c Hc).
  - apply andb_prop in H as [H1 H2]. apply negb_true_iff in H1, H2. apply N.eqb_neq in H1, H2. now split.
  - destruct H as [H1 H2]. apply N.eqb_neq in H1, H2. now rewrite H1, H2.
Qed.
Lemma dot_chars_iff m : forallb dot_char m = true <-> ~ In 10 m.
Proof.
  rewrite forallb_forall. unfold dot_char. split.
  - intros H Hin. specialize (H 10 Hin). discriminate.
  - intros H c Hc. apply negb_true_iff, N.eqb_neq. intros ->. contradiction.
Qed.
Definition space_bytes : list N := [9; 10; 12; 13; 32].        (* \t \n \f \r ' ' *)
Lemma nonspace_iff c : nonspace c = true <-> ~ In c space_bytes.
Proof.
  unfold nonspace, space_bytes. rewrite negb_true_iff, !orb_false_iff, !N.eqb_neq. cbn [In]. intuition congruence.
Qed.
Lemma nonspaces_iff r : forallb nonspace r = true <-> (forall c, In c r -> ~ In c space_bytes).
Proof. rewrite forallb_forall. split; intros H c Hc; apply nonspace_iff; auto. Qed.

(* ---------- `<([^> ]+)> (.+)$` ---------- *)
Definition who_msg_lang (l w m : list N) : Prop :=
  l = 60 :: w ++ 62 :: 32 :: m /\ w <> [] /\ forallb name_char w = true /\ m <> [] /\ forallb dot_char m = true.

Lemma who_msg_some l w m : who_msg l = Some (w, m) <-> who_msg_lang l w m.
Proof.
  unfold who_msg, who_msg_lang. split.
  - destruct l as [|lt r]; [discriminate|]. destruct (lt =? 60) eqn:E; [|discriminate]. apply N.eqb_eq in E. subst lt.
    destruct (span name_char r) as [who r2] eqn:S. apply span_spec in S as (S1 & S2 & _).
    destruct (is_nil who) eqn:Ew; [discriminate|].
    destruct r2 as [|gt [|sp msg]]; try discriminate.
    destruct ((gt =? 62) && (sp =? 32) && negb (is_nil msg) && forallb dot_char msg) eqn:C; [|discriminate].
    intros H. inversion H; subst who msg. clear H.
    apply andb_prop in C as [C C4]. apply andb_prop in C as [C C3]. apply andb_prop in C as [C1 C2].
    apply N.eqb_eq in C1, C2. subst gt sp r. apply negb_true_iff in C3.
    repeat split; try assumption.
    + intros ->. discriminate.
    + intros ->. discriminate.
  - intros (-> & Hw & Hn & Hm & Hd). rewrite N.eqb_refl.
    rewrite (span_app name_char w (62 :: 32 :: m) Hn eq_refl).
    rewrite (is_nil_false w Hw), !N.eqb_refl, (is_nil_false m Hm), Hd. reflexivity.
Qed.

Lemma who_msg_unique l w m w' m' : who_msg_lang l w m -> who_msg_lang l w' m' -> w = w' /\ m = m'.
Proof.
  intros H H'. apply who_msg_some in H, H'. rewrite H in H'. now inversion H'.
Qed.

(* ---------- the three languages ---------- *)
Definition tell_line (l w m : list N) : Prop :=
  l = bs "Tell <" ++ w ++ bs "> " ++ m /\
  w <> [] /\ (forall c, In c w -> c <> 62 /\ c <> 32) /\ m <> [] /\ ~ In 10 m.
Definition shout_line (l w m : list N) : Prop :=
  l = bs "Shout <" ++ w ++ bs "> " ++ m /\
  w <> [] /\ (forall c, In c w -> c <> 62 /\ c <> 32) /\ m <> [] /\ ~ In 10 m.
Definition room_line (l r w m : list N) : Prop :=
  l = bs "ShoutRoom " ++ r ++ bs " <" ++ w ++ bs "> " ++ m /\
  r <> [] /\ (forall c, In c r -> ~ In c space_bytes) /\
  w <> [] /\ (forall c, In c w -> c <> 62 /\ c <> 32) /\ m <> [] /\ ~ In 10 m.

Lemma who_msg_lang_words l w m :
  who_msg_lang l w m <->
  l = 60 :: w ++ bs "> " ++ m /\ w <> [] /\ (forall c, In c w -> c <> 62 /\ c <> 32) /\ m <> [] /\ ~ In 10 m.
Proof.
  unfold who_msg_lang. split; intros (A & B & C & D & E); (split; [exact A|]); (split; [exact B|]);
    (split; [now apply name_chars_iff|]); (split; [exact D|]); now apply dot_chars_iff.
Qed.

Lemma tell_line_iff l w m : tell_line l w m <-> exists r, l = bs "Tell " ++ r /\ who_msg_lang r w m.
Proof.
  unfold tell_line. split.
  - intros (-> & H). exists (60 :: w ++ bs "> " ++ m). split; [reflexivity|]. apply who_msg_lang_words. now split.
  - intros (r & -> & H). apply who_msg_lang_words in H as (-> & H). split; [reflexivity | exact H].
Qed.
Lemma shout_line_iff l w m : shout_line l w m <-> exists r, l = bs "Shout " ++ r /\ who_msg_lang r w m.
Proof.
  unfold shout_line. split.
  - intros (-> & H). exists (60 :: w ++ bs "> " ++ m). split; [reflexivity|]. apply who_msg_lang_words. now split.
  - intros (r & -> & H). apply who_msg_lang_words in H as (-> & H). split; [reflexivity | exact H].
Qed.
Lemma room_line_iff l r w m :
  room_line l r w m <->
  exists t, l = bs "ShoutRoom " ++ r ++ 32 :: t /\ r <> [] /\ forallb nonspace r = true /\ who_msg_lang t w m.
Proof.
  unfold room_line. split.
  - intros (-> & Hr & Hs & H). exists (60 :: w ++ bs "> " ++ m).
    split; [reflexivity|]. split; [exact Hr|]. split; [now apply nonspaces_iff|].
    apply who_msg_lang_words. now split.
  - intros (t & -> & Hr & Hs & H). apply who_msg_lang_words in H as (-> & H).
    split; [reflexivity|]. split; [exact Hr|]. split; [now apply nonspaces_iff | exact H].
Qed.

(* ---------- ParseTell ---------- *)
Lemma parse_tell_in l w m : tell_line l w m -> parse_tell l = (w, m).
Proof.
  intros H. apply tell_line_iff in H as (r & -> & H). unfold parse_tell. rewrite strip_prefix_app.
  apply who_msg_some in H. now rewrite H.
Qed.
Lemma parse_tell_out l : (forall w m, ~ tell_line l w m) -> parse_tell l = ([], []).
Proof.
  intros H. unfold parse_tell. destruct (strip_prefix (bs "Tell ") l) as [r|] eqn:E; [|reflexivity].
  apply strip_prefix_spec in E. destruct (who_msg r) as [[w m]|] eqn:W; [|reflexivity].
  exfalso. apply (H w m). apply tell_line_iff. exists r. split; [assumption|]. now apply who_msg_some.
Qed.
Lemma tell_line_unique l w m w' m' : tell_line l w m -> tell_line l w' m' -> w = w' /\ m = m'.
Proof.
  intros H H'. apply parse_tell_in in H, H'. rewrite H in H'. now inversion H'.
Qed.
Lemma parse_tell_cases l :
  (exists w m, tell_line l w m /\ parse_tell l = (w, m)) \/ ((forall w m, ~ tell_line l w m) /\ parse_tell l = ([], [])).
Proof.
  unfold parse_tell. destruct (strip_prefix (bs "Tell ") l) as [r|] eqn:E.
  - apply strip_prefix_spec in E. destruct (who_msg r) as [[w m]|] eqn:W.
    + left. exists w, m. split; [|reflexivity]. apply tell_line_iff. exists r. split; [assumption|]. now apply who_msg_some.
    + right. split; [|reflexivity]. intros w m H. apply tell_line_iff in H as (r' & E' & H').
      rewrite E in E'. apply app_inv_head in E'. subst r'. apply who_msg_some in H'. congruence.
  - right. split; [|reflexivity]. intros w m H. apply tell_line_iff in H as (r' & E' & _).
    apply strip_prefix_spec in E'. congruence.
Qed.

(* ---------- ParseShout ---------- *)
Lemma parse_shout_in l w m : shout_line l w m -> parse_shout l = (w, m).
Proof.
  intros H. apply shout_line_iff in H as (r & -> & H). unfold parse_shout. rewrite strip_prefix_app.
  apply who_msg_some in H. now rewrite H.
Qed.
Lemma shout_line_unique l w m w' m' : shout_line l w m -> shout_line l w' m' -> w = w' /\ m = m'.
Proof.
  intros H H'. apply parse_shout_in in H, H'. rewrite H in H'. now inversion H'.
Qed.
Lemma parse_shout_cases l :
  (exists w m, shout_line l w m /\ parse_shout l = (w, m)) \/ ((forall w m, ~ shout_line l w m) /\ parse_shout l = ([], [])).
Proof.
  unfold parse_shout. destruct (strip_prefix (bs "Shout ") l) as [r|] eqn:E.
  - apply strip_prefix_spec in E. destruct (who_msg r) as [[w m]|] eqn:W.
    + left. exists w, m. split; [|reflexivity]. apply shout_line_iff. exists r. split; [assumption|]. now apply who_msg_some.
    + right. split; [|reflexivity]. intros w m H. apply shout_line_iff in H as (r' & E' & H').
      rewrite E in E'. apply app_inv_head in E'. subst r'. apply who_msg_some in H'. congruence.
  - right. split; [|reflexivity]. intros w m H. apply shout_line_iff in H as (r' & E' & _).
    apply strip_prefix_spec in E'. congruence.
Qed.

(* ---------- ParseShoutRoom ---------- *)
Lemma parse_shout_room_in l r w m : room_line l r w m -> parse_shout_room l = (r, w, m).
Proof.
  intros H. apply room_line_iff in H as (t & -> & Hr & Hs & H). unfold parse_shout_room. rewrite strip_prefix_app.
  rewrite (span_app nonspace r (32 :: t) Hs eq_refl). rewrite (is_nil_false r Hr), N.eqb_refl.
  apply who_msg_some in H. now rewrite H.
Qed.
Lemma room_line_unique l r w m r' w' m' : room_line l r w m -> room_line l r' w' m' -> r = r' /\ w = w' /\ m = m'.
Proof.
  intros H H'. apply parse_shout_room_in in H, H'. rewrite H in H'. now inversion H'.
Qed.
Lemma parse_shout_room_cases l :
  (exists r w m, room_line l r w m /\ parse_shout_room l = (r, w, m)) \/
  ((forall r w m, ~ room_line l r w m) /\ parse_shout_room l = ([], [], [])).
Proof.
  destruct (parse_shout_room l) as [[r w] m] eqn:P.
  assert (D : (exists t, l = bs "ShoutRoom " ++ r ++ 32 :: t /\ r <> [] /\ forallb nonspace r = true /\ who_msg_lang t w m) \/
              (r, w, m) = ([], [], [])).
  { revert P. unfold parse_shout_room. destruct (strip_prefix (bs "ShoutRoom ") l) as [x|] eqn:E; [|intros <-; now right].
    apply strip_prefix_spec in E. destruct (span nonspace x) as [room r2] eqn:S. apply span_spec in S as (S1 & S2 & _).
    destruct (is_nil room) eqn:Er; [intros <-; now right|].
    destruct r2 as [|sp r3]; [intros <-; now right|].
    destruct (sp =? 32) eqn:Es; [|intros <-; now right]. apply N.eqb_eq in Es. subst sp.
    destruct (who_msg r3) as [[w0 m0]|] eqn:W; [|intros <-; now right].
    intros H. inversion H; subst room w0 m0. left. exists r3. subst x.
    split; [exact E|]. split; [intros ->; discriminate|]. split; [assumption|]. now apply who_msg_some. }
  destruct D as [D|D].
  - left. exists r, w, m. split; [|reflexivity]. now apply room_line_iff.
  - right. inversion D; subst. split; [|reflexivity]. intros r' w' m' H.
    pose proof (parse_shout_room_in _ _ _ _ H) as Q. rewrite P in Q. inversion Q; subst.
    destruct H as (_ & Hr & _). now apply Hr.
Qed.

(* ---------- the reference semantics: ordered backtracking search ---------- *)
Definition plus_fix (f : N -> bool) (k : list N -> list (list N) -> option (list (list N))) (caps : list (list N)) :=
  fix plus (s : list N) (acc : list N) {struct s} : option (list (list N)) :=
    match s with
    | [] => None
    | x :: s' =>
      if f x then
        match plus s' (x :: acc) with
        | Some r => Some r
        | None => k s' (rev (x :: acc) :: caps)
        end
      else None
    end.
Lemma re_match_cap f p' s caps : re_match (Cap f :: p') s caps = plus_fix f (re_match p') caps s [].
Proof. reflexivity. Qed.
Lemma plus_cons f k caps x s acc :
  plus_fix f k caps (x :: s) acc =
  if f x then match plus_fix f k caps s (x :: acc) with Some r => Some r | None => k s (rev (x :: acc) :: caps) end else None.
Proof. reflexivity. Qed.

(* the continuation fails on every text that starts with a byte of the class: a shorter repetition never helps *)
Definition rejects (f : N -> bool) (k : list N -> list (list N) -> option (list (list N))) : Prop :=
  forall y s caps, f y = true -> k (y :: s) caps = None.

Lemma plus_stop f k caps b acc : stops f b -> plus_fix f k caps b acc = None.
Proof. destruct b as [|c b]; [reflexivity|]. cbn [stops]. intros H. rewrite plus_cons, H. reflexivity. Qed.

Lemma plus_run f k caps : rejects f k -> forall a b acc, a <> [] -> forallb f a = true -> stops f b ->
  plus_fix f k caps (a ++ b) acc = k b (rev (rev a ++ acc) :: caps).
Proof.
  intros Hk. induction a as [|x a IH]; intros b acc Ha Hf Hb; [congruence|].
  cbn [forallb] in Hf. apply andb_prop in Hf as [F1 F2]. cbn [app]. rewrite plus_cons, F1.
  destruct a as [|y a'].
  - cbn [app]. rewrite (plus_stop f k caps b (x :: acc) Hb). reflexivity.
  - rewrite (IH b (x :: acc) ltac:(discriminate) F2 Hb).
    replace (rev (x :: y :: a') ++ acc) with (rev (y :: a') ++ x :: acc)
      by (change (rev (x :: y :: a')) with (rev (y :: a') ++ [x]); now rewrite <- app_assoc).
    destruct (k b (rev (rev (y :: a') ++ x :: acc) :: caps)); [reflexivity|].
    cbn [forallb] in F2. apply andb_prop in F2 as [Fy _]. cbn [app]. apply Hk. exact Fy.
Qed.

Lemma re_cap_span f p' s caps : rejects f (re_match p') ->
  re_match (Cap f :: p') s caps = (let '(a, b) := span f s in if is_nil a then None else re_match p' b (a :: caps)).
Proof.
  intros Hk. rewrite re_match_cap. destruct (span f s) as [a b] eqn:S. apply span_spec in S as (-> & Hf & Hb).
  destruct a as [|x a]; cbn [is_nil app].
  - now apply plus_stop.
  - change (x :: a ++ b) with ((x :: a) ++ b). rewrite (plus_run f _ caps Hk (x :: a) b [] ltac:(discriminate) Hf Hb).
    now rewrite app_nil_r, rev_involutive.
Qed.

Lemma rejects_lit f c p' : f c = false -> rejects f (re_match (Lit c :: p')).
Proof.
  intros Hc y s caps Hy. cbn [re_match]. destruct (y =? c) eqn:E; [|reflexivity].
  apply N.eqb_eq in E. congruence.
Qed.
Lemma rejects_end f : rejects f (re_match []).
Proof. intros y s caps _. reflexivity. Qed.

Lemma re_lits : forall str p' s caps,
  re_match (map Lit str ++ p') s caps = match strip_prefix str s with Some r => re_match p' r caps | None => None end.
Proof.
  induction str as [|c str IH]; intros p' s caps; [reflexivity|].
  cbn [map app re_match strip_prefix]. destruct s as [|x s]; [reflexivity|].
  destruct (x =? c); [apply IH | reflexivity].
Qed.

Lemma strip_prefix_app2 : forall p q l,
  strip_prefix (p ++ q) l = match strip_prefix p l with Some r => strip_prefix q r | None => None end.
Proof.
  induction p as [|c p IH]; intros q l; [reflexivity|]. cbn [app strip_prefix].
  destruct l as [|x l]; [reflexivity|]. destruct (x =? c); [apply IH | reflexivity].
Qed.

Lemma re_last f msg caps :
  re_match [Cap f] msg caps = if negb (is_nil msg) && forallb f msg then Some (rev (msg :: caps)) else None.
Proof.
  rewrite (re_cap_span f [] msg caps (rejects_end f)).
  destruct (span f msg) as [a b] eqn:S. apply span_spec in S as (-> & Hf & Hb).
  destruct b as [|c b].
  - rewrite app_nil_r, Hf. destruct a; reflexivity.
  - cbn [stops] in Hb. rewrite forallb_app. cbn [forallb]. rewrite Hb, andb_false_r, andb_false_r.
    destruct (is_nil a); reflexivity.
Qed.

(* `<([^> ]+)> (.+)$` *)
Definition who_msg_re : list item := Lit 60 :: Cap name_char :: Lit 62 :: Lit 32 :: [Cap dot_char].
Lemma re_match_lit c p' s caps :
  re_match (Lit c :: p') s caps = match s with x :: s' => if x =? c then re_match p' s' caps else None | [] => None end.
Proof. reflexivity. Qed.

Lemma re_who_msg r caps :
  re_match who_msg_re r caps = match who_msg r with Some (w, m) => Some (rev (m :: w :: caps)) | None => None end.
Proof.
  unfold who_msg_re, who_msg. rewrite re_match_lit. destruct r as [|lt r]; [reflexivity|].
  destruct (lt =? 60); [|reflexivity].
  rewrite (re_cap_span name_char _ r caps (rejects_lit name_char 62 _ eq_refl)).
  destruct (span name_char r) as [who r2]. destruct (is_nil who); [reflexivity|].
  rewrite re_match_lit. destruct r2 as [|gt r2]; [reflexivity|].
  rewrite re_match_lit. destruct r2 as [|sp msg]; [destruct (gt =? 62); reflexivity|].
  destruct (gt =? 62); [|reflexivity]. destruct (sp =? 32); [|reflexivity].
  rewrite re_last. cbn [andb]. destruct (negb (is_nil msg) && forallb dot_char msg); reflexivity.
Qed.

Lemma lits_app_re str : forall p' s caps,
  re_match (lits str ++ p') s caps = match strip_prefix (bs str) s with Some r => re_match p' r caps | None => None end.
Proof. intros. unfold lits. apply re_lits. Qed.

Theorem re_tell_eq l : re_tell l = parse_tell l.
Proof.
  unfold re_tell, parse_tell, tell_re.
  change (lits "Tell <" ++ [Cap name_char] ++ lits "> " ++ [Cap dot_char]) with (lits "Tell " ++ who_msg_re).
  rewrite lits_app_re. destruct (strip_prefix (bs "Tell ") l) as [r|]; [|reflexivity].
  rewrite re_who_msg. destruct (who_msg r) as [[w m]|]; reflexivity.
Qed.

Theorem re_shout_eq l : re_shout l = parse_shout l.
Proof.
  unfold re_shout, parse_shout, shout_re.
  change (lits "Shout <" ++ [Cap name_char] ++ lits "> " ++ [Cap dot_char]) with (lits "Shout " ++ who_msg_re).
  rewrite lits_app_re. destruct (strip_prefix (bs "Shout ") l) as [r|]; [|reflexivity].
  rewrite re_who_msg. destruct (who_msg r) as [[w m]|]; reflexivity.
Qed.

Theorem re_shout_room_eq l : re_shout_room l = parse_shout_room l.
Proof.
  unfold re_shout_room, parse_shout_room, shout_room_re.
  change (lits "ShoutRoom " ++ [Cap nonspace] ++ lits " <" ++ [Cap name_char] ++ lits "> " ++ [Cap dot_char])
    with (lits "ShoutRoom " ++ Cap nonspace :: Lit 32 :: who_msg_re).
  rewrite lits_app_re. destruct (strip_prefix (bs "ShoutRoom ") l) as [r|]; [|reflexivity].
  rewrite (re_cap_span nonspace _ r [] (rejects_lit nonspace 32 _ eq_refl)).
  destruct (span nonspace r) as [room r2]. destruct (is_nil room); [reflexivity|].
  rewrite re_match_lit. destruct r2 as [|sp r3]; [reflexivity|]. destruct (sp =? 32); [|reflexivity].
  rewrite re_who_msg. destruct (who_msg r3) as [[w m]|]; reflexivity.
Qed.

(* ---------- the exported statement ---------- *)
Theorem chat_total :
  (* ParseTell *)
  (forall l, (exists w m, tell_line l w m /\ parse_tell l = (w, m)) \/
             ((forall w m, ~ tell_line l w m) /\ parse_tell l = ([], []))) /\
  (forall l w m w' m', tell_line l w m -> tell_line l w' m' -> w = w' /\ m = m') /\
  (* ParseShout *)
  (forall l, (exists w m, shout_line l w m /\ parse_shout l = (w, m)) \/
             ((forall w m, ~ shout_line l w m) /\ parse_shout l = ([], []))) /\
  (forall l w m w' m', shout_line l w m -> shout_line l w' m' -> w = w' /\ m = m') /\
  (* ParseShoutRoom *)
  (forall l, (exists r w m, room_line l r w m /\ parse_shout_room l = (r, w, m)) \/
             ((forall r w m, ~ room_line l r w m) /\ parse_shout_room l = ([], [], []))) /\
  (forall l r w m r' w' m', room_line l r w m -> room_line l r' w' m' -> r = r' /\ w = w' /\ m = m') /\
  (* the direct functions compute what the ordered backtracking search over the three patterns computes *)
  (forall l, re_tell l = parse_tell l /\ re_shout l = parse_shout l /\ re_shout_room l = parse_shout_room l).
Proof.
  split; [exact parse_tell_cases|]. split; [exact tell_line_unique|].
  split; [exact parse_shout_cases|]. split; [exact shout_line_unique|].
  split; [exact parse_shout_room_cases|]. split; [exact room_line_unique|].
  intros l. split; [apply re_tell_eq|]. split; [apply re_shout_eq | apply re_shout_room_eq].
Qed.

(* non-vacuity: members of the three languages, including a name that contains a line feed and a room that contains '<' *)
Example tell_line_example : tell_line (bs "Tell <a> <b> c") (bs "a") (bs "<b> c").
Proof.
  split; [reflexivity|]. split; [discriminate|]. split; [|split; [discriminate|]].
  - intros c [<-|[]]. split; discriminate.
  - cbn. intuition discriminate.
Qed.
Example room_line_example : room_line (bs "ShoutRoom a<b <c> d") (bs "a<b") (bs "c") (bs "d").
Proof.
  split; [reflexivity|]. split; [discriminate|]. split; [|split; [discriminate|split; [|split; [discriminate|]]]].
  - intros c H. cbn in H. unfold space_bytes. cbn [In]. intuition (subst; discriminate).
  - intros c [<-|[]]. split; discriminate.
  - cbn. intuition discriminate.
Qed.
Example tell_name_with_newline : parse_tell (97 :: 10 :: bs "x") = ([], []) /\
  parse_tell (bs "Tell <" ++ [97; 10; 98] ++ bs "> hi") = ([97; 10; 98], bs "hi") /\
  parse_tell (bs "Tell <a> h" ++ [10]) = ([], []).
Proof. repeat split. Qed.
