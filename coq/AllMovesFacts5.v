(* C03, part 5: link to the model of Move.Dest (Symmetry.v; the link to Search.move_equal is in AllMovesFacts7.v) and
   non-vacuity examples on a concrete mid-game 5x5 position. *)
From Coq Require Import NArith ZArith Arith List Bool Lia ZifyN ZifyBool ZifyNat SetoidList.
Require Import Board Stack Rules Move GameOver Refine RefinePlace RefinePlace2 MoveRefines.
Require Import AllMovesFacts AllMovesFacts2 AllMovesFacts3 AllMovesFacts4.
Require Symmetry.
Import ListNotations.
Open Scope N_scope.

(* ---- Move.Dest() of the symmetry model (int8 arithmetic) is the unbounded dest_z on generated moves ---- *)
Theorem allmoves_dest p g : size p <= 8 -> In g (all_moves p) ->
  Symmetry.dest g = Ok (dest_z g) /\ onb p (mX g, mY g) /\ onb p (dest_z g).
Proof.
  intros Hs Hg. destruct (allmoves_on_board p g Hg) as (Ht & Ho & Hd & Hl). split; [|split; assumption].
  unfold onb, dest_z in *. unfold Symmetry.dest, Symmetry.slides_len. unfold slide_len in *. cbn [fst snd] in *.
  assert (L := nibbles_length 8 (mS g)).
  assert (E : mT g = 2 \/ mT g = 3 \/ mT g = 4 \/ mT g = 5 \/ mT g = 6 \/ mT g = 7 \/ mT g = 8) by lia.
  destruct E as [E|[E|[E|[E|[E|[E|E]]]]]]; rewrite E in *; cbn [fst snd] in *; try reflexivity;
    rewrite (wrap8_id (Z.of_nat _)) by lia; rewrite wrap8_id by lia; reflexivity.
Qed.
Print Assumptions allmoves_dest.

(* ---- a concrete position: 5x5, 14 plies played, white to move ----
   a1 b, e5 w (opening); c3 c2 d3 b3; c3 captures c2; b2; c3; black capstone d2; the c2 stack runs
   left over b2 to a2 (drops 1,1); black wall on c2; a2 moves onto b2 (stack w,b,b); a2.
   White to move owns a stack of three on b2, has its capstone in hand; a black wall (c2) and a black
   capstone (d2) block some of the generated slides. *)
Definition M (x y : Z) (t s : N) : rmove := {| mX := x; mY := y; mT := t; mS := s |}.
Definition ex_game : list rmove :=
  [ M 0 0 2 0; M 4 4 2 0; M 2 2 2 0; M 2 1 2 0; M 3 2 2 0; M 1 2 2 0; M 2 2 8 1; M 1 1 2 0; M 2 2 2 0; M 3 1 4 0;
    M 2 1 5 17; M 2 1 3 0; M 0 1 6 1; M 0 1 2 0 ].
Definition replay (p : position) (ms : list rmove) : res position :=
  fold_left (fun r m => match r with Ok q => mv q m | e => e end) ms (Ok p).

Definition ex_pos : position :=
  {| size := 5; Move.black_wins_ties := false;
     whiteStones := 17; whiteCaps := 1; blackStones := 15; blackCaps := 0; move := 14;
     White := 16789568; Move.Black := 2465; Move.Standing := 128; Caps := 256;
     Height := [1; 0; 0; 0; 0; 1; 3; 1; 1; 0; 0; 1; 1; 1; 0; 0; 0; 0; 0; 0; 0; 0; 0; 0; 1];
     Stacks := [0; 0; 0; 0; 0; 0; 3; 0; 0; 0; 0; 0; 0; 0; 0; 0; 0; 0; 0; 0; 0; 0; 0; 0; 0];
     hash := 14359758859216534851 |}.

(* it is the position the model reaches by playing ex_game from the start *)
Example ex_pos_reached : replay (new 5 21 1) ex_game = Ok ex_pos.
Proof. vm_compute. reflexivity. Qed.

(* the hypotheses of every C03 theorem hold for it *)
Example ex_invariant : invariant ex_pos.
Proof. apply invariantb_ok. vm_compute. reflexivity. Qed.
Example ex_wf : wf ex_pos.
Proof. exact (invariant_wf _ ex_invariant). Qed.

(* allmoves_complete is not vacuous: a three-piece slide up from b2 with drops 1,2 is accepted; so is a
   capstone placement whose Slides word is junk (MovePreallocated and Equal both ignore it) *)
Example ex_accepts_slide : exists q, mT (M 1 1 7 33) <> 1 /\ mv ex_pos (M 1 1 7 33) = Ok q.
Proof. eexists. split; [discriminate|]. vm_compute. reflexivity. Qed.
Example ex_accepts_place_junk : exists q, mT (M 4 0 4 77) <> 1 /\ mv ex_pos (M 4 0 4 77) = Ok q.
Proof. eexists. split; [discriminate|]. vm_compute. reflexivity. Qed.
Example ex_complete_instance : exists g, In g (all_moves ex_pos) /\ move_equal g (M 4 0 4 77) = true.
Proof.
  destruct ex_accepts_place_junk as (q & Hn & Hq). exact (allmoves_complete ex_pos _ q ex_wf Hn Hq).
Qed.

(* the generated list and the legal list of this position: 48 placements (16 empty squares, three kinds
   each) + 30 slide shapes = 78 generated; 9 of the slides run into the wall or the capstone *)
Example ex_counts : length (all_moves ex_pos) = 78%nat /\ length (legal_list ex_pos) = 69%nat.
Proof. vm_compute. split; reflexivity. Qed.

(* legal_set_exact on this position, for a legal and an illegal raw move *)
Example ex_legal_once : count (M 1 1 7 33) (legal_list ex_pos) = 1%nat /\ count (M 1 1 6 17) (legal_list ex_pos) = 0%nat.
Proof. vm_compute. split; reflexivity. Qed.
Example ex_legal_once_by_theorem :
  is_some (rules_move (abs ex_pos) (raw (M 1 1 7 33))) = true /\ is_some (rules_move (abs ex_pos) (raw (M 1 1 6 17))) = false.
Proof.
  destruct (legal_set_exact ex_pos ex_invariant) as (_ & _ & Hc). destruct ex_legal_once as [H1 H0].
  split.
  - specialize (Hc (M 1 1 7 33)). rewrite H1 in Hc. destruct (is_some _); [reflexivity|discriminate Hc].
  - specialize (Hc (M 1 1 6 17)). rewrite H0 in Hc. destruct (is_some _); [discriminate Hc|reflexivity].
Qed.

(* ---- the bounds check matters: without it (the pinned tree) completeness fails ----
   On the empty 5x5 board the raw placement (5,-1) wraps to square a1 and is accepted by the unrepaired
   model, but no generated move has X = 5. *)
Example pinned_incomplete :
  invariant (new 5 21 1) /\ mT (M 5 (-1) 2 0) <> 1 /\
  (exists q, mv_pinned (new 5 21 1) (M 5 (-1) 2 0) = Ok q) /\
  (forall g, In g (all_moves (new 5 21 1)) -> move_equal g (M 5 (-1) 2 0) = false) /\
  mv (new 5 21 1) (M 5 (-1) 2 0) = Err.
Proof.
  split; [apply invariantb_ok; vm_compute; reflexivity|]. split; [discriminate|]. split; [eexists; vm_compute; reflexivity|].
  split; [|vm_compute; reflexivity].
  assert (H : forallb (fun g => negb (move_equal g (M 5 (-1) 2 0))) (all_moves (new 5 21 1)) = true) by (vm_compute; reflexivity).
  rewrite forallb_forall in H. intros g Hg. specialize (H g Hg). now destruct (move_equal g _).
Qed.

Lemma ex_summary : invariant ex_pos /\ wf ex_pos /\
  (exists q, mT (M 1 1 7 33) <> 1 /\ mv ex_pos (M 1 1 7 33) = Ok q) /\
  length (all_moves ex_pos) = 78%nat /\ length (legal_list ex_pos) = 69%nat.
Proof. exact (conj ex_invariant (conj ex_wf (conj ex_accepts_slide ex_counts))). Qed.
