(* SearchTable5.v: tools for using the table theorems on concrete positions.
   - wb / lb: the forced-result classification W / L of SearchTable1.v as executable booleans (reflection lemma wl_reflect);
   - lev root j: every position reachable from root in at most j plies (finished games are not played on), Ulev root D d = the
     positions of lev root (D - d): a touched set closed by construction; its NoCollision clause is a boolean check (coll_free:
     equal hash => equal position value) - touch_levels. *)
From Coq Require Import NArith ZArith List Bool Lia.
Require Import Board Move GameOver Eval EvalSpec Search NegamaxSpec SearchTable1 SearchTable4.
Require Import Generated.Consts.
Import ListNotations.
Open Scope Z_scope.

Section Dec.
Variable basis : list N.

Definition wonb (p : position) : bool := match game_over p with Some (true, w) => mover_wins p w | _ => false end.
Definition lostb (p : position) : bool :=
  match game_over p with Some (true, w) => match w with GNone => false | _ => negb (mover_wins p w) end | _ => false end.

Fixpoint wb (n : nat) (p : position) {struct n} : bool :=
  if is_over p then wonb p else
  match n with O => false | S m => existsb (lb m) (children basis p) end
with lb (n : nat) (p : position) {struct n} : bool :=
  if is_over p then lostb p else
  match n with O => false | S m => match children basis p with [] => false | _ => forallb (wb m) (children basis p) end end.

Lemma wonb_won p : wonb p = true <-> won p.
Proof.
  unfold wonb, won. split.
  - destruct (game_over p) as [[[] w]|]; try discriminate. intros H. exists w. split; [reflexivity|exact H].
  - intros (w & G & M). rewrite G. exact M.
Qed.
Lemma lostb_lost p : lostb p = true <-> lost p.
Proof.
  unfold lostb, lost. split.
  - destruct (game_over p) as [[[] w]|]; try discriminate. intros H. exists w. split; [reflexivity|].
    destruct w; try discriminate H; (split; [discriminate|]); apply negb_true_iff in H; exact H.
  - intros (w & G & NE & M). rewrite G. destruct w; [| |exfalso; apply NE; reflexivity]; rewrite M; reflexivity.
Qed.

Lemma wb_over n p : is_over p = true -> wb n p = wonb p.
Proof. intros H. destruct n; cbn [wb]; rewrite H; reflexivity. Qed.
Lemma lb_over n p : is_over p = true -> lb n p = lostb p.
Proof. intros H. destruct n; cbn [lb]; rewrite H; reflexivity. Qed.
Lemma wb_live0 p : is_over p = false -> wb 0 p = false.
Proof. intros H. cbn [wb]. rewrite H. reflexivity. Qed.
Lemma lb_live0 p : is_over p = false -> lb 0 p = false.
Proof. intros H. cbn [lb]. rewrite H. reflexivity. Qed.
Lemma wb_liveS n p : is_over p = false -> wb (S n) p = existsb (lb n) (children basis p).
Proof. intros H. cbn [wb]. rewrite H. reflexivity. Qed.
Lemma lb_liveS n p : is_over p = false ->
  lb (S n) p = match children basis p with [] => false | _ => forallb (wb n) (children basis p) end.
Proof. intros H. cbn [lb]. rewrite H. reflexivity. Qed.
Global Opaque wb lb.

Lemma wl_reflect : forall n p, (wb n p = true <-> W basis n p) /\ (lb n p = true <-> L basis n p).
Proof.
  induction n; intros p; destruct (is_over p) eqn:EO.
  - rewrite (wb_over 0 p EO), (lb_over 0 p EO). split.
    + rewrite wonb_won. symmetry. apply (W_over basis 0 p EO).
    + rewrite lostb_lost. symmetry. apply (L_over basis 0 p EO).
  - rewrite (wb_live0 p EO), (lb_live0 p EO). split; split; intros H; try discriminate H.
    + destruct (W_live0 basis p EO H).
    + destruct (L_live0 basis p EO H).
  - rewrite (wb_over (S n) p EO), (lb_over (S n) p EO). split.
    + rewrite wonb_won. symmetry. apply (W_over basis (S n) p EO).
    + rewrite lostb_lost. symmetry. apply (L_over basis (S n) p EO).
  - rewrite (wb_liveS n p EO), (lb_liveS n p EO). split.
    + rewrite existsb_exists. split.
      * intros (q & Hq & H). apply (proj2 (W_liveS basis n p EO)). exists q. split; [exact Hq|apply (proj2 (IHn q)); exact H].
      * intros H. apply (proj1 (W_liveS basis n p EO)) in H. destruct H as (q & Hq & H). exists q. split; [exact Hq|apply (proj2 (IHn q)); exact H].
    + split.
      * intros H. apply (proj2 (L_liveS basis n p EO)). destruct (children basis p) as [|c r] eqn:EC; [discriminate H|].
        split; [discriminate|]. rewrite forallb_forall in H. intros q Hq. apply (proj1 (IHn q)). apply H. exact Hq.
      * intros H. apply (proj1 (L_liveS basis n p EO)) in H. destruct H as (NE & H).
        destruct (children basis p) as [|c r] eqn:EC; [exfalso; apply NE; reflexivity|].
        apply forallb_forall. intros q Hq. apply (proj1 (IHn q)). apply H. exact Hq.
Qed.
Lemma wb_W n p : wb n p = true -> W basis n p.
Proof. apply (proj1 (wl_reflect n p)). Qed.
Lemma wb_notW n p : wb n p = false -> ~ W basis n p.
Proof. intros H HW. apply (proj1 (wl_reflect n p)) in HW. congruence. Qed.
Lemma lb_L n p : lb n p = true -> L basis n p.
Proof. apply (proj2 (wl_reflect n p)). Qed.
Lemma lb_notL n p : lb n p = false -> ~ L basis n p.
Proof. intros H HL. apply (proj2 (wl_reflect n p)) in HL. congruence. Qed.
End Dec.

(* decidable equality of position values *)
Fixpoint nlist_eqb (a b : list N) : bool :=
  match a, b with
  | [], [] => true
  | x :: r, y :: s => (x =? y)%N && nlist_eqb r s
  | _, _ => false
  end.
Lemma nlist_eqb_eq a : forall b, nlist_eqb a b = true -> a = b.
Proof.
  induction a as [|x r IH]; intros [|y s] H; cbn [nlist_eqb] in H; try discriminate; [reflexivity|].
  apply andb_true_iff in H. destruct H as [H1 H2]. apply N.eqb_eq in H1. apply IH in H2. congruence.
Qed.
Definition pos_eqb (a b : position) : bool :=
  (White a =? White b)%N && (Black a =? Black b)%N && (Standing a =? Standing b)%N && (Caps a =? Caps b)%N &&
  (move a =? move b)%Z && (hash a =? hash b)%N && (size a =? size b)%N && Bool.eqb (black_wins_ties a) (black_wins_ties b) &&
  (whiteStones a =? whiteStones b)%N && (whiteCaps a =? whiteCaps b)%N && (blackStones a =? blackStones b)%N && (blackCaps a =? blackCaps b)%N &&
  nlist_eqb (Height a) (Height b) && nlist_eqb (Stacks a) (Stacks b).
Lemma pos_eqb_eq a b : pos_eqb a b = true -> a = b.
Proof.
  unfold pos_eqb. intros H.
  repeat (apply andb_true_iff in H; destruct H as [H ?]).
  repeat match goal with
  | H : (_ =? _)%N = true |- _ => apply N.eqb_eq in H
  | H : (_ =? _)%Z = true |- _ => apply Z.eqb_eq in H
  | H : Bool.eqb _ _ = true |- _ => apply eqb_prop in H
  | H : nlist_eqb _ _ = true |- _ => apply nlist_eqb_eq in H
  end.
  destruct a, b; cbn in *; subst; reflexivity.
Qed.

(* ---- a touched set by construction: the tree below a root ---- *)
Definition expand (l : list position) : list position :=
  flat_map (fun p => if is_over p then [] else children gen_basis p) l.
Fixpoint lev (root : position) (j : nat) : list position :=
  match j with O => [root] | S i => lev root i ++ expand (lev root i) end.
Definition Ulev (root : position) (D d : nat) (p : position) : Prop := (d <= D)%nat /\ In p (lev root (D - d)).

Fixpoint coll_free_l (hl : list (N * position)) : bool :=
  match hl with
  | [] => true
  | a :: r => forallb (fun b => negb (fst a =? fst b)%N || pos_eqb (snd a) (snd b)) r && coll_free_l r
  end.
(* generic in the hash function, so that no proof step ever unfolds Position.Hash *)
Definition coll_free_g (h : position -> N) (l : list position) : bool := coll_free_l (map (fun p => (h p, p)) l).   (* every hash computed once *)
Definition coll_free (l : list position) : bool := coll_free_g phash l.

Lemma coll_free_l_ok hl : coll_free_l hl = true -> forall a b, In a hl -> In b hl -> fst a = fst b -> snd a = snd b.
Proof.
  induction hl as [|c r IH]; intros H a b Ha Hb E; [destruct Ha|].
  cbn [coll_free_l] in H. apply andb_true_iff in H. destruct H as (H1 & H2). rewrite forallb_forall in H1.
  assert (PAIR : forall x, In x r -> fst c = fst x -> snd c = snd x).
  { intros x Hx Ex. specialize (H1 x Hx). apply orb_true_iff in H1. destruct H1 as [H1|H1].
    - apply negb_true_iff in H1. apply N.eqb_neq in H1. contradiction.
    - apply pos_eqb_eq. exact H1. }
  destruct Ha as [<-|Ha]; destruct Hb as [<-|Hb].
  - reflexivity.
  - apply PAIR; assumption.
  - symmetry. apply PAIR; [assumption|symmetry; assumption].
  - apply IH; assumption.
Qed.
Lemma coll_free_g_ok (h : position -> N) l : coll_free_g h l = true -> forall p q, In p l -> In q l -> h p = h q -> p = q.
Proof.
  intros CF p q Hp Hq E.
  exact (coll_free_l_ok _ CF (h p, p) (h q, q) (in_map (fun p => (h p, p)) _ p Hp) (in_map (fun p => (h p, p)) _ q Hq) E).
Qed.

Lemma lev_root root j : In root (lev root j).
Proof. induction j; cbn [lev]; [left; reflexivity|apply in_or_app; left; exact IHj]. Qed.
Lemma lev_mono root j p : In p (lev root j) -> In p (lev root (S j)).
Proof. intros H. cbn [lev]. apply in_or_app. left. exact H. Qed.
Lemma lev_step root j p q : In p (lev root j) -> is_over p = false -> In q (children gen_basis p) -> In q (lev root (S j)).
Proof.
  intros Hp EO Hq. cbn [lev]. apply in_or_app. right. unfold expand. apply in_flat_map. exists p. split; [exact Hp|]. rewrite EO. exact Hq.
Qed.

Lemma cls_eq_refl p : cls_eq gen_basis p p.
Proof. intros n. split; reflexivity. Qed.

Theorem touch_levels root D : coll_free (lev root D) = true -> touch_set (Ulev root D).
Proof.
  intros CF. unfold touch_set, Ulev. split; [|split].
  - intros d p (LE & H). split; [lia|]. replace (D - d)%nat with (S (D - S d)) by lia. apply lev_mono. exact H.
  - intros d p q (LE & H) EO Hq. split; [lia|]. replace (D - d)%nat with (S (D - S d)) by lia. apply (lev_step root _ p q H EO Hq).
  - intros p q (_ & Hp) (_ & Hq) E. replace (D - 0)%nat with D in * by lia.
    pose proof (coll_free_g_ok phash (lev root D) CF p q Hp Hq E) as EQ. subst q. apply cls_eq_refl.
Qed.
Lemma Ulev_root root D d : (d <= D)%nat -> Ulev root D d root.
Proof. intros H. split; [exact H|apply lev_root]. Qed.
