(* C02, part 3: (a) the road test of hasRoad on the engine's road bitboards = Rules.Road of the abstract position. *)
From Coq Require Import NArith ZArith Arith List Bool Lia ZifyN ZifyBool ZifyNat.
Require Import Board Flood Masks LowBit Conn Stack Rules Move GameOver Groups1 Groups2 Groups3 Groups4 RoadFacts RoadFacts2
               Refine RefinePlace RefinePlace2 RefinePlace3 Slide1 Slide2 Slide3 Slide4 Slide5 Slide6 GameOverFacts1 GameOverFacts2.
Import ListNotations.
Ltac Zify.zify_post_hook ::= Z.div_mod_to_equations.

Section RoadSec.
Variable p : position.
Hypothesis I : inv p.
Let s := size p.

Lemma stack_at_toidx xy : onb s xy -> stack_at (abs p) (fst xy) (snd xy) = abs_stack p (toidx s xy) /\ (toidx s xy < s * s)%N.
Proof.
  intros Ho. destruct I as [Hs _ _ _ _ _]. fold s in Hs. destruct (coord_toidx s Hs xy Ho) as [_ L]. split; [|exact L].
  unfold stack_at, Rules.idx. change (sq (abs p)) with (map (fun i => abs_stack p (N.of_nat i)) (seq 0 (N.to_nat s * N.to_nat s))).
  change (Rules.n (abs p)) with (N.to_nat s).
  assert (E : (Z.to_nat (fst xy) + Z.to_nat (snd xy) * N.to_nat s)%nat = N.to_nat (toidx s xy)).
  { destruct xy as [x y]. unfold toidx, onb in *. cbn [fst snd] in *. nia. }
  rewrite E, nth_map_seq by lia. now rewrite N2Nat.id.
Qed.

Lemma road_elem c xy :
  (on_board (abs p) (fst xy) (snd xy) = true /\ is_road_top c (stack_at (abs p) (fst xy) (snd xy))) <-> in_B s (road_bits p c) xy.
Proof.
  assert (Hon : on_board (abs p) (fst xy) (snd xy) = true <-> onb s xy).
  { rewrite on_board_abs. fold s. unfold onb. lia. }
  unfold in_B. rewrite Hon. split; intros [Ho H]; (split; [exact Ho|]);
    destruct (stack_at_toidx xy Ho) as [E L];
    destruct (sq_in p I (N.to_nat (toidx s xy))) as [L64 Hok]; try (fold s; lia); rewrite N2Nat.id in L64, Hok.
  - rewrite E in H. now apply road_top_bit in H.
  - rewrite E. now apply road_top_bit.
Qed.

Lemma Road_paths c :
  Road (abs p) c <-> exists path, path <> [] /\ chain path /\ Forall (in_B s (road_bits p c)) path /\ ends s path.
Proof.
  assert (Hm : (Z.of_nat (Rules.n (abs p)) - 1 = Z.of_N s - 1)%Z) by (change (Rules.n (abs p)) with (N.to_nat s); lia).
  unfold Road, ends. cbv zeta. rewrite Hm.
  split; intros (path & Hne & Hch & Hall & He); exists path; (split; [exact Hne|split; [exact Hch|split; [|exact He]]]);
    rewrite Forall_forall in *; intros xy Hin; apply road_elem, Hall, Hin.
Qed.

(* the two flood-group computations of analyze succeed, and hasRoad's test on each is Rules.Road *)
Theorem road_test c : exists gs, groups (precompute s) (road_bits p c) = Some gs /\
  (existsb (spans (precompute s)) gs = true <-> Road (abs p) c).
Proof.
  destruct I as [Hs _ Hw Hb _ _]. fold s in Hs, Hw, Hb.
  assert (HB : forall i, N.testbit (road_bits p c) i = true -> (i < s * s)%N).
  { apply below_ldiff. destruct c; assumption. }
  destruct (road_bits_iff s Hs _ HB) as (gs & Eg & Hiff). exists gs. split; [exact Eg|].
  rewrite Hiff. symmetry. apply Road_paths.
Qed.
End RoadSec.
Print Assumptions road_test.
